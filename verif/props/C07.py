"""C07 - decoding validates untrusted bytes; encoding is canonical and round-trips.

Oracle: the format models of verif/model/codec.py (length/tag tables, range checks, curve equations, the
compression-bit rules the encoders use) and Python integers for positional notation.
"""
from ..rt import RT, MonitorViolation
from ..ctx import hx
from ..model import codec
from ..model.curves import Fp, WCurve, sqrt_mod

LEVEL = "exploration"
RULE = ("structure-aware enumeration split over the shards.  Integers: every byte length 0..capacity+2 and digit-vector "
        "length 0..capacity+2, values at byte/digit boundaries, every radix 2..64 with 0, +-1, +-(radix^k-1, radix^k, "
        "radix^k+1), random values, invalid radices, buffers one short / exact / longer, embedded terminators, invalid "
        "characters.  Field elements: 0, 1, p-1, p, p+1, 2^bits-1, 2^(8n)-1, random below and above p, every length "
        "0..n+2 (extension fields: the boundary values in every coefficient position).  Points (per parameter set): "
        "encodings of model-generated points (multiples of the generator, random on-curve points, affine and projective "
        "representations), then every tag byte 0..255 at the three legal lengths, every length 0..max+2, first and "
        "second coordinates at 0, 1, p-1, p, p+1, 2^bits-1, 2^(8n)-1, abscissae without a root, flipped sign bit, "
        "second coordinate off the curve, v+p, single bit flips, neutral-element encodings with trailing bytes, points "
        "of order two, random strings.  Prior content of the output object: besides a poison pattern, every decoder is "
        "also run into an object that already holds a valid object related to the bytes (points: the point named by the "
        "first coordinate, its negative, the neutral element, another point, the library's own decode of the valid encoding, "
        "projective forms in the thorough tier; field / extension / target-group elements: the element the bytes start or "
        "end with, a congruent one, the conjugate, another element) with 'tag | first coordinate | junk', valid encodings "
        "with trailing bytes and truncations at every length 0..max+2, at 1 + k*unit and k*unit beyond the longest encoding "
        "(k up to 2x the full form, 3x in the thorough tier), wrong tags at the legal lengths, second coordinates off the "
        "curve, coordinates mixed from two points, and valid strings of other objects.  History part: reference encodings of fixed points / elements per parameter set "
        "from a fresh context, re-encoded and decoded after every other selection immediately before (prime, pairing D/M "
        "twist, binary, Edwards) and after random longer histories.  A case is one call sequence; distinct = distinct (function, parameter set, "
        "class, bytes)")
ASSUMPTIONS = ["verif/model/codec.py describes the wire formats correctly (self-tested at import on SEC 1 / NIST vectors)",
               "the compression bit is the one the library's encoder emits (documented in codec.py); consistency of "
               "encoder and decoder is what is checked, not conformance to SEC 1",
               "curve coefficients, generators and the Montgomery radix are read from the library (parameters are "
               "C18's subject); the model re-checks that each generator satisfies its curve equation",
               "a decoder may reject a valid on-curve point that is not known to lie in the prime-order subgroup "
               "(nothing more than 'on the curve' is demanded); it must accept every encoded subgroup point",
               "bn_read_str / fp_read_str: for strings containing a character that is not a digit of the radix the "
               "result must be an error or the value of the longest valid prefix (the header is silent)",
               "encodings are a function of (parameter set, object) only: the bytes written and the objects decoded in a context "
               "with any history of earlier selections must equal those of a freshly initialised context holding only that "
               "selection; the model's sign convention per curve kind is the one observed in the fresh context",
               "a decoder is a function of (parameter set, bytes): what the output object held before the call (a valid "
               "object written at struct level by the harness, or left there by an earlier decode) changes neither the "
               "accept / reject verdict nor the decoded value",
               "a write into a longer buffer must succeed with the encoding at the documented position "
               "(integers right-aligned zero-padded, points at the front)"]


def parts(tier):
    q = tier == "quick"
    return [dict(part="bn", cfg="asan256", shards=2 if q else 4),
            dict(part="fp", cfg="asan256", shards=3 if q else 6),
            dict(part="fp", cfg="asan255", shards=1 if q else 2),
            dict(part="fp", cfg="asan381", shards=1 if q else 2),
            dict(part="ep", cfg="asan256", shards=6 if q else 12),
            dict(part="ep", cfg="asan255", shards=2 if q else 4),
            dict(part="ep", cfg="asan381", shards=2 if q else 4),
            dict(part="px", cfg="asan256", shards=4 if q else 8),
            dict(part="px", cfg="asan381", shards=2 if q else 4),
            dict(part="eb", cfg="asan256", shards=2 if q else 4),
            dict(part="ed", cfg="asan255", shards=1 if q else 2),
            dict(part="hist", cfg="asan256", shards=4 if q else 8),
            dict(part="hist", cfg="asan255", shards=1 if q else 2),
            dict(part="hist", cfg="asan381", shards=1 if q else 2)]


class Env(object):
    """per-worker plumbing: directed-case ownership, case wrapper, buffers"""

    def __init__(self, ctx):
        self.ctx = ctx
        self.R = RT(ctx.cfg)
        self.rng = ctx.rng
        self.counter = 0
        self.bufs = []
        self.notes = {}

    def mine(self):
        self.counter += 1
        return self.ctx.mine(self.counter)

    def put(self, b):
        p = self.R.put(b)
        self.bufs.append(p)
        return p

    def mem(self, n, fill=None):
        p = self.R.mem(n, self.rng.randrange(256) if fill is None else fill)
        self.bufs.append(p)
        return p

    def release(self):
        for p in self.bufs:
            self.R.free(p)
        self.bufs = []

    def case(self, key, desc, body, budget=None):
        ctx = self.ctx
        if not ctx.begin(key, desc, budget=budget):
            return
        try:
            body(key)
        except MonitorViolation as e:
            ctx.fail(key + "|" + e.kind, e.detail)
        finally:
            ctx.end()
            self.release()


def run(ctx, part):
    import time
    t0 = time.process_time()
    E = Env(ctx)
    R = E.R
    {"bn": run_bn, "fp": run_fp, "ep": run_ep, "px": run_px, "eb": run_eb, "ed": run_ed,
     "hist": run_hist}[part](E)
    ctx.note("cpu_seconds_per_shard", {"%s/%s/%d" % (part, ctx.cfg, ctx.shard): round(time.process_time() - t0, 1)})
    ctx.note("functions_exercised", sorted(R.fn_seen))
    ctx.note("error_codes_seen", {str(k): v for k, v in R.err_codes.items()})
    for k, v in E.notes.items():
        ctx.note(k, v)


# ================================================================================================ integers
def run_bn(E):
    ctx, R, rng = E.ctx, E.R, E.rng
    W, CAP, DB = R.DIG, R.BN_SIZE, R.DB
    CAPB = CAP * DB
    a = R.bn_new()
    b = R.bn_new()
    quick = ctx.quick
    K = R.K

    def rnd(bits):
        return rng.getrandbits(bits) | (1 << (bits - 1)) if bits > 0 else 0

    def snapshot_ok(p, v, k):
        got = R.bn_get(p)
        ctx.check(got[0] == v and got[3], k + "|input-modified", {"was": hx(v), "now": repr(got)})

    # ---------------------------------------------------------------- bn_size_bin / bn_write_bin
    vals = [0, 1, 255, 256, 257, 65535, 65536]
    for k in range(1, CAPB + 1):
        if k % DB in (0, 1, DB - 1) or k < 20 or not quick:
            vals += [(1 << (8 * k)) - 1, 1 << (8 * k - 1), (1 << (8 * k - 8))]
            vals.append(rnd(8 * k - rng.randrange(8)))
    vals = sorted(set(v for v in vals if v.bit_length() <= CAP * W))

    def wcls(v):
        if v == 0:
            return "zero"
        n = (v.bit_length() + 7) // 8
        return "max" if n == CAPB else ("digit-aligned" if n % DB == 0 else "partial-digit")

    for v in vals:
        if not E.mine():
            continue
        size = (v.bit_length() + 7) // 8

        def body(k, v=v, size=size):
            R.poison = rng.randrange(1, 256)
            R.bn_put(a, v)
            r = R.call("bn_size_bin", a)
            ctx.check(not r.caught and r.r == size, k + "|size_bin", {"got": r.r, "exp": size})
            out = E.mem(size)
            r = R.call("bn_write_bin", out, size, a)
            if ctx.check(not r.caught, k + "|unexpected-error", {"err": r.err}):
                got = R.get(out, size)
                ctx.check(got == v.to_bytes(size, "big"), k + "|value", {"got": got.hex()})
            if size > 0:
                out = E.mem(size - 1)
                r = R.call("bn_write_bin", out, size - 1, a)
                ctx.check(r.caught, k + "|short-buffer-accepted", {"len": size - 1})
            for extra in (1, DB - 1, DB, DB + 1, rng.randrange(1, 40)):
                n = size + extra
                out = E.mem(n)
                r = R.call("bn_write_bin", out, n, a)
                ctx.check(not r.caught and R.get(out, n) == v.to_bytes(n, "big"), k + "|long-buffer",
                          {"len": n, "caught": r.caught, "got": R.get(out, n).hex()})
            snapshot_ok(a, v, k)
        E.case("bn_write_bin|%s" % wcls(v), {"v": hx(v)}, body)

    # ---------------------------------------------------------------------------- bn_read_bin
    def rcls(n, bs):
        if n == 0:
            return "len0"
        fit = (n + DB - 1) // DB <= CAP
        z = "lead-zero" if bs[0] == 0 else "msb"
        if not fit:
            return "beyond-capacity|" + z
        return ("full-capacity|" if n == CAPB else ("digit-aligned|" if n % DB == 0 else "partial-digit|")) + z

    for n in range(0, CAPB + 3):
        variants = [rng.getrandbits(8 * n).to_bytes(n, "big") if n else b"", b"\xff" * n, bytes(n)]
        if n > 1:
            z = rng.randrange(1, n)
            variants.append(bytes(z) + (rng.getrandbits(8 * (n - z)) | 1).to_bytes(n - z, "big"))
            variants.append(b"\x00" + b"\xff" * (n - 1))
            variants.append(b"\x01" + bytes(n - 1))
        for bs in variants:
            if not E.mine():
                continue

            def body(k, bs=bs, n=n):
                R.poison = rng.randrange(1, 256)
                R.bn_put(a, -rng.getrandbits(70))
                pb = E.put(bs)
                r = R.call("bn_read_bin", a, pb, n)
                v = int.from_bytes(bs, "big")
                fit = (n + DB - 1) // DB <= CAP
                if r.caught:
                    ctx.check(not fit, k + "|unexpected-error", {"err": r.err, "len": n})
                    return
                got = R.bn_get(a)
                ctx.check(got[0] == v, k + "|value", {"got": repr(got), "exp": hx(v)})
                ctx.check(got[3], k + "|normal-form", {"got": repr(got)})
                ctx.check(R.get(pb, n) == bs, k + "|input-modified")
                if got[0] == v and got[3]:
                    out = E.mem(n)
                    w = R.call("bn_write_bin", out, n, a)
                    ctx.check(not w.caught and R.get(out, n) == bs, k + "|reencode", {"got": R.get(out, n).hex()})
            E.case("bn_read_bin|%s" % rcls(n, bs), {"bytes": bs[:40].hex(), "len": n}, body)

    # ----------------------------------------------------------- bn_size_raw / write_raw / read_raw
    for nd in range(0, CAP + 3):
        for variant in range(4):
            if not E.mine():
                continue
            digs = [rng.getrandbits(W) for _ in range(nd)]
            if variant == 1 and nd:
                digs[-1] = 0                      # not normalised: top digit zero
            if variant == 2:
                digs = [0] * nd
            if variant == 3 and nd:
                digs = [(1 << W) - 1] * nd
            raw = b"".join(d.to_bytes(DB, "little") for d in digs)
            v = int.from_bytes(raw, "little")
            cls = "len0" if nd == 0 else ("beyond-capacity" if nd > CAP else ("top-zero" if digs[-1] == 0 else "normal"))

            def body(k, raw=raw, nd=nd, v=v):
                R.poison = rng.randrange(1, 256)
                R.bn_put(a, -rng.getrandbits(70))
                pr = E.put(raw)
                r = R.call("bn_read_raw", a, pr, nd)
                if r.caught:
                    ctx.check(nd > CAP, k + "|unexpected-error", {"err": r.err})
                    return
                if not ctx.check(nd <= CAP, k + "|accepted", {"digits": nd}):
                    return
                got = R.bn_get(a)
                ctx.check(got[0] == v and got[3], k + "|value", {"got": repr(got), "exp": hx(v)})
                ctx.check(R.get(pr, len(raw)) == raw, k + "|input-modified")
                used = max(1, (v.bit_length() + W - 1) // W)
                s = R.call("bn_size_raw", a)
                ctx.check(s.r == used, k + "|size_raw", {"got": s.r, "exp": used})
                for ln in (used, used + 1, nd + 2, CAP):
                    out = E.mem(ln * DB)
                    w = R.call("bn_write_raw", out, ln, a)
                    ctx.check(not w.caught and R.get(out, ln * DB) == v.to_bytes(ln * DB, "little"), k + "|write_raw",
                              {"len": ln, "caught": w.caught})
                out = E.mem((used - 1) * DB)
                w = R.call("bn_write_raw", out, used - 1, a)
                ctx.check(w.caught, k + "|write_raw-short-accepted", {"len": used - 1})
            E.case("bn_read_raw|%s" % cls, {"digits": nd, "v": hx(v)[:80]}, body)

    # -------------------------------------------------------- bn_size_str / write_str / read_str
    def str_values(radix):
        vs = [0, 1, -1, radix - 1, radix, radix + 1, -(radix - 1), -radix, (1 << W) - 1, 1 << W, -(1 << W)]
        for k in (2, 3, 4, 7, 10, rng.randrange(11, 60), rng.randrange(60, 160)):
            pw = radix ** k
            if pw.bit_length() <= 1000:
                vs += [pw - 1, pw, pw + 1, -(pw - 1), -pw, -(pw + 1)]
        for bits in (5, 63, 64, 65, 128, 256, 521, 1000):
            vs.append(rnd(bits))
            vs.append(-rnd(bits))
        return vs

    def scls(v, radix):
        if v == 0:
            return "zero"
        m = abs(v)
        t = m
        while t % radix == 0:
            t //= radix
        if t == 1:
            c = "radix-power"
        else:
            t = m + 1
            while t % radix == 0:
                t //= radix
            c = "radix-power-1" if t == 1 else "general"
        return ("neg-" if v < 0 else "pos-") + c

    def rdx(radix):
        return "r%d" % radix if radix in (2, 10, 16, 36, 37, 63, 64) else ("r<36" if radix < 36 else "r>36")

    for radix in range(2, 65):
        for v in str_values(radix):
            if not E.mine():
                continue
            s = codec.int_to_str(v, radix).encode()

            def body(k, v=v, s=s, radix=radix):
                R.poison = rng.randrange(1, 256)
                R.bn_put(a, v)
                need = len(s) + 1
                r = R.call("bn_size_str", a, radix)
                ctx.check(not r.caught and r.r == need, k + "|size_str", {"got": r.r, "exp": need, "caught": r.caught})
                out = E.mem(need)
                w = R.call("bn_write_str", out, need, a, radix)
                if ctx.check(not w.caught, k + "|unexpected-error", {"err": w.err}):
                    got = R.get(out, need)
                    ctx.check(got == s + b"\x00", k + "|value", {"got": got[:120].hex(), "exp": s[:120].decode()})
                out = E.mem(need - 1)
                w = R.call("bn_write_str", out, need - 1, a, radix)
                ctx.check(w.caught, k + "|short-buffer-accepted", {"len": need - 1})
                n = need + rng.randrange(1, 20)
                out = E.mem(n)
                w = R.call("bn_write_str", out, n, a, radix)
                ctx.check(not w.caught and R.get(out, need) == s + b"\x00", k + "|long-buffer", {"len": n, "caught": w.caught})
                snapshot_ok(a, v, k)
                # decode(encode(x)) == x, with and without the terminator inside len
                for ln, txt in ((len(s), s), (len(s) + 1, s + b"\x00")):
                    R.bn_put(b, rng.getrandbits(70))
                    ps = E.put(txt)
                    rr = R.call("bn_read_str", b, ps, ln, radix)
                    if ctx.check(not rr.caught, k + "|read-unexpected-error", {"err": rr.err, "len": ln}):
                        got = R.bn_get(b)
                        ctx.check(got[0] == v and got[3], k + "|roundtrip", {"got": repr(got), "exp": hx(v)})
            E.case("bn_write_str|%s|%s" % (rdx(radix), scls(v, radix)), {"v": hx(v), "radix": radix}, body)

    # hostile strings for bn_read_str
    def read_str_case(cls, txt, ln, radix, strict):
        def body(k):
            R.poison = rng.randrange(1, 256)
            R.bn_put(b, rng.getrandbits(70))
            ps = E.put(txt)
            rr = R.call("bn_read_str", b, ps, ln, radix)
            exp, used, neg = codec.str_prefix_value(txt[:ln], radix)
            # the parser multiplies by the radix digit by digit and needs one spare digit of precision
            fits = ln * radix.bit_length() <= (CAP - 1) * W
            if rr.caught:
                # an error is in order only for strings that are not numbers in this radix, or beyond the capacity rule
                ctx.check(not strict or not fits, k + "|unexpected-error", {"err": rr.err})
                return
            got = R.bn_get(b)
            ctx.check(got[0] == exp, k + "|value", {"got": repr(got), "exp": hx(exp)})
            ctx.check(got[3], k + "|normal-form", {"got": repr(got)})
            ctx.check(R.get(ps, len(txt)) == txt, k + "|input-modified")
        E.case("bn_read_str|%s|%s" % (rdx(radix), cls), {"str": txt[:80].hex(), "len": ln, "radix": radix}, body)

    for radix in range(2, 65):
        digs = codec.ALPHABET[:radix]
        if not E.mine():
            continue
        num = "".join(rng.choice(digs) for _ in range(rng.randrange(1, 30)))
        read_str_case("valid", num.encode(), len(num), radix, True)
        read_str_case("valid-neg", ("-" + num).encode(), len(num) + 1, radix, True)
        read_str_case("leading-zeros", ("000" + num).encode(), len(num) + 3, radix, True)
        read_str_case("embedded-nul", num.encode() + b"\x00" + num.encode(), 2 * len(num) + 1, radix, True)
        read_str_case("len-shorter-than-buffer", (num + num).encode(), len(num), radix, True)
        read_str_case("minus-zero", b"-0", 2, radix, True)
        read_str_case("minus-only", b"-", 1, radix, False)
        read_str_case("empty", b"", 0, radix, False)
        if radix < 36:
            read_str_case("lower-case", num.lower().encode(), len(num), radix, False)
        # first character that is not a digit of this radix (the next one in the alphabet, or punctuation)
        bad = codec.ALPHABET[radix] if radix < 64 else "!"
        if radix < 36 and bad.isalpha():
            bad = bad.upper()
        for badc in (bad, " ", "-", "\xff", "@", "["):
            pos = rng.randrange(0, len(num) + 1)
            txt = num[:pos].encode() + badc.encode("latin1") + num[pos:].encode()
            read_str_case("invalid-char", txt, len(txt), radix, False)
        long = "".join(rng.choice(digs) for _ in range((CAP - 1) * W // radix.bit_length()))
        read_str_case("max-length", (long[0].replace("0", "1") + long[1:]).encode(), len(long), radix, True)
        read_str_case("beyond-capacity", ("1" + "0" * (CAP * W)).encode(), CAP * W + 1, radix, False)

    # invalid radices: every one of the three functions must raise an error
    for radix in (0, 1, 65, 66, 100, 255, 256, 1000):
        if not E.mine():
            continue

        def body(k, radix=radix):
            R.bn_put(a, 123456789)
            r = R.call("bn_size_str", a, radix)
            ctx.check(r.caught, k + "|size_str-accepted", {"ret": r.r})
            out = E.mem(64)
            r = R.call("bn_write_str", out, 64, a, radix)
            ctx.check(r.caught, k + "|write_str-accepted")
            ps = E.put(b"101")
            r = R.call("bn_read_str", b, ps, 3, radix)
            ctx.check(r.caught, k + "|read_str-accepted", {"got": repr(R.bn_get(b))})
        E.case("bn_str|invalid-radix", {"radix": radix}, body)
    E.notes["bn_capacity_bytes"] = CAPB


# ====================================================================================== prime fields
FPX = [(2, True), (3, False), (4, False), (6, False), (8, True), (9, False), (12, True), (16, True), (18, True),
       (24, True), (48, True), (54, True)]
# lengths at which fpN_read_bin expects a compressed form (handled in part "px" for the towers in use)
FPX_PACKED_LEN = {2: lambda n: [n + 1], 12: lambda n: [8 * n], 18: lambda n: [12 * n], 24: lambda n: [16 * n],
                  48: lambda n: [32 * n], 54: lambda n: [36 * n]}


def set_prime_curve(R, name):
    """activate parameter set `name`; returns ep_params()"""
    if name in getattr(R, "TWIST_TYPE", {}):
        return R.pairing_set(name)
    r = R.call("ep_param_set", R.E[name])
    if r.caught:
        raise RuntimeError("ep_param_set(%s) failed" % name)
    return R.ep_params()


def fp_boundary(p, n):
    """interesting values for an n-byte field element: (value, class)"""
    top = (1 << (8 * n)) - 1
    out = [(0, "zero"), (1, "small"), (2, "small"), (p - 2, "p-1"), (p - 1, "p-1"), (p, "p"), (p + 1, "p+1"), (p + 2, "p+1"),
           ((p - 1) // 2, "half"), ((p + 1) // 2, "half"), ((1 << p.bit_length()) - 1, "2^bits-1"), (top, "all-ones"),
           (1 << (p.bit_length() - 1), "msb"), (2 * p, "2p"), (2 * p - 1, "2p")]
    for k in range(64, 8 * n, 64):
        out += [((1 << k) - 1, "digit-boundary"), (1 << k, "digit-boundary")]
    return [(v, c) for v, c in out if 0 <= v <= top]


def run_fp(E):
    ctx, R, rng = E.ctx, E.R, E.rng
    K = R.K
    quick = ctx.quick
    ids = [nm for nm, _ in R.ep_param_ids()]
    E.notes["parameter_sets"] = ids
    primes = {}
    for name in ids:
        set_prime_curve(R, name)
        p, n = R.p, K["RLC_FP_BYTES"]
        primes[name] = hx(p)
        top = (1 << (8 * n)) - 1
        a = R.fp_new()
        a2 = R.fp_new()

        # --------------------------------------------------------------------------- fp_read_bin
        def fp_read(cls, bs, name=name, p=p, n=n, a=a, prior=None):
            def body(k):
                R.fp_put_raw(a, top)                       # poison: a non-canonical pattern
                if prior is not None:                      # ... or a valid element related to the bytes
                    R.fp_put(a, prior)
                pb = E.put(bs)
                r = R.call("fp_read_bin", a, pb, len(bs))
                v = int.from_bytes(bs, "big")
                ok = len(bs) == n and v < p
                if not ok:
                    ctx.check(r.caught, k + "|accepted", {"len": len(bs), "v>=p": v >= p, "decoded": repr(R.fp_get(a))})
                    return
                if not ctx.check(not r.caught, k + "|rejected", {"err": r.err}):
                    return
                got, canon = R.fp_get(a)
                ctx.check(got == v, k + "|decoded-value", {"got": hx(got), "exp": hx(v)})
                ctx.check(canon, k + "|decoded-not-reduced", {"raw": hx(R.fp_raw(a))})
                ctx.check(R.get(pb, len(bs)) == bs, k + "|input-modified")
                out = E.mem(n)
                w = R.call("fp_write_bin", out, n, a)
                ctx.check(not w.caught and R.get(out, n) == bs, k + "|reencode", {"got": R.get(out, n).hex()})
            E.case("fp_read_bin|%s" % cls, {"bytes": bs.hex(), "set": name}, body)

        for v, c in fp_boundary(p, n):
            if E.mine():
                fp_read("v=" + c, v.to_bytes(n, "big"))
        for _ in range(ctx.n(40, 400)):
            if E.mine():
                fp_read("random<p", rng.randrange(p).to_bytes(n, "big"))
            if top > p and E.mine():
                fp_read("random>=p", rng.randrange(p, top + 1).to_bytes(n, "big"))
            if E.mine():
                fp_read("p-bitflip", (p ^ (1 << rng.randrange(8 * n))).to_bytes(n, "big"))
        for ln in range(0, n + 3):
            if ln == n:
                continue
            for bs in (bytes(ln), rng.getrandbits(8 * ln).to_bytes(ln, "big") if ln else b"",
                       (rng.randrange(p).to_bytes(n, "big") + bytes(4))[:ln] if ln > n else rng.randrange(p).to_bytes(n, "big")[n - ln:]):
                if E.mine():
                    fp_read("len" + ("<n" if ln < n else ">n"), bs)
        for ln in (2 * n, 2 * n + 1, 3 * n):
            if E.mine():
                fp_read("len>n", bytes(ln - n) + rng.randrange(p).to_bytes(n, "big"))
        # the output already holds the element the bytes start / end with (or one congruent to them)
        for _ in range(ctx.n(2, 10)):
            v = rng.randrange(p)
            vb = v.to_bytes(n, "big")
            for ln in (n + 1, 2 * n - 1, 2 * n, 2 * n + 1, 3 * n, 4 * n):
                if E.mine():
                    fp_read("len>n|out=same", vb + rng.getrandbits(8 * (ln - n)).to_bytes(ln - n, "big"), prior=v)
                if E.mine():
                    fp_read("len>n|out=same", bytes(ln - n) + vb, prior=v)
            for ln in (0, 1, n - 1):
                if E.mine():
                    fp_read("len<n|out=same", vb[:ln], prior=v)
                if E.mine():
                    fp_read("len<n|out=same", vb[n - ln:], prior=v)
            if v + p <= top and E.mine():
                fp_read("random>=p|out=same-mod-p", (v + p).to_bytes(n, "big"), prior=v)
            if E.mine():
                fp_read("random<p|out=other", vb, prior=rng.randrange(p))

        # -------------------------------------------------------------------------- fp_write_bin
        def fp_write(cls, v, name=name, p=p, n=n, a=a, a2=a2):
            def body(k):
                R.fp_put(a, v)
                raw = R.fp_raw(a)
                exp = v.to_bytes(n, "big")
                out = E.mem(n)
                w = R.call("fp_write_bin", out, n, a)
                if ctx.check(not w.caught, k + "|unexpected-error", {"err": w.err}):
                    ctx.check(R.get(out, n) == exp, k + "|value", {"got": R.get(out, n).hex(), "exp": exp.hex()})
                    R.fp_put_raw(a2, top)
                    r = R.call("fp_read_bin", a2, out, n)
                    ctx.check(not r.caught and R.fp_get(a2) == (v, True), k + "|roundtrip", {"got": repr(R.fp_get(a2))})
                for ln in (0, 1, n - 1, n + 1, 2 * n):
                    o2 = E.mem(ln)
                    w = R.call("fp_write_bin", o2, ln, a)
                    ctx.check(w.caught, k + "|wrong-length-accepted", {"len": ln})
                ctx.check(R.fp_raw(a) == raw, k + "|input-modified")
            E.case("fp_write_bin|%s" % cls, {"v": hx(v), "set": name}, body)

        for v, c in fp_boundary(p, n):
            if v < p and E.mine():
                fp_write("v=" + c, v)
        for _ in range(ctx.n(30, 300)):
            if E.mine():
                fp_write("random", rng.randrange(p))

        # ------------------------------------------------- fp_size_str / fp_write_str / fp_read_str
        def fp_str(cls, v, radix, name=name, p=p, n=n, a=a, a2=a2):
            pow2 = radix in (2, 4, 8, 16, 32, 64)

            def body(k):
                R.fp_put(a, v)
                s = codec.int_to_str(v, radix).encode()
                need = len(s) + 1
                r = R.call("fp_size_str", a, radix)
                if r.caught:
                    ctx.check(not pow2, k + "|size_str-unexpected-error", {"err": r.err})
                else:
                    ctx.check(r.r == need, k + "|size_str", {"got": r.r, "exp": need})
                out = E.mem(need)
                w = R.call("fp_write_str", out, need, a, radix)
                if w.caught:
                    ctx.check(not pow2, k + "|unexpected-error", {"err": w.err})
                else:
                    ctx.check(R.get(out, need) == s + b"\x00", k + "|value", {"got": R.get(out, need).hex(), "exp": s.decode()})
                o2 = E.mem(need - 1)
                w = R.call("fp_write_str", o2, need - 1, a, radix)
                ctx.check(w.caught, k + "|short-buffer-accepted", {"len": need - 1})
                R.fp_put_raw(a2, top)
                ps = E.put(s)
                rr = R.call("fp_read_str", a2, ps, len(s), radix)
                if rr.caught:
                    ctx.check(not pow2, k + "|read-unexpected-error", {"err": rr.err})
                else:
                    ctx.check(R.fp_get(a2) == (v, True), k + "|roundtrip", {"got": repr(R.fp_get(a2)), "exp": hx(v)})
            E.case("fp_str|%s|%s" % ("pow2-radix" if pow2 else "other-radix", cls), {"v": hx(v), "radix": radix, "set": name}, body)

        for radix in range(2, 65):
            vs = [(0, "zero"), (1, "small"), (radix - 1, "small"), (radix, "radix-power"), (p - 1, "p-1"),
                  (rng.randrange(p), "random"), (radix ** rng.randrange(2, 30), "radix-power"),
                  (radix ** rng.randrange(2, 30) - 1, "radix-power-1"), (rng.getrandbits(64), "one-digit")]
            for v, c in vs:
                if v < p and E.mine():
                    fp_str(c, v, radix)

        def fp_str_hostile(cls, txt, radix, name=name, p=p, a2=a2):
            def body(k):
                R.fp_put_raw(a2, top)
                ps = E.put(txt)
                rr = R.call("fp_read_str", a2, ps, len(txt), radix)
                if rr.caught:
                    ctx.check(True)
                    return
                exp = codec.str_prefix_value(txt, radix)[0] % p
                ctx.check(R.fp_get(a2) == (exp, True), k + "|value", {"got": repr(R.fp_get(a2)), "exp": hx(exp)})
            E.case("fp_read_str|%s" % cls, {"str": txt[:100].hex(), "radix": radix, "set": name}, body)

        for radix in (2, 4, 8, 16, 32, 64, 10, 36):
            if not E.mine():
                continue
            for v, c in ((p, "v=p"), (p + 1, "v=p+1"), (2 * p + 5, "v>p"), (-1, "negative"), (-(1 << 64) - 7, "negative-multi-digit"),
                         (-p, "negative")):
                fp_str_hostile(c, codec.int_to_str(v, radix).encode(), radix)
            fp_str_hostile("invalid-char", codec.int_to_str(rng.randrange(p), radix).encode()[:10] + b"!" + b"11", radix)
        for radix in (0, 1, 65, 100, 256):
            if not E.mine():
                continue

            def body(k, radix=radix, a=a, a2=a2):
                R.fp_put(a, 5)
                r = R.call("fp_size_str", a, radix)
                ctx.check(r.caught, k + "|size_str-accepted", {"ret": r.r})
                out = E.mem(300)
                r = R.call("fp_write_str", out, 300, a, radix)
                ctx.check(r.caught, k + "|write_str-accepted")
                ps = E.put(b"101")
                r = R.call("fp_read_str", a2, ps, 3, radix)
                ctx.check(r.caught, k + "|read_str-accepted")
            E.case("fp_str|invalid-radix", {"radix": radix, "set": name}, body)

        # ---------------------------------------------------------- extension fields, unpacked form
        for deg, haspack in FPX:
            pre = "fp%d" % deg
            if not R.has(pre + "_read_bin"):
                E.notes.setdefault("functions_not_built", []).append(pre + "_read_bin")
                continue
            x = R.fpx_new(deg)
            y = R.fpx_new(deg)
            full = deg * n
            packed_lens = FPX_PACKED_LEN.get(deg, lambda n_: [])(n)

            def wr_args(buf, ln, obj):
                return [buf, ln, obj] + ([0] if haspack else [])

            def fpx_read(cls, bs, deg=deg, pre=pre, x=x, full=full, name=name, p=p, n=n, wr_args=wr_args, prior=None):
                def body(k):
                    for i in range(deg):
                        R.fp_put_raw(x + i * R.fp_sz, top)
                    if prior is not None:
                        R.fpx_put(x, prior)
                    pb = E.put(bs)
                    r = R.call(pre + "_read_bin", x, pb, len(bs))
                    cs = [int.from_bytes(bs[i * n:(i + 1) * n], "big") for i in range(deg)] if len(bs) == full else None
                    ok = cs is not None and all(c < p for c in cs)
                    if not ok:
                        ctx.check(r.caught, k + "|accepted", {"len": len(bs)})
                        return
                    if not ctx.check(not r.caught, k + "|rejected", {"err": r.err}):
                        return
                    got, canon = R.fpx_get(x, deg)
                    ctx.check(got == cs, k + "|decoded-value", {"got": [hx(g) for g in got]})
                    ctx.check(canon, k + "|decoded-not-reduced")
                    out = E.mem(full)
                    w = R.call(pre + "_write_bin", *wr_args(out, full, x))
                    ctx.check(not w.caught and R.get(out, full) == bs, k + "|reencode")
                E.case("%s_read_bin|%s" % (pre, cls), {"bytes": bs[:96].hex(), "len": len(bs), "set": name}, body)

            def elem(special=None, pos=None):
                cs = [rng.randrange(p) for _ in range(deg)]
                if special is not None:
                    cs[pos] = special
                return b"".join(c.to_bytes(n, "big") for c in cs)

            reps = 3 if quick else 12
            for _ in range(reps):
                if E.mine():
                    fpx_read("valid", elem())
            positions = range(deg) if (deg <= 12 or not quick) else sorted(set([0, 1, deg // 2, deg - 2, deg - 1]))
            for pos in positions:
                for v, c in ((p - 1, "coef=p-1"), (0, "coef=0"), (p, "coef=p"), (p + 1, "coef=p+1"), (top, "coef=all-ones")):
                    if v <= top and E.mine():
                        fpx_read(c, elem(v, pos))
            for ln in sorted(set([0, 1, n - 1, n, full - n, full - 1, full + 1, full + n, 2 * full])):
                if ln == full or ln in packed_lens or ln < 0:
                    continue
                if E.mine():
                    fpx_read("len", (elem() + elem())[:ln])
            # the output already holds the element the bytes start with
            cs0 = [rng.randrange(p) for _ in range(deg)]
            eb0 = b"".join(c.to_bytes(n, "big") for c in cs0)
            for ln in sorted(set([n, full - n, full - 1, full + 1, full + n, 2 * full - n, 2 * full, 3 * full])):
                if ln == full or ln in packed_lens or ln <= 0:
                    continue
                if E.mine():
                    fpx_read("len|out=same", (eb0 + elem() + elem())[:ln], prior=cs0)
            pos = rng.randrange(deg)
            if cs0[pos] + p <= top and E.mine():
                fpx_read("coef>=p|out=same-mod-p", eb0[:pos * n] + (cs0[pos] + p).to_bytes(n, "big") + eb0[(pos + 1) * n:], prior=cs0)
            if E.mine():
                fpx_read("valid|out=other", elem(), prior=cs0)

            def fpx_write(cls, cs, deg=deg, pre=pre, x=x, y=y, full=full, name=name, p=p, n=n, wr_args=wr_args, haspack=haspack):
                def body(k):
                    R.fpx_put(x, cs)
                    snap = R.get(x, deg * R.fp_sz)
                    exp = b"".join(c.to_bytes(n, "big") for c in cs)
                    r = R.call(pre + "_size_bin", *([x] + ([0] if haspack else [])))
                    ctx.check(not r.caught and r.i == full, k + "|size_bin", {"got": r.i, "exp": full})
                    out = E.mem(full)
                    w = R.call(pre + "_write_bin", *wr_args(out, full, x))
                    if ctx.check(not w.caught, k + "|unexpected-error", {"err": w.err}):
                        ctx.check(R.get(out, full) == exp, k + "|value", {"got": R.get(out, full)[:96].hex()})
                        rr = R.call(pre + "_read_bin", y, out, full)
                        ctx.check(not rr.caught and R.fpx_get(y, deg) == (cs, True), k + "|roundtrip")
                    for ln in (0, full - n, full - 1):
                        if ln in FPX_PACKED_LEN.get(deg, lambda n_: [])(n):
                            continue
                        o2 = E.mem(ln)
                        w = R.call(pre + "_write_bin", *wr_args(o2, ln, x))
                        ctx.check(w.caught, k + "|short-buffer-accepted", {"len": ln})
                    ln = full + rng.randrange(1, 9)
                    o3 = E.mem(ln)
                    w = R.call(pre + "_write_bin", *wr_args(o3, ln, x))
                    ctx.check(w.caught or R.get(o3, full) == exp, k + "|long-buffer", {"len": ln})
                    ctx.check(R.get(x, deg * R.fp_sz) == snap, k + "|input-modified")
                E.case("%s_write_bin|%s" % (pre, cls), {"coeffs": [hx(c) for c in cs[:4]], "deg": deg, "set": name}, body)

            for _ in range(reps):
                if E.mine():
                    fpx_write("random", [rng.randrange(p) for _ in range(deg)])
            for cs, c in (([0] * deg, "zero"), ([1] + [0] * (deg - 1), "one"), ([p - 1] * deg, "all-p-1"),
                          ([0] * (deg - 1) + [1], "last-coef")):
                if E.mine():
                    fpx_write(c, cs)
            R.free(x)
            R.free(y)
        R.free(a)
        R.free(a2)
    E.notes["primes"] = primes



# ============================================================================================ points
class PointIO(object):
    """struct-level access to one point type; coordinates on the wire are (u, v) (see codec.py)"""
    reps = ("affine",)

    def __init__(self, E, pre, label, pc):
        self.E = E
        self.R = E.R
        self.pre = pre                 # function prefix: ep, g1, ep2, g2, eb, ed
        self.label = label             # kind of parameter set (key component); the set's name goes into the description
        self.setname = label
        self.pc = pc
        self.read = pre + "_read_bin"
        self.write = pre + "_write_bin"
        self.size = pre + "_size_bin"
        self.P = self.new()
        self.Q = self.new()

    def new(self):
        return self.R.mem(self.sz, 0xAA)

    def poison(self, P):
        import ctypes
        ctypes.memset(P, self.E.rng.randrange(1, 256), self.sz)


class EpIO(PointIO):
    reps = ("affine", "projc", "jacob")

    def get_packed(self, P):
        R, K = self.R, self.R.K
        x, y, z, coord, canon = R.ep_get(P)
        raw = R.fp_raw(P + K["off_ep_st_y"])
        return x, raw, R.fp_get(P + K["off_ep_st_x"])[1] and raw in (0, 1) and z == 1 and coord == K["BASIC"]

    def put_packed(self, P, u, bit):
        R, K = self.R, self.R.K
        R.ep_put(P, u, 0, 1, K["BASIC"])
        R.fp_put_raw(P + K["off_ep_st_y"], bit)

    def __init__(self, E, pre, label, pc, p):
        self.sz = E.R.K["sizeof_ep_st"]
        self.p = p
        PointIO.__init__(self, E, pre, label, pc)

    def put(self, P, pt, rep="affine"):
        R, K, p = self.R, self.R.K, self.p
        if pt is None:
            if rep == "affine":
                R.ep_put(P, 0, 0, 0, K["BASIC"])
            else:
                R.ep_put(P, self.E.rng.randrange(p), self.E.rng.randrange(p), 0, K["PROJC"] if rep == "projc" else K["JACOB"])
            return
        x, y = pt
        if rep == "affine":
            R.ep_put(P, x, y, 1, K["BASIC"])
        else:
            z = self.E.rng.randrange(2, p)
            if rep == "projc":
                R.ep_put(P, x * z, y * z, z, K["PROJC"])
            else:
                R.ep_put(P, x * z * z, y * z * z * z, z, K["JACOB"])

    def get(self, P):
        """-> (decoded, structurally_ok): decoded = ('inf',) | ('pt', u, v) | ('bad', why)"""
        R, K, p = self.R, self.R.K, self.p
        x, y, z, coord, canon = R.ep_get(P)
        if z == 0:
            return ("inf",), canon
        if coord == K["BASIC"]:
            return ("pt", x, y), canon and z == 1
        zi = pow(z, -1, p)
        if coord == K["PROJC"]:
            return ("pt", x * zi % p, y * zi % p), canon
        if coord == K["JACOB"]:
            return ("pt", x * zi * zi % p, y * zi * zi * zi % p), canon
        return ("bad", "coord=%d" % coord), False


def read_case(io, cls, bs, member, note=None, prior=None):
    """decode arbitrary bytes: library accepts <=> model accepts; accepted objects are valid and re-encode to bs.
    prior = None: the output object holds a poison pattern; prior = (name, what, rep): the output object holds a valid
    object before the call (what = model point / None for the neutral element, written at struct level in
    representation rep; name 'redecode': what = bytes the library itself decodes into the output first - workload only).
    The verdict never depends on the prior content: a decoder is a function of (parameter set, bytes) only."""
    E = io.E
    ctx, R = E.ctx, E.R

    m, why = io.pc.decode_why(bs)
    if prior is not None:
        cls = cls + "|out=" + prior[0]
    if why in ("range", "noncanonical-sign", "neutral-as-point"):
        cls = cls + "|" + why

    def body(k):
        io.poison(io.P)
        if prior is not None:
            if prior[0] == "redecode":
                R.call(io.read, io.P, E.put(prior[1]), len(prior[1]))
            else:
                io.put(io.P, prior[1], prior[2])
        pb = E.put(bs)
        n = len(bs)
        r = R.call(io.read, io.P, pb, n)
        if m is None:
            if not ctx.check(r.caught, k + "|accepted", {"decoded": repr(io.get(io.P))[:300]}):
                return
            ctx.check(R.get(pb, n) == bs, k + "|input-modified")
            return
        if r.caught:
            # a canonical encoding of a valid object was refused: a violation when the object is known to be a group member
            if member(m):
                ctx.check(False, k + "|rejected", {"err": r.err, "model": repr(m)[:300]})
            else:
                ctx.check(True)
                ctx.add("valid_non_member_rejected", 1)
                lst = E.notes.setdefault("valid_non_member_rejected_classes", [])
                if k not in lst:
                    lst.append(k)
            return
        got, ok = io.get(io.P)
        ctx.check(got == m, k + "|decoded-value", {"got": repr(got)[:400], "exp": repr(m)[:400]})
        ctx.check(ok, k + "|decoded-not-normal", {"got": repr(got)[:300]})
        ctx.check(R.get(pb, n) == bs, k + "|input-modified")
        out = E.mem(n)
        w = R.call(io.write, out, n, io.P, 1 if n == io.pc.len_pack else 0)
        ctx.check(not w.caught and R.get(out, n) == bs, k + "|reencode", {"caught": w.caught, "got": R.get(out, n).hex()})
    d = {"bytes": bs[:140].hex(), "len": len(bs), "set": io.setname}
    if note:
        d["note"] = note
    if prior is not None:
        d["output-held"] = prior[0] if prior[0] == "redecode" else (
            "neutral" if prior[1] is None else repr(prior[1])[:200] + " " + prior[2])
    E.case("%s|%s|%s" % (io.read, io.label, cls), d, body)


def stale_output_cases(io, i, P, base, member, quick):
    """the output object of the decoder already holds a valid object related to the bytes (the point the first
    coordinate names, its negative, the neutral element, an unrelated point; written by the harness or left by the
    library's own decode of the valid encoding): strings of every wrong length - in particular 1 + k*unit beyond the
    longest encoding, 'tag | first coordinate | junk' and valid encodings with trailing bytes -, wrong tags, second
    coordinates off the curve and mixed coordinates must still be refused, valid strings must still decode to what the
    bytes say.  A decoder that skips a tag / length / coordinate on some path validates what was left in the object."""
    E = io.E
    rng = E.rng
    pc = io.pc
    C = pc.C
    n = pc.n
    full, pack = pc.encode(P, 0), pc.encode(P, 1)
    negP = (P[0], C.neg_v(P[0], P[1]))
    other = base[-1 - i]
    ofull = pc.encode(other, 0)
    heavy = i == 0 or not quick
    priors = [("same", P, "affine"), ("neg", negP, "affine")]
    if heavy:
        priors += [("redecode", full, None), ("neutral", None, "affine"), ("other", other, "affine")]
    if not quick:
        priors += [("same-" + rep, P, rep) for rep in io.reps[1:]]
    unit = getattr(io, "unit", n)                # granularity of the wire format (one base-field element)
    kf = 2 * n // unit
    ks = sorted(set([kf + 1, kf + 2, kf + 3, 2 * kf])) if quick else list(range(kf + 1, 3 * kf + 3))

    def rnd(k):
        return rng.getrandbits(8 * k).to_bytes(k, "big") if k > 0 else b""
    for prior in priors:
        # ---- beyond the longest encoding
        for j, k in enumerate(ks):
            ln = 1 + k * unit
            tags = [4, pack[0], pack[0] ^ 1, 0, 7, 0xFF] if j == 0 else [4, rng.randrange(256)]
            for tag in tags:
                if E.mine():
                    read_case(io, "len=1+k*unit>max|tag-u-junk", bytes([tag]) + full[1:1 + n] + rnd(ln - 1 - n), member, prior=prior)
            if E.mine():
                read_case(io, "len=1+k*unit>max|full-zero-ext", full + bytes(ln - len(full)), member, prior=prior)
            if E.mine():
                read_case(io, "len=1+k*unit>max|full-random-ext", full + rnd(ln - len(full)), member, prior=prior)
            if j == 0 and E.mine():
                read_case(io, "len=1+k*unit>max|full-v-repeated", (full + full[1 + n:] * k)[:ln], member, prior=prior)
            if j == 0 and E.mine():
                read_case(io, "len=1+k*unit>max|pack-zero-ext", pack + bytes(ln - len(pack)), member, prior=prior)
        for ln in sorted(set([pc.len_full + 1, pc.len_full + 2, 2 * pc.len_full - 1, 2 * pc.len_full, 2 * pc.len_full + 1,
                              (kf + 1) * unit, 2 * kf * unit, 2 + (kf + 1) * unit])):
            if E.mine():
                read_case(io, "len>max|full-random-ext", full + rnd(ln - len(full)), member, prior=prior)
        # ---- legal lengths
        for tag in (0, 1, 2, 3, 5, 0xFF, rng.randrange(6, 255)):
            if E.mine():
                read_case(io, "tag|full-length", bytes([tag]) + full[1:], member, prior=prior)
        for tag in (0, 1, 4, 5, 0xFF, rng.randrange(6, 255)):
            if E.mine():
                read_case(io, "tag|pack-length", bytes([tag]) + pack[1:], member, prior=prior)
        v = bytearray(full[1 + n:])
        v[-1] ^= 1
        for c, bs in (("off-curve-v", full[:1 + n] + bytes(v)), ("off-curve-v", full[:1 + n] + rnd(n)),
                      ("mixed-coordinates", full[:1 + n] + ofull[1 + n:]), ("mixed-coordinates", ofull[:1 + n] + full[1 + n:]),
                      ("valid-full", full), ("valid-pack", pack), ("sign-flipped", bytes([pack[0] ^ 1]) + pack[1:]),
                      ("valid-full|negated", pc.encode(negP, 0)), ("valid-full|other", ofull), ("valid-pack|other", pc.encode(other, 1)),
                      ("neutral", b"\x00"), ("tag|one-byte", b"\x04"), ("tag|one-byte", pack[:1]),
                      ("len|pack-prefix", pack[:-1]), ("len|pack-prefix", pack + b"\x00"), ("len|pack-prefix", pack + bytes(n))):
            if E.mine():
                read_case(io, c, bs, member, prior=prior)
        # ---- every length 0 .. max + 2
        if heavy and (prior[0] == "same" or not quick):
            for ln in range(0, pc.len_full + 3):
                if E.mine():
                    read_case(io, "len|full-prefix", (full + rnd(3))[:ln], member, prior=prior)
                if not quick and E.mine():
                    read_case(io, "len|pack-prefix", (pack + bytes(len(full)))[:ln], member, prior=prior)


def write_case(io, cls, pt, rep):
    """encode a valid object: size_bin, exact / short / long buffers, canonical bytes, decode(encode(x)) == x"""
    E = io.E
    ctx, R, rng = E.ctx, E.R, E.rng

    def body(k):
        for pack in (0, 1):
            kk = k + ("|pack" if pack else "|full")
            io.poison(io.P)
            io.put(io.P, pt, rep)
            snap = R.get(io.P, io.sz)
            exp = io.pc.encode(pt, pack)
            n = len(exp)
            r = R.call(io.size, io.P, pack)
            ctx.check(not r.caught and r.r == n, kk + "|size_bin", {"got": r.r, "exp": n, "caught": r.caught})
            out = E.mem(n)
            w = R.call(io.write, out, n, io.P, pack)
            if ctx.check(not w.caught, kk + "|unexpected-error", {"err": w.err}):
                got = R.get(out, n)
                ctx.check(got == exp, kk + "|value", {"got": got.hex(), "exp": exp.hex()})
                io.poison(io.Q)
                rr = R.call(io.read, io.Q, out, n)
                if ctx.check(not rr.caught, kk + "|roundtrip-rejected", {"err": rr.err}):
                    dec, ok = io.get(io.Q)
                    want = ("inf",) if pt is None else ("pt", pt[0], pt[1])
                    ctx.check(dec == want and ok, kk + "|roundtrip", {"got": repr(dec)[:300], "exp": repr(want)[:300], "ok": ok})
            o2 = E.mem(n - 1)
            w = R.call(io.write, o2, n - 1, io.P, pack)
            ctx.check(w.caught, kk + "|short-buffer-accepted", {"len": n - 1})
            ln = n + rng.randrange(1, 12)
            o3 = E.mem(ln)
            w = R.call(io.write, o3, ln, io.P, pack)
            ctx.check(not w.caught and R.get(o3, n) == exp, kk + "|long-buffer", {"len": ln, "caught": w.caught})
            ctx.check(R.get(io.P, io.sz) == snap, kk + "|input-modified")
    E.case("%s|%s|%s|%s" % (io.write, io.label, cls, rep),
           {"pt": repr(pt)[:300] if pt is not None else "neutral", "rep": rep, "set": io.setname}, body)


def point_suite(io, members, others, special, cof1, field_top, coord_vals, quick):
    """the structure-aware byte-string workload for one point type on one parameter set.
    members: model points known to be in the prime-order subgroup; others: valid points without that knowledge;
    special: list of (class, bytes) directed strings; coord_vals(kind) -> [(wire bytes of one coordinate, class)]"""
    E = io.E
    rng = E.rng
    pc = io.pc
    C = pc.C
    known = set()
    for P in members:
        known.add(P)
        known.add((P[0], C.neg_v(P[0], P[1])))

    def member(m):
        return cof1 or m[0] == "inf" or (m[1], m[2]) in known
    n = pc.n
    # ---- encoders
    for i, P in enumerate([None] + members + others):
        cls = "neutral" if P is None else ("member" if i <= len(members) else "on-curve")
        for rep in io.reps:
            if E.mine():
                write_case(io, cls, P, rep)
    # ---- decoders: valid encodings and their neighbourhood
    base = (members + others)
    for i, P in enumerate(base):
        full, pack = pc.encode(P, 0), pc.encode(P, 1)
        negP = (P[0], C.neg_v(P[0], P[1]))
        mem_cls = "member" if i < len(members) else "on-curve"
        if E.mine():
            read_case(io, "valid-full|" + mem_cls, full, member)
        if E.mine():
            read_case(io, "valid-pack|" + mem_cls, pack, member)
        if E.mine():                                  # flipped sign bit: the other point with the same first coordinate
            read_case(io, "sign-flipped", bytes([pack[0] ^ 1]) + pack[1:], member)
        if E.mine():
            read_case(io, "valid-full|negated", pc.encode(negP, 0), member)
        # second coordinate off the curve
        for how in range(3):
            if not E.mine():
                continue
            v = bytearray(full[1 + n:])
            if how == 0:
                v[-1] ^= 1
            elif how == 1:
                v[rng.randrange(n)] ^= 1 << rng.randrange(8)
            else:
                v = bytearray(rng.getrandbits(8 * n).to_bytes(n, "big"))
            read_case(io, "off-curve-v", full[:1 + n] + bytes(v), member)
        # single bit flips anywhere
        for _ in range(4 if quick else 16):
            if E.mine():
                w = bytearray(full)
                w[rng.randrange(len(w))] ^= 1 << rng.randrange(8)
                read_case(io, "bitflip-full", bytes(w), member)
            if E.mine():
                w = bytearray(pack)
                w[rng.randrange(1, len(w))] ^= 1 << rng.randrange(8)
                read_case(io, "bitflip-pack", bytes(w), member)
        if i >= (2 if quick else 6):
            continue
        stale_output_cases(io, i, P, base, member, quick)
        # every tag byte at the three legal lengths
        for tag in range(256):
            if E.mine():
                read_case(io, "tag|full-length", bytes([tag]) + full[1:], member)
            if E.mine():
                read_case(io, "tag|pack-length", bytes([tag]) + pack[1:], member)
            if i == 0 and E.mine():
                read_case(io, "tag|one-byte", bytes([tag]), member)
        # every length 0 .. max + 2
        for ln in range(0, pc.len_full + 3):
            ext = rng.getrandbits(8 * 3).to_bytes(3, "big")
            cands = [("len|full-prefix", (full + ext)[:ln]), ("len|pack-prefix", (pack + bytes(len(full)))[:ln]),
                     ("len|neutral-trailing", bytes(ln)), ("len|random", rng.getrandbits(8 * ln).to_bytes(ln, "big") if ln else b"")]
            for c, bs in cands:
                if E.mine():
                    read_case(io, c, bs, member)
        # coordinate boundary values in either position
        for cb, c in coord_vals("u"):
            for tag in (2, 3):
                if E.mine():
                    read_case(io, "u=" + c, bytes([tag]) + cb, member)
            if E.mine():
                read_case(io, "u=" + c, b"\x04" + cb + full[1 + n:], member)
            # with the matching second coordinate when there is one
            u = pc.F.dec(cb)
            if u is not None:
                for bit in (0, 1):
                    v = C.solve(u, bit)
                    if v is not None and E.mine():
                        read_case(io, "u=" + c, b"\x04" + cb + pc.F.enc(v), member)
        for cb, c in coord_vals("v"):
            if E.mine():
                read_case(io, "v=" + c, full[:1 + n] + cb, member)
    # first coordinates without a point above them, and random valid first coordinates
    tries = 0
    found = 0
    while found < (6 if quick else 40) and tries < 400:
        tries += 1
        cb = rng.getrandbits(8 * n).to_bytes(n, "big")
        if isinstance(field_top, int):
            cb = (int.from_bytes(cb, "big") % field_top).to_bytes(n, "big")
        u = pc.F.dec(cb)
        if u is None or C.solve(u, 0) is not None or C.solve(u, 1) is not None:
            continue
        found += 1
        for tag in (2, 3):
            if E.mine():
                read_case(io, "u-no-root|pack", bytes([tag]) + cb, member)
        if E.mine():
            read_case(io, "u-no-root|full", b"\x04" + cb + rng.getrandbits(8 * n).to_bytes(n, "big"), member)
    for _ in range(20 if quick else 200):
        if E.mine():
            read_case(io, "random|pack-length", bytes([rng.choice([2, 3])]) + rng.getrandbits(8 * n).to_bytes(n, "big"), member)
        if E.mine():
            read_case(io, "random|full-length", b"\x04" + rng.getrandbits(16 * n).to_bytes(2 * n, "big"), member)
    for c, bs in special:
        if E.mine():
            read_case(io, c, bs, member)


def no_point_coords(pc, draw, count):
    out = []
    tries = 0
    while len(out) < count and tries < 400:
        tries += 1
        u = draw()
        if pc.C.solve(u, 0) is None and pc.C.solve(u, 1) is None:
            out.append(u)
    return out


def prime_coord_vals(p, n, y_of=None):
    """wire values of one Fp coordinate: below, at and above p"""
    top = (1 << (8 * n)) - 1

    def f(kind):
        vals = [(0, "0"), (1, "1"), (2, "small"), (3, "small"), (p - 1, "p-1"), (p - 2, "p-1"), (p, "p"), (p + 1, "p+1"), (p + 2, "p+1"),
                ((1 << p.bit_length()) - 1, "2^bits-1"), (top, "all-ones"), ((p - 1) // 2, "half"), ((p + 1) // 2, "half")]
        return [(v.to_bytes(n, "big"), c) for v, c in vals if v <= top]
    return f


def ep_bit_rule(R, prm):
    p = R.p
    if prm["pairf"]:
        half = (p - 1) // 2
        return (lambda y: 1 if y > half else 0), "y > (p-1)/2"
    mont = R.mont
    return (lambda y: (y * mont % p) & 1), "lsb(y*R mod p)"


def run_ep(E):
    ctx, R, rng = E.ctx, E.R, E.rng
    K = R.K
    quick = ctx.quick
    ids = [nm for nm, _ in R.ep_param_ids()]
    E.notes["parameter_sets"] = ids
    rules = {}
    for name in ids:
        prm = set_prime_curve(R, name)
        p, n = R.p, K["RLC_FP_BYTES"]
        bit, rule = ep_bit_rule(R, prm)
        rules[name] = rule
        curve = codec.WeierCodec(codec.PrimeCoord(p, n), prm["a"], prm["b"], bit)
        pc = codec.PointCodec(curve)
        G = (prm["gx"], prm["gy"])
        if not curve.on_curve(*G):
            ctx.fail("ep|%s|generator-off-model-curve" % name, {"a": hx(prm["a"]), "b": hx(prm["b"])})
            continue
        W = WCurve(Fp(p), prm["a"], prm["b"])
        cof1 = prm["h"] == 1
        members = [G, W.mul(prm["n"] - 1, G), W.mul(2, G)]
        for _ in range(3 if quick else 12):
            members.append(W.mul(rng.randrange(1, prm["n"]), G))
        for _ in range(5 if quick else 30):
            members.append(W.mul(rng.randrange(2, 1 << 20), G))
        others = []
        while len(others) < (6 if quick else 30):
            x = rng.randrange(p)
            y = curve.solve(x, rng.randrange(2))
            if y is not None:
                others.append((x, y))
        if cof1:
            members += others
            others = []
        # points of order two: y = 0; only 0x02 || x and 0x04 || x || 0 are canonical
        special = []
        for x0 in codec.cubic_roots(prm["a"], prm["b"], p):
            xb = x0.to_bytes(n, "big")
            special += [("y=0|pack-bit0", b"\x02" + xb), ("y=0|pack-bit1", b"\x03" + xb), ("y=0|full", b"\x04" + xb + bytes(n))]
        for P in members[:3]:
            x, y = P
            if y + p < (1 << (8 * n)):
                special.append(("v=y+p", b"\x04" + x.to_bytes(n, "big") + (y + p).to_bytes(n, "big")))
            if x + p < (1 << (8 * n)):
                special.append(("u=x+p", b"\x04" + (x + p).to_bytes(n, "big") + y.to_bytes(n, "big")))
                special.append(("u=x+p", bytes([2 | bit(y)]) + (x + p).to_bytes(n, "big")))
        special += [("neutral-trailing", bytes(1 + n)), ("neutral-trailing", bytes(1 + 2 * n)), ("neutral-trailing", bytes(2))]
        E.notes.setdefault("two_torsion_points", {})[name] = len(special and codec.cubic_roots(prm["a"], prm["b"], p))
        # points whose ordinate sits at an edge of the compression-bit rule: tiny / huge internal representation
        # (ordinary rule) and the neighbourhood of (p-1)/2 (pairing-friendly rule); x from the cubic x^3 + a x + b - y^2
        edge = []
        mi = R.mont_inv
        for yv in [r_ * mi % p for r_ in (1, 2, 3, 0xFFFF, (1 << 64) - 1, 1 << 64, p - 1, p - 2)] + \
                [(p - 1) // 2, (p + 1) // 2, (p - 3) // 2, (p + 3) // 2, 1, 2, p - 1, p - 2]:
            for x0 in codec.cubic_roots(prm["a"], (prm["b"] - yv * yv) % p, p)[:1]:
                if curve.on_curve(x0, yv):
                    edge.append((x0, yv))
        E.notes.setdefault("edge_ordinate_points", {})[name] = len(edge)
        pres = ["ep"] + (["g1"] if name in getattr(R, "TWIST_TYPE", {}) else [])
        for pre in pres:
            kind = ("pairf" if prm["pairf"] else "ord") + ("" if cof1 else "-cof")
            io = EpIO(E, pre, kind, pc, p)
            io.setname = name
            point_suite(io, members, others, special, cof1, p, prime_coord_vals(p, n), quick or pre == "g1")
            if pre == "ep":
                pck_suite(io, [("member", P) for P in members[:6]] + [("edge-ordinate", P) for P in edge],
                          no_point_coords(pc, lambda: rng.randrange(p), 4))
            for P in edge:
                if E.mine():
                    write_case(io, "edge-ordinate", P, "affine")
                for pk in (0, 1):
                    if E.mine():
                        read_case(io, "edge-ordinate", pc.encode(P, pk), lambda m_: cof1)
                if E.mine():
                    read_case(io, "edge-ordinate", bytes([pc.encode(P, 1)[0] ^ 1]) + pc.encode(P, 1)[1:], lambda m_: cof1)
            R.free(io.P)
            R.free(io.Q)
    E.notes["compression_bit_rule"] = rules



# ==================================================================== pairing groups: ep2 / g2, fp2, fp12 / gt
def pck_suite(io, pts, noroot):
    """direct calls of X_pck / X_upk: pck keeps the first coordinate and stores the compression bit, upk inverts it,
    upk reports a first coordinate without a point through its return value.  pts: [(class, point)], noroot: [u]"""
    E = io.E
    ctx, R, rng = E.ctx, E.R, E.rng
    fpck, fupk = io.pre + "_pck", io.pre + "_upk"
    if not (R.has(fpck) and R.has(fupk)):
        E.notes.setdefault("functions_not_built", []).append(fpck)
        return
    T = io.new()
    for cls, P in pts:
        if not E.mine():
            continue

        def body(k, P=P):
            for alias in (0, 1):
                io.poison(io.P)
                io.poison(io.Q)
                io.put(io.P, P, "affine")
                snap = R.get(io.P, io.sz)
                dst = io.P if alias else io.Q
                r = R.call(fpck, dst, io.P)
                if not ctx.check(not r.caught, k + "|unexpected-error", {"err": r.err, "alias": alias}):
                    return
                u, bit, ok = io.get_packed(dst)
                exp = io.pc.bit_of(P[0], P[1])
                ctx.check(u == P[0] and bit == exp and ok, k + "|value", {"alias": alias, "u_ok": u == P[0], "bit": bit, "exp": exp, "ok": ok})
                if not alias:
                    ctx.check(R.get(io.P, io.sz) == snap, k + "|input-modified")
                io.poison(T)
                r = R.call(fupk, T if not alias else dst, dst)
                got, gok = io.get(T if not alias else dst)
                ctx.check(not r.caught and r.i == 1 and got == ("pt", P[0], P[1]) and gok, k + "|upk",
                          {"alias": alias, "ret": r.i, "caught": r.caught, "got": repr(got)[:300]})
        E.case("%s|%s|%s" % (fpck, io.label, cls), {"pt": repr(P)[:300], "set": io.setname}, body)
    for u in noroot:
        if not E.mine():
            continue

        def body(k, u=u):
            for bit in (0, 1):
                io.poison(io.Q)
                io.put_packed(io.Q, u, bit)
                io.poison(T)
                r = R.call(fupk, T, io.Q)
                ctx.check(r.caught or r.i == 0, k + "|returned-success", {"ret": r.i, "bit": bit})
        E.case("%s|%s|no-point" % (fupk, io.label), {"u": repr(u)[:200], "set": io.setname}, body)
    R.free(T)


class Ep2IO(PointIO):
    reps = ("affine", "projc", "jacob")

    def get_packed(self, P):
        K = self.R.K
        u, cu = self._get2(P + K["off_ep2_st_x"])
        y0 = self.R.fp_raw(P + K["off_ep2_st_y"])
        y1 = self.R.fp_raw(P + K["off_ep2_st_y"] + self.R.fp_sz)
        z, cz = self._get2(P + K["off_ep2_st_z"])
        return u, y0, cu and y1 == 0 and y0 in (0, 1) and z == (1, 0) and self.R.rd_int(P + K["off_ep2_st_coord"]) == K["BASIC"]

    def put_packed(self, P, u, bit):
        K = self.R.K
        self.raw_put(P, u, (0, 0), (1, 0), K["BASIC"])
        self.R.fp_put_raw(P + K["off_ep2_st_y"], bit)

    def __init__(self, E, pre, label, pc, F2):
        self.sz = E.R.K["sizeof_ep2_st"]
        self.unit = E.R.K["RLC_FP_BYTES"]
        self.F2 = F2
        PointIO.__init__(self, E, pre, label, pc)

    def _put2(self, addr, v):
        self.R.fp_put(addr, v[0])
        self.R.fp_put(addr + self.R.fp_sz, v[1])

    def _get2(self, addr):
        a, ca = self.R.fp_get(addr)
        b, cb = self.R.fp_get(addr + self.R.fp_sz)
        return (a, b), ca and cb

    def raw_put(self, P, x, y, z, coord):
        K = self.R.K
        self._put2(P + K["off_ep2_st_x"], x)
        self._put2(P + K["off_ep2_st_y"], y)
        self._put2(P + K["off_ep2_st_z"], z)
        self.R.wr_int(P + K["off_ep2_st_coord"], coord)

    def put(self, P, pt, rep="affine"):
        K, F, rng = self.R.K, self.F2, self.E.rng
        if pt is None:
            if rep == "affine":
                self.raw_put(P, F.zero, F.zero, F.zero, K["BASIC"])
            else:
                self.raw_put(P, (rng.randrange(F.p), 1), (2, rng.randrange(F.p)), F.zero, K["PROJC"] if rep == "projc" else K["JACOB"])
            return
        x, y = pt
        if rep == "affine":
            self.raw_put(P, x, y, F.one, K["BASIC"])
            return
        z = (rng.randrange(1, F.p), rng.randrange(F.p))
        if rep == "projc":
            self.raw_put(P, F.mul(x, z), F.mul(y, z), z, K["PROJC"])
        else:
            z2 = F.mul(z, z)
            self.raw_put(P, F.mul(x, z2), F.mul(y, F.mul(z2, z)), z, K["JACOB"])

    def get(self, P):
        K, F = self.R.K, self.F2
        x, cx = self._get2(P + K["off_ep2_st_x"])
        y, cy = self._get2(P + K["off_ep2_st_y"])
        z, cz = self._get2(P + K["off_ep2_st_z"])
        coord = self.R.rd_int(P + K["off_ep2_st_coord"])
        canon = cx and cy and cz
        if F.is_zero(z):
            return ("inf",), canon
        if coord == K["BASIC"]:
            return ("pt", x, y), canon and z == (1, 0)
        zi = F.inv(z)
        if coord == K["PROJC"]:
            return ("pt", F.mul(x, zi), F.mul(y, zi)), canon
        if coord == K["JACOB"]:
            zi2 = F.mul(zi, zi)
            return ("pt", F.mul(x, zi2), F.mul(y, F.mul(zi2, zi))), canon
        return ("bad", "coord=%d" % coord), False


def fp2_coord_vals(p, n):
    top = (1 << (8 * n)) - 1

    def f(kind):
        out = []
        base = [(0, "0"), (1, "1"), (p - 1, "p-1"), (p, "p"), (p + 1, "p+1"), ((1 << p.bit_length()) - 1, "2^bits-1"), (top, "all-ones"),
                ((p - 1) // 2, "half"), ((p + 1) // 2, "half")]
        for v, c in base:
            if v > top:
                continue
            out.append((v.to_bytes(n, "big") + (12345 % p).to_bytes(n, "big"), "c0:" + c))
            out.append(((98765 % p).to_bytes(n, "big") + v.to_bytes(n, "big"), "c1:" + c))
            if c in ("0", "p", "all-ones"):
                out.append((v.to_bytes(n, "big") + v.to_bytes(n, "big"), "both:" + c))
        return out
    return f


def run_px(E):
    import ctypes
    ctx, R, rng = E.ctx, E.R, E.rng
    K = R.K
    quick = ctx.quick
    names = R.pairing_names()
    E.notes["parameter_sets"] = names
    for name in names:
        prm = R.pairing_set(name)
        p, n = R.p, K["RLC_FP_BYTES"]
        qnr = R.L.fp_prime_get_qnr()
        F2 = codec.Fp2Coord(p, n, qnr)
        half = (p - 1) // 2
        kind = "twist"

        def rd2(ptr):
            return (R.fp_get(ptr)[0], R.fp_get(ptr + R.fp_sz)[0])
        R.L.ep2_curve_get_a.restype = ctypes.c_void_p
        R.L.ep2_curve_get_b.restype = ctypes.c_void_p
        a2, b2 = rd2(R.L.ep2_curve_get_a()), rd2(R.L.ep2_curve_get_b())

        def bit2(y):
            t = y[1] if y[1] % p else y[0]
            return 1 if t % p > half else 0
        curve = codec.WeierCodec(F2, a2, b2, bit2, ext=True)
        pc = codec.PointCodec(curve)
        io = Ep2IO(E, "ep2", kind, pc, F2)
        io.setname = name
        R.call("ep2_curve_get_gen", io.P)
        g, ok = io.get(io.P)
        if g[0] != "pt" or not curve.on_curve(g[1], g[2]):
            ctx.fail("ep2|%s|generator-off-model-curve" % name, {"a": repr(a2), "b": repr(b2), "gen": repr(g)[:300]})
            continue
        G = (g[1], g[2])
        W = WCurve(F2, a2, b2)
        members = [G, W.mul(2, G)]
        for _ in range(4 if quick else 16):
            members.append(W.mul(rng.randrange(3, 1 << 16), G))
        others = []
        while len(others) < (5 if quick else 20):
            x = (rng.randrange(p), rng.randrange(p))
            y = curve.solve(x, rng.randrange(2))
            if y is not None:
                others.append((x, y))
        special = [("neutral-trailing", bytes(1 + 2 * n)), ("neutral-trailing", bytes(1 + 4 * n)), ("neutral-trailing", bytes(2))]
        # points whose ordinate lies in Fp (y1 = 0): x^3 + b = c^2 with c in Fp (twists here have a = 0)
        y1zero = []
        if F2.is_zero(a2):
            tries = 0
            while len(y1zero) < 2 and tries < 40:
                tries += 1
                c = rng.randrange(1, p)
                x = codec.fp2_cbrt(F2, F2.sub((c * c % p, 0), b2), rng)
                if x is not None and curve.on_curve(x, (c, 0)):
                    y1zero.append((x, (c, 0)))
                    y1zero.append((x, (p - c, 0)))
        E.notes.setdefault("ep2_points_with_y1_zero", {})[name] = len(y1zero)
        for pre in ("ep2", "g2"):
            io2 = Ep2IO(E, pre, kind, pc, F2)
            io2.setname = name
            point_suite(io2, members, others, special, False, None, fp2_coord_vals(p, n), quick or pre == "g2")
            if pre == "ep2":
                pck_suite(io2, [("member", P) for P in members[:5]] + [("on-curve", P) for P in others[:3]] +
                          [("y1=0|" + ("y0>half" if P[1][0] > half else "y0<=half"), P) for P in y1zero],
                          no_point_coords(pc, lambda: (rng.randrange(p), rng.randrange(p)), 3))
            # directed class: ordinate in Fp
            for P in y1zero:
                cls = "y1=0|" + ("y0>half" if P[1][0] > half else "y0<=half")
                if E.mine():
                    write_case(io2, cls, P, "affine")
                if E.mine():
                    read_case(io2, cls + "|pack", pc.encode(P, 1), lambda m: True)
                if E.mine():
                    read_case(io2, cls + "|full", pc.encode(P, 0), lambda m: True)
            R.free(io2.P)
            R.free(io2.Q)
        R.free(io.P)
        R.free(io.Q)
        run_fp2_packed(E, name, F2)
        run_fp12_gt(E, name, F2)



# ==================================================================================== binary fields and curves
class EbIO(PointIO):
    reps = ("affine", "projc")

    def get_packed(self, P):
        K = self.R.K
        x, y, z = (self._get(P + K["off_eb_st_" + c]) for c in "xyz")
        return x, y, y in (0, 1) and z == 1 and self.R.rd_int(P + K["off_eb_st_coord"]) == K["BASIC"]

    def put_packed(self, P, u, bit):
        self.raw_put(P, u, bit, 1, self.R.K["BASIC"])

    def __init__(self, E, pre, label, pc, G2m):
        K = E.R.K
        self.sz = K["sizeof_eb_st"]
        self.G = G2m
        self.nd = K["RLC_FB_DIGS"] * E.R.DB
        PointIO.__init__(self, E, pre, label, pc)

    def _put(self, addr, v):
        import ctypes
        ctypes.memmove(addr, v.to_bytes(self.nd, "little"), self.nd)

    def _get(self, addr):
        return int.from_bytes(self.R.get(addr, self.nd), "little")

    def raw_put(self, P, x, y, z, coord):
        K = self.R.K
        self._put(P + K["off_eb_st_x"], x)
        self._put(P + K["off_eb_st_y"], y)
        self._put(P + K["off_eb_st_z"], z)
        self.R.wr_int(P + K["off_eb_st_coord"], coord)

    def put(self, P, pt, rep="affine"):
        K, G, rng = self.R.K, self.G, self.E.rng
        if pt is None:
            if rep == "affine":
                self.raw_put(P, 0, 0, 0, K["BASIC"])
            else:
                self.raw_put(P, rng.getrandbits(G.m), rng.getrandbits(G.m), 0, K["PROJC"])
            return
        x, y = pt
        if rep == "affine":
            self.raw_put(P, x, y, 1, K["BASIC"])
        else:                                   # Lopez-Dahab: x = X/Z, y = Y/Z^2
            z = rng.getrandbits(G.m) | 2
            self.raw_put(P, G.mul(x, z), G.mul(y, G.sqr(z)), z, K["PROJC"])

    def get(self, P):
        K, G = self.R.K, self.G
        x, y, z = (self._get(P + K["off_eb_st_" + c]) for c in "xyz")
        coord = self.R.rd_int(P + K["off_eb_st_coord"])
        canon = (x >> G.m) == 0 and (y >> G.m) == 0 and (z >> G.m) == 0
        if z == 0:
            return ("inf",), canon
        if coord == K["BASIC"]:
            return ("pt", x, y), canon and z == 1
        if coord == K["PROJC"]:
            zi = G.inv(z)
            return ("pt", G.mul(x, zi), G.mul(y, G.sqr(zi))), canon
        return ("bad", "coord=%d" % coord), False


def run_eb(E):
    import ctypes
    ctx, R, rng = E.ctx, E.R, E.rng
    K = R.K
    quick = ctx.quick
    if not R.has("eb_param_set"):
        E.notes["functions_not_built"] = ["eb_*"]
        return
    n = K["RLC_FB_BYTES"]
    m = K["RLC_FB_BITS"]
    nd = K["RLC_FB_DIGS"] * R.DB
    R.L.fb_poly_get.restype = ctypes.c_void_p
    R.L.eb_curve_get_a.restype = ctypes.c_void_p
    R.L.eb_curve_get_b.restype = ctypes.c_void_p
    names = []
    for nm, v in R.EH.get("relic_eb.h", {}).items():
        r = R.call("eb_param_set", v)
        if not r.caught:
            names.append(nm)
    E.notes["parameter_sets"] = names
    top = (1 << (8 * n)) - 1
    for name in names:
        R.call("eb_param_set", R.E[name])
        f = int.from_bytes(R.get(R.L.fb_poly_get(), nd), "little")
        G = codec.GF2m(f)
        if G.m != m:
            ctx.fail("fb|%s|polynomial-degree" % name, {"f": hx(f)})
            continue
        E.notes.setdefault("field_polynomial", {})[name] = hx(f)
        a = int.from_bytes(R.get(R.L.eb_curve_get_a(), nd), "little")
        b = int.from_bytes(R.get(R.L.eb_curve_get_b(), nd), "little")
        curve = codec.BinaryCodec(G, a, b)
        pc = codec.PointCodec(curve)
        io = EbIO(E, "eb", "kbltz" if b == 1 else "plain", pc, G)
        io.setname = name
        R.call("eb_curve_get_gen", io.P)
        g, ok = io.get(io.P)
        if g[0] != "pt" or not curve.on_curve(g[1], g[2]):
            ctx.fail("eb|%s|generator-off-model-curve" % name, {"a": hx(a), "b": hx(b)})
            continue
        Gp = (g[1], g[2])
        members = [Gp, codec.scalar_mul(curve, 2, Gp)]
        for _ in range(4 if quick else 20):
            members.append(codec.scalar_mul(curve, rng.randrange(3, 1 << 12), Gp))
        others = []
        while len(others) < (4 if quick else 20):
            x = rng.getrandbits(m)
            y = curve.solve(x, rng.randrange(2))
            if y is not None:
                others.append((x, y))

        def coord_vals(kind):
            vals = [(0, "0"), (1, "1"), (2, "small"), ((1 << m) - 1, "max"), (1 << (m - 1), "top-bit"), (1 << m, "deg=m"),
                    ((1 << m) | 1, "deg=m"), (1 << (8 * n - 1), "deg>m"), (top, "all-ones")]
            return [(v.to_bytes(n, "big"), c) for v, c in vals]
        sb = curve.sqrt(b)
        special = [("neutral-trailing", bytes(1 + n)), ("neutral-trailing", bytes(1 + 2 * n)), ("neutral-trailing", bytes(2)),
                   ("x=0|full", b"\x04" + bytes(n) + sb.to_bytes(n, "big")), ("x=0|pack-bit0", b"\x02" + bytes(n)),
                   ("x=0|pack-bit1", b"\x03" + bytes(n))]
        for P in members[:2]:
            for hi in (1 << m, 1 << (8 * n - 1)):
                special.append(("u-unreduced", b"\x04" + (P[0] | hi).to_bytes(n, "big") + P[1].to_bytes(n, "big")))
                special.append(("u-unreduced", bytes([2 | curve.bit(*P)]) + (P[0] | hi).to_bytes(n, "big")))
                special.append(("v-unreduced", b"\x04" + P[0].to_bytes(n, "big") + (P[1] | hi).to_bytes(n, "big")))
        point_suite(io, members, others, special, False, 1 << m, coord_vals, quick)
        pck_suite(io, [("member", P) for P in members[:5]] + [("on-curve", P) for P in others[:3]] + [("x=0", (0, sb))],
                  no_point_coords(pc, lambda: rng.getrandbits(m) | 1, 3))
        if E.mine():
            write_case(io, "x=0", (0, sb), "affine")
        R.free(io.P)
        R.free(io.Q)

        # ------------------------------------------------------------------------- fb_* on this field
        x = R.mem(K["sizeof_fb_st"], 0)
        y = R.mem(K["sizeof_fb_st"], 0)

        def fput(addr, v):
            ctypes.memmove(addr, v.to_bytes(nd, "little"), nd)

        def fget(addr):
            return int.from_bytes(R.get(addr, nd), "little")

        def fb_read(cls, bs, prior=None):
            def body(k):
                fput(x, (1 << (8 * nd)) - 1 if prior is None else prior)
                pb = E.put(bs)
                r = R.call("fb_read_bin", x, pb, len(bs))
                v = int.from_bytes(bs, "big")
                ok_ = len(bs) == n and (v >> m) == 0
                if not ok_:
                    ctx.check(r.caught, k + "|accepted", {"len": len(bs), "decoded": hx(fget(x))})
                    return
                if not ctx.check(not r.caught, k + "|rejected", {"err": r.err}):
                    return
                ctx.check(fget(x) == v, k + "|decoded-value", {"got": hx(fget(x))})
                out = E.mem(n)
                w = R.call("fb_write_bin", out, n, x)
                ctx.check(not w.caught and R.get(out, n) == bs, k + "|reencode")
            E.case("fb_read_bin|%s" % cls, {"bytes": bs.hex(), "set": name}, body)

        for v, c in [(0, "zero"), (1, "small"), ((1 << m) - 1, "max"), (1 << (m - 1), "top-bit"), (1 << m, "deg=m"),
                     ((1 << m) + 5, "deg=m"), (1 << (m + 1), "deg>m"), (1 << (8 * n - 1), "deg>m"), (top, "all-ones")]:
            if E.mine():
                fb_read(("unreduced|" if v >> m else "reduced|") + c, v.to_bytes(n, "big"))
        for _ in range(ctx.n(20, 200)):
            if E.mine():
                fb_read("reduced|random", rng.getrandbits(m).to_bytes(n, "big"))
            if E.mine():
                fb_read("unreduced|random", (rng.getrandbits(8 * n) | (1 << rng.randrange(m, 8 * n))).to_bytes(n, "big"))
        for ln in list(range(0, n + 3)) + [2 * n]:
            if ln != n and E.mine():
                fb_read("len", (rng.getrandbits(m).to_bytes(n, "big") * 2)[n - min(ln, n):][:ln] if ln else b"")
        for _ in range(ctx.n(2, 10)):              # the output already holds the element the bytes start / end with
            v = rng.getrandbits(m)
            vb = v.to_bytes(n, "big")
            for ln in (0, 1, n - 1, n + 1, 2 * n - 1, 2 * n, 2 * n + 1, 3 * n, 4 * n):
                if E.mine():
                    fb_read("len|out=same", (vb + rng.getrandbits(8 * 3 * n).to_bytes(3 * n, "big"))[:ln], prior=v)
                if ln > n and E.mine():
                    fb_read("len|out=same", bytes(ln - n) + vb, prior=v)
            if E.mine():
                fb_read("reduced|random|out=other", vb, prior=rng.getrandbits(m))

        def fb_write(cls, v):
            def body(k):
                fput(x, v)
                out = E.mem(n)
                w = R.call("fb_write_bin", out, n, x)
                if ctx.check(not w.caught, k + "|unexpected-error", {"err": w.err}):
                    ctx.check(R.get(out, n) == v.to_bytes(n, "big"), k + "|value", {"got": R.get(out, n).hex()})
                    rr = R.call("fb_read_bin", y, out, n)
                    ctx.check(not rr.caught and fget(y) == v, k + "|roundtrip")
                for ln in (0, n - 1, n + 1, 2 * n):
                    o2 = E.mem(ln)
                    w = R.call("fb_write_bin", o2, ln, x)
                    ctx.check(w.caught, k + "|wrong-length-accepted", {"len": ln})
                ctx.check(fget(x) == v, k + "|input-modified")
            E.case("fb_write_bin|%s" % cls, {"v": hx(v), "set": name}, body)

        for v, c in [(0, "zero"), (1, "small"), ((1 << m) - 1, "max"), (1 << (m - 1), "top-bit")] + \
                [(rng.getrandbits(m), "random") for _ in range(ctx.n(10, 100))]:
            if E.mine():
                fb_write(c, v)

        def fb_str(cls, v, radix):
            pow2 = radix in (2, 4, 8, 16, 32, 64)

            def body(k):
                fput(x, v)
                s_ = codec.int_to_str(v, radix).encode() if 2 <= radix <= 64 else b"101"
                need = len(s_) + 1
                r = R.call("fb_size_str", x, radix)
                out = E.mem(need + 8)
                w = R.call("fb_write_str", out, need + 8, x, radix)
                ps = E.put(s_)
                rr = R.call("fb_read_str", y, ps, len(s_), radix)
                if not pow2:
                    ctx.check(r.caught, k + "|size_str-accepted", {"ret": r.r})
                    ctx.check(w.caught, k + "|write_str-accepted")
                    ctx.check(rr.caught, k + "|read_str-accepted")
                    return
                ctx.check(not r.caught and r.r == need, k + "|size_str", {"got": r.r, "exp": need})
                ctx.check(not w.caught and R.get(out, need) == s_ + b"\x00", k + "|value", {"got": R.get(out, need).hex(), "exp": s_.decode()})
                ctx.check(not rr.caught and fget(y) == v, k + "|roundtrip", {"caught": rr.caught, "got": hx(fget(y))})
                o1 = E.mem(need)
                w1 = R.call("fb_write_str", o1, need, x, radix)
                ctx.check(not w1.caught and R.get(o1, need) == s_ + b"\x00", k + "|exact-buffer", {"caught": w1.caught})
                o2 = E.mem(need - 1)
                w2 = R.call("fb_write_str", o2, need - 1, x, radix)
                ctx.check(w2.caught, k + "|short-buffer-accepted", {"len": need - 1})
            E.case("fb_str|%s|%s" % ("pow2-radix" if pow2 else "invalid-radix", cls), {"v": hx(v), "radix": radix, "set": name}, body)

        for radix in (2, 4, 8, 16, 32, 64, 0, 1, 3, 10, 36, 63, 65, 128, 256):
            for v, c in [(0, "zero"), (1, "small"), (radix if radix > 1 else 2, "radix-power"), ((1 << m) - 1, "max"), (1 << (m - 1), "top-bit"),
                         (rng.getrandbits(m), "random"), (rng.getrandbits(64), "one-digit"), (1 << 64, "digit-boundary")]:
                if E.mine():
                    fb_str(c, v, radix)
        for radix in (2, 16, 64):
            if not E.mine():
                continue

            def body(k, radix=radix):
                s_ = codec.int_to_str(1 << m, radix).encode()
                ps = E.put(s_)
                rr = R.call("fb_read_str", y, ps, len(s_), radix)
                ctx.check(rr.caught, k + "|accepted", {"decoded": hx(fget(y))})
            E.case("fb_read_str|deg=m", {"radix": radix, "set": name}, body)
        R.free(x)
        R.free(y)


# ================================================================================================ Edwards curve
class EdIO(PointIO):
    reps = ("affine", "projc")

    def get_packed(self, P):
        K, R = self.R.K, self.R
        y, cy = R.fp_get(P + K["off_ed_st_y"])
        raw = R.fp_raw(P + K["off_ed_st_x"])
        z, cz = R.fp_get(P + K["off_ed_st_z"])
        return y, raw, cy and raw in (0, 1) and z == 1 and R.rd_int(P + K["off_ed_st_coord"]) == K["BASIC"]

    def put_packed(self, P, u, bit):
        K, R = self.R.K, self.R
        self.raw_put(P, 0, u, 1, 0, K["BASIC"])
        R.fp_put_raw(P + K["off_ed_st_x"], bit)

    def __init__(self, E, pre, label, pc, p):
        self.sz = E.R.K["sizeof_ed_st"]
        self.p = p
        PointIO.__init__(self, E, pre, label, pc)

    def raw_put(self, P, x, y, z, t, coord):
        K, R = self.R.K, self.R
        R.fp_put(P + K["off_ed_st_x"], x)
        R.fp_put(P + K["off_ed_st_y"], y)
        R.fp_put(P + K["off_ed_st_z"], z)
        R.fp_put(P + K["off_ed_st_t"], t)
        R.wr_int(P + K["off_ed_st_coord"], coord)

    def put(self, P, pt, rep="affine"):
        K, p = self.R.K, self.p
        y, x = pt if pt is not None else (1, 0)         # wire order is (y, x)
        if rep == "affine":
            self.raw_put(P, x, y, 1, x * y, K["BASIC"])
        else:
            z = self.E.rng.randrange(2, p)
            self.raw_put(P, x * z, y * z, z, x * y * z, K["PROJC"])

    def get(self, P):
        K, R, p = self.R.K, self.R, self.p
        x, cx = R.fp_get(P + K["off_ed_st_x"])
        y, cy = R.fp_get(P + K["off_ed_st_y"])
        z, cz = R.fp_get(P + K["off_ed_st_z"])
        coord = R.rd_int(P + K["off_ed_st_coord"])
        canon = cx and cy and cz
        if z == 0:
            return ("bad", "z=0"), False
        if coord == K["BASIC"]:
            ok = canon and z == 1
        else:
            zi = pow(z, -1, p)
            x, y = x * zi % p, y * zi % p
            ok = canon
        if x == 0 and y == 1:
            return ("inf",), ok
        return ("pt", y, x), ok


def run_ed(E):
    ctx, R, rng = E.ctx, E.R, E.rng
    K = R.K
    quick = ctx.quick
    if not R.has("ed_param_set"):
        E.notes["functions_not_built"] = ["ed_*"]
        return
    r = R.call("ed_param_set", R.E["CURVE_ED25519"])
    if r.caught:
        E.notes["parameter_sets"] = []
        return
    E.notes["parameter_sets"] = ["CURVE_ED25519"]
    p = R.fp_setup()
    n = K["RLC_FP_BYTES"]
    if p != 2 ** 255 - 19:
        ctx.fail("ed|CURVE_ED25519|unexpected-prime", {"p": hx(p)})
        return
    mont = R.mont
    d = -121665 * pow(121666, -1, p) % p               # RFC 8032: a = -1, d = -121665/121666
    curve = codec.EdwardsCodec(codec.PrimeCoord(p, n), p - 1, d, lambda x: (x * mont % p) & 1)
    pc = codec.PointCodec(curve)
    io = EdIO(E, "ed", "ed25519", pc, p)
    io.setname = "CURVE_ED25519"
    R.call("ed_curve_get_gen", io.P)
    g, ok = io.get(io.P)
    if g[0] != "pt" or not curve.on_curve(g[1], g[2]) or g[1] != 4 * pow(5, -1, p) % p:
        ctx.fail("ed|CURVE_ED25519|generator-is-not-the-RFC-8032-base-point", {"gen": repr(g)})
        return
    Gp = (g[1], g[2])
    members = [Gp, codec.scalar_mul(curve, 2, Gp)]
    for _ in range(6 if quick else 30):
        members.append(codec.scalar_mul(curve, rng.randrange(3, 1 << 253), Gp))
    others = []
    while len(others) < (6 if quick else 30):
        y = rng.randrange(p)
        x = curve.solve(y, rng.randrange(2))
        if x is not None and not curve.is_neutral(y, x):
            others.append((y, x))
    one = (1).to_bytes(n, "big")
    m1 = (p - 1).to_bytes(n, "big")
    special = [("neutral-trailing", bytes(1 + n)), ("neutral-trailing", bytes(1 + 2 * n)), ("neutral-trailing", bytes(2)),
               ("neutral-as-point|pack-bit0", b"\x02" + one), ("neutral-as-point|pack-bit1", b"\x03" + one),
               ("neutral-as-point|full", b"\x04" + one + bytes(n)),
               ("order2|pack-bit0", b"\x02" + m1), ("order2|pack-bit1", b"\x03" + m1), ("order2|full", b"\x04" + m1 + bytes(n))]
    i4 = sqrt_mod(p - 1, p)                              # points of order four: (x, y) = (+-sqrt(-1), 0)
    for xv in (i4, p - i4):
        special += [("order4|full", b"\x04" + bytes(n) + xv.to_bytes(n, "big")),
                    ("order4|pack", bytes([2 | curve.bit(xv)]) + bytes(n))]
    for P in members[:3]:
        y, x = P
        if y + p < (1 << (8 * n)):
            special.append(("u=y+p", b"\x04" + (y + p).to_bytes(n, "big") + x.to_bytes(n, "big")))
            special.append(("u=y+p", bytes([2 | curve.bit(x)]) + (y + p).to_bytes(n, "big")))
        if x + p < (1 << (8 * n)):
            special.append(("v=x+p", b"\x04" + y.to_bytes(n, "big") + (x + p).to_bytes(n, "big")))
    point_suite(io, members, others, special, False, p, prime_coord_vals(p, n), quick)
    pck_suite(io, [("member", P) for P in members[:6]] + [("on-curve", P) for P in others[:3]] +
              [("order2", (p - 1, 0)), ("order4", (0, i4))], no_point_coords(pc, lambda: rng.randrange(p), 4))
    E.notes["compression_bit_rule"] = {"CURVE_ED25519": "lsb(x*R mod p)"}


def run_fp2_packed(E, name, F2):
    """compressed form of norm-1 elements of Fp2: a0 || sign byte (n + 1 bytes)"""
    ctx, R, rng = E.ctx, E.R, E.rng
    p, n, beta = F2.p, F2.nb, F2.beta
    mont = R.mont
    top = (1 << (8 * n)) - 1
    x = R.fpx_new(2)
    y = R.fpx_new(2)
    lab = "packed:u^2=%d" % (beta if beta < p // 2 else beta - p)

    def bit(a1):
        return (a1 * mont % p) & 1

    def decode(bs):
        """-> ([a0, a1] or None, reason)"""
        if len(bs) != n + 1:
            return None, "len"
        a0 = int.from_bytes(bs[:n], "big")
        if a0 >= p:
            return None, "a0>=p"
        if bs[n] not in (0, 1):
            return None, "sign-byte>1"
        a1 = sqrt_mod((a0 * a0 - 1) * pow(beta, -1, p) % p, p)      # a0^2 - beta a1^2 = 1
        if a1 is None:
            return None, "no-root"
        if bit(a1) != bs[n]:
            a1 = -a1 % p
        if bit(a1) != bs[n]:
            return None, "a1=0-bit1"
        return [a0, a1], "ok"

    def rd(cls, bs, prior=None):
        m, why = decode(bs)

        def body(k):
            R.fp_put_raw(x, top)
            R.fp_put_raw(x + R.fp_sz, top)
            if prior is not None:
                R.fpx_put(x, list(prior))
            pb = E.put(bs)
            r = R.call("fp2_read_bin", x, pb, len(bs))
            if m is None:
                ctx.check(r.caught, k + "|accepted", {"decoded": repr(R.fpx_get(x, 2))})
                return
            if not ctx.check(not r.caught, k + "|rejected", {"err": r.err}):
                return
            got, canon = R.fpx_get(x, 2)
            ctx.check(got == m, k + "|decoded-value", {"got": [hx(g) for g in got], "exp": [hx(g) for g in m]})
            ctx.check(canon, k + "|decoded-not-reduced")
            out = E.mem(n + 1)
            w = R.call("fp2_write_bin", out, n + 1, x, 1)
            ctx.check(not w.caught and R.get(out, n + 1) == bs, k + "|reencode", {"caught": w.caught, "got": R.get(out, n + 1).hex()})
        E.case("fp2_read_bin|%s|%s|%s" % (lab, cls, why), {"bytes": bs.hex(), "set": name}, body)

    def wr(cls, el, unit):
        def body(k):
            R.fpx_put(x, list(el))
            exp = {0: F2.enc(el), 1: (el[0].to_bytes(n, "big") + bytes([bit(el[1])])) if unit else F2.enc(el)}
            for pack in (0, 1):
                kk = k + ("|pack" if pack else "|full")
                e = exp[pack]
                r = R.call("fp2_size_bin", x, pack)
                ctx.check(not r.caught and r.i == len(e), kk + "|size_bin", {"got": r.i, "exp": len(e)})
                out = E.mem(len(e))
                w = R.call("fp2_write_bin", out, len(e), x, pack)
                if ctx.check(not w.caught, kk + "|unexpected-error", {"err": w.err}):
                    ctx.check(R.get(out, len(e)) == e, kk + "|value", {"got": R.get(out, len(e)).hex(), "exp": e.hex()})
                    rr = R.call("fp2_read_bin", y, out, len(e))
                    ctx.check(not rr.caught and R.fpx_get(y, 2) == (list(el), True), kk + "|roundtrip",
                              {"caught": rr.caught, "got": repr(R.fpx_get(y, 2))})
                o2 = E.mem(len(e) - 1)
                w = R.call("fp2_write_bin", o2, len(e) - 1, x, pack)
                ctx.check(w.caught, kk + "|short-buffer-accepted", {"len": len(e) - 1})
        E.case("fp2_write_bin|%s|%s" % (lab, cls), {"el": [hx(c) for c in el], "set": name}, body)

    units = []
    for _ in range(6 if ctx.quick else 30):
        w = (rng.randrange(1, p), rng.randrange(1, p))
        units.append(F2.mul(w, F2.inv((w[0], -w[1] % p))))
    units += [(1, 0), (p - 1, 0)]
    a1 = sqrt_mod(-pow(beta, -1, p) % p, p)
    if a1 is not None:
        units += [(0, a1), (0, p - a1)]
    for i, u in enumerate(units):
        assert (u[0] * u[0] - beta * u[1] * u[1]) % p == 1
        cls = "norm1" if i < len(units) - 4 else ("a1=0" if u[1] == 0 else "a0=0")
        if E.mine():
            wr(cls, u, True)
        enc = u[0].to_bytes(n, "big") + bytes([bit(u[1])])
        if E.mine():
            rd("valid", enc)
        if E.mine():
            rd("sign-flipped", enc[:n] + bytes([enc[n] ^ 1]))
        if i < 2 or cls != "norm1":
            for b in range(2, 256):
                if E.mine():
                    rd("sign-byte", enc[:n] + bytes([b]))
        if i < 2:
            # a0 || sign || junk and truncations (2n is the unpacked length, not a wrong one), into an output that holds
            # a poison pattern / the element itself / its conjugate
            conj = (u[0], -u[1] % p)
            for prior, tag in ((None, ""), (u, "|out=same"), (conj, "|out=conjugate")):
                for ln in (0, 1, n - 1, n, n + 2, 2 * n - 1, 2 * n + 1, 2 * n + 2, 3 * n, 3 * n + 1, 4 * n, 4 * n + 1):
                    if E.mine():
                        rd("len" + tag, (enc + rng.getrandbits(8 * 4 * n).to_bytes(4 * n, "big"))[:ln], prior=prior)
                if prior is not None:
                    if E.mine():
                        rd("valid" + tag, enc, prior=prior)
                    if E.mine():
                        rd("sign-flipped" + tag, enc[:n] + bytes([enc[n] ^ 1]), prior=prior)
    for _ in range(4 if ctx.quick else 20):
        if E.mine():
            wr("not-norm1", (rng.randrange(p), rng.randrange(p)), False)

    def pk(cls, el, unit):
        def body(k):
            R.fpx_put(x, list(el))
            r = R.call("fp2_pck", y, x)
            if not ctx.check(not r.caught, k + "|unexpected-error", {"err": r.err}):
                return
            if unit:
                a0 = R.fp_get(y)
                raw = R.fp_raw(y + R.fp_sz)
                ctx.check(a0 == (el[0], True) and raw == bit(el[1]), k + "|value", {"a0": repr(a0), "bit": raw, "exp": bit(el[1])})
            else:
                ctx.check(R.fpx_get(y, 2) == (list(el), True), k + "|value", {"got": repr(R.fpx_get(y, 2))})
            R.fp_put_raw(x, top)
            R.fp_put_raw(x + R.fp_sz, top)
            r = R.call("fp2_upk", x, y)
            ctx.check(not r.caught and r.i == 1 and R.fpx_get(x, 2) == (list(el), True), k + "|upk",
                      {"ret": r.i, "caught": r.caught, "got": repr(R.fpx_get(x, 2))})
        E.case("fp2_pck|%s|%s" % (lab, cls), {"el": [hx(c) for c in el], "set": name}, body)

    if R.has("fp2_pck") and R.has("fp2_upk"):
        for i, u in enumerate(units):
            if E.mine():
                pk("norm1" if i < len(units) - 4 else ("a1=0" if u[1] == 0 else "a0=0"), u, True)
        for _ in range(3):
            if E.mine():
                pk("not-norm1", (rng.randrange(p), rng.randrange(2, p)), False)
        cnt = 0
        while cnt < 4:
            a0 = rng.randrange(p)
            if sqrt_mod((a0 * a0 - 1) * pow(beta, -1, p) % p, p) is not None:
                continue
            cnt += 1
            if not E.mine():
                continue

            def body(k, a0=a0):
                for b in (0, 1):
                    R.fp_put(y, a0)
                    R.fp_put_raw(y + R.fp_sz, b)
                    r = R.call("fp2_upk", x, y)
                    ctx.check(r.caught or r.i == 0, k + "|returned-success", {"ret": r.i})
            E.case("fp2_upk|%s|no-root" % lab, {"a0": hx(a0), "set": name}, body)
    for v, c in fp_boundary(p, n):
        for b in (0, 1):
            if E.mine():
                rd("a0-boundary", v.to_bytes(n, "big") + bytes([b]))
    found = 0
    while found < (8 if ctx.quick else 60):
        a0 = rng.randrange(p)
        has = sqrt_mod((a0 * a0 - 1) * pow(beta, -1, p) % p, p) is not None
        if has and rng.random() < 0.7:
            continue
        found += 1
        for b in (0, 1):
            if E.mine():
                rd("a0-random", a0.to_bytes(n, "big") + bytes([b]))
    R.free(x)
    R.free(y)


def run_fp12_gt(E, name, F2):
    """fp12 / gt: unpacked (12 coefficients) and cyclotomic-compressed (g2, g3, g4, g5 = 8 coefficients) forms"""
    from ..model.tower import Ext, PrimeField
    ctx, R, rng = E.ctx, E.R, E.rng
    p, n = F2.p, F2.nb
    top = (1 << (8 * n)) - 1
    Fp_ = PrimeField(p)
    T2 = Ext(Fp_, 2, F2.beta)
    # measure xi = v^3 in Fp6 = Fp2[v]
    v = R.fpx_new(6, [0, 0, 1, 0, 0, 0])
    c = R.fpx_new(6)
    R.call("fp6_sqr", c, v)
    R.call("fp6_mul", c, c, v)
    cube = R.fpx_get(c, 6)[0]
    R.free(v)
    R.free(c)
    if cube[2:] != [0, 0, 0, 0]:
        ctx.fail("fp12|%s|tower-not-binomial" % name, {"v^3": [hx(t) for t in cube]})
        return
    xi = (cube[0], cube[1])
    T6 = Ext(T2, 3, xi)
    T12 = Ext(T6, 2, T6.gen())
    E.notes.setdefault("tower", {})[name] = {"u^2": hx(F2.beta), "v^3": [hx(xi[0]), hx(xi[1])]}
    phi12 = p ** 4 - p ** 2 + 1
    PACK_IDX = [1, 2, 3, 5]          # fp2 slots a[0][1], a[0][2], a[1][0], a[1][2] of the flattened element

    def is_cyc(flat):
        return T12.eq(T12.pow(T12.unflatten(flat), phi12), T12.one)

    def enc_full(flat):
        return b"".join(t.to_bytes(n, "big") for t in flat)

    def enc_pack(flat):
        return b"".join(flat[2 * i].to_bytes(n, "big") + flat[2 * i + 1].to_bytes(n, "big") for i in PACK_IDX)

    x = R.fpx_new(12)
    y = R.fpx_new(12)
    # cyclotomic elements produced by the library (workload only), membership confirmed by the model
    cyc = []
    R.call("gt_get_gen", x)
    cyc.append(R.fpx_get(x, 12)[0])
    for _ in range(2 if ctx.quick else 8):
        R.fpx_put(y, [rng.randrange(p) for _ in range(12)])
        R.call("fp12_conv_cyc", x, y)
        cyc.append(R.fpx_get(x, 12)[0])
    good = []
    for fl in cyc:
        if is_cyc(fl) and fl != [1] + [0] * 11:
            good.append(fl)
        else:
            ctx.fail("fp12|%s|workload-element-not-cyclotomic" % name, {"el": [hx(t) for t in fl[:4]]})
    one = [1] + [0] * 11
    noncyc = [[rng.randrange(p) for _ in range(12)] for _ in range(2 if ctx.quick else 8)]

    z = R.fpx_new(12)

    def pk12(cls, flat, cyclo, fpck, fupk):
        def body(k):
            R.fpx_put(x, flat)
            snap = R.get(x, 12 * R.fp_sz)
            for i in range(12):
                R.fp_put_raw(y + i * R.fp_sz, top)
                R.fp_put_raw(z + i * R.fp_sz, top)
            r = R.call(fpck, y, x)
            if r.caught and fpck == "fp12_pck_max" and flat == one:
                # the unit has no maximum-rate (torus) compressed form: an error is a legitimate rejection, no verdict
                ctx.add("pck_max_unit_rejected", 1)
                return
            if not ctx.check(not r.caught, k + "|unexpected-error", {"err": r.err}):
                return
            got, canon = R.fpx_get(y, 12)
            if fpck == "fp12_pck":
                exp = list(flat)
                if cyclo:
                    exp[0] = exp[1] = exp[8] = exp[9] = 0           # a[0][0] and a[1][1] are dropped
                ctx.check(got == exp and canon, k + "|value", {"got": [hx(t) for t in got[:4]]})
            elif cyclo:
                ctx.check(got[6:] == [0] * 6 and canon, k + "|value", {"got": [hx(t) for t in got[6:]]})   # torus form: a[1] = 0
            ctx.check(R.get(x, 12 * R.fp_sz) == snap, k + "|input-modified")
            r = R.call(fupk, z, y)
            ctx.check(not r.caught and r.i == 1 and R.fpx_get(z, 12) == (flat, True), k + "|upk",
                      {"ret": r.i, "caught": r.caught, "got": [hx(t) for t in R.fpx_get(z, 12)[0][:4]]})
        E.case("%s|%s" % (fpck, cls), {"el": [hx(t) for t in flat[:4]], "set": name}, body)

    for fpck, fupk in (("fp12_pck", "fp12_upk"), ("fp12_pck_max", "fp12_upk_max")):
        if not (R.has(fpck) and R.has(fupk)):
            E.notes.setdefault("functions_not_built", []).append(fpck)
            continue
        for fl in good:
            if E.mine():
                pk12("cyclotomic", fl, True, fpck, fupk)
        if E.mine():
            pk12("unity", one, True, fpck, fupk)
        if E.mine():
            pk12("non-cyclotomic", noncyc[0], False, fpck, fupk)

    for pre in ("fp12", "gt"):
        def wr(cls, flat, cyclo, pre=pre):
            def body(k):
                R.fpx_put(x, flat)
                snap = R.get(x, 12 * R.fp_sz)
                for pack in (0, 1):
                    kk = k + ("|pack" if pack else "|full")
                    e = enc_pack(flat) if (pack and cyclo) else enc_full(flat)
                    r = R.call(pre + "_size_bin", x, pack)
                    ctx.check(not r.caught and r.i == len(e), kk + "|size_bin", {"got": r.i, "exp": len(e)})
                    out = E.mem(len(e))
                    w = R.call(pre + "_write_bin", out, len(e), x, pack)
                    if ctx.check(not w.caught, kk + "|unexpected-error", {"err": w.err, "len": len(e)}):
                        ctx.check(R.get(out, len(e)) == e, kk + "|value", {"got": R.get(out, len(e))[:96].hex()})
                        for i in range(12):
                            R.fp_put_raw(y + i * R.fp_sz, top)
                        rr = R.call(pre + "_read_bin", y, out, len(e))
                        if ctx.check(not rr.caught, kk + "|roundtrip-rejected", {"err": rr.err}):
                            ctx.check(R.fpx_get(y, 12) == (flat, True), kk + "|roundtrip", {"got": [hx(t) for t in R.fpx_get(y, 12)[0][:4]]})
                    o2 = E.mem(len(e) - 1)
                    w = R.call(pre + "_write_bin", o2, len(e) - 1, x, pack)
                    ctx.check(w.caught, kk + "|short-buffer-accepted", {"len": len(e) - 1})
                    ctx.check(R.get(x, 12 * R.fp_sz) == snap, kk + "|input-modified")
            E.case("%s_write_bin|%s" % (pre, cls), {"el": [hx(t) for t in flat[:4]], "set": name}, body)

        for fl in good:
            if E.mine():
                wr("cyclotomic", fl, True)
        if E.mine():
            wr("unity", one, True)
        for fl in noncyc:
            if E.mine():
                wr("non-cyclotomic", fl, False)

        def rd(cls, bs, expect, pre=pre, prior=None):
            """expect: flat list (must decode to it), 'reject', or 'may' (no demand on acceptance)"""
            def body(k):
                for i in range(12):
                    R.fp_put_raw(x + i * R.fp_sz, top)
                if prior is not None:
                    R.fpx_put(x, prior)
                pb = E.put(bs)
                r = R.call(pre + "_read_bin", x, pb, len(bs))
                if expect == "reject":
                    ctx.check(r.caught, k + "|accepted", {"len": len(bs)})
                    return
                if r.caught:
                    ctx.check(expect == "may", k + "|rejected", {"err": r.err})
                    return
                got, canon = R.fpx_get(x, 12)
                ctx.check(canon, k + "|decoded-not-reduced")
                if expect != "may":
                    ctx.check(got == expect, k + "|decoded-value", {"got": [hx(t) for t in got[:4]]})
                if len(bs) == 8 * n:
                    ctx.check(enc_pack(got) == bs, k + "|kept-coefficients")
                out = E.mem(len(bs))
                w = R.call(pre + "_write_bin", out, len(bs), x, 1 if len(bs) == 8 * n else 0)
                ctx.check(not w.caught and R.get(out, len(bs)) == bs, k + "|reencode", {"caught": w.caught})
            E.case("%s_read_bin|%s" % (pre, cls), {"bytes": bs[:96].hex(), "len": len(bs), "set": name}, body)

        for fl in good:
            if E.mine():
                rd("packed|valid", enc_pack(fl), fl)
            if E.mine():
                rd("full|valid", enc_full(fl), fl)
            for pos in range(8):
                for val, c in ((p, "coef=p"), (p + 1, "coef=p+1"), (top, "coef=all-ones"), (p - 1, "coef=p-1")):
                    if val > top or not E.mine():
                        continue
                    w = bytearray(enc_pack(fl))
                    w[pos * n:(pos + 1) * n] = val.to_bytes(n, "big")
                    rd("packed|" + c, bytes(w), "may" if val < p else "reject")
        if E.mine():
            rd("packed|unity", bytes(8 * n), one)
        if E.mine():
            rd("full|unity", enc_full(one), one)
        for _ in range(3 if ctx.quick else 20):
            if E.mine():
                rd("packed|random-reduced", b"".join(rng.randrange(p).to_bytes(n, "big") for _ in range(8)), "may")
            if E.mine():                  # g2 = g3 = 0, g4, g5 arbitrary: decompression divides by zero
                rd("packed|g2=g3=0", bytes(2 * n) + b"".join(rng.randrange(p).to_bytes(n, "big") for _ in range(2)) + bytes(2 * n) +
                   b"".join(rng.randrange(p).to_bytes(n, "big") for _ in range(2)), "may")
            if E.mine():
                rd("full|non-cyclotomic", enc_full(noncyc[0]), noncyc[0])
        for ln in sorted(set([0, 1, n, 4 * n, 8 * n - 1, 8 * n + 1, 8 * n - n, 8 * n + n, 12 * n - 1, 12 * n + 1, 12 * n + n, 16 * n, 24 * n])):
            if ln in (8 * n, 12 * n):
                continue
            if E.mine():
                rd("len", (enc_full(good[0] if good else one) * 3)[:ln], "reject")
        if good:
            # the output already holds the element the bytes start with (or another valid one)
            g0, g1 = good[0], good[-1]
            for ln in sorted(set([n, 4 * n, 8 * n - 1, 8 * n + 1, 9 * n, 10 * n, 12 * n - 1, 12 * n + 1, 13 * n, 16 * n, 20 * n, 24 * n, 36 * n])):
                if E.mine():
                    rd("len|full-ext|out=same", (enc_full(g0) * 3)[:ln], "reject", prior=g0)
                if E.mine():
                    rd("len|packed-ext|out=same", (enc_pack(g0) + enc_full(g1) * 3)[:ln], "reject", prior=g0)
            if E.mine():
                rd("packed|valid|out=other", enc_pack(g0), g0, prior=noncyc[0])
            if E.mine():
                rd("full|valid|out=other", enc_full(g0), g0, prior=noncyc[0])
            if E.mine():
                rd("packed|valid|out=same", enc_pack(g0), g0, prior=g0)
            for pos in range(8):
                if p + 1 <= top and E.mine():
                    w = bytearray(enc_pack(g0))
                    w[pos * n:(pos + 1) * n] = (int.from_bytes(w[pos * n:(pos + 1) * n], "big") + p).to_bytes(n, "big") \
                        if int.from_bytes(w[pos * n:(pos + 1) * n], "big") + p <= top else p.to_bytes(n, "big")
                    rd("packed|coef>=p|out=same", bytes(w), "reject", prior=g0)
    R.free(x)
    R.free(y)
    R.free(z)


# ========================================================================== independence of the selection history
def run_hist(E):
    """encodings must depend on (parameter set, object) only, not on which sets were selected earlier in the context"""
    import ctypes
    import hashlib
    ctx, R, rng = E.ctx, E.R, E.rng
    K = R.K
    sz_ctx = K["sizeof_ctx_t"]
    n = K["RLC_FP_BYTES"]
    sels = [("ep", nm) for nm, _ in R.ep_param_ids()]
    if R.has("eb_param_set"):
        for nm, v in R.EH.get("relic_eb.h", {}).items():
            if not R.call("eb_param_set", v).caught:
                sels.append(("eb", nm))
    if R.has("ed_param_set"):
        for nm, v in R.EH.get("relic_ed.h", {}).items():
            if not R.call("ed_param_set", v).caught:
                sels.append(("ed", nm))
    E.notes["parameter_sets"] = [nm for _, nm in sels]
    pairing = getattr(R, "TWIST_TYPE", {})

    def fixed(tag, mod):
        return int.from_bytes(hashlib.sha512(tag.encode()).digest(), "big") % mod

    def select(sel):
        kind, name = sel
        if kind == "ep":
            return set_prime_curve(R, name)
        r = R.call(kind + "_param_set", R.E[name])
        if r.caught:
            raise RuntimeError("%s_param_set(%s) failed" % (kind, name))
        if kind == "ed":
            R.fp_setup()
        return None

    def points_io(io, pts, writes, reads, prefix, ref_writes):
        """write every point in both forms; decode the reference bytes (the fresh ones, or our own in the fresh pass)"""
        for i, P in enumerate([None] + pts):
            for pack in (0, 1):
                form = "pack" if pack else "full"
                io.poison(io.P)
                io.put(io.P, P, "affine")
                sz = R.call(io.size, io.P, pack)
                ln = sz.r if not sz.caught and 0 < sz.r < 4096 else 1
                out = E.mem(ln)
                w = R.call(io.write, out, ln, io.P, pack)
                key = (io.write, form, i)
                writes[key] = None if w.caught else R.get(out, ln)
                exp = io.pc.encode(P, pack)
                ctx.check(writes[key] == exp, "%s|%s|value" % (prefix % io.write, form),
                          {"point": i, "got": writes[key].hex() if writes[key] else None, "exp": exp.hex()})
                src = (ref_writes or writes).get(key)
                if src is not None:
                    io.poison(io.Q)
                    rr = R.call(io.read, io.Q, E.put(src), len(src))
                    reads[(io.read, form, i)] = "error" if rr.caught else repr(io.get(io.Q))
                    want = repr(((("inf",) if P is None else ("pt", P[0], P[1])), True))
                    ctx.check(reads[(io.read, form, i)] == want, "%s|%s|decoded-value" % (prefix % io.read, form),
                              {"point": i, "got": reads[(io.read, form, i)][:300]})
        E.release()

    def observe(sel, ref, prefix, ref_obs=None):
        """-> (writes, reads); ref holds the models built in the fresh context"""
        kind, name = sel
        writes, reads = {}, {}
        rw = ref_obs[0] if ref_obs else None
        if kind == "ep":
            p = ref["p"]
            io = EpIO(E, "ep", name, ref["pc"], p)
            points_io(io, ref["pts"], writes, reads, prefix, rw)
            R.free(io.P)
            R.free(io.Q)
            # prime field and extension fields, unpacked
            a = R.fp_new()
            for i, v in enumerate(ref["fpvals"]):
                R.fp_put(a, v)
                out = E.mem(n)
                w = R.call("fp_write_bin", out, n, a)
                writes[("fp_write_bin", "full", i)] = None if w.caught else R.get(out, n)
                ctx.check(writes[("fp_write_bin", "full", i)] == v.to_bytes(n, "big"), "%s|full|value" % (prefix % "fp_write_bin"), {"v": hx(v)})
                rr = R.call("fp_read_bin", a, E.put(v.to_bytes(n, "big")), n)
                reads[("fp_read_bin", "full", i)] = "error" if rr.caught else repr(R.fp_get(a))
                ctx.check(reads[("fp_read_bin", "full", i)] == repr((v, True)), "%s|full|decoded-value" % (prefix % "fp_read_bin"), {"v": hx(v)})
            R.free(a)
            for deg, haspack in ((2, True), (3, False), (12, True)):
                cs = ref["fpx"][deg]
                x = R.fpx_new(deg, cs)
                out = E.mem(deg * n)
                fn = "fp%d_write_bin" % deg
                w = R.call(fn, *([out, deg * n, x] + ([0] if haspack else [])))
                exp = b"".join(c.to_bytes(n, "big") for c in cs)
                writes[(fn, "full", 0)] = None if w.caught else R.get(out, deg * n)
                ctx.check(writes[(fn, "full", 0)] == exp, "%s|full|value" % (prefix % fn), {"deg": deg})
                rr = R.call("fp%d_read_bin" % deg, x, E.put(exp), deg * n)
                reads[("fp%d_read_bin" % deg, "full", 0)] = "error" if rr.caught else repr(R.fpx_get(x, deg))
                ctx.check(reads[("fp%d_read_bin" % deg, "full", 0)] == repr((cs, True)), "%s|full|decoded-value" % (prefix % ("fp%d_read_bin" % deg)), {"deg": deg})
                R.free(x)
            E.release()
            if name in pairing and "pc2" in ref:
                io2 = Ep2IO(E, "ep2", name, ref["pc2"], ref["F2"])
                points_io(io2, ref["pts2"], writes, reads, prefix, rw)
                R.free(io2.P)
                R.free(io2.Q)
                # target group: the generator recorded in the fresh context, both forms, and back
                x = R.fpx_new(12, ref["gt"])
                y = R.fpx_new(12)
                for pack in (0, 1):
                    form = "pack" if pack else "full"
                    sz = R.call("gt_size_bin", x, pack)
                    ln = sz.i if not sz.caught and 0 < sz.i < 8192 else 1
                    out = E.mem(ln)
                    w = R.call("gt_write_bin", out, ln, x, pack)
                    writes[("gt_write_bin", form, 0)] = None if w.caught else R.get(out, ln)
                    src = (rw or writes).get(("gt_write_bin", form, 0))
                    if src is not None:
                        rr = R.call("gt_read_bin", y, E.put(src), len(src))
                        reads[("gt_read_bin", form, 0)] = "error" if rr.caught else repr(R.fpx_get(y, 12))
                        ctx.check(reads[("gt_read_bin", form, 0)] == repr((ref["gt"], True)), "%s|%s|decoded-value" % (prefix % "gt_read_bin", form))
                R.free(x)
                R.free(y)
                E.release()
        elif kind == "eb":
            io = EbIO(E, "eb", name, ref["pc"], ref["G"])
            points_io(io, ref["pts"], writes, reads, prefix, rw)
            R.free(io.P)
            R.free(io.Q)
            nb, nd = K["RLC_FB_BYTES"], K["RLC_FB_DIGS"] * R.DB
            x = R.mem(K["sizeof_fb_st"], 0)
            v = ref["fbval"]
            ctypes.memmove(x, v.to_bytes(nd, "little"), nd)
            out = E.mem(nb)
            w = R.call("fb_write_bin", out, nb, x)
            writes[("fb_write_bin", "full", 0)] = None if w.caught else R.get(out, nb)
            ctx.check(writes[("fb_write_bin", "full", 0)] == v.to_bytes(nb, "big"), "%s|full|value" % (prefix % "fb_write_bin"))
            rr = R.call("fb_read_bin", x, E.put(v.to_bytes(nb, "big")), nb)
            reads[("fb_read_bin", "full", 0)] = "error" if rr.caught else hx(int.from_bytes(R.get(x, nd), "little"))
            ctx.check(reads[("fb_read_bin", "full", 0)] == hx(v), "%s|full|decoded-value" % (prefix % "fb_read_bin"))
            R.free(x)
            E.release()
        else:
            io = EdIO(E, "ed", name, ref["pc"], ref["p"])
            points_io(io, ref["pts"], writes, reads, prefix, rw)
            R.free(io.P)
            R.free(io.Q)
        return writes, reads

    def build_ref(sel, prm):
        """models and fixed objects of one selection, from the state of the fresh context"""
        kind, name = sel
        ref = {}
        if kind == "ep":
            p = R.p
            bit, rule = ep_bit_rule(R, prm)
            curve = codec.WeierCodec(codec.PrimeCoord(p, n), prm["a"], prm["b"], bit)
            G = (prm["gx"], prm["gy"])
            if not curve.on_curve(*G):
                return None
            W = WCurve(Fp(p), prm["a"], prm["b"])
            ref.update(p=p, pc=codec.PointCodec(curve), rule=rule,
                       pts=[G, W.mul(2, G), W.mul(3, G), W.mul(fixed(name + "k1", 1 << 64), G), W.mul(fixed(name + "k2", 1 << 64), G),
                            W.mul(prm["n"] - 1, G)],
                       fpvals=[1, p - 1, fixed(name + "fp", p)],
                       fpx={d: [fixed("%s-fp%d-%d" % (name, d, i), p) for i in range(d)] for d in (2, 3, 12)})
            if name in pairing:
                qnr = R.L.fp_prime_get_qnr()
                F2 = codec.Fp2Coord(p, n, qnr)
                half = (p - 1) // 2
                R.L.ep2_curve_get_a.restype = ctypes.c_void_p
                R.L.ep2_curve_get_b.restype = ctypes.c_void_p

                def rd2(ptr):
                    return (R.fp_get(ptr)[0], R.fp_get(ptr + R.fp_sz)[0])
                a2, b2 = rd2(R.L.ep2_curve_get_a()), rd2(R.L.ep2_curve_get_b())

                def bit2(y):
                    t = y[1] if y[1] % p else y[0]
                    return 1 if t % p > half else 0
                c2 = codec.WeierCodec(F2, a2, b2, bit2, ext=True)
                pc2 = codec.PointCodec(c2)
                io2 = Ep2IO(E, "ep2", name, pc2, F2)
                R.call("ep2_curve_get_gen", io2.P)
                g, ok = io2.get(io2.P)
                R.free(io2.P)
                R.free(io2.Q)
                if g[0] == "pt" and c2.on_curve(g[1], g[2]):
                    G2 = (g[1], g[2])
                    W2 = WCurve(F2, a2, b2)
                    x = R.fpx_new(12)
                    R.call("gt_get_gen", x)
                    ref.update(F2=F2, pc2=pc2, pts2=[G2, W2.mul(2, G2), W2.mul(fixed(name + "k3", 1 << 20) + 3, G2)],
                               gt=R.fpx_get(x, 12)[0])
                    R.free(x)
        elif kind == "eb":
            nd = K["RLC_FB_DIGS"] * R.DB
            R.L.fb_poly_get.restype = ctypes.c_void_p
            R.L.eb_curve_get_a.restype = ctypes.c_void_p
            R.L.eb_curve_get_b.restype = ctypes.c_void_p
            G2m = codec.GF2m(int.from_bytes(R.get(R.L.fb_poly_get(), nd), "little"))
            a = int.from_bytes(R.get(R.L.eb_curve_get_a(), nd), "little")
            b = int.from_bytes(R.get(R.L.eb_curve_get_b(), nd), "little")
            curve = codec.BinaryCodec(G2m, a, b)
            pc = codec.PointCodec(curve)
            io = EbIO(E, "eb", name, pc, G2m)
            R.call("eb_curve_get_gen", io.P)
            g, ok = io.get(io.P)
            R.free(io.P)
            R.free(io.Q)
            if g[0] != "pt" or not curve.on_curve(g[1], g[2]):
                return None
            Gp = (g[1], g[2])
            ref.update(pc=pc, G=G2m, pts=[Gp, codec.scalar_mul(curve, 2, Gp), codec.scalar_mul(curve, 5, Gp),
                                           codec.scalar_mul(curve, fixed(name + "k", 1 << 12) + 7, Gp)],
                       fbval=fixed(name + "fb", 1 << G2m.m))
        else:
            p = R.p
            if p != 2 ** 255 - 19:
                return None
            mont = R.mont
            d = -121665 * pow(121666, -1, p) % p
            curve = codec.EdwardsCodec(codec.PrimeCoord(p, n), p - 1, d, lambda x: (x * mont % p) & 1)
            pc = codec.PointCodec(curve)
            io = EdIO(E, "ed", name, pc, p)
            R.call("ed_curve_get_gen", io.P)
            g, ok = io.get(io.P)
            R.free(io.P)
            R.free(io.Q)
            if g[0] != "pt" or not curve.on_curve(g[1], g[2]):
                return None
            Gp = (g[1], g[2])
            ref.update(p=p, pc=pc, pts=[Gp, codec.scalar_mul(curve, 2, Gp), codec.scalar_mul(curve, 3, Gp),
                                        codec.scalar_mul(curve, fixed(name + "k", 1 << 64), Gp)])
        return ref

    # ---- reference observations: one freshly initialised context per selection
    old = R.S.vf_core_get()
    refs, fresh = {}, {}
    for sel in sels:
        blk = R.mem(sz_ctx, 0)
        R.raw("core_set", blk)
        if R.L.core_init() != 0:
            raise RuntimeError("core_init in a fresh context failed")
        R.ctx = R.S.vf_core_get()
        try:
            if ctx.begin("fresh|%s" % sel[1], list(sel), budget=300):
                try:
                    prm = select(sel)
                    ref = build_ref(sel, prm)
                    if ref is None:
                        ctx.fail("fresh|%s|model-rejects-parameters" % sel[1])
                    else:
                        refs[sel] = ref
                        fresh[sel] = observe(sel, ref, "%s|" + sel[1] + "|fresh")
                except MonitorViolation as e:
                    ctx.fail(ctx.cur_key + "|" + e.kind, e.detail)
                finally:
                    ctx.end()
                    E.release()
        finally:
            R.L.core_clean()
            R.raw("core_set", old)
            R.ctx = old
            R.free(blk)
    E.notes["compression_bit_rule_fresh"] = {sel[1]: refs[sel]["rule"] for sel in refs if "rule" in refs[sel]}

    # ---- histories in the long-lived context
    targets = [sel for sel in sels if sel in fresh]
    hists = []
    for T in targets:
        for S in sels:
            hists.append([S, T])                      # every other selection (and the same one) immediately before
    for _ in range(ctx.n(12, 200)):
        T = rng.choice(targets)
        hists.append([rng.choice(sels) for _ in range(rng.randrange(2, 5))] + [T])
    for hi, hist in enumerate(hists):
        if not E.mine():
            continue
        T, S = hist[-1], hist[-2]
        if not ctx.begin("history|%s|after:%s" % (T[1], S[1]), [h[1] for h in hist], budget=300):
            continue
        try:
            for sel in hist[:-1]:
                select(sel)
                if sel in refs and rng.random() < 0.5:        # use the intermediate selection, not only select it
                    observe(sel, refs[sel], "%s|" + sel[1] + "|intermediate", fresh[sel])
            select(T)
            prefix = "%s|" + T[1] + "|after:" + S[1]
            w, r = observe(T, refs[T], prefix, fresh[T])
            fw, fr = fresh[T]
            for key in fw:
                ctx.check(w.get(key) == fw[key], "%s|%s|bytes-differ-from-fresh" % (prefix % key[0], key[1]),
                          {"object": key[2], "history": [h[1] for h in hist], "got": w[key].hex() if w.get(key) else None,
                           "fresh": fw[key].hex() if fw[key] else None})
            for key in fr:
                ctx.check(r.get(key) == fr[key], "%s|%s|decoded-differs-from-fresh" % (prefix % key[0], key[1]),
                          {"object": key[2], "history": [h[1] for h in hist], "got": str(r.get(key))[:300], "fresh": fr[key][:300]})
        except MonitorViolation as e:
            ctx.fail(ctx.cur_key + "|" + e.kind, e.detail)
        finally:
            ctx.end()
            E.release()
    E.notes["histories_executed"] = len(hists) if ctx.shard == 0 else 0
