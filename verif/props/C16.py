"""C16 - binary fields and binary curves compute in GF(2^m) and its curve groups."""
import ctypes

from ..rt import RT, MonitorViolation
from ..ctx import hx
from ..model.gf2m import GF2m, GF2m2, BinCurve, clmul

LEVEL = "exploration"


class BX(object):
    """raw object layer for fb_st / fb2_t / eb_st (ALLOC=AUTO layouts exported by the shim)"""

    def __init__(self, R):
        self.R = R
        K = R.K
        self.m = K["RLC_FB_BITS"]
        self.nd = K["RLC_FB_DIGS"]
        self.fbsz = K["sizeof_fb_st"]
        self.nbytes = self.nd * R.DB
        assert self.fbsz == self.nbytes, "fb_st is expected to be a bare digit array"
        self.ebsz = K["sizeof_eb_st"]
        self.ox, self.oy, self.oz, self.oc = (K["off_eb_st_x"], K["off_eb_st_y"], K["off_eb_st_z"],
                                              K["off_eb_st_coord"])
        self.X = {}
        S = R.S
        S.vf_x16_const_name.restype = ctypes.c_char_p
        S.vf_x16_const_val.restype = ctypes.c_longlong
        i = 0
        while True:
            n = S.vf_x16_const_name(i)
            if n is None:
                break
            self.X[n.decode()] = S.vf_x16_const_val(i)
            i += 1
        self.BASIC, self.PROJC, self.HALVE = K["BASIC"], K["PROJC"], self.X["EB_HALVE"]
        self.mask = (1 << self.m) - 1

    # field elements
    def fb_new(self, x=None):
        a = self.R.mem(self.fbsz, self.R.poison)
        if x is not None:
            self.fb_put(a, x)
        return a

    def fb_put(self, a, x):
        ctypes.memmove(a, x.to_bytes(self.nbytes, "little"), self.nbytes)
        return a

    def fb_get(self, a):
        return int.from_bytes(ctypes.string_at(a, self.nbytes), "little")

    def fbn_new(self, n, xs=None):
        """contiguous array of n field elements (fb_t * / fb2_t with ALLOC=AUTO)"""
        a = self.R.mem(self.fbsz * n, self.R.poison)
        if xs is not None:
            for i, x in enumerate(xs):
                self.fb_put(a + i * self.fbsz, x)
        return a

    def fbn_get(self, a, n):
        return [self.fb_get(a + i * self.fbsz) for i in range(n)]

    # points
    def eb_new(self, n=1):
        return self.R.mem(self.ebsz * n, self.R.poison)

    def eb_put(self, P, x, y, z, coord):
        self.fb_put(P + self.ox, x)
        self.fb_put(P + self.oy, y)
        self.fb_put(P + self.oz, z)
        self.R.wr_int(P + self.oc, coord)
        return P

    def eb_get(self, P):
        return (self.fb_get(P + self.ox), self.fb_get(P + self.oy), self.fb_get(P + self.oz),
                self.R.rd_int(P + self.oc))


def parts(tier):
    return []


def run(ctx, part):
    pass
