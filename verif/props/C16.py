"""C16 - binary fields and binary curves compute in GF(2^m) and its curve groups.

Oracle: model/gf2m.py (GF2m, GF2m2, BinCurve) on Python ints.  Three parts per configuration:
  field  fb_* / fb2_* against polynomial arithmetic modulo the configured polynomial(s)
  curve  eb_* point operations (all coordinate systems, exceptional operands) against the affine group law
  mul    every scalar multiplication (plain, fixed-base, simultaneous) against [k]P
"""
import ctypes
import json
import os

from ..rt import RT, MonitorViolation
from ..ctx import hx
from ..model.gf2m import GF2m, GF2m2, BinCurve
from ..model.curves import is_probable_prime

LEVEL = "exploration"
RULE = ("field part: operands from structured bit patterns (0, 1, z^(m-1), all-ones, runs touching the top bit and the "
        "digit boundaries, single bits, alternating, low weight, random; trace 0 and trace 1) on every polynomial of "
        "the configured degree, every algorithm variant and the dispatch macro, every alias pattern; results read raw "
        "from the digit array (bits >= m must be clear) and compared with polynomial arithmetic mod f. "
        "curve part: points O (three encodings), the point of order two, points of order four where they exist, "
        "odd-order subgroup points, points outside the subgroup, P=Q, P=-Q, written raw in affine, Lopez-Dahab "
        "projective (random Z and Z=1) and lambda coordinates; outputs read raw and normalised by the model. "
        "mul part: base points [s]G + [t]T with known (s,t), result separate and in place (r == p, r == q), scalars 0, +-1, 2, n-1, n, n+1, 2n, kn+-1, 2^k, 2^k-1, "
        "alternating, negative, up to the bn capacity; verdict policy of DESIGN 3/C03: 0 <= k < n must give [k]P "
        "without error, any other scalar may give [k]P or raise an error. "
        "A case is non-trivial when no operand is zero/identity; distinct = distinct (key, inputs)")
ASSUMPTIONS = ["model/gf2m.py: carry-less polynomial arithmetic on Python ints modulo the polynomial read from "
               "fb_poly_get() (checked irreducible by Rabin's test in the model)",
               "the affine group law of y^2+xy=x^3+ax^2+b with a, b, G, n, h read through the eb_curve_get_* getters; "
               "G on the curve, n prime and [n]G = O re-checked by the model (parameter correctness itself is C18)",
               "E(GF(2^m)) = <G> x Z/h with cyclic 2-part (true for every ordinary binary curve), so [k]([s]G+[t]T) = "
               "[ks mod n]G + [kt mod h]T",
               "eb_hlv: 2*result = input is demanded everywhere on 2E; result = P for input 2P is demanded only when "
               "h = 2 (for h = 4 both halves lie in 2E and the trace test cannot tell them apart)",
               "fb_slv is judged on trace-0 inputs only (the API cannot report the unsolvable case)",
               "scalar multiplications are fed affine (BASIC) points; projective operands are exercised on the "
               "point operations"]

KNOWN = os.environ.get("VF_KNOWN") or os.path.join(
    os.path.dirname(os.path.dirname(os.path.dirname(os.path.abspath(__file__)))), "known_findings.jsonl")

# Fatal (sanitizer abort / runaway) defects that are listed as *known* are produced by exactly one directed
# case per curve, executed first in one shard; everywhere else the generators step around the predicate.
# When the entry disappears from known_findings.jsonl or is marked fixed the class is generated at full
# rate again, so a regression is reported.  name -> exact key pattern of the known finding
CONFINE = {
    "fix_basic_long": ["eb_mul_fix_basic|*|*x[lh]|crash:*"],
    "kbltz_tnaf_long": ["eb_mul_*|kbltz:*|*xl*|crash:*"],
}


def load_confined():
    """names of CONFINE whose (first) pattern is listed as known"""
    listed = set()
    try:
        for ln in open(KNOWN):
            ln = ln.strip()
            if not ln or ln.startswith("#"):
                continue
            k = json.loads(ln)
            if k.get("property") == "C16" and k.get("status") == "known":
                listed.add(k.get("key"))
    except OSError:
        pass
    return set(name for name, pats in CONFINE.items() if pats[0] in listed)


def parts(tier):
    q = tier == "quick"
    p = [dict(part="field", cfg="asan256", shards=4 if q else 6),
         dict(part="curve", cfg="asan256", shards=4 if q else 8),
         dict(part="mul", cfg="asan256", shards=8 if q else 12)]
    if not q:
        for cfg in ("asan256b233", "asan256b163"):
            p += [dict(part="field", cfg=cfg, shards=2), dict(part="curve", cfg=cfg, shards=2),
                  dict(part="mul", cfg=cfg, shards=4)]
    return p


# ===================================================================================== object layer
class BX(object):
    """raw object layer for fb_st / fb2_t / eb_st (ALLOC=AUTO layouts exported by the shim)"""

    def __init__(self, R):
        self.R = R
        K = R.K
        self.m = K["RLC_FB_BITS"]
        self.nd = K["RLC_FB_DIGS"]
        self.fbsz = K["sizeof_fb_st"]
        self.nbytes = self.nd * R.DB
        if self.fbsz != self.nbytes or K["sizeof_fb2_t"] != 2 * self.fbsz:
            raise RuntimeError("fb_st is expected to be a bare digit array")
        self.ebsz = K["sizeof_eb_st"]
        self.ox, self.oy, self.oz, self.oc = (K["off_eb_st_x"], K["off_eb_st_y"], K["off_eb_st_z"],
                                              K["off_eb_st_coord"])
        self.X = {}
        S = R.S
        S.vf_x16_const_name.restype = ctypes.c_char_p
        S.vf_x16_const_val.restype = ctypes.c_longlong
        i = 0
        while True:
            n = S.vf_x16_const_name(i)
            if n is None:
                break
            self.X[n.decode()] = S.vf_x16_const_val(i)
            i += 1
        self.BASIC, self.PROJC, self.HALVE = K["BASIC"], K["PROJC"], self.X["EB_HALVE"]
        self.mask = (1 << self.m) - 1
        self.dvsz = K["RLC_DV_DIGS"] * R.DB

    # field elements
    def fb_new(self, x=None):
        a = self.R.mem(self.fbsz, self.R.poison)
        if x is not None:
            self.fb_put(a, x)
        return a

    def fb_put(self, a, x):
        ctypes.memmove(a, x.to_bytes(self.nbytes, "little"), self.nbytes)
        return a

    def fb_get(self, a):
        return int.from_bytes(ctypes.string_at(a, self.nbytes), "little")

    def fb_fill(self, a, byte):
        ctypes.memset(a, byte, self.fbsz)

    def fbn_new(self, n, xs=None):
        """contiguous array of n field elements (fb_t * / fb2_t with ALLOC=AUTO)"""
        a = self.R.mem(self.fbsz * n, self.R.poison)
        if xs is not None:
            self.fbn_put(a, xs)
        return a

    def fbn_put(self, a, xs):
        for i, x in enumerate(xs):
            self.fb_put(a + i * self.fbsz, x)

    def fbn_get(self, a, n):
        return [self.fb_get(a + i * self.fbsz) for i in range(n)]

    # points
    def eb_new(self, n=1):
        return self.R.mem(self.ebsz * n, self.R.poison)

    def eb_put(self, P, x, y, z, coord):
        self.fb_put(P + self.ox, x)
        self.fb_put(P + self.oy, y)
        self.fb_put(P + self.oz, z)
        self.R.wr_int(P + self.oc, coord)
        return P

    def eb_get(self, P):
        return (self.fb_get(P + self.ox), self.fb_get(P + self.oy), self.fb_get(P + self.oz),
                self.R.rd_int(P + self.oc))

    def eb_fill(self, P, byte, n=1):
        ctypes.memset(P, byte, self.ebsz * n)


def impl_of(R, name):
    """implementation function behind a dispatch macro of this build (keys always name the implementation)"""
    if R.has(name):
        return R.target(name)
    exp = R.macros.get(name)
    if exp:
        t = exp.strip().rstrip(";").strip()
        i = t.find("(")
        if i > 0 and t[:i].strip().replace("_", "a").isalnum():
            return t[:i].strip()
    return name


# dispatch macros rt.py cannot resolve (trailing ';' in the expansion, variadic): wrappers in shim/vf_x_C16.c
WRAP = {"eb_add": "vf_x16_eb_add", "eb_dbl": "vf_x16_eb_dbl"}


# state of a separate output object before the call: never-written bytes, or a valid stale value whose tag and
# representation differ from what the routine is going to produce
STALE_KINDS = ("poison", "poison", "affine", "affine", "projective", "projective", "alt", "identity", "identity2")


class Case(object):
    """with Case(ctx, key, desc) as go: if go: ...   (journal, watchdog, monitor violations)"""

    def __init__(self, ctx, key, desc, nontrivial=True, budget=None, setup=False):
        self.ctx, self.key, self.desc, self.nt, self.budget, self.setup = ctx, key, desc, nontrivial, budget, setup

    def __enter__(self):
        if isinstance(self.desc, dict):
            # what separate output objects hold before the call (PointIO.stale): part of the description so that a
            # replay shows it, not of the key - results must not depend on it
            self.ctx.stale_kind = self.ctx.rng.choice(STALE_KINDS)
            self.desc["stale_output"] = self.ctx.stale_kind
        go = self.ctx.begin(self.key, self.desc, nontrivial=self.nt, budget=self.budget)
        if not go and self.setup and self.ctx.only is not None and self.key not in self.ctx.skip:
            # replay of another key: set-up steps (parameter selection, precomputed tables) still have to happen
            return True
        return go

    def __exit__(self, et, ev, tb):
        self.ctx.end()
        if et is not None and issubclass(et, MonitorViolation):
            self.ctx.fail((self.ctx.cur_key or self.key) + "|" + ev.kind, ev.detail)
            return True
        return False


# ===================================================================================== field part
def patterns(rng, m, W):
    """one structured element of GF(2^m) (as an int < 2^m)"""
    mask = (1 << m) - 1
    c = rng.randrange(16)
    if c == 0:
        return rng.choice([0, 1, 2, 3])
    if c == 1:
        return 1 << (m - 1)
    if c == 2:
        return mask
    if c == 3:      # run of ones touching the top
        return mask ^ ((1 << rng.randrange(m)) - 1)
    if c == 4:      # run of ones from the bottom
        return (1 << rng.randrange(1, m + 1)) - 1
    if c == 5:
        return 1 << rng.randrange(m)
    if c == 6:      # whole digits all-ones / zero
        v = 0
        for i in range((m + W - 1) // W):
            if rng.random() < 0.5:
                v |= ((1 << W) - 1) << (W * i)
        return v & mask
    if c == 7:
        return (int("5" * ((m + 3) // 4), 16) << rng.randrange(2)) & mask
    if c == 8:      # low weight
        v = 0
        for _ in range(rng.randrange(2, 6)):
            v |= 1 << rng.randrange(m)
        return v
    if c == 9:      # top nibble / byte patterns
        return (rng.getrandbits(m) | (rng.choice([0xF, 0xFF, 0x8, 0xC]) << (m - rng.choice([4, 8])))) & mask
    if c == 10:
        return rng.getrandbits(rng.choice([8, 63, 64, 65, 128]))
    if c == 11:     # around a digit boundary
        i = W * rng.randrange(1, (m + W - 1) // W)
        return ((rng.getrandbits(6) << (i - 3)) | rng.getrandbits(m) & rng.getrandbits(m)) & mask
    return rng.getrandbits(m)


def pr(F, xs):
    r = 1
    for v in xs:
        r = F.mul(r, v)
    return r


def merge(*cl):
    for c in ("zero", "one", "top"):
        if c in cl:
            return c
    return "gen"


def fcls(x, m):
    if x == 0:
        return "zero"
    if x == 1:
        return "one"
    if x >> (m - 1):
        return "top"
    return "gen"


class FieldPart(object):
    def __init__(self, ctx, R, B):
        self.ctx, self.R, self.B, self.rng = ctx, R, B, ctx.rng
        self.m, self.W = B.m, R.DIG
        self.K = R.K
        self.EQ, self.NE = R.K["RLC_EQ"], R.K["RLC_NE"]
        self.a, self.b, self.c = B.fb_new(0), B.fb_new(0), B.fb_new(0)
        self.a2, self.b2, self.c2 = B.fbn_new(2), B.fbn_new(2), B.fbn_new(2)
        self.dv = R.mem(B.dvsz, 0)
        self.k = R.bn_new()
        self.not_built = set()
        self.slv_tr1 = 0

    def el(self):
        return patterns(self.rng, self.m, self.W)

    def has(self, fn):
        if self.R.has(fn):
            return True
        self.not_built.add(fn)
        return False

    # ------------------------------------------------------------------ verdict helpers
    def out_fb(self, ptr, exp, what="value", extra=None):
        got = self.B.fb_get(ptr)
        d = {"got": hx(got), "exp": hx(exp)}
        if extra:
            d.update(extra)
        self.ctx.check(got == exp, self.ctx.cur_key + "|" + what, d)
        return got

    def unchanged(self, ptr, val):
        self.ctx.check(self.B.fb_get(ptr) == val, self.ctx.cur_key + "|input-modified",
                       {"was": hx(val), "now": hx(self.B.fb_get(ptr))})

    def no_error(self, res):
        return self.ctx.check(not res.caught, self.ctx.cur_key + "|unexpected-error", {"err": res.err})

    # ------------------------------------------------------------------ operations
    def binop(self, fld, F, fn, x, y, model):
        ctx, R, B, rng = self.ctx, self.R, self.B, self.rng
        alias = rng.randrange(4)
        if alias == 3:
            y = x
        key = "%s|%s|%s|alias%d" % (impl_of(R, fn), fld, merge(fcls(x, self.m), fcls(y, self.m)), alias)
        with Case(ctx, key, [hx(x), hx(y)], nontrivial=bool(x and y)) as go:
            if not go:
                return
            B.fb_put(self.a, x)
            B.fb_put(self.b, y)
            B.fb_fill(self.c, R.poison)
            pa = self.a
            pb = self.a if alias == 3 else self.b
            out = {1: self.a, 2: self.b}.get(alias, self.c)
            res = R.call(fn, out, pa, pb)
            if not self.no_error(res):
                return
            self.out_fb(out, model(x, y))
            if out != self.a:
                self.unchanged(self.a, x)
            if out != self.b and alias != 3:
                self.unchanged(self.b, y)

    def unop(self, fld, F, fn, x, exp, cls=None, may_err=False, must_err=False, judge=None):
        """c = fn(a); exp is the expected value (or None when judge(got) decides)"""
        ctx, R, B, rng = self.ctx, self.R, self.B, self.rng
        alias = rng.randrange(2)
        key = "%s|%s|%s|alias%d" % (impl_of(R, fn), fld, cls or fcls(x, self.m), alias)
        with Case(ctx, key, [hx(x)], nontrivial=bool(x)) as go:
            if not go:
                return
            B.fb_put(self.a, x)
            B.fb_fill(self.c, R.poison)
            out = self.a if alias else self.c
            res = R.call(fn, out, self.a)
            if must_err:
                ctx.check(res.caught, key + "|no-error", {"got": hx(B.fb_get(out))})
                return
            if res.caught:
                ctx.check(may_err, key + "|unexpected-error", {"err": res.err})
                return
            if judge is not None:
                got = B.fb_get(out)
                ctx.check(got <= B.mask and judge(got), key + "|value", {"got": hx(got)})
            else:
                self.out_fb(out, exp)
            if not alias:
                self.unchanged(self.a, x)

    def getters(self, fld, F):
        """the polynomial getters against the model: reduction exponents, trace positions, sqrt(z) and its table"""
        ctx, R, B, m = self.ctx, self.R, self.B, self.m
        f = F.f
        ints = R.mem(12, 0)
        try:
            with Case(ctx, "fb_poly_get|%s" % fld, [hx(f)], nontrivial=False) as go:
                if go:
                    r = R.call("fb_poly_get")
                    ctx.check(not r.caught and B.fb_get(r.r) | (1 << m) == f, None, {"got": hx(B.fb_get(r.r))})
            with Case(ctx, "fb_poly_get_rdc|%s" % fld, [hx(f)], nontrivial=False) as go:
                if go:
                    r = R.call("fb_poly_get_rdc", ints, ints + 4, ints + 8)
                    got = [R.rd_int(ints + 4 * i) for i in range(3)]
                    mid = sorted((i for i in range(1, m) if (f >> i) & 1), reverse=True)
                    exp = (mid + [0, 0, 0])[:3] if len(mid) in (1, 3) else None
                    ctx.check(not r.caught and (exp is None or got == exp), None, {"got": got, "exp": exp})
            with Case(ctx, "fb_poly_get_trc|%s" % fld, [hx(f)], nontrivial=False) as go:
                if go:
                    r = R.call("fb_poly_get_trc", ints, ints + 4, ints + 8)
                    got = [R.rd_int(ints + 4 * i) for i in range(3)]
                    pos = [i for i in range(m) if (F.trace_mask() >> i) & 1]
                    exp = (pos + [-1, -1, -1])[:3] if len(pos) <= 3 else None
                    ctx.check(not r.caught and (exp is None or got == exp), None, {"got": got, "exp": exp})
            if R.has("fb_poly_get_srz"):
                with Case(ctx, "fb_poly_get_srz|%s" % fld, [hx(f)], nontrivial=False) as go:
                    if go:
                        r = R.call("fb_poly_get_srz")
                        srz = F.sqrt(2)
                        ctx.check(not r.caught and r.r != 0 and B.fb_get(r.r) == srz, None,
                                  {"got": hx(B.fb_get(r.r)) if r.r else None, "exp": hx(srz)})
                        for i in (0, 1, 2, 3, 0x80, 0xFF, self.rng.randrange(256)):
                            t = R.call("fb_poly_tab_srz", i)
                            if t.r:
                                ctx.check(B.fb_get(t.r) == F.mul(srz, i), ctx.cur_key + "|table",
                                          {"i": i, "got": hx(B.fb_get(t.r))})
        finally:
            R.free(ints)

    def run_field(self, fld, F, N):
        ctx, R, B, rng, m = self.ctx, self.R, self.B, self.rng, self.m
        F2 = GF2m2(F)
        f = F.f
        if ctx.shard == ctx.nshards - 1:
            self.getters(fld, F)
        muls = [fn for fn in ("fb_mul_basic", "fb_mul_integ", "fb_mul_lodah", "fb_mul_karat", "fb_mul") if self.has(fn)]
        sqrs = [fn for fn in ("fb_sqr_basic", "fb_sqr_integ", "fb_sqr_quick", "fb_sqr") if self.has(fn)]
        rdcs = [fn for fn in ("fb_rdc_basic", "fb_rdc_quick", "fb_rdc") if self.has(fn)]
        invs = [fn for fn in ("fb_inv_basic", "fb_inv_binar", "fb_inv_exgcd", "fb_inv_almos", "fb_inv_itoht",
                              "fb_inv_bruch", "fb_inv_ctaia", "fb_inv_lower", "fb_inv") if self.has(fn)]
        srts = [fn for fn in ("fb_srt_basic", "fb_srt_quick", "fb_srt") if self.has(fn)]
        trcs = [fn for fn in ("fb_trc_basic", "fb_trc_quick", "fb_trc") if self.has(fn)]
        slvs = [fn for fn in ("fb_slv_basic", "fb_slv_quick", "fb_slv") if self.has(fn)]
        exps = [fn for fn in ("fb_exp_basic", "fb_exp_slide", "fb_exp_monty", "fb_exp") if self.has(fn)]
        for fn in ("fb_neg", "fb_exp_2b"):
            self.has(fn)
        ops = (["mul"] * 10 + ["sqr"] * 5 + ["add"] * 2 + ["rdc"] * 3 + ["inv"] * 5 + ["srt"] * 3 + ["trc"] * 2 +
               ["slv"] * 3 + ["exp"] * 2 + ["itr"] * 2 + ["shift"] * 2 + ["util"] * 3 + ["fb2"] * 5 + ["inv_sim"] +
               ["mul_dig"] * 2)
        # iterated-squaring tables are expensive to build: a few exponents per worker, many elements each
        itr_tabs = {}
        delems = [0, 1, 2, 3, 1 << (m - 1), B.mask, (1 << (m - 1)) | 1, f & B.mask]
        # every variant of every unary operation sees the distinguished elements first (split over the shards)
        directed = [(o, fn, x) for o, fns in (("inv", invs), ("sqr", sqrs), ("srt", srts), ("trc", trcs), ("slv", slvs))
                    for fn in fns for x in delems]
        for it in range(len(directed) + N):
            R.poison = rng.randrange(1, 256)
            pick = None
            if it < len(directed):
                if not ctx.mine(it):
                    continue
                op, pick, x = directed[it]
            else:
                op = rng.choice(ops)
                x = self.el()

            def variant(fns):
                return pick if pick is not None else rng.choice(fns)
            if op == "mul":
                self.binop(fld, F, rng.choice(muls), x, self.el(), F.mul)
            elif op == "add":
                c = rng.randrange(3)
                if c == 0:
                    self.binop(fld, F, "fb_add", x, self.el(), lambda u, v: u ^ v)
                elif c == 1:
                    d = rng.choice([0, 1, rng.getrandbits(self.W), (1 << self.W) - 1])
                    alias = rng.randrange(2)
                    with Case(ctx, "fb_add_dig|%s|%s|alias%d" % (fld, fcls(x, m), alias), [hx(x), hx(d)]) as go:
                        if go:
                            B.fb_put(self.a, x)
                            B.fb_fill(self.c, R.poison)
                            out = self.a if alias else self.c
                            if self.no_error(R.call("fb_add_dig", out, self.a, d)):
                                self.out_fb(out, x ^ d)
                else:
                    alias = rng.randrange(2)
                    with Case(ctx, "fb_poly_add|%s|%s|alias%d" % (fld, fcls(x, m), alias), [hx(x)]) as go:
                        if go:
                            B.fb_put(self.a, x)
                            B.fb_fill(self.c, R.poison)
                            out = self.a if alias else self.c
                            if self.no_error(R.call("fb_poly_add", out, self.a)):
                                self.out_fb(out, x ^ f)     # documented: c = a + f(z), not reduced
            elif op == "mul_dig":
                d = rng.choice([0, 1, 2, rng.getrandbits(self.W), (1 << self.W) - 1, 1 << (self.W - 1),
                                rng.getrandbits(8)])
                alias = rng.randrange(2)
                dc = "d0" if d == 0 else ("dtop" if d >> (self.W - 1) else "d")
                with Case(ctx, "fb_mul_dig|%s|%s,%s|alias%d" % (fld, fcls(x, m), dc, alias), [hx(x), hx(d)],
                          nontrivial=bool(x and d)) as go:
                    if go:
                        B.fb_put(self.a, x)
                        B.fb_fill(self.c, R.poison)
                        out = self.a if alias else self.c
                        if self.no_error(R.call("fb_mul_dig", out, self.a, d)):
                            self.out_fb(out, F.mul(x, d))
            elif op == "sqr":
                self.unop(fld, F, variant(sqrs), x, F.sqr(x))
            elif op == "rdc":
                fn = rng.choice(rdcs)
                c = rng.randrange(5)
                if c == 0:
                    wide = rng.choice([(1 << (2 * m - 1)) - 1, f << rng.randrange(m - 1), 0])
                elif c == 1:
                    wide = 1 << rng.randrange(2 * m - 1)
                elif c == 2:
                    wide = x        # already reduced
                elif c == 3:
                    wide = rng.getrandbits(2 * m - 1) | (1 << (2 * m - 2))
                else:
                    wide = rng.getrandbits(2 * m - 1)
                cls = "deg<m" if wide <= B.mask else ("deg=2m-2" if wide >> (2 * m - 2) else "deg>=m")
                if F.red(wide) == 0:
                    cls = "zero-result"
                with Case(ctx, "%s|%s|%s" % (impl_of(R, fn), fld, cls), [hx(wide)], nontrivial=wide > B.mask) as go:
                    if go:
                        ctypes.memset(self.dv, R.poison, B.dvsz)
                        nb = 2 * B.nbytes
                        ctypes.memmove(self.dv, wide.to_bytes(nb, "little"), nb)
                        B.fb_fill(self.c, R.poison)
                        if self.no_error(R.call(fn, self.c, self.dv)):
                            self.out_fb(self.c, F.red(wide))
            elif op == "inv":
                fn = variant(invs)
                if x == 0:
                    self.unop(fld, F, fn, 0, None, must_err=True)       # @throw ERR_NO_VALID
                else:
                    self.unop(fld, F, fn, x, F.inv(x))
            elif op == "inv_sim":
                n = rng.choice([1, 2, 3, 5, 8])
                xs = [self.el() or 1 for _ in range(n)]
                alias = rng.randrange(2)
                if rng.random() < 0.15:
                    xs = xs[:-1] + [F.inv(pr(F, xs[:-1]))]      # product of all inputs = 1
                cls = "prod1" if pr(F, xs) == 1 else "gen"
                with Case(ctx, "fb_inv_sim|%s|%s|alias%d" % (fld, cls, alias), [hx(v) for v in xs]) as go:
                    if go:
                        pa = B.fbn_new(n, xs)
                        pc = pa if alias else B.fbn_new(n)
                        try:
                            if self.no_error(R.call("fb_inv_sim", pc, pa, n)):
                                got = B.fbn_get(pc, n)
                                exp = [F.inv(v) for v in xs]
                                ctx.check(got == exp, ctx.cur_key + "|value",
                                          {"got": [hx(v) for v in got], "exp": [hx(v) for v in exp]})
                                if not alias:
                                    ctx.check(B.fbn_get(pa, n) == xs, ctx.cur_key + "|input-modified")
                        finally:
                            R.free(pa)
                            if pc != pa:
                                R.free(pc)
            elif op == "srt":
                fn = variant(srts)
                self.unop(fld, F, fn, x, None, judge=lambda g: F.sqr(g) == x)
            elif op == "trc":
                fn = variant(trcs)
                t = F.trace(x)
                with Case(ctx, "%s|%s|%s|tr%d" % (impl_of(R, fn), fld, fcls(x, m), t), [hx(x)], nontrivial=bool(x)) as go:
                    if go:
                        B.fb_put(self.a, x)
                        res = R.call(fn, self.a)
                        if self.no_error(res):
                            ctx.check(res.r == t, ctx.cur_key + "|value", {"got": res.r, "exp": t})
                            self.unchanged(self.a, x)
            elif op == "slv":
                fn = variant(slvs)
                if F.trace(x) and pick is None and rng.random() < 0.8:
                    x ^= 1 if m & 1 else 0          # Tr(1) = 1 for odd m: flip to a solvable right-hand side
                if F.trace(x):
                    # unsolvable: the API cannot say so; exercised (sanitizers only), not judged
                    self.slv_tr1 += 1
                    with Case(ctx, "%s|%s|tr1-not-judged" % (impl_of(R, fn), fld), [hx(x)], nontrivial=False) as go:
                        if go:
                            B.fb_put(self.a, x)
                            R.call(fn, self.c, self.a)
                else:
                    self.unop(fld, F, fn, x, None, cls=fcls(x, m) + ",tr0", judge=lambda g: F.sqr(g) ^ g == x)
            elif op == "exp":
                fn = rng.choice(exps)
                top = (1 << m) - 1
                e = rng.choice([0, 1, 2, 3, top - 1, top, top + 1, rng.getrandbits(m), rng.getrandbits(m) | (1 << (m - 1)),
                                rng.getrandbits(rng.randrange(1, m)), -1, -2, -rng.getrandbits(m),
                                rng.getrandbits(m + 40), 1 << rng.randrange(m), (1 << rng.randrange(1, m)) - 1])
                ecl = "e0" if e == 0 else ("e-in" if 0 < e <= top else ("e-neg" if e < 0 else "e-long"))
                alias = rng.randrange(2)
                key = "%s|%s|%s,%s" % (impl_of(R, fn), fld, fcls(x, m).replace("top", "gen"), ecl)
                with Case(ctx, key, [hx(x), hx(e)], nontrivial=bool(x and e)) as go:
                    if go:
                        B.fb_put(self.a, x)
                        B.fb_fill(self.c, R.poison)
                        R.bn_put(self.k, e)
                        out = self.a if alias else self.c
                        res = R.call(fn, out, self.a, self.k)
                        if x == 0 and e < 0:
                            ctx.check(res.caught, key + "|no-error", {"got": hx(B.fb_get(out))})
                        elif res.caught:
                            # exponents 0 <= e < 2^m must work; longer / negative ones may be refused
                            ctx.check(not 0 <= e <= top, key + "|unexpected-error", {"err": res.err})
                        else:
                            self.out_fb(out, F.pow(x, e))
            elif op == "itr":
                c = rng.randrange(4)
                bexp = rng.choice([0, 1, 2, 3, m - 1, m, m + 1, -1, -2, -(m - 1), rng.randrange(-m, m + 1)])
                if c == 0 or not self.has("fb_itr_pre_quick"):
                    fn = rng.choice(["fb_itr_basic", "vf_x16_fb_itr3"])
                    alias = rng.randrange(2)
                    key = "fb_itr_basic|%s|%s,%s|alias%d" % (fld, fcls(x, m), "b<0" if bexp < 0 else "b>=0", alias)
                    with Case(ctx, key, [hx(x), bexp, fn]) as go:
                        if go:
                            B.fb_put(self.a, x)
                            B.fb_fill(self.c, R.poison)
                            out = self.a if alias else self.c
                            if self.no_error(R.call(fn, out, self.a, bexp & 0xFFFFFFFF)):
                                self.out_fb(out, F.itr(x, bexp))
                else:
                    if len(itr_tabs) < 3 and bexp not in itr_tabs:
                        tab = R.mem(B.fbsz * self.K["RLC_FB_TABLE_MAX"], R.poison)
                        with Case(ctx, "fb_itr_pre_quick|%s|%s" % (fld, "b<0" if bexp < 0 else "b>=0"), [bexp],
                                  budget=600, setup=True) as go:
                            if go and self.no_error(R.call("fb_itr_pre_quick", tab, bexp & 0xFFFFFFFF)):
                                itr_tabs[bexp] = tab
                    if not itr_tabs:
                        continue
                    bexp = rng.choice(sorted(itr_tabs))
                    tab = itr_tabs[bexp]
                    fn = rng.choice(["fb_itr_quick", "vf_x16_fb_itr"])
                    alias = rng.randrange(2)
                    key = "fb_itr_quick|%s|%s,%s|alias%d" % (fld, fcls(x, m), "b<0" if bexp < 0 else "b>=0", alias)
                    with Case(ctx, key, [hx(x), bexp, fn]) as go:
                        if go:
                            B.fb_put(self.a, x)
                            B.fb_fill(self.c, R.poison)
                            out = self.a if alias else self.c
                            if fn == "fb_itr_quick":
                                res = R.call(fn, out, self.a, tab)
                            else:
                                res = R.call(fn, out, self.a, bexp & 0xFFFFFFFF, tab)
                            if self.no_error(res):
                                self.out_fb(out, F.itr(x, bexp))
            elif op == "shift":
                fn = rng.choice(["fb_lsh", "fb_rsh"])
                s = rng.choice([0, 1, 2, self.W - 1, self.W, self.W + 1, 2 * self.W, rng.randrange(m)])
                alias = rng.randrange(2)
                sc = "s0" if s == 0 else ("whole-digits" if s % self.W == 0 else ("s1" if s == 1 else "s"))
                judged = True
                if fn == "fb_lsh":
                    # shifts are not among the operations the property enumerates: a shift that stays below
                    # degree m is compared with the plain shift; one that overflows the degree is executed for
                    # the sanitizers only (the header says "mod f(z)", the code shifts the digit array)
                    judged = x.bit_length() + s <= m
                    exp = x << s
                    cls = "fits" if judged else "overflows-not-judged"
                else:
                    exp = x >> s
                    cls = fcls(x, m)
                with Case(ctx, "%s|%s|%s|%s|alias%d" % (fn, fld, cls, sc, alias), [hx(x), s],
                          nontrivial=bool(x) and judged) as go:
                    if go:
                        B.fb_put(self.a, x)
                        B.fb_fill(self.c, R.poison)
                        out = self.a if alias else self.c
                        res = R.call(fn, out, self.a, s)
                        if judged and self.no_error(res):
                            self.out_fb(out, exp)
            elif op == "util":
                self.util(fld, F, x)
            elif op == "fb2":
                self.fb2(fld, F, F2, x)
        for t in itr_tabs.values():
            R.free(t)

    def util(self, fld, F, x):
        ctx, R, B, rng, m = self.ctx, self.R, self.B, self.rng, self.m
        c = rng.randrange(9)
        if c == 0:
            y = x if rng.random() < 0.3 else (x ^ (1 << rng.randrange(m)) if rng.random() < 0.5 else self.el())
            with Case(ctx, "fb_cmp|%s|%s" % (fld, "eq" if x == y else "ne"), [hx(x), hx(y)]) as go:
                if go:
                    B.fb_put(self.a, x)
                    B.fb_put(self.b, y)
                    r = R.call("fb_cmp", self.a, self.b)
                    ctx.check(not r.caught and r.i == (self.EQ if x == y else self.NE), None, {"got": r.i})
        elif c == 1:
            d = rng.choice([0, 1, x & ((1 << self.W) - 1), rng.getrandbits(self.W)])
            if rng.random() < 0.4:
                x = d
            elif rng.random() < 0.2:
                x = d | (d << self.W) | (d << (2 * self.W))      # digits that cancel under XOR
            fold = 0
            for i in range(B.nd):
                fold ^= (x >> (self.W * i)) & ((1 << self.W) - 1)
            cls = "eq" if x == d else ("ne-fold" if fold == d else "ne")
            with Case(ctx, "fb_cmp_dig|%s|%s" % (fld, cls), [hx(x), hx(d)]) as go:
                if go:
                    B.fb_put(self.a, x)
                    r = R.call("fb_cmp_dig", self.a, d)
                    ctx.check(not r.caught and r.i == (self.EQ if x == d else self.NE), None, {"got": r.i})
        elif c == 2:
            with Case(ctx, "fb_bits|%s|%s" % (fld, fcls(x, m)), [hx(x)]) as go:
                if go:
                    B.fb_put(self.a, x)
                    r = R.call("fb_bits", self.a)
                    ctx.check(not r.caught and r.r == x.bit_length(), None, {"got": r.r})
        elif c == 3:
            i = rng.choice([0, m - 1, rng.randrange(m)])
            with Case(ctx, "fb_get_bit|%s|in-range" % fld, [hx(x), i]) as go:
                if go:
                    B.fb_put(self.a, x)
                    r = R.call("fb_get_bit", self.a, i)
                    ctx.check(not r.caught and r.i == (x >> i) & 1, None, {"got": r.i})
        elif c == 4:
            i = rng.choice([0, m - 1, rng.randrange(m)])
            v = rng.randrange(2)
            with Case(ctx, "fb_set_bit|%s|v%d" % (fld, v), [hx(x), i, v]) as go:
                if go:
                    B.fb_put(self.a, x)
                    if self.no_error(R.call("fb_set_bit", self.a, i, v)):
                        self.out_fb(self.a, (x | (1 << i)) if v else (x & ~(1 << i)))
        elif c == 5:
            with Case(ctx, "fb_is_zero|%s|%s" % (fld, "zero" if x == 0 else "nonzero"), [hx(x)]) as go:
                if go:
                    B.fb_put(self.a, x)
                    r = R.call("fb_is_zero", self.a)
                    ctx.check(not r.caught and r.i == int(x == 0), None, {"got": r.i})
        elif c == 6:
            with Case(ctx, "fb_copy|%s|" % fld, [hx(x)]) as go:
                if go:
                    B.fb_put(self.a, x)
                    B.fb_fill(self.c, R.poison)
                    if self.no_error(R.call("fb_copy", self.c, self.a)):
                        self.out_fb(self.c, x)
        elif c == 7:
            d = rng.getrandbits(self.W)
            with Case(ctx, "fb_set_dig|%s|" % fld, [hx(d)]) as go:
                if go:
                    B.fb_fill(self.c, R.poison)
                    if self.no_error(R.call("fb_set_dig", self.c, d)):
                        self.out_fb(self.c, d)
            with Case(ctx, "fb_zero|%s|" % fld, []) as go:
                if go:
                    B.fb_fill(self.c, R.poison)
                    if self.no_error(R.call("fb_zero", self.c)):
                        self.out_fb(self.c, 0)
        else:
            with Case(ctx, "fb_rand|%s|" % fld, [], nontrivial=False) as go:
                if go:
                    B.fb_fill(self.c, 0xFF)
                    if self.no_error(R.call("fb_rand", self.c)):
                        got = B.fb_get(self.c)
                        ctx.check(got <= B.mask, ctx.cur_key + "|value", {"got": hx(got)})

    def fb2(self, fld, F, F2, x):
        ctx, R, B, rng, m = self.ctx, self.R, self.B, self.rng, self.m
        u = (x, self.el())
        if rng.random() < 0.2:
            u = (u[0], 0)
        if rng.random() < 0.1:
            u = (0, u[1])
        c = rng.randrange(6)

        def cls2(e):
            return "zero" if e == (0, 0) else ("base" if e[1] == 0 else ("a0=0" if e[0] == 0 else "gen"))

        def show(e):
            return [hx(e[0]), hx(e[1])]

        def out2(ptr, exp):
            got = tuple(B.fbn_get(ptr, 2))
            ctx.check(got == tuple(exp), ctx.cur_key + "|value", {"got": show(got), "exp": show(exp)})
        if c in (0, 1):
            v = (self.el(), self.el())
            alias = rng.randrange(4)
            if alias == 3:
                v = u
            mc = [c for c in ("zero", "base", "a0=0", "gen") if c in (cls2(u), cls2(v))][0]
            with Case(ctx, "fb2_mul|%s|%s|alias%d" % (fld, mc, alias), show(u) + show(v),
                      nontrivial=u != (0, 0) and v != (0, 0)) as go:
                if go:
                    B.fbn_put(self.a2, u)
                    B.fbn_put(self.b2, v)
                    ctypes.memset(self.c2, R.poison, 2 * B.fbsz)
                    pb = self.a2 if alias == 3 else self.b2
                    out = {1: self.a2, 2: self.b2}.get(alias, self.c2)
                    if self.no_error(R.call("fb2_mul", out, self.a2, pb)):
                        out2(out, F2.mul(u, v))
        elif c == 2:
            alias = rng.randrange(2)
            with Case(ctx, "fb2_sqr|%s|%s|alias%d" % (fld, cls2(u), alias), show(u), nontrivial=u != (0, 0)) as go:
                if go:
                    B.fbn_put(self.a2, u)
                    ctypes.memset(self.c2, R.poison, 2 * B.fbsz)
                    out = self.a2 if alias else self.c2
                    if self.no_error(R.call("fb2_sqr", out, self.a2)):
                        out2(out, F2.sqr(u))
        elif c == 3:
            alias = rng.randrange(2)
            with Case(ctx, "fb2_inv|%s|%s|alias%d" % (fld, cls2(u), alias), show(u), nontrivial=u != (0, 0)) as go:
                if go:
                    B.fbn_put(self.a2, u)
                    ctypes.memset(self.c2, R.poison, 2 * B.fbsz)
                    out = self.a2 if alias else self.c2
                    res = R.call("fb2_inv", out, self.a2)
                    if u == (0, 0):
                        ctx.check(res.caught, ctx.cur_key + "|no-error", {"got": show(tuple(B.fbn_get(out, 2)))})
                    elif self.no_error(res):
                        out2(out, F2.inv(u))
        elif c == 4:
            if F2.trace(u):
                u = (u[0], u[1] ^ 1)        # Tr_m(1) = 1: make the equation solvable
            alias = rng.randrange(2)
            tc = "tr(a0)=%d" % F.trace(u[0])
            with Case(ctx, "fb2_slv|%s|%s,%s|alias%d" % (fld, cls2(u), tc, alias), show(u), nontrivial=u != (0, 0)) as go:
                if go:
                    B.fbn_put(self.a2, u)
                    ctypes.memset(self.c2, R.poison, 2 * B.fbsz)
                    out = self.a2 if alias else self.c2
                    if self.no_error(R.call("fb2_slv", out, self.a2)):
                        got = tuple(B.fbn_get(out, 2))
                        ok = max(got) <= B.mask and F2.add(F2.sqr(got), got) == u
                        ctx.check(ok, ctx.cur_key + "|value", {"got": show(got)})
        else:
            if not self.has("fb2_mul_nor"):
                return
            alias = rng.randrange(2)
            with Case(ctx, "fb2_mul_nor|%s|%s|alias%d" % (fld, cls2(u), alias), show(u), nontrivial=u != (0, 0)) as go:
                if go:
                    B.fbn_put(self.a2, u)
                    ctypes.memset(self.c2, R.poison, 2 * B.fbsz)
                    out = self.a2 if alias else self.c2
                    if self.no_error(R.call("fb2_mul_nor", out, self.a2)):
                        out2(out, F2.mul(u, (0, 1)))


def field_ids(R, B):
    """field identifiers of this build: the named polynomials of degree RLC_FB_BITS"""
    out = []
    for nm, v in sorted(R.EH.get("relic_fb.h", {}).items(), key=lambda kv: kv[1]):
        if nm.rsplit("_", 1)[-1] == str(B.m):
            out.append((nm, v))
    return out


def read_poly(R, B):
    R.L.fb_poly_get.restype = ctypes.c_void_p
    # the polynomial has m + 1 bits and is stored in RLC_FB_DIGS digits
    return B.fb_get(R.L.fb_poly_get())


def run_field_part(ctx, R, B):
    fp = FieldPart(ctx, R, B)
    ids = field_ids(R, B)
    if not ids:
        raise RuntimeError("no field polynomial of degree %d in relic_fb.h" % B.m)
    N = ctx.n(9000, 120000)
    seen = []

    def activate(nm, v):
        ok = False
        with Case(ctx, "fb_param_set|%s" % nm, [v], nontrivial=False, budget=600, setup=True) as go:
            if go:
                r = R.call("fb_param_set", v)
                ok = ctx.check(not r.caught, None, {"err": r.err})
        if not ok:
            return None
        f = read_poly(R, B)
        if f.bit_length() != B.m + 1:
            if B.m % R.DIG == 0:
                f |= 1 << B.m
            else:
                raise RuntimeError("fb_poly_get() has degree %d" % (f.bit_length() - 1))
        return f
    fields = {}
    for nm, v in ids:
        f = activate(nm, v)
        if f is None:
            continue
        F = GF2m(f)     # raises when f is reducible
        F.trace_mask()
        fields[nm] = F
        seen.append({"id": nm, "poly": hx(f)})
    for nm, v in ids:
        if nm in fields and activate(nm, v) is not None:
            fp.run_field(nm, fields[nm], N // len(fields))
    ctx.note("field_polynomials", seen)
    ctx.note("functions_not_built", sorted(fp.not_built))
    ctx.add("fb_slv_trace1_inputs_not_judged", fp.slv_tr1)



# ===================================================================================== curves
def curve_ids(R):
    """identifiers of relic_eb.h accepted by eb_param_set() in this build"""
    out = []
    for nm, v in sorted(R.EH.get("relic_eb.h", {}).items(), key=lambda kv: kv[1]):
        r = R.call("eb_param_set", v)
        if not r.caught and R.L.eb_param_get() == v:
            out.append((nm, v))
    return out


class Cv(object):
    """model-side view of the active binary curve; points are descriptors (s, t) = [s]G + [t]T, T of order h"""

    def __init__(self, R, B, name, ident):
        self.name, self.ident = name, ident
        self.tag = name
        r = R.call("eb_param_set", ident)
        if r.caught:
            raise RuntimeError("eb_param_set(%s) failed" % name)
        L = R.L
        L.eb_curve_get_a.restype = ctypes.c_void_p
        L.eb_curve_get_b.restype = ctypes.c_void_p
        self.F = F = GF2m(read_poly(R, B))
        F.trace_mask()
        self.a = B.fb_get(L.eb_curve_get_a())
        self.b = B.fb_get(L.eb_curve_get_b())
        n, h = R.bn_new(), R.bn_new()
        R.call("eb_curve_get_ord", n)
        R.call("eb_curve_get_cof", h)
        self.n, self.h = R.bn_val(n), R.bn_val(h)
        R.bn_free(n)
        R.bn_free(h)
        g = B.eb_new()
        R.call("eb_curve_get_gen", g)
        gx, gy, gz, gc = B.eb_get(g)
        R.free(g)
        self.kbltz = bool(L.eb_curve_is_kbltz())
        self.tag = ("kbltz:" if self.kbltz else "plain:") + name
        self.C = C = BinCurve(F, self.a, self.b, self.n, self.h)
        self.G = (gx, gy)
        self.nbits = self.n.bit_length()
        if gz != 1 or not C.on_curve(self.G) or C.mul(self.n, self.G) is not None or not is_probable_prime(self.n):
            raise RuntimeError("%s: generator/order reported by the library are inconsistent" % name)
        # the 2-primary torsion is cyclic of order h: build a generator by repeated halving of the point of order 2
        T = C.order2()
        o = 2
        while o < self.h:
            hs = C.halves(T)
            if not hs:
                raise RuntimeError("%s: cofactor %d but no point of order %d" % (name, self.h, 2 * o))
            T = hs[0]
            o *= 2
        if self.h & (self.h - 1) or C.mul(self.h, T) is not None or C.mul(self.h // 2, T) is None:
            raise RuntimeError("%s: unexpected torsion structure" % name)
        self.tors = [None]
        for _ in range(self.h - 1):
            self.tors.append(C.add(self.tors[-1], T))
        self.T2 = self.tors[self.h // 2]
        self.tbits = self.nbits + 1
        C.fixed_base(self.G, self.tbits)
        self._aff = {}

    def sub(self, s):
        """[s]G; cached, and derived from the cached negative when that is known"""
        s %= self.n
        if s == 0:
            return None
        v = self._aff.get(s)
        if v is None:
            w = self._aff.get(self.n - s)
            if w is not None:
                v = self.C.neg(w)
            else:
                v = self.C.mul_fixed(s, self.G, self.tbits)
            if len(self._aff) < 20000:
                self._aff[s] = v
        return v

    def remember(self, s, P):
        if P is not None:
            self._aff[s % self.n] = P

    def aff(self, d):
        """affine coordinates of the descriptor (s, t) = [s]G + [t]T"""
        t = d[1] % self.h
        P = self.sub(d[0])
        return self.C.add(P, self.tors[t]) if t else P

    def dmul(self, k, d):
        return ((k * d[0]) % self.n, (k * d[1]) % self.h)

    def dadd(self, d, e):
        return ((d[0] + e[0]) % self.n, (d[1] + e[1]) % self.h)

    def dneg(self, d):
        return ((-d[0]) % self.n, (-d[1]) % self.h)

    def pcls(self, d):
        s, t = d[0] % self.n, d[1] % self.h
        if s == 0:
            if t == 0:
                return "inf"
            return "o2" if 2 * t == self.h else "o4"
        return "sub" if t == 0 else "out"

    # scalar classes: tag (z zero, u |k| = 1, r0 multiple of n, r) + sign + range
    #   in |k| < n;  ge n <= |k| < 2^bits(n);  xw bits(n) < bits <= m;  xl m < bits <= m + 7;  xh beyond
    def krange(self, k):
        a = -k if k < 0 else k
        bl = a.bit_length()
        if a < self.n:
            return "in"
        if bl <= self.nbits:
            return "ge"
        if bl <= self.F.m:
            return "xw"
        return "xl" if bl <= self.F.m + 7 else "xh"

    def kcls(self, k):
        if k == 0:
            return "z"
        a = -k if k < 0 else k
        tag = "u" if a == 1 else ("r0" if a % self.n == 0 else "r")
        return tag + ("-" if k < 0 else "+") + self.krange(k)

    def in_range(self, k):
        return 0 <= k < self.n


def dshow(d):
    return [hx(d[0]), d[1]]


class PointIO(object):
    """raw point writer/reader shared by the curve and mul parts"""

    def __init__(self, ctx, R, B):
        self.ctx, self.R, self.B, self.rng = ctx, R, B, ctx.rng
        self.EQ, self.NE = R.K["RLC_EQ"], R.K["RLC_NE"]

    def put(self, cv, ptr, P, rep):
        """rep: B affine | P Lopez-Dahab random Z | P1 Lopez-Dahab Z = 1 | H lambda coordinates |
        for the identity: B canonical, P (0,0,0,PROJC), J (junk, junk, 0, PROJC)"""
        B, F, rng = self.B, cv.F, self.rng
        if P is None:
            if rep == "J":
                B.eb_put(ptr, rng.getrandbits(B.m) | 1, rng.getrandbits(B.m) | 1, 0, B.PROJC)
            else:
                B.eb_put(ptr, 0, 0, 0, B.PROJC if rep in ("P", "P1") else B.BASIC)
            return
        x, y = P
        if rep == "B":
            B.eb_put(ptr, x, y, 1, B.BASIC)
        elif rep == "P1":
            B.eb_put(ptr, x, y, 1, B.PROJC)
        elif rep == "P":
            z = rng.getrandbits(B.m) or 1
            if rng.random() < 0.1:
                z = rng.choice([1 << (B.m - 1), B.mask, 2, 3])
            B.eb_put(ptr, F.mul(x, z), F.mul(y, F.sqr(z)), z, B.PROJC)
        elif rep == "H":
            if x == 0:
                raise ValueError("lambda coordinates need x != 0")
            B.eb_put(ptr, x, x ^ F.mul(y, F.inv(x)), 1, B.HALVE)
        else:
            raise ValueError(rep)

    def stale(self, cv, ptr, n=1):
        """pre-fill n separate output objects with the stale state chosen for this case"""
        B, R = self.B, self.R
        kind = getattr(self.ctx, "stale_kind", "poison")
        B.eb_fill(ptr, R.poison, n)
        if kind == "poison":
            return
        for i in range(n):
            q = ptr + i * B.ebsz
            if kind == "affine":
                self.put(cv, q, cv.G, "B")
            elif kind == "projective":
                self.put(cv, q, cv.G, "P")
            elif kind == "alt":
                self.put(cv, q, cv.G, "H")
            elif kind == "identity":
                self.put(cv, q, None, "B")
            else:
                self.put(cv, q, None, self.rng.choice(["P", "J"]))

    def get(self, cv, ptr):
        """-> (point or None, coord, canonical, raw)"""
        B = self.B
        x, y, z, co = B.eb_get(ptr)
        canon = max(x, y, z) <= B.mask
        if not canon:
            return ("non-canonical",), co, False, (x, y, z)
        if z == 0:
            return None, co, True, (x, y, z)
        if co == B.BASIC:
            return (x, y), co, True, (x, y, z)
        if co == B.PROJC:
            return cv.C.from_ld(x, y, z), co, True, (x, y, z)
        if co == B.HALVE:
            return cv.C.from_lambda(x, y), co, True, (x, y, z)
        return ("unknown-coord",), co, False, (x, y, z)

    def expect(self, cv, ptr, exp, what="value", affine=False):
        """compare the point stored at ptr with the model point exp (as group elements)"""
        ctx = self.ctx
        got, co, canon, raw = self.get(cv, ptr)
        ok = canon and got == exp
        ctx.check(ok, ctx.cur_key + "|" + what,
                  None if ok else {"got": pshow(got), "exp": pshow(exp), "coord": co, "raw": [hx(v) for v in raw]})
        if ok and affine and exp is not None:
            ctx.check(co == self.B.BASIC and raw[2] == 1, ctx.cur_key + "|not-normalised",
                      {"coord": co, "z": hx(raw[2])})
        return ok


def pshow(P):
    if P is None:
        return "O"
    if len(P) == 1:
        return P[0]
    return [hx(P[0]), hx(P[1])]


class CurvePart(PointIO):
    def __init__(self, ctx, R, B):
        PointIO.__init__(self, ctx, R, B)
        self.p, self.q, self.r = B.eb_new(), B.eb_new(), B.eb_new()
        self.fa, self.fc = B.fb_new(0), B.fb_new(0)
        self.not_built = set()
        self.hlv_other = 0
        self.hlv_exact = 0

    def has(self, fn):
        if self.R.has(fn) or fn in WRAP:
            return True
        self.not_built.add(fn)
        return False

    def call(self, fn, *a):
        return self.R.call(WRAP.get(fn, fn), *a)

    def no_error(self, res):
        return self.ctx.check(not res.caught, self.ctx.cur_key + "|unexpected-error", {"err": res.err})

    # ------------------------------------------------------------------ point supply
    def make_pool(self, cv):
        rng = self.rng
        n = cv.n
        self.fixed = [1, 2, 3, n - 1, n - 2, (n + 1) // 2]
        self.subs = list(self.fixed) + [rng.randrange(4, n - 2) for _ in range(12)]
        for s in self.subs:
            cv.sub(s)

    def fresh(self, cv):
        """a new subgroup point as the model sum of two known ones (one affine addition)"""
        rng = self.rng
        i, j = rng.randrange(len(self.subs)), rng.randrange(len(self.subs))
        if i == j:
            return self.subs[i]
        s = (self.subs[i] + self.subs[j]) % cv.n
        if s == 0:
            return self.subs[i]
        cv.remember(s, cv.C.add(cv.sub(self.subs[i]), cv.sub(self.subs[j])))
        self.subs[rng.randrange(len(self.fixed), len(self.subs))] = s
        return s

    def pick(self, cv, kinds=None):
        rng = self.rng
        for _ in range(200):
            c = rng.random()
            if c < 0.06:
                d = (0, 0)
            elif c < 0.14:
                d = (0, rng.randrange(1, cv.h))
            else:
                s = self.fresh(cv) if rng.random() < 0.5 else rng.choice(self.subs)
                d = (s, rng.randrange(1, cv.h) if c < 0.24 else 0)
            if kinds is None or cv.pcls(d) in kinds:
                return d
        return (1, 0)

    def rep_for(self, cv, d, native, allow_h=False):
        """a representation the routine claims to accept: affine or its native system"""
        rng = self.rng
        P = cv.aff(d)
        if native == "B":
            return "B"
        if P is None:
            return rng.choice(["B", "P", "J"])
        c = ["B", "P", "P", "P1"]
        if allow_h and P[0] != 0:
            c.append("H")
        return rng.choice(c)

    @staticmethod
    def repcls(*reps):
        return "A" if all(r == "B" for r in reps) else ("H" if "H" in reps else "P")

    # ------------------------------------------------------------------ operations
    def op_neg(self, cv):
        ctx, R, B, rng = self.ctx, self.R, self.B, self.rng
        fn = rng.choice(["eb_neg_basic", "eb_neg_projc", "eb_neg"])
        if not self.has(fn):
            return
        impl = impl_of(R, fn)
        d = self.pick(cv)
        rep = self.rep_for(cv, d, "B" if impl.endswith("basic") else "P")
        alias = rng.randrange(2)
        key = "%s|%s|%s|%s|alias%d" % (impl, cv.tag, cv.pcls(d), self.repcls(rep), alias)
        with Case(ctx, key, {"P": dshow(d), "rep": rep}, nontrivial=cv.pcls(d) != "inf") as go:
            if go:
                self.put(cv, self.p, cv.aff(d), rep)
                self.stale(cv, self.r)
                out = self.p if alias else self.r
                if self.no_error(self.call(fn, out, self.p)):
                    self.expect(cv, out, cv.C.neg(cv.aff(d)))

    def pair(self, cv):
        """(d, e, relation) with the exceptional relations made frequent"""
        rng = self.rng
        d = self.pick(cv)
        c = rng.random()
        if c < 0.2:
            return d, d, "eq"
        if c < 0.4:
            e = cv.dneg(d)
            return d, e, ("eq" if e == (d[0] % cv.n, d[1] % cv.h) else "neg")
        if c < 0.45:
            # same x only when Q = +-P; differing in the torsion part
            e = cv.dadd(d, (0, rng.randrange(1, cv.h)))
        else:
            e = self.pick(cv)
        dn = (d[0] % cv.n, d[1] % cv.h)
        en = (e[0] % cv.n, e[1] % cv.h)
        if dn == en:
            return d, e, "eq"
        if cv.dneg(d) == en:
            return d, e, "neg"
        return d, e, "ne"

    def paircls(self, cv, d, e, rel):
        kinds = (cv.pcls(d), cv.pcls(e))
        if "inf" in kinds:
            rel = "inf"
        for k in ("o2", "o4", "out"):
            if k in kinds:
                return rel + ":" + k
        return rel + ":" + ("inf" if kinds == ("inf", "inf") else "sub")

    def op_addsub(self, cv, sub=False):
        ctx, R, B, rng = self.ctx, self.R, self.B, self.rng
        base = "eb_sub" if sub else "eb_add"
        fn = rng.choice([base + "_basic", base + "_projc", base])
        if not self.has(fn):
            return
        impl = impl_of(R, fn)
        native = "B" if impl.endswith("basic") else "P"
        d, e, rel = self.pair(cv)
        alias = rng.randrange(4)
        rp = self.rep_for(cv, d, native)
        rq = self.rep_for(cv, e, native)
        if alias == 3:
            e, rq, rel = d, rp, "eq"
        P, Q = cv.aff(d), cv.aff(e)
        exp = cv.C.sub(P, Q) if sub else cv.C.add(P, Q)
        key = "%s|%s|%s|%s|alias%d" % (impl, cv.tag, self.paircls(cv, d, e, rel), self.repcls(rp, rq), alias)
        with Case(ctx, key, {"P": dshow(d), "Q": dshow(e), "reps": [rp, rq]},
                  nontrivial=P is not None and Q is not None) as go:
            if go:
                self.put(cv, self.p, P, rp)
                self.put(cv, self.q, Q, rq)
                self.stale(cv, self.r)
                pq = self.p if alias == 3 else self.q
                out = {1: self.p, 2: self.q}.get(alias, self.r)
                rawp, rawq = B.eb_get(self.p), B.eb_get(self.q)
                if self.no_error(self.call(fn, out, self.p, pq)):
                    self.expect(cv, out, exp)
                    if out != self.p:
                        ctx.check(B.eb_get(self.p) == rawp, ctx.cur_key + "|input-modified")
                    if out != self.q and alias != 3:
                        ctx.check(B.eb_get(self.q) == rawq, ctx.cur_key + "|input-modified")

    def op_dbl(self, cv):
        ctx, R, B, rng = self.ctx, self.R, self.B, self.rng
        fn = rng.choice(["eb_dbl_basic", "eb_dbl_projc", "eb_dbl"])
        if not self.has(fn):
            return
        impl = impl_of(R, fn)
        d = self.pick(cv)
        rep = self.rep_for(cv, d, "B" if impl.endswith("basic") else "P")
        alias = rng.randrange(2)
        key = "%s|%s|%s|%s|alias%d" % (impl, cv.tag, cv.pcls(d), self.repcls(rep), alias)
        with Case(ctx, key, {"P": dshow(d), "rep": rep}, nontrivial=cv.pcls(d) != "inf") as go:
            if go:
                P = cv.aff(d)
                self.put(cv, self.p, P, rep)
                self.stale(cv, self.r)
                out = self.p if alias else self.r
                if self.no_error(self.call(fn, out, self.p)):
                    self.expect(cv, out, cv.C.dbl(P))

    def op_hlv(self, cv):
        """inputs Q in 2E given as Q = 2P; dbl(result) = Q everywhere, result = P where the half is unique in 2E"""
        ctx, R, B, rng = self.ctx, self.R, self.B, self.rng
        if not self.has("eb_hlv"):
            return
        d = self.pick(cv)
        if rng.random() < 0.15:
            # a half that is not in our descriptor form: any point of the curve through its abscissa
            pts = []
            while not pts:
                pts = cv.C.lift_x(rng.getrandbits(B.m) or 1)
            P = rng.choice(pts)
            pc = "any"
        else:
            P = cv.aff(d)
            pc = cv.pcls(d)
        Q = cv.C.dbl(P)
        rep = "B"
        if Q is not None and Q[0] != 0 and rng.random() < 0.4:
            rep = "H"
        alias = rng.randrange(2)
        qc = "inf" if Q is None else ("o2" if Q[0] == 0 else "2*" + pc)
        key = "eb_hlv|%s|%s|%s|alias%d" % (cv.tag, qc, self.repcls(rep), alias)
        with Case(ctx, key, {"half": pshow(P), "rep": rep}, nontrivial=Q is not None) as go:
            if go:
                self.put(cv, self.p, Q, rep)
                self.stale(cv, self.r)
                out = self.p if alias else self.r
                if not self.no_error(self.call("eb_hlv", out, self.p)):
                    return
                got, co, canon, raw = self.get(cv, out)
                bad = {"got": pshow(got), "coord": co, "raw": [hx(v) for v in raw]}
                if not ctx.check(canon and (got is None or len(got) == 2), key + "|value", bad):
                    return
                ok = ctx.check(cv.C.on_curve(got) and cv.C.dbl(got) == Q, key + "|value", bad)
                if ok and pc == "sub":
                    # P of odd order: the canonical half.  Unique inside 2E only for cofactor 2.
                    if cv.h == 2:
                        ctx.check(got == P, key + "|not-the-odd-order-half", bad)
                        self.hlv_exact += 1
                    elif got == P:
                        self.hlv_exact += 1
                    else:
                        self.hlv_other += 1

    def op_frb(self, cv):
        ctx, R, B, rng = self.ctx, self.R, self.B, self.rng
        if not cv.kbltz or not self.has("eb_frb"):
            return
        d = self.pick(cv)
        rep = self.rep_for(cv, d, "P", allow_h=True)
        alias = rng.randrange(2)
        key = "eb_frb|%s|%s|%s|alias%d" % (cv.tag, cv.pcls(d), self.repcls(rep), alias)
        with Case(ctx, key, {"P": dshow(d), "rep": rep}, nontrivial=cv.pcls(d) != "inf") as go:
            if go:
                P = cv.aff(d)
                self.put(cv, self.p, P, rep)
                self.stale(cv, self.r)
                out = self.p if alias else self.r
                if self.no_error(self.call("eb_frb", out, self.p)):
                    self.expect(cv, out, cv.C.frob(P))

    def op_norm(self, cv):
        ctx, R, B, rng = self.ctx, self.R, self.B, self.rng
        d = self.pick(cv)
        rep = self.rep_for(cv, d, "P", allow_h=True)
        alias = rng.randrange(2)
        key = "eb_norm|%s|%s|%s|alias%d" % (cv.tag, cv.pcls(d), rep, alias)
        with Case(ctx, key, {"P": dshow(d), "rep": rep}, nontrivial=cv.pcls(d) != "inf") as go:
            if go:
                P = cv.aff(d)
                self.put(cv, self.p, P, rep)
                self.stale(cv, self.r)
                out = self.p if alias else self.r
                if self.no_error(self.call("eb_norm", out, self.p)):
                    self.expect(cv, out, P, affine=True)

    def op_norm_sim(self, cv):
        ctx, R, B, rng = self.ctx, self.R, self.B, self.rng
        n = rng.choice([1, 2, 3, 4, 8])
        ds = [self.pick(cv) for _ in range(n)]
        reps = [self.rep_for(cv, d, "P") for d in ds]
        alias = rng.randrange(2)
        kinds = set(cv.pcls(d) for d in ds)
        infs = "inf" in kinds
        cls = "inf" if infs else ("tors" if kinds & {"o2", "o4"} else "fin")
        # out of place: the destination may hold anything, e.g. a stale affine point
        stale = (not alias) and rng.random() < 0.3
        if stale:
            cls += ",dst-tagged-affine"
        key = "eb_norm_sim|%s|%s|n%s|alias%d" % (cv.tag, cls, "1" if n == 1 else ">1", alias)
        with Case(ctx, key, {"P": [dshow(d) for d in ds], "reps": reps}, nontrivial=not infs) as go:
            if go:
                t = B.eb_new(n)
                r = t if alias else B.eb_new(n)
                try:
                    for i in range(n):
                        self.put(cv, t + i * B.ebsz, cv.aff(ds[i]), reps[i])
                    if not alias:
                        self.stale(cv, r, n)
                        if stale:
                            for i in range(n):
                                self.put(cv, r + i * B.ebsz, cv.G, "B")
                    if self.no_error(self.call("eb_norm_sim", r, t, n)):
                        for i in range(n):
                            if not self.expect(cv, r + i * B.ebsz, cv.aff(ds[i]), what="value", affine=True):
                                break
                finally:
                    R.free(t)
                    if r != t:
                        R.free(r)

    def op_cmp(self, cv):
        ctx, R, B, rng = self.ctx, self.R, self.B, self.rng
        d, e, rel = self.pair(cv)
        rp = self.rep_for(cv, d, "P", allow_h=True)
        rq = self.rep_for(cv, e, "P", allow_h=True)
        key = "eb_cmp|%s|%s|%s" % (cv.tag, self.paircls(cv, d, e, rel), self.repcls(rp, rq))
        with Case(ctx, key, {"P": dshow(d), "Q": dshow(e), "reps": [rp, rq]}) as go:
            if go:
                P, Q = cv.aff(d), cv.aff(e)
                self.put(cv, self.p, P, rp)
                self.put(cv, self.q, Q, rq)
                res = self.call("eb_cmp", self.p, self.q)
                if self.no_error(res):
                    exp = self.EQ if P == Q else self.NE
                    ctx.check(res.i == exp, key + "|value", {"got": res.i, "exp": exp})

    def op_on_curve(self, cv):
        ctx, R, B, rng = self.ctx, self.R, self.B, self.rng
        d = self.pick(cv)
        P = cv.aff(d)
        rep = self.rep_for(cv, d, "P", allow_h=True)
        valid = True
        c = rng.random()
        if P is not None and c < 0.5:
            valid = False
            if c < 0.2:
                P = (P[0], P[1] ^ (1 << rng.randrange(B.m)))
            elif c < 0.35:
                P = (P[0] ^ (1 << rng.randrange(B.m)), P[1])
            else:
                P = (rng.getrandbits(B.m), rng.getrandbits(B.m))
            valid = cv.C.on_curve(P)
            if P[0] == 0 and rep == "H":
                rep = "B"
        key = "eb_on_curve|%s|%s|%s" % (cv.tag, ("valid:" + cv.pcls(d)) if valid else "invalid", rep)
        with Case(ctx, key, {"P": pshow(P), "rep": rep}) as go:
            if go:
                self.put(cv, self.p, P, rep)
                res = self.call("eb_on_curve", self.p)
                if self.no_error(res):
                    ctx.check(res.i == int(valid), key + "|value", {"got": res.i, "exp": int(valid)})

    def op_misc(self, cv):
        ctx, R, B, rng = self.ctx, self.R, self.B, self.rng
        c = rng.randrange(7)
        d = self.pick(cv)
        P = cv.aff(d)
        if c == 0:
            rep = self.rep_for(cv, d, "P")
            with Case(ctx, "eb_is_infty|%s|%s|%s" % (cv.tag, cv.pcls(d), rep), {"P": dshow(d)}) as go:
                if go:
                    self.put(cv, self.p, P, rep)
                    res = self.call("eb_is_infty", self.p)
                    ctx.check(not res.caught and res.i == int(P is None), None, {"got": res.i})
        elif c == 1:
            with Case(ctx, "eb_set_infty|%s|" % cv.tag, {}) as go:
                if go:
                    self.stale(cv, self.r)
                    if self.no_error(self.call("eb_set_infty", self.r)):
                        self.expect(cv, self.r, None)
        elif c == 2:
            rep = self.rep_for(cv, d, "P", allow_h=True)
            with Case(ctx, "eb_copy|%s|%s|%s" % (cv.tag, cv.pcls(d), rep), {"P": dshow(d)}) as go:
                if go:
                    self.put(cv, self.p, P, rep)
                    self.stale(cv, self.r)
                    if self.no_error(self.call("eb_copy", self.r, self.p)):
                        ctx.check(B.eb_get(self.r) == B.eb_get(self.p), ctx.cur_key + "|value")
        elif c == 3:
            if rng.random() < 0.1:
                with Case(ctx, "eb_rand|%s|" % cv.tag, {}, nontrivial=False) as go:
                    if go:
                        self.stale(cv, self.r)
                        if self.no_error(self.call("eb_rand", self.r)):
                            got, co, canon, raw = self.get(cv, self.r)
                            ok = canon and (got is None or (len(got) == 2 and cv.C.on_curve(got) and
                                                            cv.C.mul(cv.n, got) is None))
                            ctx.check(ok, ctx.cur_key + "|value", {"got": pshow(got)})
        elif c == 4:
            rep = self.rep_for(cv, d, "P")
            if P is None:
                return
            with Case(ctx, "eb_blind|%s|%s|%s" % (cv.tag, cv.pcls(d), self.repcls(rep)), {"P": dshow(d)}) as go:
                if go:
                    self.put(cv, self.p, P, rep)
                    self.stale(cv, self.r)
                    if self.no_error(self.call("eb_blind", self.r, self.p)):
                        self.expect(cv, self.r, P)
        elif c == 5:
            x = rng.choice([0, 1, rng.getrandbits(B.m), P[0] if P else 2])
            F = cv.F
            with Case(ctx, "eb_rhs|%s|%s" % (cv.tag, fcls(x, B.m)), [hx(x)]) as go:
                if go:
                    B.fb_put(self.fa, x)
                    B.fb_fill(self.fc, R.poison)
                    if self.no_error(self.call("eb_rhs", self.fc, self.fa)):
                        x2 = F.sqr(x)
                        exp = F.mul(x2, x) ^ F.mul(cv.a, x2) ^ cv.b
                        got = B.fb_get(self.fc)
                        ctx.check(got == exp, ctx.cur_key + "|value", {"got": hx(got), "exp": hx(exp)})
        else:
            if cv.kbltz or not self.has("eb_tab") or P is None:
                return      # the Koblitz tables hold alpha_u * P (tau-adic); exercised through eb_mul_lwnaf
            w = rng.choice([2, 3, 4, 5, 6])
            n = 1 << (w - 2)
            rep = self.rep_for(cv, d, "P")
            with Case(ctx, "eb_tab|%s|%s|w%d|%s" % (cv.tag, cv.pcls(d), w, self.repcls(rep)), {"P": dshow(d)}) as go:
                if go:
                    t = B.eb_new(n)
                    try:
                        self.stale(cv, t, n)
                        self.put(cv, self.p, P, rep)
                        if self.no_error(self.call("eb_tab", t, self.p, w)):
                            for i in range(n):
                                if not self.expect(cv, t + i * B.ebsz, cv.aff(cv.dmul(2 * i + 1, d))):
                                    break
                    finally:
                        R.free(t)

    def run_curve(self, cv, N):
        self.make_pool(cv)
        ops = (["add"] * 10 + ["sub"] * 5 + ["dbl"] * 6 + ["neg"] * 3 + ["hlv"] * 5 + ["frb"] * 3 + ["norm"] * 3 +
               ["norm_sim"] * 3 + ["cmp"] * 3 + ["on_curve"] * 3 + ["misc"] * 3)
        rng = self.rng
        for it in range(N):
            self.R.poison = rng.randrange(1, 256)
            op = rng.choice(ops)
            if op == "add":
                self.op_addsub(cv)
            elif op == "sub":
                self.op_addsub(cv, sub=True)
            elif op == "dbl":
                self.op_dbl(cv)
            elif op == "neg":
                self.op_neg(cv)
            elif op == "hlv":
                self.op_hlv(cv)
            elif op == "frb":
                self.op_frb(cv)
            elif op == "norm":
                self.op_norm(cv)
            elif op == "norm_sim":
                self.op_norm_sim(cv)
            elif op == "cmp":
                self.op_cmp(cv)
            elif op == "on_curve":
                self.op_on_curve(cv)
            else:
                self.op_misc(cv)


def open_curves(ctx, R, B):
    """instantiate every binary curve of this build: [(Cv)]"""
    out = []
    with Case(ctx, "eb_param_set|enumerate", {}, nontrivial=False, budget=600, setup=True) as go:
        ids = curve_ids(R) if go else []
    for nm, v in ids:
        out.append((nm, v))
    return out


def run_curve_part(ctx, R, B):
    cp = CurvePart(ctx, R, B)
    ids = open_curves(ctx, R, B)
    if not ids:
        raise RuntimeError("no binary curve accepted by eb_param_set in this build")
    N = ctx.n(2600, 40000)
    seen = []
    for nm, v in ids:
        cv = Cv(R, B, nm, v)
        seen.append({"curve": nm, "a": hx(cv.a), "b": hx(cv.b), "n": hx(cv.n), "h": cv.h, "koblitz": cv.kbltz})
        cp.run_curve(cv, N // len(ids))
    ctx.note("curves", seen)
    ctx.note("functions_not_built", sorted(cp.not_built))
    ctx.add("eb_hlv_returned_the_odd_order_half", cp.hlv_exact)
    ctx.add("eb_hlv_returned_the_other_half_on_cofactor_4", cp.hlv_other)



# ===================================================================================== scalar multiplication
class MulPart(PointIO):
    def __init__(self, ctx, R, B):
        PointIO.__init__(self, ctx, R, B)
        self.p, self.q, self.r = B.eb_new(), B.eb_new(), B.eb_new()
        self.k, self.m = R.bn_new(), R.bn_new()
        self.not_built = set()
        self.confined = load_confined()
        self.stepped = 0
        self.tmax = set()
        X = B.X
        self.tabsz = {"basic": X["RLC_EB_TABLE_BASIC"], "combs": X["RLC_EB_TABLE_COMBS"],
                      "combd": X["RLC_EB_TABLE_COMBD"], "lwnaf": X["RLC_EB_TABLE_LWNAF"]}
        self.capbits = R.BN_BITS

    def has(self, fn):
        if self.R.has(fn):
            return True
        self.not_built.add(fn)
        return False

    # ------------------------------------------------------------------ scalars
    def scalar(self, cv, hostile=0.4):
        rng, n, m = self.rng, cv.n, self.B.m
        if rng.random() > hostile:
            return rng.randrange(1, n)
        c = rng.randrange(24)
        if c == 0:
            return 0
        if c == 1:
            return rng.choice([1, -1])
        if c == 2:
            return rng.choice([2, 3, -2, 4, 5, 7, 8, 15, 16])
        if c == 3:
            return n - rng.choice([1, 2, 3])
        if c == 4:
            return n
        if c == 5:
            return n + rng.choice([1, 2])
        if c == 6:
            return rng.choice([2, 3, 4]) * n + rng.choice([-1, 0, 1])
        if c == 7:
            return -(n + rng.choice([-1, 0, 1]))
        if c == 8:
            return 1 << rng.randrange(1, cv.nbits - 1)
        if c == 9:
            return (1 << rng.randrange(2, cv.nbits)) - 1
        if c == 10:
            return int("a" * ((cv.nbits + 3) // 4), 16) % n
        if c == 11:
            return int("5" * ((cv.nbits + 3) // 4), 16) % n
        if c == 12:
            return -rng.randrange(1, n)
        if c == 13:     # n <= k < 2^bits(n)
            return rng.randrange(n, 1 << cv.nbits)
        if c == 14:     # bits(n) < bits(k) <= m (empty when n has m bits)
            if cv.nbits >= m:
                return rng.randrange(n, 1 << cv.nbits)
            return rng.getrandbits(m) | (1 << rng.randrange(cv.nbits, m))
        if c == 15:     # just beyond the field size: m < bits <= m + 7 (passes the length checks of the recodings)
            return rng.getrandbits(m + 7) | (1 << rng.randrange(m, m + 7))
        if c == 16:
            return rng.choice([1 << m, (1 << m) - 1, (1 << (m + 1)) - 1, 1 << (m - 1), (1 << (m + 2)) - 1, 1 << (m + 2),
                               (1 << (m + 7)) - 1, 1 << (m + 7)])
        if c == 17:
            return rng.getrandbits(rng.choice([300, 320, 400, 512]))
        if c == 18:
            return rng.getrandbits(self.capbits) | (1 << (self.capbits - 1))
        if c == 19:
            return n * n
        if c == 20:
            return -(rng.getrandbits(m + 7) | (1 << rng.randrange(m - 2, m + 7)))
        if c == 21:     # high and low halves sparse: long runs of zeros in every recoding
            return ((1 << (cv.nbits - 2)) | rng.getrandbits(16)) % n
        if c == 22:
            return rng.getrandbits(rng.choice([8, 16, 32, 63, 64, 65, 128]))
        return rng.randrange(1, n)

    def paircls(self, cv, k, m):
        """class of a scalar pair: tag + widest range (of the magnitudes); beyond m bits the operands concerned are named
        (xl:k, xl:m, xl:km, xh:...; the generators never mix xl and xh in one pair)"""
        if k == 0 or m == 0:
            tag = "z"
        elif abs(k) == 1 or abs(m) == 1:
            tag = "u"
        elif k % cv.n == 0 or m % cv.n == 0:
            tag = "r0"
        else:
            tag = "r"
        rank = {"in": 1, "ge": 2, "xw": 3, "xl": 4, "xh": 5}
        rk, rm = cv.krange(k), cv.krange(m)
        top = rk if rank[rk] >= rank[rm] else rm
        if rank[top] >= 4:
            top += ":" + ("k" if rank[rk] >= 4 else "") + ("m" if rank[rm] >= 4 else "")
        return tag + "," + top

    def scalar_pair(self, cv, hostile):
        k, m = self.scalar(cv, hostile), self.scalar(cv, hostile)
        rk, rm = cv.krange(k), cv.krange(m)
        if {rk, rm} == {"xl", "xh"}:
            if rk == "xh":
                k = (k % (1 << (self.B.m + 6))) | (1 << (self.B.m + 5))
            else:
                m = (m % (1 << (self.B.m + 6))) | (1 << (self.B.m + 5))
        return k, m

    TNAF = ("eb_mul_lwnaf", "eb_mul_rwnaf", "eb_mul_fix_lwnaf", "eb_mul_sim_basic", "eb_mul_sim_trick",
            "eb_mul_sim_inter", "eb_mul_sim_gen")

    def tnaf_confined(self, cv, impl, *ks):
        """Koblitz curve, routine that recodes with bn_rec_tnaf, a scalar of m+1..m+7 bits"""
        return (cv.kbltz and impl in self.TNAF and "kbltz_tnaf_long" in self.confined and
                any(cv.krange(k) == "xl" for k in ks))

    # ------------------------------------------------------------------ verdict
    def judge(self, cv, res, out, exp, in_range):
        ctx = self.ctx
        if res.caught:
            # 0 <= k < n must work; any other scalar may be refused
            ctx.check(not in_range, ctx.cur_key + "|unexpected-error", {"err": res.err})
            return
        self.expect(cv, out, exp, affine=True)

    def make_pool(self, cv):
        """subgroup base points with known discrete logarithm; the pool evolves by model additions (cheap),
        so almost every case sees a different point without a model scalar multiplication per point"""
        rng = self.rng
        self.fixed = [1, 2, 3, cv.n - 1]
        self.pool = list(self.fixed) + [rng.randrange(4, cv.n - 1) for _ in range(10)]
        for s in self.pool:
            cv.sub(s)

    def fresh(self, cv):
        rng = self.rng
        i, j = rng.randrange(len(self.pool)), rng.randrange(len(self.pool))
        s = (self.pool[i] + self.pool[j]) % cv.n
        if s == 0 or i == j:
            s = (2 * self.pool[i]) % cv.n
            P = cv.C.dbl(cv.sub(self.pool[i]))
        else:
            P = cv.C.add(cv.sub(self.pool[i]), cv.sub(self.pool[j]))
        if s == 0:
            return 1
        cv.remember(s, P)
        self.pool[rng.randrange(len(self.fixed), len(self.pool))] = s
        return s

    def point(self, cv, special=0.09):
        rng = self.rng
        c = rng.random()
        if c < special / 3:
            return (0, 0)
        if c < 2 * special / 3:
            return (0, rng.randrange(1, cv.h))
        s = self.fresh(cv) if rng.random() < 0.6 else rng.choice(self.pool)
        if c < special:
            return (s, rng.randrange(1, cv.h))
        if c < special + 0.2:
            return (rng.choice(self.fixed), 0)
        return (s, 0)

    # ------------------------------------------------------------------ plain multiplications
    def relation(self, cv, d, e):
        """inf | eq | neg | lin (a relation i*P +- j*Q = O with 1 <= i, j <= 3: a zero entry in window tables) | ne"""
        if "inf" in (cv.pcls(d), cv.pcls(e)):
            return "inf"
        dn, en = (d[0] % cv.n, d[1] % cv.h), (e[0] % cv.n, e[1] % cv.h)
        if dn == en:
            return "eq"
        if cv.dneg(d) == en:
            return "neg"
        for i in (1, 2, 3):
            for j in (1, 2, 3):
                for sg in (1, -1):
                    if cv.dadd(cv.dmul(i, d), cv.dmul(sg * j, e)) == (0, 0):
                        return "lin"
        return "ne"

    def tame(self, cv, d, k):
        """base points outside <G> see scalars of at most bits(n) bits (their classes are only 'in' / 'off')"""
        if cv.pcls(d) in ("o2", "o4", "out") and cv.krange(k) not in ("in", "ge"):
            k = (abs(k) % cv.n) * (-1 if k < 0 else 1)
        return k

    def kc(self, cv, d, k):
        """scalar class; for base points outside <G> only 'in range' / 'not in range' is distinguished;
        tag t: an in-range scalar chosen for an exceptionally long tau-adic NAF (Koblitz curves)"""
        if cv.pcls(d) in ("o2", "o4", "out"):
            return "in" if cv.in_range(k) else "off"
        c = cv.kcls(k)
        if k in self.tmax and c.startswith("r+"):
            c = "t" + c[1:]
        return c

    def tnaf_extremes(self, cv, samples):
        """Koblitz curves: in-range scalars whose tau-adic NAF is as long as it gets.  The library's own
        recoding is used to *find* them (rejection sampling); the verdict on [k]P stays with the model."""
        R, rng = self.R, self.rng
        if not (cv.kbltz and R.has("bn_rec_tnaf")):
            return []
        u = -1 if R.L.eb_curve_opt_a() == 0 else 1
        cap = self.B.m + 8
        buf, ln = R.mem(cap, 0), R.mem(8, 0)
        best = []
        try:
            for _ in range(samples):
                k = rng.randrange(1, cv.n)
                R.bn_put(self.k, k)
                R.wr_sz(ln, cap)
                r = R.raw("bn_rec_tnaf", buf, ln, self.k, u & 0xFF, self.B.m, R.K["RLC_WIDTH"])
                best.append((R.rd_sz(ln), k))
        finally:
            R.free(buf)
            R.free(ln)
        best.sort(reverse=True)
        top = best[:6]
        self.ctx.note("tnaf_longest_lengths_found", {str(l): 1 for l, _ in top})
        return [k for _, k in top]

    def mul_case(self, cv, fn, d, k, force=False, alias=None):
        """r = [k]P with a separate result object (sep) or in place, r == p (inp)"""
        ctx, R, B = self.ctx, self.R, self.B
        if alias is None:
            alias = self.rng.random() < 0.5
        impl = impl_of(R, fn)
        k = self.tame(cv, d, k)
        if not force and self.tnaf_confined(cv, impl, k):
            self.stepped += 1
            return
        key = "%s|%s|%s|%s|%s" % (impl, cv.tag, cv.pcls(d), "inp" if alias else "sep", self.kc(cv, d, k))
        with Case(ctx, key, {"P": dshow(d), "k": hx(k), "via": fn},
                  nontrivial=cv.pcls(d) != "inf" and k % cv.n != 0) as go:
            if go:
                self.put(cv, self.p, cv.aff(d), "B")
                self.stale(cv, self.r)
                R.bn_put(self.k, k)
                raw = B.eb_get(self.p)
                out = self.p if alias else self.r
                res = R.call(fn, out, self.p, self.k)
                self.judge(cv, res, out, cv.aff(cv.dmul(k, d)), cv.in_range(k))
                ctx.check((alias or B.eb_get(self.p) == raw) and R.bn_val(self.k) == k,
                          ctx.cur_key + "|input-modified")

    def gen_case(self, cv, k):
        ctx, R, B = self.ctx, self.R, self.B
        key = "eb_mul_gen|%s|sub|%s" % (cv.tag, cv.kcls(k))
        with Case(ctx, key, {"k": hx(k)}, nontrivial=k % cv.n != 0) as go:
            if go:
                self.stale(cv, self.r)
                R.bn_put(self.k, k)
                res = R.call("eb_mul_gen", self.r, self.k)
                self.judge(cv, res, self.r, cv.aff(cv.dmul(k, (1, 0))), cv.in_range(k))

    def dig_case(self, cv, d, k, alias=None):
        ctx, R, B = self.ctx, self.R, self.B
        if alias is None:
            alias = self.rng.random() < 0.5
        kc = "z" if k == 0 else ("u" if k == 1 else ("top" if k >> (R.DIG - 1) else "d"))
        key = "eb_mul_dig|%s|%s|%s|%s" % (cv.tag, cv.pcls(d), "inp" if alias else "sep", kc)
        with Case(ctx, key, {"P": dshow(d), "k": hx(k)}, nontrivial=cv.pcls(d) != "inf" and k != 0) as go:
            if go:
                self.put(cv, self.p, cv.aff(d), "B")
                self.stale(cv, self.r)
                out = self.p if alias else self.r
                res = R.call("eb_mul_dig", out, self.p, k)
                self.judge(cv, res, out, cv.aff(cv.dmul(k, d)), True)

    # ------------------------------------------------------------------ fixed base
    def fix_variants(self):
        out = []
        for v in ("basic", "combs", "combd", "lwnaf"):
            if self.has("eb_mul_pre_" + v) and self.has("eb_mul_fix_" + v):
                out.append(("eb_mul_pre_" + v, "eb_mul_fix_" + v, self.tabsz[v]))
        for v in ("yaowi", "nafwi"):
            self.has("eb_mul_pre_" + v)
            self.has("eb_mul_fix_" + v)
        if self.has("eb_mul_pre") and self.has("eb_mul_fix"):
            out.append(("eb_mul_pre", "eb_mul_fix", self.R.K["RLC_EB_TABLE"]))
        return out

    def fix_table(self, cv, pre, size, d):
        """exact-size table built by the library for the base point d, or None"""
        ctx, R, B = self.ctx, self.R, self.B
        tab = B.eb_new(size)
        self.stale(cv, tab, size)
        ok = False
        with Case(ctx, "%s|%s|%s" % (impl_of(R, pre), cv.tag, cv.pcls(d)), {"P": dshow(d)},
                  nontrivial=cv.pcls(d) != "inf", budget=600, setup=True) as go:
            if go:
                self.put(cv, self.p, cv.aff(d), "B")
                res = R.call(pre, tab, self.p)
                ok = ctx.check(not res.caught, None, {"err": res.err})
        if not ok:
            R.free(tab)
            return None
        return tab

    def fix_case(self, cv, fix, tab, d, k, force=False):
        ctx, R, B = self.ctx, self.R, self.B
        impl = impl_of(R, fix)
        k = self.tame(cv, d, k)
        if not force:
            if (impl == "eb_mul_fix_basic" and cv.krange(k) in ("xl", "xh") and "fix_basic_long" in self.confined) \
                    or self.tnaf_confined(cv, impl, k):
                self.stepped += 1
                return
        key = "%s|%s|%s|%s" % (impl, cv.tag, cv.pcls(d), self.kc(cv, d, k))
        with Case(ctx, key, {"P": dshow(d), "k": hx(k), "via": fix},
                  nontrivial=cv.pcls(d) != "inf" and k % cv.n != 0) as go:
            if go:
                self.stale(cv, self.r)
                R.bn_put(self.k, k)
                res = R.call(fix, self.r, tab, self.k)
                self.judge(cv, res, self.r, cv.aff(cv.dmul(k, d)), cv.in_range(k))

    # ------------------------------------------------------------------ simultaneous
    def sim_case(self, cv, fn, d, e, rel, k, m, force=False, alias=None):
        ctx, R, B = self.ctx, self.R, self.B
        impl = impl_of(R, fn)
        gen = impl == "eb_mul_sim_gen"
        if gen:
            d = (1, 0)
        kinds = (cv.pcls(d), cv.pcls(e))
        rel = self.relation(cv, d, e)
        kind = [c for c in ("o2", "o4", "out", "sub", "inf") if c in kinds][0]
        if kind in ("o2", "o4", "out"):
            k, m = self.tame(cv, (1, 1), k), self.tame(cv, (1, 1), m)
        sc = self.paircls(cv, k, m)
        if kind in ("o2", "o4", "out"):
            sc = "in" if (cv.in_range(k) and cv.in_range(m)) else "off"
        live = k != 0 and m != 0 and "inf" not in kinds
        if not force:
            # eb_mul_sim_joint falls back to eb_mul (w-TNAF on Koblitz curves) for a zero scalar or an infinite point
            if self.tnaf_confined(cv, "eb_mul_lwnaf" if (impl == "eb_mul_sim_joint" and not live) else impl, k, m):
                self.stepped += 1
                return
        if alias is None:
            alias = self.rng.choice([0, 0, 1, 2, 3])
        if gen and alias in (1, 3):
            alias = 2
        if alias == 3 and (d[0] % cv.n, d[1] % cv.h) != (e[0] % cv.n, e[1] % cv.h):
            alias = 1
        key = "%s|%s|%s:%s|alias%d|%s" % (impl, cv.tag, rel, kind, alias, sc)
        with Case(ctx, key, {"P": dshow(d), "Q": dshow(e), "k": hx(k), "m": hx(m), "via": fn},
                  nontrivial=live and k % cv.n != 0 and m % cv.n != 0) as go:
            if go:
                self.put(cv, self.p, cv.aff(d), "B")
                self.put(cv, self.q, cv.aff(e), "B")
                self.stale(cv, self.r)
                R.bn_put(self.k, k)
                R.bn_put(self.m, m)
                out = {1: self.p, 2: self.q}.get(alias, self.r)
                pq = self.p if alias == 3 else self.q
                if gen:
                    res = R.call(fn, out, self.k, pq, self.m)
                else:
                    res = R.call(fn, out, self.p, self.k, pq, self.m)
                exp = cv.aff(cv.dadd(cv.dmul(k, d), cv.dmul(m, e)))
                self.judge(cv, res, out, exp, cv.in_range(k) and cv.in_range(m))

    def sim_points(self, cv):
        rng = self.rng
        d = self.point(cv, special=0.08)
        c = rng.random()
        if c < 0.15:
            return d, d, "eq"
        if c < 0.3:
            e = cv.dneg(d)
            return d, e, ("eq" if e == (d[0] % cv.n, d[1] % cv.h) else "neg")
        e = self.point(cv, special=0.08)
        dn, en = (d[0] % cv.n, d[1] % cv.h), (e[0] % cv.n, e[1] % cv.h)
        return d, e, ("eq" if dn == en else ("neg" if cv.dneg(d) == en else "ne"))

    # ------------------------------------------------------------------ drivers
    def sacrificial(self, cv, idx):
        """the single directed case of every confined known fatal class; the classes are split over the shards
        (a report costs a restart of the worker, so they run before anything else)"""
        R, ctx = self.R, self.ctx
        n, m = cv.n, self.B.m
        d = (5, 0)
        todo = []
        if "fix_basic_long" in self.confined and self.has("eb_mul_pre_basic"):
            for k in ((1 << (m + 1)) + 12345, (1 << (m + 40)) + 12345):
                todo.append(("fix", k))
        if "kbltz_tnaf_long" in self.confined and cv.kbltz and self.has("eb_mul_lwnaf"):
            todo.append(("tnaf", None))
        for what, k in todo:
            mine = (idx % ctx.nshards) == ctx.shard
            idx += 1
            if not mine:
                continue
            if what == "fix":
                tab = self.fix_table(cv, "eb_mul_pre_basic", self.tabsz["basic"], d)
                if tab:
                    self.fix_case(cv, "eb_mul_fix_basic", tab, d, k, force=True)
                    R.free(tab)
            else:
                # a TNAF of a scalar of m + 7 bits is longer than the m + 8 entries of the callers' buffers
                self.mul_case(cv, "eb_mul_lwnaf", d, (1 << (m + 6)) + 12345, force=True)
        return idx

    def directed_scalars(self, cv):
        n, m = cv.n, self.B.m
        return [0, 1, -1, 2, 3, n - 1, n, n + 1, 2 * n, 2 * n + 1, 2 * n - 1, -n, -(n - 1), n - 2, (n - 1) // 2, (n + 1) // 2,
                1 << (cv.nbits - 1), (1 << (cv.nbits - 1)) - 1, (1 << cv.nbits) - 1, 1 << (m - 1), (1 << m) - 1, 1 << m,
                (1 << (m + 2)) - 1, 1 << (m + 2), (1 << (m + 6)) + 12345, 1 << (m + 7), n * n, (1 << 300) + 7]

    def run_curve(self, cv, N):
        ctx, R, rng = self.ctx, self.R, self.rng
        self.make_pool(cv)
        muls = [fn for fn in ("eb_mul_basic", "eb_mul_lodah", "eb_mul_lwnaf", "eb_mul_rwnaf", "eb_mul_halve", "eb_mul")
                if self.has(fn)]
        sims = [fn for fn in ("eb_mul_sim_basic", "eb_mul_sim_trick", "eb_mul_sim_inter", "eb_mul_sim_joint",
                              "eb_mul_sim_gen", "eb_mul_sim") if self.has(fn)]
        fixes = self.fix_variants()
        # ---- directed: every routine sees every distinguished scalar on G and on one random subgroup point
        ds = self.directed_scalars(cv)
        rp = (self.pool[-1], 0)
        i = 0
        for k in ds:
            for fn in muls:
                for d in ((1, 0), rp):
                    for alias in (False, True):
                        if ctx.mine(i):
                            self.mul_case(cv, fn, d, k, alias=alias)
                        i += 1
            if ctx.mine(i):
                self.gen_case(cv, k)
            i += 1
        for k in (0, 1, 2, 3, 255, (1 << R.DIG) - 1, 1 << (R.DIG - 1)):
            for d in ((1, 0), rp, (0, 0), (0, cv.h // 2)):
                for alias in (False, True):
                    if ctx.mine(i):
                        self.dig_case(cv, d, k, alias=alias)
                    i += 1
        for pre, fix, size in fixes:
            if ctx.mine(i):
                for d in ((1, 0), rp):
                    tab = self.fix_table(cv, pre, size, d)
                    if tab:
                        for k in ds:
                            self.fix_case(cv, fix, tab, d, k)
                        R.free(tab)
            i += 1
        # Koblitz: scalars with maximal tau-adic length through every routine that recodes with bn_rec_tnaf
        ext = self.tnaf_extremes(cv, ctx.n(1500, 6000))
        self.tmax = set(ext)
        if ext:
            for k in ext:
                for fn in muls:
                    if impl_of(R, fn) in self.TNAF:
                        self.mul_case(cv, fn, rp, k)
                for fn in sims:
                    if impl_of(R, fn) in self.TNAF:
                        self.sim_case(cv, fn, rp, (self.pool[-2], 0), "ne", k, ext[0])
            for pre, fix, size in fixes:
                if impl_of(R, fix) == "eb_mul_fix_lwnaf":
                    tab = self.fix_table(cv, pre, size, rp)
                    if tab:
                        for k in ext:
                            self.fix_case(cv, fix, tab, rp, k)
                        R.free(tab)
        # exceptional base points through every fixed-base variant
        for pre, fix, size in fixes:
            for d in ((0, cv.h // 2), (0, 1), (rp[0], cv.h // 2), (0, 0)):
                if ctx.mine(i):
                    tab = self.fix_table(cv, pre, size, d)
                    if tab:
                        for k in (1, 2, 3, 5, cv.n - 1, rng.randrange(1, cv.n), rng.randrange(1, cv.n)):
                            self.fix_case(cv, fix, tab, d, k)
                        R.free(tab)
                i += 1
        # exceptional points through every routine
        for d in ((0, 0), (0, cv.h // 2), (0, 1), (rp[0], cv.h // 2), (rp[0], 1)):
            for fn in muls:
                for k in (1, 2, 3, cv.n - 1, rng.randrange(1, cv.n), cv.n, -1):
                    if ctx.mine(i):
                        self.mul_case(cv, fn, d, k, alias=bool((i // ctx.nshards) & 1))
                    i += 1
        small = [0, 1, -1, 2, cv.n - 1, cv.n, rng.randrange(1, cv.n), (1 << self.B.m) + 9, (1 << (self.B.m + 30)) + 9]
        for fn in sims:
            for (d, e, rel) in (((1, 0), rp, "ne"), (rp, rp, "eq"), (rp, cv.dneg(rp), "neg"), ((0, 0), rp, "inf"),
                                (rp, (0, 0), "inf"), ((1, 0), (0, cv.h // 2), "ne"), ((3, 0), (cv.n - 1, 0), "lin"),
                                (rp, (0, 1), "ne")):
                for k in small:
                    for m in small:
                        if ctx.mine(i) and {cv.krange(k), cv.krange(m)} != {"xl", "xh"}:
                            self.sim_case(cv, fn, d, e, rel, k, m, alias=(i // ctx.nshards) % 4)
                        i += 1
        # ---- random
        ops = ["mul"] * 10 + ["gen"] * 2 + ["dig"] + ["fix"] * 6 + ["sim"] * 8
        it = 0
        while it < N:
            R.poison = rng.randrange(1, 256)
            op = rng.choice(ops)
            if op == "mul":
                self.mul_case(cv, rng.choice(muls), self.point(cv), self.scalar(cv))
                it += 1
            elif op == "gen":
                self.gen_case(cv, self.scalar(cv))
                it += 1
            elif op == "dig":
                self.dig_case(cv, self.point(cv), rng.choice([0, 1, 2, rng.getrandbits(R.DIG), rng.getrandbits(8),
                                                              (1 << R.DIG) - 1]))
                it += 1
            elif op == "fix" and fixes:
                pre, fix, size = rng.choice(fixes)
                d = self.point(cv, special=0.1)
                tab = self.fix_table(cv, pre, size, d)
                if tab:
                    for _ in range(8):
                        self.fix_case(cv, fix, tab, d, self.scalar(cv))
                        it += 1
                    R.free(tab)
                else:
                    it += 1
            else:
                d, e, rel = self.sim_points(cv)
                k, m = self.scalar_pair(cv, 0.35)
                self.sim_case(cv, rng.choice(sims), d, e, rel, k, m)
                it += 1


def run_mul_part(ctx, R, B):
    mp = MulPart(ctx, R, B)
    ids = open_curves(ctx, R, B)
    if not ids:
        raise RuntimeError("no binary curve accepted by eb_param_set in this build")
    cvs = [Cv(R, B, nm, v) for nm, v in ids]
    # known fatal classes first (a report costs a restart of this worker)
    idx = 0
    for cv in cvs:
        R.call("eb_param_set", cv.ident)
        idx = mp.sacrificial(cv, idx)
    N = ctx.n(900, 16000)
    for cv in cvs:
        R.call("eb_param_set", cv.ident)
        mp.run_curve(cv, N // len(cvs))
    ctx.note("curves", [{"curve": cv.name, "n": hx(cv.n), "h": cv.h, "koblitz": cv.kbltz} for cv in cvs])
    ctx.note("functions_not_built", sorted(mp.not_built))
    ctx.note("confined_known_fatal", sorted(mp.confined))
    ctx.add("cases_stepped_around_confined_known_fatal", mp.stepped)


def run(ctx, part):
    R = RT(ctx.cfg)
    B = BX(R)
    ctx.note("field_bits", B.m)
    ctx.note("dispatch", {k: impl_of(R, k) for k in ("fb_mul", "fb_sqr", "fb_rdc", "fb_inv", "fb_srt", "fb_trc",
                                                      "fb_slv", "fb_exp", "eb_add", "eb_dbl", "eb_neg", "eb_sub",
                                                      "eb_mul", "eb_mul_pre", "eb_mul_fix", "eb_mul_sim")})
    if part == "field":
        run_field_part(ctx, R, B)
    elif part == "curve":
        run_curve_part(ctx, R, B)
    elif part == "mul":
        run_mul_part(ctx, R, B)
    ctx.note("functions_exercised", sorted(R.fn_seen))
    ctx.note("error_codes_seen", {str(k): v for k, v in R.err_codes.items()})


def finish(cov):
    """function-coverage accounting against the API inventory of the design (DESIGN.md 10)"""
    inv = os.path.join(os.path.dirname(KNOWN) if not os.environ.get("VF_KNOWN") else
                       os.path.dirname(os.path.dirname(os.path.dirname(os.path.abspath(__file__)))),
                       "design", "api_inventory.json")
    try:
        fns = json.load(open(inv))["functions"]
    except (OSError, ValueError, KeyError):
        return
    scope = sorted(k for k, v in fns.items() if v.get("property") == "C16")
    seen = set(cov.get("functions_exercised", []))
    absent = set(cov.get("functions_not_built", []))
    cov["functions_in_scope"] = len(scope)
    cov["functions_in_scope_exercised"] = len([f for f in scope if f in seen])
    cov["functions_uncovered"] = [f for f in scope if f not in seen and f not in absent]
