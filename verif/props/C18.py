"""C18 - every built-in parameter set is internally consistent.

Exhaustive enumeration: every enumerator of the parameter enums is offered to fp_param_set / fb_param_set /
ep_param_set / eb_param_set / ed_param_set of each build; for every accepted identifier everything the library
exposes about it is read back (public getters; the derived constants without a getter through shim/vf_x_C18.c)
and judged by Python models that share nothing with the library: primality, irreducibility, curve membership,
group orders (model scalar multiplication of the generator *and* of random model points), Hasse, endomorphism and
GLV constants, pairing-family polynomials, embedding degree, twist curve and its generator over a measured Fp2,
Frobenius constants, hash-to-curve constants, isogeny maps, Montgomery constants, roots of unity, security level.
One (identifier, obligation) = one case.

Selection histories: an identifier denotes one parameter set whatever the context went through before it is selected.
For every identifier of every selection function (fp / ep / ed / fb / eb) the identifier is selected, a history of
other public calls that change the field or curve state follows (a modulus / polynomial installed without an identifier:
fp_prime_set_dense / _pmers / _pairf, fp_param_set_any_dense, fb_poly_set_*; another identifier, the same one again, one
the build rejects, the *_set_any* selectors; a curve installed without an identifier: ep_curve_set_plain / _super, an
ep_curve_set_endom that fails half-way, eb_curve_set; selections of the other curve modules; random sequences of these),
then the identifier is selected again and what is installed is judged: the modulus is the identifier's (the published
one where a standard defines it), the parameters are those of the first selection, the obligations above hold, and the
library's arithmetic (field, fixed- and variable-base multiplication, addition) agrees with the models built from the
values the getters report.  One (identifier, history) = one case, the obligations are its comparisons.
"""
import ctypes
import math

from ..rt import RT, MonitorViolation
from ..ctx import hx
from ..model.curves import WCurve, is_probable_prime, sqrt_mod
from ..model.tower import Ext, PrimeField

LEVEL = "exploration"
RULE = ("exhaustive over identifiers: every enumerator of relic_fp.h / relic_fb.h / relic_ep.h / relic_eb.h / relic_ed.h "
        "is offered to the selection function of each build; each accepted identifier is one parameter set and each "
        "obligation about it (listed in the key after '|') is one case, evaluated by an independent Python model on "
        "values read back from the library; distinct = distinct (identifier, obligation); all cases are non-trivial; "
        "selection histories: (identifier, history class) with history class = one public state-changing call of the "
        "lists HIST (or a random sequence of 2-4 of them) executed between two selections of the identifier - quick tier: "
        "one history of each group of QUICK_GROUPS per identifier, rotating with the identifier's position and VERIF_SEED; "
        "thorough tier: the full product and 12 random sequences per identifier")
ASSUMPTIONS = ["Python integers; Miller-Rabin with 36 bases for primality (probabilistic, error < 2^-72)",
               "the affine curve models of verif/model (prime fields, Fp2 towers measured from the library's own "
               "u^2 and v^3) and the GF(2^m) model in this file",
               "hash-to-curve constants are judged against the conditions of RFC 9380 sections 6.6.1-6.6.3 / appendix H",
               "security level: a generic curve over a b-bit field offers about b/2 bits; pairing-friendly curves may "
               "advertise less (finite-field DLP) but not more, and never 0",
               "an identifier of another field size that a selection function accepts silently is outside the "
               "documented domain: recorded in the evidence, not judged",
               "the sparse-form getter is asked after every other accepted field has been installed once, so the "
               "answer must not depend on the history of the context",
               "selection histories: an identifier names one parameter set, so what a successful selection installs must "
               "not depend on the calls that preceded it; the calls of a history themselves are not judged (they may be "
               "rejected); reference = what the first selection of the identifier in the process installed (judged by "
               "the other parts) and, for NIST / SECG / Brainpool / SM2 / SM9 / Curve25519 / BLS12-381, the published modulus",
               "cofactor-clearing maps: ep_mul_cof must return [h]P, or for the BLS families the effective cofactor "
               "[1-x]P (RFC 9380 8.8.1 h_eff, Piellard 2022/352); ep2_mul_cof is documented as 'the cofactor or a small "
               "multiple for which a short vector exists': BLS12 must equal [3(x^2-1)*h2]P (Budroni-Pintore, RFC 9380 "
               "8.8.2 h_eff) with h2 the *model's* twist cofactor, BN must equal the Fuentes-Castaneda et al. polynomial "
               "x + 3x*psi + x*psi^2 + psi^3 evaluated with a model psi (conjugation times xi-powers, orientation fixed "
               "by psi(G2) = [p]G2 in the model), other families [h2]P; in all cases [r]*cof(P) = O"]


SWEEP = ("asan224", "asan384", "asan521", "asan377", "asan382", "asan446")


def parts(tier):
    extra = []
    if tier != "quick":
        for cfg in SWEEP:
            extra += [dict(part="ep", cfg=cfg, shards=2), dict(part="fp", cfg=cfg, shards=1)]
    hist = []
    if tier != "quick":
        # selection histories, full product (the quick tier's few histories per identifier run inside part "fp")
        hist = [dict(part="hist", cfg="asan256", shards=8), dict(part="hist", cfg="asan255", shards=3),
                dict(part="hist", cfg="asan381", shards=3), dict(part="hist-binary", cfg="asan256", shards=6)]
        hist += [dict(part="hist", cfg=cfg, shards=2) for cfg in SWEEP]
    return extra + [dict(part="ep", cfg="asan256", shards=6), dict(part="ep", cfg="asan255", shards=2),
            dict(part="ep", cfg="asan381", shards=5),
            dict(part="fp", cfg="asan256", shards=2), dict(part="fp", cfg="asan255", shards=1),
            dict(part="fp", cfg="asan381", shards=1),
            dict(part="binary", cfg="asan256", shards=2), dict(part="ed", cfg="asan255", shards=1)] + hist


BINARY_CFGS = ("asan256",)        # the build whose binary fields / curves this module judges (part "binary")


# =================================================================================================== models
def field_sqrt(F, a, rng):
    """square root in any model field of odd order (generic Tonelli-Shanks); None when a is not a square"""
    if F.is_zero(a):
        return a
    q = F.card
    if not F.eq(F.pow(a, (q - 1) // 2), F.one):
        return None
    if q % 4 == 3:
        return F.pow(a, (q + 1) // 4)
    s, t = 0, q - 1
    while t % 2 == 0:
        t //= 2
        s += 1
    for _ in range(400):
        z = F.rand(rng)
        if not F.is_zero(z) and not F.eq(F.pow(z, (q - 1) // 2), F.one):
            break
    else:
        raise ArithmeticError("no non-square found: not a field")
    c, x, b, m = F.pow(z, t), F.pow(a, (t + 1) // 2), F.pow(a, t), s
    while not F.eq(b, F.one):
        i, b2 = 0, b
        while not F.eq(b2, F.one):
            b2 = F.mul(b2, b2)
            i += 1
            if i >= m:
                raise ArithmeticError("square-root iteration does not converge: not a field")
        e = c
        for _ in range(m - i - 1):
            e = F.mul(e, e)
        x, c = F.mul(x, e), F.mul(e, e)
        b, m = F.mul(b, c), i
    return x


def rand_point(C, rng):
    F = C.F
    for _ in range(400):
        x = F.rand(rng)
        y = field_sqrt(F, F.add(F.add(F.mul(F.mul(x, x), x), F.mul(C.a, x)), C.b), rng)
        if y is not None:
            return (x, y)
    raise ArithmeticError("no point found on the model curve")


def horner(F, coeffs, x):
    acc = coeffs[-1]
    for c in reversed(coeffs[:-1]):
        acc = F.add(F.mul(acc, x), c)
    return acc


def sgn0(F, a):
    """RFC 9380 sgn0 for prime fields and quadratic extensions"""
    if isinstance(a, tuple):
        s0, z0 = a[0] % 2, a[0] == 0
        return s0 | (z0 & (a[1] % 2))
    return a % 2


def cyclotomic(k, x):
    """Phi_k(x) for the embedding degrees that occur"""
    return {1: x - 1, 2: x + 1, 8: x ** 4 + 1, 12: x ** 4 - x ** 2 + 1, 16: x ** 8 + 1, 18: x ** 6 - x ** 3 + 1,
            24: x ** 8 - x ** 4 + 1, 48: x ** 16 - x ** 8 + 1, 54: x ** 18 - x ** 9 + 1}.get(k)


class GF2(object):
    """GF(2)[x]/(f) on Python integers (bit i = coefficient of x^i)"""

    def __init__(self, f):
        self.f = f
        self.m = f.bit_length() - 1
        self.zero, self.one = 0, 1

    def red(self, a):
        f, m = self.f, self.m
        while a.bit_length() > m:
            a ^= f << (a.bit_length() - 1 - m)
        return a

    def mul(self, a, b):
        r = 0
        while b:
            low = b & -b
            r ^= a * low
            b ^= low
        return self.red(r)

    def sqr(self, a):
        return self.red(int(bin(a)[2:], 4)) if a else 0

    def add(self, a, b):
        return a ^ b

    def inv(self, a):
        if a == 0:
            raise ZeroDivisionError("inverse of 0 in GF(2^m)")
        u, v, g1, g2 = a, self.f, 1, 0
        while u != 1:
            if u == 0 or v == 0:
                raise ZeroDivisionError("element not invertible: the modulus is reducible")
            j = u.bit_length() - v.bit_length()
            if j < 0:
                u, v, g1, g2, j = v, u, g2, g1, -j
            u ^= v << j
            g1 ^= g2 << j
        return self.red(g1)

    def trace(self, a):
        t = a
        for _ in range(self.m - 1):
            t = self.sqr(t) ^ a
        return t

    def half_trace(self, a):
        h = a
        for _ in range((self.m - 1) // 2):
            h = self.sqr(self.sqr(h)) ^ a
        return h


def gf2_gcd(a, b):
    while b:
        while a and a.bit_length() >= b.bit_length():
            a ^= b << (a.bit_length() - b.bit_length())
        a, b = b, a
    return a


def gf2_irreducible(f):
    """Rabin's test over GF(2)"""
    m = f.bit_length() - 1
    if m < 1 or not (f & 1):
        return False
    K = GF2(f)
    qs = [q for q in range(2, m + 1) if m % q == 0 and all(q % d for d in range(2, int(q ** 0.5) + 1))]
    marks = {m // q for q in qs}
    x = 2
    t = x
    for i in range(1, m + 1):
        t = K.sqr(t)
        if i in marks and gf2_gcd(f, t ^ x) != 1:
            return False
    return t == K.red(x)


class BinCurve(object):
    """y^2 + xy = x^3 + a x^2 + b over GF(2^m), affine"""

    def __init__(self, K, a, b):
        self.K, self.a, self.b = K, a, b

    def on_curve(self, P):
        if P is None:
            return True
        K = self.K
        x, y = P
        x2 = K.sqr(x)
        return K.sqr(y) ^ K.mul(x, y) == K.mul(x2, x) ^ K.mul(self.a, x2) ^ self.b

    def add(self, P, Q):
        K = self.K
        if P is None:
            return Q
        if Q is None:
            return P
        x1, y1 = P
        x2, y2 = Q
        if x1 == x2:
            if y1 != y2 or x1 == 0:
                return None
            lam = x1 ^ K.mul(y1, K.inv(x1))
            x3 = K.sqr(lam) ^ lam ^ self.a
        else:
            lam = K.mul(y1 ^ y2, K.inv(x1 ^ x2))
            x3 = K.sqr(lam) ^ lam ^ x1 ^ x2 ^ self.a
        y3 = K.mul(lam, x1 ^ x3) ^ x3 ^ y1
        return (x3, y3)

    def mul(self, k, P):
        R, Q = None, P
        while k:
            if k & 1:
                R = self.add(R, Q)
            Q = self.add(Q, Q)
            k >>= 1
        return R

    def rand_point(self, rng):
        K = self.K
        while True:
            x = rng.getrandbits(K.m)
            if x == 0:
                continue
            xi = K.inv(x)
            c = x ^ self.a ^ K.mul(self.b, K.sqr(xi))
            if K.trace(c) != 0:
                continue
            z = K.half_trace(c) if K.m % 2 else None
            if z is None or K.sqr(z) ^ z != c:
                continue
            return (x, K.mul(x, z))


class EdCurve(object):
    """a x^2 + y^2 = 1 + d x^2 y^2 over Fp, affine unified law"""

    def __init__(self, p, a, d):
        self.p, self.a, self.d = p, a % p, d % p

    def on_curve(self, P):
        x, y = P
        p = self.p
        return (self.a * x * x + y * y - 1 - self.d * x * x * y * y) % p == 0

    def add(self, P, Q):
        p = self.p
        x1, y1 = P
        x2, y2 = Q
        t = self.d * x1 * x2 * y1 * y2 % p
        return ((x1 * y2 + y1 * x2) * pow(1 + t, -1, p) % p, (y1 * y2 - self.a * x1 * x2) * pow(1 - t, -1, p) % p)

    def mul(self, k, P):
        R, Q = (0, 1), P
        while k:
            if k & 1:
                R = self.add(R, Q)
            Q = self.add(Q, Q)
            k >>= 1
        return R


# ==================================================================================================== driver
class Ob(object):
    """obligation runner: one (identifier, obligation) = one journaled case with one or more comparisons"""

    def __init__(self, ctx, R):
        self.ctx, self.R = ctx, R
        self.ident = None
        self.unit = 0
        self.grouped = False      # inside one journaled (identifier, history) case: obligations are comparisons of it

    def __call__(self, name, fn, desc=None, budget=None):
        ctx = self.ctx
        key = "%s|%s" % (self.ident, name)
        if self.grouped:
            try:
                res = fn()
                ok, detail = res if isinstance(res, tuple) else (res, None)
                ctx.check(bool(ok), key, detail)
                return bool(ok)
            except MonitorViolation as e:
                ctx.fail(key + "|" + e.kind, e.detail)
            except (ArithmeticError, ValueError) as e:
                ctx.evaluations += 1
                ctx.fail(key, {"model-exception": repr(e)})
            return False
        if not ctx.begin(key, desc if desc is not None else [self.ident], budget=budget):
            return None
        try:
            res = fn()
            ok, detail = res if isinstance(res, tuple) else (res, None)
            ctx.check(bool(ok), key, detail)
            return bool(ok)
        except MonitorViolation as e:
            ctx.fail(key + "|" + e.kind, e.detail)
        except (ArithmeticError, ValueError) as e:
            # the model could not even evaluate the obligation on the data the library reported (e.g. a division by
            # zero caused by a degenerate constant): the parameter set is inconsistent, not the harness
            ctx.evaluations += 1
            ctx.fail(key, {"model-exception": repr(e)})
        finally:
            ctx.end()
        return False


def note(ctx, key, d):
    """ctx.note replaces; parameter-set dictionaries must accumulate inside one worker"""
    cur = ctx.info.setdefault(key, {})
    cur.update(d)


def xconsts(R):
    S = R.S
    S.vf_x18_const_name.restype = ctypes.c_char_p
    S.vf_x18_const_val.restype = ctypes.c_longlong
    S.vf_x18_ptr.restype = ctypes.c_void_p
    S.vf_x18_ptr.argtypes = [ctypes.c_int, ctypes.c_int]
    X, i = {}, 0
    while True:
        n = S.vf_x18_const_name(i)
        if n is None:
            break
        X[n.decode()] = S.vf_x18_const_val(i)
        i += 1
    return X


def ptr_fn(R, name):
    f = getattr(R.L, name)
    f.restype = ctypes.c_void_p
    return f


def bn_of(R, getter):
    t = R.bn_new()
    try:
        r = R.call(getter, t)
        if r.caught:
            raise ValueError("%s raised an error" % getter)
        return R.bn_val(t)
    finally:
        R.bn_free(t)


def accepted(R, header, setter, getter):
    out = []
    for nm, v in sorted(R.EH.get(header, {}).items(), key=lambda kv: kv[1]):
        if nm.startswith("EP_") or not R.has(setter):
            continue
        r = R.call(setter, v)
        if not r.caught and getattr(R.L, getter)() == v:
            out.append((nm, v))
    return out


def trailing_number(nm):
    d = ""
    while nm and nm[-1].isdigit():
        d = nm[-1] + d
        nm = nm[:-1]
    return int(d) if d else None


def ep_ids(R):
    """-> (accepted, broken): broken = identifiers that belong to this build (ep_param_set got as far as installing
    their field - detected with the even-modulus sentinel) but whose parameter set did not install"""
    L = R.L
    L.fp_prime_get.restype = ctypes.c_void_p
    ok, broken = [], []
    for nm, v in sorted(R.EH.get("relic_ep.h", {}).items(), key=lambda kv: kv[1]):
        if nm.startswith("EP_"):
            continue
        b0 = ctypes.c_ubyte.from_address(L.fp_prime_get())
        old = b0.value
        b0.value = old & 0xFE
        r = R.call("ep_param_set", v)
        now = ctypes.c_ubyte.from_address(L.fp_prime_get()).value
        if not r.caught and L.ep_param_get() == v:
            ok.append((nm, v))
        elif now & 1:
            broken.append((nm, v))
        if not (now & 1):
            ctypes.c_ubyte.from_address(L.fp_prime_get()).value = old
    return ok, broken


# ------------------------------------------------------------------------------------------------- prime fields
def fp_ids(R):
    """identifiers fp_param_set() installs in this build (sentinel: the stored modulus is made even first)"""
    L = R.L
    L.fp_prime_get.restype = ctypes.c_void_p
    out, silent = [], []
    for nm, v in sorted(R.EH.get("relic_fp.h", {}).items(), key=lambda kv: kv[1]):
        b0 = ctypes.c_ubyte.from_address(L.fp_prime_get())
        old = b0.value
        b0.value = old & 0xFE
        r = R.call("fp_param_set", v)
        now = ctypes.c_ubyte.from_address(L.fp_prime_get()).value
        if not r.caught and (now & 1):
            out.append((nm, v))
        else:
            ctypes.c_ubyte.from_address(L.fp_prime_get()).value = old
            if not r.caught:
                silent.append(nm)
    return out, silent


P_FAMILY = {"BN": lambda x: 36 * x ** 4 + 36 * x ** 3 + 24 * x ** 2 + 6 * x + 1,
            "B12": lambda x: (x - 1) ** 2 * (x ** 4 - x ** 2 + 1) // 3 + x}
R_FAMILY = {"BN": lambda x: 36 * x ** 4 + 36 * x ** 3 + 18 * x ** 2 + 6 * x + 1, "B12": lambda x: x ** 4 - x ** 2 + 1}
T_FAMILY = {"BN": lambda x: 6 * x * x + 1, "B12": lambda x: x + 1}


def check_field(ob, R, X, nm, v, all_ids, hist=None, ref=None):
    """hist/ref: the obligations are evaluated for the selection that follows the history 'hist' (already executed by
    the caller); ref is the modulus this identifier installed when it was first selected in this process"""
    ctx = ob.ctx
    ob.ident = ident_of("fp", nm, hist)
    L = R.L
    if hist is None:
        # history: every other accepted field first, then this one (the answers must describe *this* field)
        for onm, ov in all_ids:
            if ov != v:
                R.call("fp_param_set", ov)
    r = R.call("fp_param_set", v)
    if r.caught:
        ob("installs", lambda: (False, "fp_param_set raised an error on the second installation"))
        return
    try:
        p = R.fp_setup()
    except (ValueError, ArithmeticError) as e:
        ob("prime", lambda: (False, {"why": "the Montgomery radix is not invertible modulo the installed modulus", "exc": repr(e)}))
        return
    digs = R.FP_DIGS
    Rr = 1 << (64 * digs)
    note(ctx, "fp_sets", {nm: {"p": hx(p), "bits": p.bit_length(), "p%8": p % 8, "p%9": p % 9}})
    if hist is not None:
        ob("modulus-is-the-identifiers-prime", lambda: modulus_ok(nm, p, ref))
    ob("prime", lambda: (is_prime(p), {"p": hx(p)}))
    ob("size", lambda: (p.bit_length() == R.K["RLC_FP_BITS"], {"bits": p.bit_length(), "FP_PRIME": R.K["RLC_FP_BITS"]}))
    ob("identifier-getter", lambda: L.fp_param_get() == v)

    def rd(getter, n=digs):
        return int.from_bytes(ctypes.string_at(ptr_fn(R, getter)(), 8 * n), "little")
    ob("montgomery-u", lambda: (rd("fp_prime_get_rdc", 1) == (-pow(p, -1, 1 << 64)) % (1 << 64),
                                {"got": hx(rd("fp_prime_get_rdc", 1))}))
    ob("montgomery-one", lambda: (R.mont == Rr % p, {"got": hx(R.mont)}))
    ob("montgomery-conv", lambda: (rd("fp_prime_get_conv") == Rr * Rr % p, {"got": hx(rd("fp_prime_get_conv"))}))
    L.fp_prime_get_mod8.restype = ctypes.c_uint64
    L.fp_prime_get_mod18.restype = ctypes.c_uint64
    ob("mod8", lambda: (L.fp_prime_get_mod8() == p % 8, {"got": L.fp_prime_get_mod8()}))
    ob("mod18", lambda: (L.fp_prime_get_mod18() == p % 18, {"got": L.fp_prime_get_mod18()}))
    f2 = ((p - 1) & -(p - 1)).bit_length() - 1
    ob("2-adicity", lambda: (L.fp_prime_get_2ad() == f2, {"got": L.fp_prime_get_2ad(), "exp": f2}))
    q = L.fp_prime_get_qnr()
    ob("qnr-is-non-residue", lambda: (q % p != 0 and pow(q % p, (p - 1) // 2, p) == p - 1, {"qnr": q}))
    c = L.fp_prime_get_cnr()
    if p % 3 == 1:
        ob("cnr-is-non-cube", lambda: (c % p != 0 and pow(c % p, (p - 1) // 3, p) != 1, {"cnr": c}))
    srt_raw = rd("fp_prime_get_srt")
    s = srt_raw * R.mont_inv % p

    def srt_ok():
        if srt_raw >= p or pow(s, 1 << f2, p) != 1:
            return False, {"srt": hx(s), "f": f2}
        # the root is *used* (Tonelli-Shanks) only when p = 1 mod 4: there it must have exact order 2^f
        if p % 4 == 1 and pow(s, 1 << (f2 - 1), p) != p - 1:
            return False, {"srt": hx(s), "f": f2, "why": "not primitive"}
        return True
    ob("srt-root-of-unity", srt_ok)
    if p % 3 == 1:
        f3, t = 0, p - 1
        while t % 3 == 0:
            t //= 3
            f3 += 1
        crt_raw = rd("fp_prime_get_crt")
        w = crt_raw * R.mont_inv % p
        ob("crt-root-of-unity", lambda: (crt_raw < p and pow(w, 3 ** f3, p) == 1 and pow(w, 3 ** (f3 - 1), p) != 1,
                                         {"crt": hx(w), "f": f3}))

    # sparse form
    def sparse():
        L.fp_prime_get_sps.restype = ctypes.c_void_p
        L.fp_prime_get_sps.argtypes = [ctypes.c_void_p]
        ln = ctypes.c_int(0)
        ptr = L.fp_prime_get_sps(ctypes.addressof(ln))
        if not ptr:
            return True, "no sparse form reported"
        sp = [ctypes.c_int.from_address(ptr + 4 * i).value for i in range(ln.value)]
        val = (1 << sp[-1]) + sp[0]
        for t in sp[1:-1]:
            val += (1 << t) if t > 0 else -(1 << -t)
        return val == p, {"sps": sp, "value": hx(val), "p": hx(p)}
    # class of the input: does p have a short signed-binary form at all (NAF weight within the library's RLC_TERMS)?
    naf, t = 0, p
    while t:
        if t & 1:
            t -= 2 - (t & 3)
            naf += 1
        t >>= 1
    ob("sparse-form|%s" % ("sparse-prime" if naf < X["RLC_TERMS"] else "dense-prime"), sparse)

    # pairing-family parameter
    fam = None
    x = bn_of(R, "fp_prime_get_par")
    for k, f in P_FAMILY.items():
        if f(x) == p:
            fam = k
    named = nm.split("_")[0] in ("BN", "B12", "SM9")
    if named or fam:
        ob("family-prime", lambda: (fam is not None, {"x": hx(x), "p": hx(p)}))

        def par_sparse():
            L.fp_prime_get_par_sps.restype = ctypes.c_void_p
            L.fp_prime_get_par_sps.argtypes = [ctypes.c_void_p]
            ln = ctypes.c_int(0)
            ptr = L.fp_prime_get_par_sps(ctypes.addressof(ln))
            if not ptr:
                return False, "no sparse form of the parameter"
            sp = [ctypes.c_int.from_address(ptr + 4 * i).value for i in range(ln.value)]
            val = sum((1 << e) if e >= 0 else -(1 << -e) for e in sp)
            return val == abs(x), {"par_sps": sp, "value": hx(val), "x": hx(x)}
        ob("family-parameter-sparse-form", par_sparse)
    # quadratic extension constants that every tower builds on
    if R.has("fp2_sqr"):
        def fp2_nonresidue():
            a = R.fpx_new(2, [0, 1])
            cc = R.fpx_new(2)
            try:
                R.call("fp2_sqr", cc, a)
                (c0, c1), can = R.fpx_get(cc, 2)
            finally:
                R.free(a)
                R.free(cc)
            return (c1 == 0 and can and pow(c0, (p - 1) // 2, p) == p - 1 and c0 == q % p,
                    {"u^2": [hx(c0), hx(c1)], "qnr": q})
        ob("fp2-u-squared-is-qnr", fp2_nonresidue)
    if hist is not None and is_prime(p):
        # the arithmetic that consumes the derived constants must be the arithmetic of this field
        ob("field-arithmetic", lambda: field_battery(R, p, ctx.rng))


# ------------------------------------------------------------------------------------------------- prime curves
def read_ep2(R, P):
    K = R.K
    sz = R.fp_sz
    x, cx = R.fpx_get(P + K["off_ep2_st_x"], 2)
    y, cy = R.fpx_get(P + K["off_ep2_st_y"], 2)
    z, cz = R.fpx_get(P + K["off_ep2_st_z"], 2)
    return tuple(x), tuple(y), tuple(z), R.rd_int(P + K["off_ep2_st_coord"]), cx and cy and cz


def measure_tower(R, p):
    """-> (Fp2 model, xi) from the library's own u^2 (fp2) and v^3 (fp6)"""
    a = R.fpx_new(2, [0, 1])
    c = R.fpx_new(2)
    R.call("fp2_sqr", c, a)
    (c0, c1), _ = R.fpx_get(c, 2)
    R.free(a)
    R.free(c)
    if c1 != 0:
        raise ValueError("u^2 is not in the prime field")
    F2 = Ext(PrimeField(p), 2, c0)
    a = R.fpx_new(6, [0, 0, 1, 0, 0, 0])
    c = R.fpx_new(6)
    R.call("fp6_sqr", c, a)
    R.call("fp6_mul", c, c, a)
    v3, _ = R.fpx_get(c, 6)
    R.free(a)
    R.free(c)
    if any(v3[2:]):
        raise ValueError("v^3 is not in Fp2")
    return F2, (v3[0], v3[1])


def check_curve(ob, R, X, nm, v, group):
    """group: 'base' | 'endo' | 'map' | 'pairing' | 'cof' (units are distributed over the shards)"""
    ctx, rng, L = ob.ctx, ob.ctx.rng, R.L
    ob.ident = "ep:" + nm
    r0 = R.call("ep_param_set", v)
    if r0.caught or L.ep_param_get() != v:
        ob("installs", lambda: (False, "ep_param_set failed on re-installation"))
        return
    try:
        P = R.ep_params()
    except (ValueError, ArithmeticError) as e:
        if group == "base":
            ob("field-prime", lambda: (False, {"why": "modulus not usable by the model", "exc": repr(e)}))
        return
    p, a, b, n, h = P["p"], P["a"], P["b"], P["n"], P["h"]
    if not is_probable_prime(p, 36) or not is_probable_prime(n, 36):
        # the models below need a field and a prime order; the failed premise is itself the finding
        if group == "base":
            ob("field-prime", lambda: (is_probable_prime(p, 36), {"p": hx(p)}))
            ob("order-prime", lambda: (is_probable_prime(n, 36), {"r": hx(n)}))
        return
    F = PrimeField(p)
    E = WCurve(F, a, b, n, h)
    G = (P["gx"], P["gy"])
    pairf = P["pairf"]
    k = L.ep_curve_embed() if R.has("ep_curve_embed") else 0
    level = L.ep_param_level()
    if group == "base":
        note(ctx, "ep_sets", {nm: {"p": hx(p), "a": hx(a), "b": hx(b), "r": hx(n), "h": hx(h), "endom": P["endom"],
                                  "pairf": pairf, "ctmap": P["ctmap"], "level": level, "embed": k}})
        ob("field-prime", lambda: (is_probable_prime(p, 36) and p.bit_length() == R.K["RLC_FP_BITS"], {"p": hx(p)}))
        ob("discriminant-nonzero", lambda: (4 * a ** 3 + 27 * b * b) % p != 0)

        def gen_form():
            g = R.ep_new()
            R.call("ep_curve_get_gen", g)
            x, y, z, co, can = R.ep_get(g)
            R.free(g)
            return z == 1 and co == R.K["BASIC"] and can, {"z": hx(z), "coord": co, "canonical": can}
        ob("generator-affine-canonical", gen_form)
        ob("generator-on-curve", lambda: (E.on_curve(G), {"G": [hx(G[0]), hx(G[1])]}))
        ob("order-prime", lambda: (is_probable_prime(n, 36), {"r": hx(n)}))
        ob("order-annihilates-generator", lambda: E.mul(n, G) is None)
        ob("cofactor-positive", lambda: (h >= 1, {"h": hx(h)}))
        ob("hasse", lambda: (abs(p + 1 - h * n) <= 2 * math.isqrt(p) + 1, {"p+1-hr": hx(p + 1 - h * n)}))

        def group_order():
            for _ in range(3):
                Q = rand_point(E, rng)
                if E.mul(h * n, Q) is not None:
                    return False, {"Q": [hx(Q[0]), hx(Q[1])], "why": "[h*r]Q != O for a random point of the model curve"}
            return True
        ob("order-times-cofactor-is-curve-order", group_order)
        if h > 1:
            def cof():
                for _ in range(3):
                    Q = E.mul(h, rand_point(E, rng))
                    if E.mul(n, Q) is not None:
                        return False
                return True
            ob("cofactor-clears-into-subgroup", cof)

        def opts():
            oa, ob_ = L.ep_curve_opt_a(), L.ep_curve_opt_b()

            def want(val):
                if val == p - 3:
                    return X["RLC_MIN3"]
                if val == 0:
                    return X["RLC_ZERO"]
                if val == 1:
                    return X["RLC_ONE"]
                if val == 2:
                    return X["RLC_TWO"]
                return None
            wa, wb = want(a), want(b)
            # MIN3/ZERO/ONE/TWO drive dedicated formulas and must be exact; TINY/HUGE only select a multiplier
            oka = (oa == wa) if wa is not None else oa in (X["RLC_TINY"], X["RLC_HUGE"])
            okb = (ob_ == wb) if wb is not None else ob_ in (X["RLC_TINY"], X["RLC_HUGE"])
            return oka and okb, {"opt_a": oa, "opt_b": ob_, "a": hx(a), "b": hx(b)}
        ob("coefficient-optimisation-flags", opts)

        def lvl():
            bits = p.bit_length()
            if level <= 0:
                return False, {"level": level, "field_bits": bits}
            if pairf:
                return 64 <= level <= bits // 2 + 4, {"level": level, "field_bits": bits}
            # conventional labels: 255 -> 128, 384 -> 192, 521 -> 256
            return -8 <= level - bits / 2.0 <= 4 and level <= n.bit_length() // 2 + 4, {"level": level, "field_bits": bits}
        ob("security-level", lvl)
        ob("flags", lambda: (not (P["endom"] and P["super"]) and (not P["endom"] or a == 0 or b == 0),
                             {"endom": P["endom"], "super": P["super"]}))
        if pairf:
            ob("embedding-degree-advertised", lambda: (k > 0, {"k": k}))

            def embed():
                if pow(p, k, n) != 1:
                    return False, {"k": k, "why": "r does not divide p^k - 1"}
                for j in range(1, k):
                    if pow(p, j, n) == 1:
                        return False, {"k": k, "actual": j}
                return cyclotomic(k, p) % n == 0, {"k": k}
            ob("embedding-degree-exact", embed)
        else:
            ob("embedding-degree-advertised", lambda: (k == 0, {"k": k}))

            def no_small_embedding():
                # a curve offered for discrete-log security must not have a tiny embedding degree (MOV)
                return all(pow(p, j, n) != 1 for j in range(1, 21))
            ob("embedding-degree-not-small", no_small_embedding)

    if group == "endo" and P["endom"]:
        beta = R.fp_get(ptr_fn(R, "ep_curve_get_beta")())[0]
        ob("beta-cube-root-of-unity", lambda: (pow(beta, 3, p) == 1 and beta != 1, {"beta": hx(beta)}))
        if a != 0:
            ob("endomorphism-type", lambda: (False, "only j = 0 endomorphisms are modelled"))
            return
        psiG = (beta * G[0] % p, G[1])
        lam = None
        s3 = sqrt_mod(-3 % n, n)
        if s3 is not None:
            for cand in ((-1 + s3) * pow(2, -1, n) % n, (-1 - s3) * pow(2, -1, n) % n):
                if E.eq(E.mul(cand, G), psiG):
                    lam = cand
        ob("psi-is-multiplication-by-lambda", lambda: (lam is not None and (lam * lam + lam + 1) % n == 0,
                                                       {"psi(G)": [hx(psiG[0]), hx(psiG[1])]}))
        if lam is None:
            return
        szb = R.K["sizeof_bn_st"]
        v1 = [R.bn_get(ptr_fn(R, "ep_curve_get_v1")() + i * szb) for i in range(3)]
        v2 = [R.bn_get(ptr_fn(R, "ep_curve_get_v2")() + i * szb) for i in range(3)]
        V1, V2 = [t[0] for t in v1], [t[0] for t in v2]
        note(ctx, "glv", {nm: {"lambda": hx(lam), "v1": [hx(t) for t in V1], "v2": [hx(t) for t in V2]}})
        ob("glv-constants-normal-form", lambda: (all(t[3] for t in v1 + v2), {"v1": repr(v1), "v2": repr(v2)}))
        ob("glv-rows-in-lattice", lambda: ((V1[1] + V1[2] * lam) % n == 0 and (V2[1] + V2[2] * lam) % n == 0,
                                           {"v1": [hx(t) for t in V1], "v2": [hx(t) for t in V2]}))
        det = V1[1] * V2[2] - V1[2] * V2[1]
        ob("glv-basis-determinant", lambda: (abs(det) == n, {"det": hx(det)}))
        half = (n.bit_length() + 1) // 2 + 1
        ob("glv-basis-short", lambda: (all(abs(t).bit_length() <= half for t in (V1[1], V1[2], V2[1], V2[2])),
                                       {"bits": [abs(t).bit_length() for t in (V1[1], V1[2], V2[1], V2[2])]}))
        bits = n.bit_length()

        def rounding():
            # v1[0] ~ round(v2[2] * 2^(bits+1) / det), v2[0] ~ -round(v1[2] * 2^(bits+1) / det)
            e1 = (V2[2] << (bits + 1)) / det
            e2 = -(V1[2] << (bits + 1)) / det
            return (abs(abs(V1[0]) - abs(e1)) <= 2 and abs(abs(V2[0]) - abs(e2)) <= 2 and
                    abs(abs(V1[0]) * abs(det) - (abs(V2[2]) << (bits + 1))) <= 2 * abs(det) and
                    abs(abs(V2[0]) * abs(det) - (abs(V1[2]) << (bits + 1))) <= 2 * abs(det)), {"v10": hx(V1[0]), "v20": hx(V2[0])}
        ob("glv-rounding-constants", rounding)

        def decomposition():
            # the documented use: k = k0 + k1*lambda (mod r) with half-length k0, k1 (model of bn_rec_glv's formula)
            def rnd(kk, c):
                t = kk * abs(c)
                q = (t + (1 << bits)) >> (bits + 1)
                return q
            for kk in [1, 2, n - 1, n // 2, lam, (lam * lam) % n] + [rng.randrange(n) for _ in range(40)]:
                b1, b2 = rnd(kk, V1[0]), rnd(kk, V2[0])
                s1 = -1 if V1[0] < 0 else 1
                s2 = -1 if V2[0] < 0 else 1
                k0 = kk - s1 * b1 * V1[1] - s2 * b2 * V2[1]
                k1 = -s1 * b1 * V1[2] - s2 * b2 * V2[2]
                if (k0 + k1 * lam - kk) % n != 0:
                    return False, {"k": hx(kk), "why": "k0 + k1*lambda != k"}
                if max(abs(k0), abs(k1)).bit_length() > half + 1:
                    return False, {"k": hx(kk), "k0": hx(k0), "k1": hx(k1), "why": "not half-length"}
            return True
        ob("glv-decomposition-half-length", decomposition)

    if group == "map":
        check_map(ob, R, X, nm, P, E, F)

    if group == "pairing" and pairf:
        check_pairing(ob, R, X, nm, P, E, F, k)

    if group == "cof" and R.has("ep_mul_cof"):
        check_cofactor_map(ob, R, X, nm, P, E, F)


# --------------------------------------------------------------------------------------- cofactor-clearing maps
def cof_cases(ctx, ident, what, points, expected, call, read, cmp_eq, put_in, put_inf, put_pt, filler, objs, order, curve):
    """Common driver for ep_mul_cof / ep2_mul_cof.  One journaled case per output mode:
       sep       - separate output object pre-filled with a different valid point
       sep-infty - separate output object pre-filled with the point at infinity
       inplace   - output == input
    points: [(label, model point or None)], expected(label, P) -> list of acceptable model points (None = infinity).
    Failure keys: <ident>|<what>|<mode>|value / ep_cmp / subgroup / input-modified / unexpected-error."""
    pin, pout, pexp = objs
    grouped = getattr(ctx, "c18_grouped", False)       # inside an (identifier, history) case: comparisons of that case
    for mode in ("sep", "sep-infty", "inplace"):
        key = "%s|%s|%s" % (ident, what, mode)
        if not grouped and not ctx.begin(key, [ident, [lab for lab, _ in points]], budget=600):
            continue
        try:
            for lab, Pt in points:
                if Pt is None:
                    put_inf(pin)
                else:
                    put_pt(pin, Pt)
                before = read(pin, raw=True)
                if mode == "sep":
                    put_pt(pout, filler)
                elif mode == "sep-infty":
                    put_inf(pout)
                out = pin if mode == "inplace" else pout
                res = call(out, pin)
                if res.caught:
                    ctx.check(False, key + "|unexpected-error", {"point": lab, "err": res.err})
                    continue
                got, canon = read(out)
                exp = expected(lab, Pt)
                hit = [e for e in exp if curve.eq(got, e)] if got != "invalid" else []
                ctx.check(bool(hit) and canon, key + "|value",
                          {"point": lab, "got": repr(got)[:300], "exp": repr(exp[0])[:300], "canonical": canon,
                           "why": "output left as pre-filled" if (mode != "inplace" and got != "invalid" and
                                                                   curve.eq(got, filler if mode == "sep" else None)) else None})
                # the library's own comparison against the model's expectation
                e0 = hit[0] if hit else exp[0]
                if e0 is None:
                    put_inf(pexp)
                else:
                    put_pt(pexp, e0)
                ctx.check(cmp_eq(out, pexp), key + "|ep_cmp", {"point": lab})
                if got != "invalid":
                    ctx.check(curve.mul(order, got) is None, key + "|subgroup", {"point": lab, "got": repr(got)[:300]})
                if mode != "inplace":
                    ctx.check(read(pin, raw=True) == before, key + "|input-modified", {"point": lab})
        except MonitorViolation as e:
            ctx.fail(key + "|" + e.kind, e.detail)
        except (ArithmeticError, ValueError) as e:
            ctx.evaluations += 1
            ctx.fail(key + "|value", {"model-exception": repr(e)})
        finally:
            if not grouped:
                ctx.end()


def check_cofactor_map(ob, R, X, nm, P, E, F):
    ctx, rng = ob.ctx, ob.ctx.rng
    p, n, h = P["p"], P["n"], P["h"]
    K = R.K
    G = (P["gx"], P["gy"])
    x = bn_of(R, "fp_prime_get_par")
    bls = [R.E.get(t) for t in ("EP_B12", "EP_B24", "EP_B48") if R.E.get(t)]
    scalars = [h] + ([1 - x] if P["pairf"] in bls else [])
    pts = [("generator", G)] + [("random-curve-point-%d" % i, rand_point(E, rng)) for i in range(3)]
    pts.append(("cofactor-torsion-point", E.mul(n, rand_point(E, rng))))     # O when h = 1
    pts.append(("infinity", None))
    cache = {}

    def expected(lab, Pt):
        if lab not in cache:
            cache[lab] = [E.mul(c, Pt) for c in scalars]
        return cache[lab]

    def read(o, raw=False):
        xx, yy, zz, co, can = R.ep_get(o)
        if raw:
            return (xx, yy, zz, co)
        if zz == 0:
            return None, can
        if co == K["BASIC"]:
            return ((xx, yy) if zz == 1 else "invalid"), can
        if co == K["PROJC"]:
            return E.from_homog(xx, yy, zz), can
        if co == K["JACOB"]:
            return E.from_jacob(xx, yy, zz), can
        return "invalid", can
    objs = (R.ep_new(), R.ep_new(), R.ep_new())
    for o in objs:
        R.ep_put(o, G[0], G[1])
    note(ctx, "cofactor_map", {nm: {"h": hx(h), "accepted_scalars": [hx(c) for c in scalars]}})
    try:
        cof_cases(ctx, ob.ident, "cofactor-map", pts, expected,
                  call=lambda o, i: R.call("ep_mul_cof", o, i), read=read,
                  cmp_eq=lambda u, v: R.call("ep_cmp", u, v).i == K["RLC_EQ"],
                  put_in=None, put_inf=lambda o: R.call("ep_set_infty", o),
                  put_pt=lambda o, Q: R.ep_put(o, Q[0], Q[1]), filler=E.mul(7, G), objs=objs, order=n, curve=E)
    finally:
        for o in objs:
            R.free(o)


def put_ep2(R, o, Q):
    K = R.K
    R.fpx_put(o + K["off_ep2_st_x"], list(Q[0]))
    R.fpx_put(o + K["off_ep2_st_y"], list(Q[1]))
    R.fpx_put(o + K["off_ep2_st_z"], [1, 0])
    R.wr_int(o + K["off_ep2_st_coord"], K["BASIC"])


def check_twist_cofactor_map(ob, R, X, nm, P, E2, F2, xi, G2, fam, x, h2m):
    """ep2_mul_cof on the sextic twist over Fp2 (embedding degree 12)"""
    ctx, rng = ob.ctx, ob.ctx.rng
    p, n = P["p"], P["n"]
    K = R.K

    def conj(z):
        return (z[0], (-z[1]) % p)
    gx_, gy_ = F2.pow(xi, (p - 1) // 3), F2.pow(xi, (p - 1) // 2)
    igx, igy = F2.inv(gx_), F2.inv(gy_)
    pG = E2.mul(p % n, G2)
    psi = None
    for cx, cy in ((gx_, gy_), (igx, igy)):
        def cand(Q, cx=cx, cy=cy):
            return None if Q is None else (F2.mul(cx, conj(Q[0])), F2.mul(cy, conj(Q[1])))
        if E2.on_curve(cand(G2)) and E2.eq(cand(G2), pG):
            psi = cand
    if fam == "BN" and psi is None:
        raise ArithmeticError("no model Frobenius on the twist satisfies psi(G2) = [p]G2")

    def expected_of(Q):
        if Q is None:
            return [None]
        if fam == "B12":
            return [E2.mul(3 * (x * x - 1) * h2m, Q), E2.mul(h2m, Q)]
        if fam == "BN":
            xP = E2.mul(x, Q)
            return [E2.add(E2.add(E2.add(psi(psi(psi(Q))), xP), psi(E2.mul(3, xP))), psi(psi(xP))), E2.mul(h2m, Q)]
        return [E2.mul(h2m, Q)]
    pts = [("generator", G2)] + [("random-twist-point-%d" % i, rand_point(E2, rng)) for i in range(2)]
    pts.append(("cofactor-torsion-point", E2.mul(n, rand_point(E2, rng))))
    pts.append(("infinity", None))
    cache = {}

    def expected(lab, Pt):
        if lab not in cache:
            cache[lab] = expected_of(Pt)
        return cache[lab]
    tmp = R.mem(K["sizeof_ep2_st"], R.poison)

    def read(o, raw=False):
        xx, yy, zz, co, can = read_ep2(R, o)
        if raw:
            return (xx, yy, zz, co)
        if zz == (0, 0):
            return None, can
        if zz == (1, 0):
            return (xx, yy), can
        # projective output: normalise with the library (only the tag-free affine form is modelled for ep2)
        R.call("ep2_norm", tmp, o)
        xx, yy, zz, co, can2 = read_ep2(R, tmp)
        return ((xx, yy) if zz == (1, 0) else "invalid"), can and can2
    objs = tuple(R.mem(K["sizeof_ep2_st"], R.poison) for _ in range(3))
    for o in objs:
        put_ep2(R, o, G2)
    try:
        cof_cases(ctx, ob.ident, "twist-cofactor-map", pts, expected,
                  call=lambda o, i: R.call("ep2_mul_cof", o, i), read=read,
                  cmp_eq=lambda u, v: R.call("ep2_cmp", u, v).i == K["RLC_EQ"],
                  put_in=None, put_inf=lambda o: R.call("ep2_set_infty", o),
                  put_pt=lambda o, Q: put_ep2(R, o, Q), filler=E2.mul(7, G2), objs=objs, order=n, curve=E2)
    finally:
        for o in objs + (tmp,):
            R.free(o)


def check_map(ob, R, X, nm, P, E, F):
    ctx, rng = ob.ctx, ob.ctx.rng
    p, a, b, n, h = P["p"], P["a"], P["b"], P["n"], P["h"]
    S = R.S
    u = R.fp_get(S.vf_x18_ptr(0, 0))
    c = [R.fp_get(S.vf_x18_ptr(1, i)) for i in range(5)]
    ob("map-constants-canonical", lambda: (u[1] and all(t[1] for t in c[:4]), None))
    u = u[0]
    c = [t[0] for t in c]

    def g(E_, x):
        return (x * x * x + E_.a * x + E_.b) % p

    def sq(x):
        return x % p == 0 or pow(x, (p - 1) // 2, p) == 1
    sswu = bool(P["ctmap"]) or (a != 0 and b != 0)
    note(ctx, "map_kind", {nm: "sswu+isogeny" if P["ctmap"] else ("sswu" if sswu else "svdw")})
    if sswu:
        Et = E
        if P["ctmap"]:
            iso = ptr_fn(R, "ep_curve_get_iso")()
            ia = R.fp_get(iso + X["off_iso_st_a"])[0]
            ib = R.fp_get(iso + X["off_iso_st_b"])[0]
            Et = WCurve(F, ia, ib)
            degs = {k_: R.rd_int(iso + X["off_iso_st_deg_" + k_]) for k_ in ("xn", "xd", "yn", "yd")}
            co = {k_: [R.fp_get(iso + X["off_iso_st_" + k_] + i * R.fp_sz)[0] for i in range(degs[k_] + 1)]
                  for k_ in ("xn", "xd", "yn", "yd")}
            ob("isogeny-degrees", lambda: (all(0 <= d < X["RLC_EP_CTMAP_MAX"] for d in degs.values()) and
                                           degs["xn"] == degs["xd"] + 1 and all(co[k_][-1] for k_ in co), degs))
            ob("isogenous-curve-nonsingular", lambda: (4 * ia ** 3 + 27 * ib * ib) % p != 0 and ia != 0 and ib != 0)

            def same_order():
                for _ in range(3):
                    if Et.mul(h * n, rand_point(Et, rng)) is not None:
                        return False
                return True
            ob("isogenous-curve-has-the-curve-order", same_order)

            def maps():
                for _ in range(8):
                    Q = rand_point(Et, rng)
                    xd, yd = horner(F, co["xd"], Q[0]), horner(F, co["yd"], Q[0])
                    if xd == 0 or yd == 0:
                        continue
                    x2 = horner(F, co["xn"], Q[0]) * pow(xd, -1, p) % p
                    y2 = Q[1] * horner(F, co["yn"], Q[0]) % p * pow(yd, -1, p) % p
                    if not E.on_curve((x2, y2)):
                        return False, {"Q": [hx(Q[0]), hx(Q[1])]}
                return True
            ob("isogeny-maps-onto-the-curve", maps)

            def hom():
                def phi(Q):
                    if Q is None:
                        return None
                    xd, yd = horner(F, co["xd"], Q[0]), horner(F, co["yd"], Q[0])
                    if xd == 0 or yd == 0:
                        return None
                    return (horner(F, co["xn"], Q[0]) * pow(xd, -1, p) % p,
                            Q[1] * horner(F, co["yn"], Q[0]) % p * pow(yd, -1, p) % p)
                for _ in range(3):
                    Q1, Q2 = rand_point(Et, rng), rand_point(Et, rng)
                    if not E.eq(phi(Et.add(Q1, Q2)), E.add(phi(Q1), phi(Q2))):
                        return False
                return True
            ob("isogeny-is-a-group-homomorphism", hom)
        At, Bt = Et.a, Et.b
        ob("sswu-c3-c4-are-curve-coefficients", lambda: (c[2] == At and c[3] == Bt, {"c": [hx(t) for t in c[:4]]}))
        ob("sswu-c1-is-minus-b-over-a", lambda: (At != 0 and c[0] == (-Bt * pow(At, -1, p)) % p, None))
        ob("sswu-u-is-non-square", lambda: (not sq(u) and u != p - 1, {"u": hx(u)}))
        ob("sswu-g-of-b-over-ua-is-square", lambda: (sq(g(Et, Bt * pow(u * At % p, -1, p) % p)), {"u": hx(u)}))
    else:
        gu = g(E, u)
        d = (3 * u * u + 4 * a) % p
        ob("svdw-c1-is-g-of-u-nonzero", lambda: (gu != 0 and c[0] == gu, {"u": hx(u)}))
        ob("svdw-c2-is-minus-u-over-2", lambda: (c[1] == (-u * pow(2, -1, p)) % p, None))
        ob("svdw-c3-squared", lambda: (d != 0 and c[2] != 0 and c[2] * c[2] % p == (-gu * d) % p and c[2] % 2 == 0,
                                       {"c3": hx(c[2])}))
        ob("svdw-c4", lambda: (c[3] == (-4 * gu * pow(d, -1, p)) % p, None))
        ob("svdw-g-of-u-or-g-of-minus-u-half-square", lambda: (sq(gu) or sq(g(E, (-u * pow(2, -1, p)) % p)), {"u": hx(u)}))
    if not P["super"] and (a == 0 or b == 0):
        ob("sqrt-of-minus-3", lambda: (c[4] * c[4] % p == p - 3, {"c": hx(c[4])}))


def check_pairing(ob, R, X, nm, P, E, F, k):
    ctx, rng, L = ob.ctx, ob.ctx.rng, R.L
    p, a, b, n, h = P["p"], P["a"], P["b"], P["n"], P["h"]
    x = bn_of(R, "fp_prime_get_par")
    fam = None
    for f_ in P_FAMILY:
        if P_FAMILY[f_](x) == p:
            fam = f_
    ob("family-prime", lambda: (fam is not None, {"x": hx(x)}))
    if fam:
        ob("family-order", lambda: (R_FAMILY[fam](x) == n, {"x": hx(x), "r": hx(n)}))
        ob("family-trace", lambda: (p + 1 - T_FAMILY[fam](x) == h * n, {"t": hx(T_FAMILY[fam](x))}))
        ob("family-flag", lambda: (P["pairf"] == R.E.get("EP_" + fam), {"pairf": P["pairf"]}))
    if k != 12 or not R.has("ep2_curve_set_twist"):
        note(ctx, "pairing_not_modelled", {nm: "embedding degree %d" % k})
        return
    F2, xi = measure_tower(R, p)
    ob("tower-xi-is-sextic-non-residue", lambda: (not F2.is_sqr(xi) and not F2.eq(F2.pow(xi, (p * p - 1) // 3), F2.one),
                                                 {"xi": [hx(t) for t in xi]}))
    # the twist type is decided by the mathematics, then the library is configured with it
    results = {}
    for typ in (X["RLC_EP_DTYPE"], X["RLC_EP_MTYPE"]):
        r = R.call("ep2_curve_set_twist", typ)
        if r.caught:
            results[typ] = None
            continue
        a2 = tuple(R.fpx_get(ptr_fn(R, "ep2_curve_get_a")(), 2)[0])
        b2 = tuple(R.fpx_get(ptr_fn(R, "ep2_curve_get_b")(), 2)[0])
        results[typ] = (a2, b2)
    bb = F2.embed(b)
    typ = None
    ab = results.get(X["RLC_EP_DTYPE"]) or results.get(X["RLC_EP_MTYPE"])
    if ab is not None:
        if F2.eq(F2.mul(ab[1], xi), bb):
            typ = X["RLC_EP_DTYPE"]
        elif F2.eq(ab[1], F2.mul(bb, xi)):
            typ = X["RLC_EP_MTYPE"]
    ob("twist-coefficients", lambda: (ab is not None and typ is not None and F2.is_zero(ab[0]),
                                      {"a'": repr(ab[0]) if ab else None, "b'": [hx(t) for t in ab[1]] if ab else None,
                                       "why": "b' is neither b/xi (D-type) nor b*xi (M-type)"}))
    if typ is None:
        return
    tab = getattr(R, "TWIST_TYPE", {}).get(nm)
    note(ctx, "twist_type", {nm: {"computed": "D" if typ == X["RLC_EP_DTYPE"] else "M", "rt_table": tab}})
    if tab is not None and tab != typ:
        ctx.note("twist_type_table_disagrees", [nm])
    r = R.call("ep2_curve_set_twist", typ)
    a2, b2 = ab
    E2 = WCurve(F2, a2, b2)
    g = R.mem(R.K["sizeof_ep2_st"], R.poison)
    R.call("ep2_curve_get_gen", g)
    gx, gy, gz, co, can = read_ep2(R, g)
    G2 = (gx, gy)
    ob("twist-generator-affine-canonical", lambda: (gz == (1, 0) and co == R.K["BASIC"] and can, {"z": repr(gz), "coord": co}))
    ob("twist-generator-on-twist", lambda: (E2.on_curve(G2), {"G2": [[hx(t) for t in gx], [hx(t) for t in gy]]}))
    n2 = bn_of(R, "ep2_curve_get_ord")
    h2 = bn_of(R, "ep2_curve_get_cof")
    note(ctx, "twist_sets", {nm: {"b'": [hx(t) for t in b2], "h2": hx(h2), "xi": [hx(t) for t in xi]}})
    ob("twist-order-equals-base-order", lambda: (n2 == n, {"r2": hx(n2)}))
    ob("twist-order-annihilates-generator", lambda: E2.mul(n, G2) is None, budget=300)
    t1 = p + 1 - h * n
    t2 = t1 * t1 - 2 * p
    f2sq, rem = divmod(4 * p * p - t2 * t2, 3)
    f2 = math.isqrt(f2sq)
    cands = []
    if rem == 0 and f2 * f2 == f2sq:
        cands = [p * p + 1 - (s1 * t2 + s2 * 3 * f2) // 2 for s1 in (1, -1) for s2 in (1, -1)]
    ob("twist-cofactor-gives-a-sextic-twist-order", lambda: (h2 * n in cands, {"h2": hx(h2)}))

    def order2():
        for _ in range(2):
            Q = rand_point(E2, rng)
            if E2.mul(h2 * n, Q) is not None:
                return False, {"why": "[h2*r]Q != O for a random point of the model twist"}
        return True
    ob("twist-order-times-cofactor-is-twist-order", order2, budget=300)
    if fam == "BN":
        ob("twist-cofactor-family", lambda: (h2 == p - 1 + T_FAMILY["BN"](x), {"h2": hx(h2)}))

    def frob():
        # G2 generates the p-eigenspace of Frobenius on E'[r]: the library's twisted Frobenius must be [p]
        q = R.mem(R.K["sizeof_ep2_st"], R.poison)
        try:
            rr = R.call("ep2_frb", q, g, 1)
            if rr.caught:
                return False, "ep2_frb raised an error"
            if R.has("ep2_norm"):
                R.call("ep2_norm", q, q)
            qx, qy, qz, _, _ = read_ep2(R, q)
        finally:
            R.free(q)
        return qz == (1, 0) and E2.eq((qx, qy), E2.mul(p % n, G2)), {"frb(G2)": [repr(qx), repr(qy)]}
    ob("twist-frobenius-constants", frob, budget=300)
    R.free(g)
    if R.has("ep2_mul_cof"):
        # the model's own twist cofactor (the table value is judged above, not trusted here)
        h2m = None
        if cands:
            Qc = rand_point(E2, rng)
            for N in cands:
                if N % n == 0 and E2.mul(N, Qc) is None:
                    h2m = N // n
        if h2m is not None and E2.on_curve(G2) and E2.mul(n, G2) is None:
            check_twist_cofactor_map(ob, R, X, nm, P, E2, F2, xi, G2, fam, x, h2m)
    if R.has("ep2_curve_is_ctmap") and L.ep2_curve_is_ctmap() and "off_iso2_st_a" in X:
        iso = ptr_fn(R, "ep2_curve_get_iso")()
        ia = tuple(R.fpx_get(iso + X["off_iso2_st_a"], 2)[0])
        ib = tuple(R.fpx_get(iso + X["off_iso2_st_b"], 2)[0])
        Et = WCurve(F2, ia, ib)
        degs = {k_: R.rd_int(iso + X["off_iso2_st_deg_" + k_]) for k_ in ("xn", "xd", "yn", "yd")}
        co = {k_: [tuple(R.fpx_get(iso + X["off_iso2_st_" + k_] + i * 2 * R.fp_sz, 2)[0]) for i in range(degs[k_] + 1)]
              for k_ in ("xn", "xd", "yn", "yd")}

        def same_order2():
            Q = rand_point(Et, rng)
            return Et.mul(h2 * n, Q) is None
        ob("twist-isogenous-curve-has-the-twist-order", same_order2, budget=300)

        def maps2():
            for _ in range(4):
                Q = rand_point(Et, rng)
                xd, yd = horner(F2, co["xd"], Q[0]), horner(F2, co["yd"], Q[0])
                if F2.is_zero(xd) or F2.is_zero(yd):
                    continue
                x2 = F2.mul(horner(F2, co["xn"], Q[0]), F2.inv(xd))
                y2 = F2.mul(F2.mul(Q[1], horner(F2, co["yn"], Q[0])), F2.inv(yd))
                if not E2.on_curve((x2, y2)):
                    return False
            return True
        ob("twist-isogeny-maps-onto-the-twist", maps2, budget=300)
        S = R.S
        u2 = tuple(R.fpx_get(S.vf_x18_ptr(10, 0), 2)[0])
        c2 = [tuple(R.fpx_get(S.vf_x18_ptr(11, i), 2)[0]) for i in range(4)]
        ob("twist-sswu-constants", lambda: (F2.eq(c2[2], ia) and F2.eq(c2[3], ib) and
                                            F2.eq(F2.mul(c2[0], ia), F2.neg(ib)) and not F2.is_sqr(u2),
                                            {"u": repr(u2)}))
    elif R.has("ep2_curve_is_ctmap"):
        S = R.S
        u2 = tuple(R.fpx_get(S.vf_x18_ptr(10, 0), 2)[0])
        c2 = [tuple(R.fpx_get(S.vf_x18_ptr(11, i), 2)[0]) for i in range(4)]

        def g2(x_):
            return F2.add(F2.add(F2.mul(F2.mul(x_, x_), x_), F2.mul(a2, x_)), b2)

        def svdw2():
            gu = g2(u2)
            d = F2.add(F2.mul(F2.small(3), F2.mul(u2, u2)), F2.mul(F2.small(4), a2))
            if F2.is_zero(gu) or F2.is_zero(d):
                return False, "g(u) = 0 or 3u^2 + 4a = 0"
            ok = (F2.eq(c2[0], gu) and F2.eq(F2.mul(c2[1], F2.small(2)), F2.neg(u2)) and
                  F2.eq(F2.mul(c2[2], c2[2]), F2.neg(F2.mul(gu, d))) and sgn0(F2, c2[2]) == 0 and
                  F2.eq(F2.mul(c2[3], d), F2.neg(F2.mul(F2.small(4), gu))))
            return ok, {"u": repr(u2)}
        ob("twist-svdw-constants", svdw2)
        ob("twist-svdw-g-of-u-or-g-of-minus-u-half-square",
           lambda: F2.is_sqr(g2(u2)) or F2.is_sqr(g2(F2.neg(F2.mul(u2, F2.inv(F2.small(2)))))))


# -------------------------------------------------------------------------------------------- binary fields, curves
def fb_int(R, ptr):
    return int.from_bytes(ctypes.string_at(ptr, R.K["RLC_FB_DIGS"] * 8), "little")


def check_fb(ob, R, X, nm, v, hist=None, ref=None):
    ctx, L = ob.ctx, R.L
    ob.ident = ident_of("fb", nm, hist)
    m = X["FB_POLYN"]
    r = R.call("fb_param_set", v)
    if r.caught:
        ob("installs", lambda: (False, "fb_param_set raised an error"))
        return
    f = fb_int(R, ptr_fn(R, "fb_poly_get")())
    note(ctx, "fb_sets", {nm: hx(f)})
    if hist is not None:
        ob("identifier-getter", lambda: L.fb_param_get() == v)
        ob("polynomial-is-the-identifiers-polynomial", lambda: (f == ref, {"observed": hx(f), "first-selection": hx(ref)}))
    ob("degree", lambda: (f.bit_length() - 1 == m, {"deg": f.bit_length() - 1}))
    ob("irreducible", lambda: (gf2_irreducible(f), {"f": hx(f)}))
    K = GF2(f)
    ia, ib, ic = ctypes.c_int(0), ctypes.c_int(0), ctypes.c_int(0)
    L.fb_poly_get_rdc(ctypes.byref(ia), ctypes.byref(ib), ctypes.byref(ic))
    terms = [t for t in (ia.value, ib.value, ic.value) if t > 0]

    def rdc_terms():
        g = (1 << m) | 1
        for t in terms:
            g |= 1 << t
        return g == f, {"terms": [ia.value, ib.value, ic.value], "f": hx(f)}
    ob("reduction-terms-describe-the-polynomial", rdc_terms)
    if hist is not None and f.bit_length() - 1 == m and gf2_irreducible(f):
        ob("field-arithmetic", lambda: fb_battery(R, K, ctx.rng))
    if R.has("fb_poly_get_trc") and (hist is None or not ctx.quick):
        L.fb_poly_get_trc(ctypes.byref(ia), ctypes.byref(ib), ctypes.byref(ic))
        got = sorted(t for t in (ia.value, ib.value, ic.value) if t >= 0)

        def trc():
            exp = sorted(i for i in range(m) if K.trace(1 << i) == 1)
            return got == exp, {"got": got, "exp": exp}
        ob("trace-positions", trc, budget=300)
    if R.has("fb_poly_get_srz"):
        pz = ptr_fn(R, "fb_poly_get_srz")()
        if pz:
            srz = fb_int(R, pz)
            ob("sqrt-of-x", lambda: (K.sqr(srz) == 2, {"srz": hx(srz)}))


def check_eb(ob, R, X, nm, v, group):
    ctx, rng, L = ob.ctx, ob.ctx.rng, R.L
    ob.ident = "eb:" + nm
    r0 = R.call("eb_param_set", v)
    if r0.caught or L.eb_param_get() != v:
        ob("installs", lambda: (False, "eb_param_set failed on re-installation"))
        return
    m = X["FB_POLYN"]
    f = fb_int(R, ptr_fn(R, "fb_poly_get")())
    K = GF2(f)
    a = fb_int(R, ptr_fn(R, "eb_curve_get_a")())
    b = fb_int(R, ptr_fn(R, "eb_curve_get_b")())
    g = R.mem(R.K["sizeof_eb_st"], R.poison)
    R.call("eb_curve_get_gen", g)
    gx, gy, gz = (fb_int(R, g + R.K["off_eb_st_" + c]) for c in "xyz")
    gco = R.rd_int(g + R.K["off_eb_st_coord"])
    R.free(g)
    n, h = bn_of(R, "eb_curve_get_ord"), bn_of(R, "eb_curve_get_cof")
    if f.bit_length() - 1 != m or not gf2_irreducible(f):
        if group == 0:
            ob("field-irreducible", lambda: (False, {"f": hx(f)}))
        return
    E = BinCurve(K, a, b)
    G = (gx, gy)
    kb = L.eb_curve_is_kbltz()
    level = L.eb_param_level()
    if group == 0:
        note(ctx, "eb_sets", {nm: {"f": hx(f), "a": hx(a), "b": hx(b), "r": hx(n), "h": hx(h), "kbltz": kb, "level": level}})
        ob("field-irreducible", lambda: f.bit_length() - 1 == m and gf2_irreducible(f))
        ob("nonsingular", lambda: (b != 0 and a < (1 << m) and b < (1 << m), {"b": hx(b)}))
        ob("generator-affine", lambda: (gz == 1 and gco == R.K["BASIC"], {"z": hx(gz), "coord": gco}))
        ob("generator-on-curve", lambda: (E.on_curve(G), {"G": [hx(gx), hx(gy)]}))
        ob("order-prime", lambda: (is_probable_prime(n, 36), {"r": hx(n)}))
        ob("hasse", lambda: (abs((1 << m) + 1 - h * n) <= 2 * math.isqrt(1 << m) + 1, {"h": hx(h)}))
        ob("cofactor-parity", lambda: (h % 2 == 0 and (h % 4 == 0) == (K.trace(a) == 0), {"h": hx(h), "Tr(a)": K.trace(a)}))
        ob("koblitz-flag", lambda: (bool(kb) == (a in (0, 1) and b == 1), {"kbltz": kb, "a": hx(a), "b": hx(b)}))
        ob("security-level", lambda: (level > 0 and abs(level - m / 2.0) <= 16 and level <= n.bit_length() // 2 + 4,
                                      {"level": level, "m": m}))
        opta, optb = L.eb_curve_opt_a(), L.eb_curve_opt_b()
        ob("coefficient-optimisation-flags",
           lambda: ((opta == X["RLC_ZERO"]) == (a == 0) and (opta == X["RLC_ONE"]) == (a == 1) and
                    (optb == X["RLC_ZERO"]) == (b == 0) and (optb == X["RLC_ONE"]) == (b == 1), {"opt_a": opta, "opt_b": optb}))
    else:
        ob("order-annihilates-generator", lambda: E.mul(n, G) is None, budget=300)

        def group_order():
            Q = E.rand_point(rng)
            return E.on_curve(Q) and E.mul(h * n, Q) is None, {"Q": [hx(Q[0]), hx(Q[1])]}
        ob("order-times-cofactor-is-curve-order", group_order, budget=300)

        def cof():
            Q = E.mul(h, E.rand_point(rng))
            return E.mul(n, Q) is None
        ob("cofactor-clears-into-subgroup", cof, budget=300)


# ------------------------------------------------------------------------------------------------------ Edwards
def check_ed(ob, R, X, nm, v, hist=None, ref=None):
    ctx, rng, L = ob.ctx, ob.ctx.rng, R.L
    ob.ident = ident_of("ed", nm, hist)
    r0 = R.call("ed_param_set", v)
    if r0.caught or L.ed_param_get() != v:
        ob("installs", lambda: (False, "ed_param_set failed"))
        return
    try:
        p = R.fp_setup()
    except (ValueError, ArithmeticError) as e:
        ob("field-prime", lambda: (False, {"exc": repr(e)}))
        return
    if not is_probable_prime(p, 36):
        ob("field-prime", lambda: (False, {"p": hx(p)}))
        return
    K = R.K

    def rd(P):
        return tuple(R.fp_get(P + K["off_ed_st_" + c])[0] for c in "xyz")
    g = R.mem(K["sizeof_ed_st"], R.poison)
    R.call("ed_curve_get_gen", g)
    gx, gy, gz = rd(g)
    n, h = bn_of(R, "ed_curve_get_ord"), bn_of(R, "ed_curve_get_cof")
    a = R.fp_get(R.S.vf_x18_ptr(20, 0))[0]
    d = R.fp_get(R.S.vf_x18_ptr(21, 0))[0]
    level = L.ed_param_level()
    note(ctx, "ed_sets", {nm: {"p": hx(p), "a": hx(a), "d": hx(d), "r": hx(n), "h": hx(h), "level": level}})
    E = EdCurve(p, a, d)
    if hist is not None:
        ob("modulus-is-the-identifiers-prime", lambda: modulus_ok(nm, p, ref["p"]))
        now = dict(p=p, a=a, d=d, gx=gx, gy=gy, gz=gz, n=n, h=h, level=level)
        ob("parameters-unchanged", lambda: unchanged(now, ref))
    ob("field-prime", lambda: is_probable_prime(p, 36))
    ob("generator-normalised", lambda: (gz == 1, {"z": hx(gz)}))
    G = (gx * pow(gz, -1, p) % p, gy * pow(gz, -1, p) % p)
    ob("curve-complete", lambda: (a != d and a * d % p != 0 and pow(a, (p - 1) // 2, p) == 1 and pow(d, (p - 1) // 2, p) == p - 1,
                                  {"a": hx(a), "d": hx(d)}))
    ob("generator-on-curve", lambda: (E.on_curve(G), {"G": [hx(G[0]), hx(G[1])]}))
    ob("order-prime", lambda: (is_probable_prime(n, 36), {"r": hx(n)}))
    ob("order-annihilates-generator", lambda: E.mul(n, G) == (0, 1))
    ob("generator-nontrivial", lambda: G != (0, 1))
    ob("hasse", lambda: (abs(p + 1 - h * n) <= 2 * math.isqrt(p) + 1, {"h": hx(h)}))

    def group_order():
        for _ in range(3):
            while True:
                y = rng.randrange(p)
                den = (a - d * y * y) % p
                if den == 0:
                    continue
                x = sqrt_mod((1 - y * y) * pow(den, -1, p) % p, p)
                if x is not None:
                    break
            if E.mul(h * n, (x, y)) != (0, 1):
                return False
        return True
    ob("order-times-cofactor-is-curve-order", group_order)
    if nm == "CURVE_ED25519":
        # RFC 8032 section 5.1
        ob("rfc8032-constants", lambda: (p == 2 ** 255 - 19 and a == p - 1 and d == (-121665 * pow(121666, -1, p)) % p and
                                         n == 2 ** 252 + 27742317777372353535851937790883648493 and h == 8 and
                                         G[1] == 4 * pow(5, -1, p) % p and G[0] % 2 == 0, {"G": [hx(G[0]), hx(G[1])]}))
    ob("security-level", lambda: (level > 0 and abs(level - p.bit_length() / 2.0) <= 4, {"level": level}))
    # the library's own group law must be the law of the curve whose constants it reports
    def lib_law():
        q = R.mem(K["sizeof_ed_st"], R.poison)
        try:
            R.call("ed_dbl", q, g)
            R.call("ed_add", q, q, g)
            R.call("ed_norm", q, q)
            x, y, z = rd(q)
        finally:
            R.free(q)
        return (x, y) == E.mul(3, G), {"3G": [hx(x), hx(y)]}
    ob("group-law-uses-these-constants", lib_law)
    if hist is not None:
        ob("field-arithmetic", lambda: field_battery(R, p, rng))
        if E.on_curve(G) and R.has("ed_mul_gen"):
            def gen_mul():
                k = rng.randrange(1, n)
                q = R.mem(K["sizeof_ed_st"], R.poison)
                kb = R.bn(k)
                try:
                    rr = R.call("ed_mul_gen", q, kb)
                    if rr.caught:
                        return False, {"k": hx(k), "why": "ed_mul_gen raised an error"}
                    R.call("ed_norm", q, q)
                    x, y, z = rd(q)
                finally:
                    R.free(q)
                    R.bn_free(kb)
                return z == 1 and (x, y) == E.mul(k, G), {"k": hx(k), "got": [hx(x), hx(y), hx(z)]}
            ob("curve-arithmetic", gen_mul)
    R.free(g)


# ============================================================================================ selection histories
# An identifier denotes ONE parameter set: whatever the context went through before the selection function is called
# (earlier selections, public calls that install a modulus / polynomial / curve without an identifier, failed calls),
# the obligations above must hold for what the selection leaves behind.  One (identifier, history) = one case; the
# obligations are its comparisons (key suffix).
_PRIME = {}


def is_prime(n):
    if n not in _PRIME:
        _PRIME[n] = is_probable_prime(n, 36)
    return _PRIME[n]


def ident_of(kind, nm, hist):
    return "%s:%s" % (kind, nm) if hist is None else "%s:%s|after-%s" % (kind, nm, hist)


# moduli as published by the standards that define the named sets (FIPS 186-4 D.1.2, SEC 2, RFC 5639, GB/T 32918.5,
# RFC 7748, GM/T 0044 (BN family at x = 0x600000000058F98A), draft-irtf-cfrg-pairing-friendly-curves (BLS12-381))
_P256 = 2 ** 256 - 2 ** 224 + 2 ** 192 + 2 ** 96 - 1
_K256 = 2 ** 256 - 2 ** 32 - 977
_SM2 = 2 ** 256 - 2 ** 224 - 2 ** 96 + 2 ** 64 - 1
_BP256 = 0xA9FB57DBA1EEA9BC3E660A909D838D726E3BF623D52620282013481D1F6E5377
_25519 = 2 ** 255 - 19
_B381 = P_FAMILY["B12"](-0xd201000000010000)
_SM9 = P_FAMILY["BN"](0x600000000058F98A)
PUBLISHED_P = {"NIST_P256": _P256, "NIST_256": _P256, "SECG_K256": _K256, "SECG_256": _K256, "SM2_P256": _SM2,
               "SM2_256": _SM2, "BSI_P256": _BP256, "BSI_256": _BP256, "CURVE_25519": _25519, "PRIME_25519": _25519,
               "CURVE_ED25519": _25519, "B12_P381": _B381, "B12_381": _B381, "SM9_P256": _SM9, "SM9_256": _SM9,
               "NIST_P224": 2 ** 224 - 2 ** 96 + 1, "NIST_224": 2 ** 224 - 2 ** 96 + 1,
               "NIST_P384": 2 ** 384 - 2 ** 128 - 2 ** 96 + 2 ** 32 - 1, "NIST_384": 2 ** 384 - 2 ** 128 - 2 ** 96 + 2 ** 32 - 1,
               "NIST_P521": 2 ** 521 - 1, "NIST_521": 2 ** 521 - 1}


def modulus_ok(nm, p, first):
    pub = PUBLISHED_P.get(nm)
    return (p == first and (pub is None or p == pub),
            {"observed": hx(p), "first-selection": hx(first), "published": hx(pub) if pub else None})


def unchanged(now, ref):
    diff = {k: [hx(now[k]) if isinstance(now[k], int) and not isinstance(now[k], bool) else now[k],
                hx(ref[k]) if isinstance(ref[k], int) and not isinstance(ref[k], bool) else ref[k]]
            for k in now if k in ref and now[k] != ref[k]}
    return not diff, {"observed-vs-first-selection": diff}


def cur_modulus(R):
    R.L.fp_prime_get.restype = ctypes.c_void_p
    return int.from_bytes(ctypes.string_at(R.L.fp_prime_get(), R.K["RLC_FP_DIGS"] * R.DB), "little")


# ------------------------------------------------------------------------------- behaviour against the models
def field_battery(R, p, rng):
    """prime-field routines that consume the derived constants (Montgomery u / R / R^2, inversion constant, root of
    unity, quadratic non-residue of the tower) against Python integers"""
    a, b, c = R.fp_new(), R.fp_new(), R.fp_new()
    t = R.bn_new()
    try:
        for _ in range(3):
            x, y = rng.randrange(1, p), rng.randrange(1, p)
            R.fp_put(a, x)
            R.fp_put(b, y)
            for fn, args, exp in (("fp_mul", (c, a, b), x * y % p), ("fp_sqr", (c, a), x * x % p),
                                  ("fp_add", (c, a, b), (x + y) % p), ("fp_inv", (c, a), pow(x, -1, p))):
                if not R.has(fn):
                    continue
                r = R.call(fn, *args)
                got, can = R.fp_get(c)
                if r.caught or got != exp or not can:
                    return False, {"fn": fn, "x": hx(x), "y": hx(y), "got": hx(got), "exp": hx(exp), "error": bool(r.caught),
                                   "canonical": can, "p": hx(p)}
            if R.has("fp_srt"):
                R.fp_put(a, x * x % p)
                r = R.call("fp_srt", c, a)
                got, can = R.fp_get(c)
                if r.caught or r.i != 1 or got * got % p != x * x % p:
                    return False, {"fn": "fp_srt", "x^2": hx(x * x % p), "got": hx(got), "ret": r.i, "p": hx(p)}
            k = rng.getrandbits(p.bit_length() + 40)
            R.bn_put(t, k)
            r = R.call("fp_prime_conv", c, t)
            got, can = R.fp_get(c)
            if r.caught or got != k % p or not can:
                return False, {"fn": "fp_prime_conv", "k": hx(k), "got": hx(got), "exp": hx(k % p), "p": hx(p)}
            R.fp_put(a, x)
            r = R.call("fp_prime_back", t, a)
            if r.caught or R.bn_val(t) != x:
                return False, {"fn": "fp_prime_back", "x": hx(x), "got": repr(R.bn_val(t)), "p": hx(p)}
        q = R.L.fp_prime_get_qnr()
        if q and R.has("fp2_mul"):
            x0, x1, y0, y1 = (rng.randrange(p) for _ in range(4))
            A, B, C = R.fpx_new(2, [x0, x1]), R.fpx_new(2, [y0, y1]), R.fpx_new(2)
            try:
                r = R.call("fp2_mul", C, A, B)
                got, can = R.fpx_get(C, 2)
            finally:
                for o in (A, B, C):
                    R.free(o)
            exp = [(x0 * y0 + q * x1 * y1) % p, (x0 * y1 + x1 * y0) % p]
            if r.caught or got != exp or not can:
                return False, {"fn": "fp2_mul", "qnr": q, "got": [hx(g_) for g_ in got], "exp": [hx(e) for e in exp], "p": hx(p)}
        return True
    finally:
        for o in (a, b, c):
            R.free(o)
        R.bn_free(t)


def ep_model_point(R, E, o):
    x, y, z, co, can = R.ep_get(o)
    K = R.K
    if z == 0:
        return None, can
    if co == K["BASIC"]:
        return ((x, y) if z == 1 else "invalid"), can
    if co == K["PROJC"]:
        return E.from_homog(x, y, z), can
    if co == K["JACOB"]:
        return E.from_jacob(x, y, z), can
    return "invalid", can


def curve_battery(R, E, G, n, rng):
    """generator table, coefficient flags and endomorphism constants in use: [k]G by the fixed-base routine, [k]Q by the
    variable-base routine, Q + G and 2Q against the affine model of the curve whose constants the getters report"""
    o, q, g = R.ep_new(), R.ep_new(), R.ep_new()
    k = rng.randrange(1, n)
    j = rng.randrange(2, 1 << 16)
    kb = R.bn(k)
    try:
        R.ep_put(g, G[0], G[1])
        Q = E.mul(j, G)
        kG = E.mul(k, G)
        R.ep_put(q, Q[0], Q[1])
        for fn, args, exp in (("ep_mul_gen", (o, kb), lambda: kG), ("ep_mul", (o, q, kb), lambda: E.mul(j, kG)),
                              ("ep_add", (o, q, g), lambda: E.add(Q, G)), ("ep_dbl", (o, q), lambda: E.add(Q, Q))):
            if not R.has(fn):
                continue
            R.ep_put(o, G[0], G[1])
            r = R.call(fn, *args)
            got, can = ep_model_point(R, E, o)
            e = exp()
            if r.caught or got == "invalid" or not E.eq(got, e) or not can:
                return False, {"fn": R.target(fn), "k": hx(k), "j": hx(j), "got": repr(got)[:200], "exp": repr(e)[:200],
                               "error": bool(r.caught), "canonical": can}
        r = R.call("ep_on_curve", g)
        if r.caught or r.i != 1:
            return False, {"fn": "ep_on_curve", "ret": r.i, "why": "the library rejects the generator it reports"}
        return True
    finally:
        for t in (o, q, g):
            R.free(t)
        R.bn_free(kb)


def fb_put(R, ptr, val):
    n = R.K["RLC_FB_DIGS"] * 8
    ctypes.memmove(ptr, val.to_bytes(n, "little"), n)


def fb_battery(R, K, rng):
    """binary-field routines that consume the constants derived from the polynomial (reduction terms, trace positions,
    half-trace / square-root tables, inversion chain) against the GF(2^m) model"""
    n = R.K["RLC_FB_DIGS"] * 8
    a, b, c = R.mem(n, 0), R.mem(n, 0), R.mem(n, 0)
    try:
        for _ in range(3):
            x, y = rng.getrandbits(K.m) | 1, rng.getrandbits(K.m) | 2
            fb_put(R, a, x)
            fb_put(R, b, y)
            for fn, args, exp in (("fb_mul", (c, a, b), lambda: K.mul(x, y)), ("fb_sqr", (c, a), lambda: K.sqr(x)),
                                  ("fb_inv", (c, a), lambda: K.inv(x))):
                if not R.has(fn):
                    continue
                r = R.call(fn, *args)
                got = fb_int(R, c)
                if r.caught or got != exp():
                    return False, {"fn": R.target(fn), "x": hx(x), "y": hx(y), "got": hx(got), "exp": hx(exp())}
            if R.has("fb_srt"):
                r = R.call("fb_srt", c, a)
                got = fb_int(R, c)
                if r.caught or got >> K.m or K.sqr(got) != x:
                    return False, {"fn": R.target("fb_srt"), "x": hx(x), "got": hx(got)}
            if R.has("fb_trc"):
                r = R.call("fb_trc", a)
                if r.caught or (r.r & 0xFFFFFFFF) != K.trace(x):
                    return False, {"fn": R.target("fb_trc"), "x": hx(x), "got": r.r, "exp": K.trace(x)}
            if R.has("fb_slv") and K.m % 2:
                z = x if K.trace(x) == 0 else x ^ 1            # Tr(1) = 1 for odd m
                fb_put(R, a, z)
                r = R.call("fb_slv", c, a)
                got = fb_int(R, c)
                if r.caught or got >> K.m or K.sqr(got) ^ got != z:
                    return False, {"fn": R.target("fb_slv"), "x": hx(z), "got": hx(got)}
        return True
    finally:
        for o in (a, b, c):
            R.free(o)


# ------------------------------------------------------------------------------------------------ history steps
def gen_prime(rg, bits):
    while True:
        q = rg.getrandbits(bits) | 1 | (1 << (bits - 1))
        if is_probable_prime(q, 12):
            return q


def sparse_prime(rg, bits):
    """2^bits - 2^k - c (a pseudo-Mersenne form with three terms) -> (list for fp_prime_set_pmers, p)"""
    k = rg.randrange(32, bits - 8)
    c = rg.randrange(1, 1 << 16) | 1
    while not is_probable_prime((1 << bits) - (1 << k) - c, 12):
        c += 2
    return [-c, -k, bits], (1 << bits) - (1 << k) - c


def family_parameter(rg, bits, digs, DIG):
    """a sparse BN parameter x whose p(x) is prime and occupies all the digits of this build"""
    top = (bits - 6) // 4
    while True:
        e = sorted(rg.sample(range(1, top), 3))
        x = (1 << top) + rg.choice((1, -1)) * (1 << e[2]) + rg.choice((1, -1)) * (1 << e[1]) + rg.choice((1, -1)) * (1 << e[0]) + 1
        x *= rg.choice((1, -1))
        pp = P_FAMILY["BN"](x)
        if DIG * (digs - 1) < pp.bit_length() <= bits and is_probable_prime(pp, 12):
            return x, pp


_PENTA = {}


def find_pentanomial(m, rg, avoid):
    """an irreducible pentanomial of degree m with low middle terms (searched once per process)"""
    if m in _PENTA and _PENTA[m][1] not in avoid:
        return _PENTA[m]
    for _ in range(20000):
        a, b, c = sorted(rg.sample(range(1, min(m // 3, 100)), 3), reverse=True)
        f = (1 << m) | (1 << a) | (1 << b) | (1 << c) | 1
        if f not in avoid and gf2_irreducible(f):
            _PENTA[m] = ((a, b, c), f)
            return _PENTA[m]
    return None, None


def st_select(R, rg, env):
    R.call(env["setter"], env["v"])


def st_dense_prime(R, rg, env):
    t = R.bn(gen_prime(rg, env["bits"]))
    R.call("fp_prime_set_dense", t)
    R.bn_free(t)


def st_any_dense(R, rg, env):
    R.call("fp_param_set_any_dense")


def st_pmers_prime(R, rg, env):
    import struct
    f, _ = sparse_prime(rg, env["bits"])
    ptr = R.put(struct.pack("<%di" % len(f), *f))
    R.call("fp_prime_set_pmers", ptr, len(f))
    R.free(ptr)


def st_family_prime(R, rg, env):
    x, _ = family_parameter(rg, env["bits"], R.K["RLC_FP_DIGS"], R.DIG)
    t = R.bn(x)
    R.call("fp_prime_set_pairf", t, R.E["EP_BN"])
    R.bn_free(t)


def st_other_field_id(R, rg, env):
    cur = R.L.fp_param_get()
    c = [v for _, v in env["fp_ids"] if v != cur] or [v for _, v in env["fp_ids"]]
    R.call("fp_param_set", rg.choice(c))


def st_same_field_id(R, rg, env):
    R.call("fp_param_set", R.L.fp_param_get())


def st_foreign_field_id(R, rg, env):
    if env["fp_foreign"]:
        R.call("fp_param_set", rg.choice(env["fp_foreign"]))


def st_any_field(R, rg, env):
    R.call(rg.choice(["fp_param_set_any", "fp_param_set_any_tower", "fp_param_set_any_pmers", "fp_param_set_any_h2adc"]))


def st_curve_selection(R, rg, env):
    if env["ep_ids"]:
        R.call("ep_param_set", rg.choice(env["ep_ids"])[1])


def st_other_curve(R, rg, env):
    c = [v for _, v in env["ep_ids"] if v != env["v"]]
    if c:
        R.call("ep_param_set", rg.choice(c))


def st_any_curve(R, rg, env):
    fn = rg.choice(["ep_param_set_any", "ep_param_set_any_plain", "ep_param_set_any_endom", "ep_param_set_any_super",
                    "ep_param_set_any_pairf"])
    if R.has(fn):
        R.call(fn)


def st_rejected_curve_id(R, rg, env):
    if env["ep_rejected"]:
        R.call("ep_param_set", rg.choice(env["ep_rejected"]))


def _foreign_curve(R, rg, env, setter, endom=False):
    """a curve of the application over whatever modulus is active: y^2 = x^3 + a x + b with a point of it"""
    if not R.has(setter):
        return
    try:
        p = R.fp_setup()
    except (ValueError, ArithmeticError):
        return
    if not is_probable_prime(p, 8):
        return
    F = PrimeField(p)
    while True:
        a, b = rg.randrange(1, p), rg.randrange(1, p)
        if (4 * a ** 3 + 27 * b * b) % p:
            break
    E = WCurve(F, a, b)
    Q = rand_point(E, rg)
    fa, fb_, g = R.fp_new(a), R.fp_new(b), R.ep_new()
    R.ep_put(g, Q[0], Q[1])
    r, h = R.bn(rg.getrandbits(p.bit_length() - 2) | 1), R.bn(1)
    if endom:
        beta, lam = R.fp_new(rg.randrange(2, p)), R.bn(rg.getrandbits(p.bit_length() - 3))
        R.call(setter, fa, fb_, g, r, h, beta, lam, 0)
        R.free(beta)
        R.bn_free(lam)
    else:
        R.call(setter, fa, fb_, g, r, h, 0)
    for o in (fa, fb_, g):
        R.free(o)
    R.bn_free(r)
    R.bn_free(h)


def st_foreign_plain_curve(R, rg, env):
    _foreign_curve(R, rg, env, "ep_curve_set_plain")


def st_foreign_super_curve(R, rg, env):
    _foreign_curve(R, rg, env, "ep_curve_set_super")


def st_failed_endom_curve(R, rg, env):
    # beta and lambda do not belong to the curve: the installation is abandoned half-way with an error
    _foreign_curve(R, rg, env, "ep_curve_set_endom", endom=True)


def st_own_curve(R, rg, env):
    st_dense_prime(R, rg, env)
    st_foreign_plain_curve(R, rg, env)


def st_eb_selection(R, rg, env):
    if env["eb_ids"]:
        R.call("eb_param_set", rg.choice(env["eb_ids"])[1])


def st_ed_selection(R, rg, env):
    if env["ed_ids"]:
        R.call("ed_param_set", rg.choice(env["ed_ids"])[1])


def st_penta_poly(R, rg, env, dense=False):
    cur = fb_int(R, ptr_fn(R, "fb_poly_get")())
    (a, b, c), f = find_pentanomial(env["m"], rg, (cur,))
    if f is None:
        return
    if dense:
        n = R.K["RLC_FB_DIGS"] * 8
        t = R.mem(n, 0)
        fb_put(R, t, f)
        R.call("fb_poly_set_dense", t)
        R.free(t)
    else:
        R.call("fb_poly_set_penta", a, b, c)


def st_dense_poly(R, rg, env):
    st_penta_poly(R, rg, env, dense=True)


def st_other_fb_id(R, rg, env):
    cur = R.L.fb_param_get()
    c = [v for _, v in env["fb_ids"] if v != cur] or [v for _, v in env["fb_ids"]]
    R.call("fb_param_set", rg.choice(c))


def st_same_fb_id(R, rg, env):
    R.call("fb_param_set", R.L.fb_param_get())


def st_other_eb(R, rg, env):
    c = [v for _, v in env["eb_ids"] if v != env["v"]]
    if c:
        R.call("eb_param_set", rg.choice(c))


def st_any_eb(R, rg, env):
    fn = rg.choice(["eb_param_set_any", "eb_param_set_any_plain", "eb_param_set_any_kbltz"])
    if R.has(fn):
        R.call(fn)


def st_rejected_eb_id(R, rg, env):
    if env["eb_rejected"]:
        R.call("eb_param_set", rg.choice(env["eb_rejected"]))


def st_foreign_eb_curve(R, rg, env):
    f = fb_int(R, ptr_fn(R, "fb_poly_get")())
    m = env["m"]
    if f.bit_length() - 1 != m or m % 2 == 0 or not gf2_irreducible(f):
        return
    K = GF2(f)
    E = BinCurve(K, rg.choice((0, 1, rg.getrandbits(m))), rg.getrandbits(m) | 1)
    Q = E.rand_point(rg)
    n = R.K["RLC_FB_DIGS"] * 8
    a, b = R.mem(n, 0), R.mem(n, 0)
    fb_put(R, a, E.a)
    fb_put(R, b, E.b)
    g = R.mem(R.K["sizeof_eb_st"], 0)
    fb_put(R, g + R.K["off_eb_st_x"], Q[0])
    fb_put(R, g + R.K["off_eb_st_y"], Q[1])
    fb_put(R, g + R.K["off_eb_st_z"], 1)
    R.wr_int(g + R.K["off_eb_st_coord"], R.K["BASIC"])
    r, h = R.bn(rg.getrandbits(m - 2) | 1), R.bn(2)
    R.call("eb_curve_set", a, b, g, r, h)
    for o in (a, b, g):
        R.free(o)
    R.bn_free(r)
    R.bn_free(h)


def st_own_binary(R, rg, env):
    st_penta_poly(R, rg, env, dense=rg.random() < 0.5)
    st_foreign_eb_curve(R, rg, env)


STEPS = {"own-polynomial-and-curve": st_own_binary, "dense-prime": st_dense_prime, "any-dense-prime": st_any_dense, "sparse-prime": st_pmers_prime,
         "family-prime": st_family_prime, "other-field-id": st_other_field_id, "same-field-id": st_same_field_id,
         "foreign-field-id": st_foreign_field_id, "any-field": st_any_field, "curve-selection": st_curve_selection,
         "other-curve": st_other_curve, "same-id-again": st_select, "any-curve": st_any_curve,
         "rejected-curve-id": st_rejected_curve_id, "foreign-plain-curve": st_foreign_plain_curve,
         "foreign-super-curve": st_foreign_super_curve, "failed-endom-curve": st_failed_endom_curve,
         "own-prime-and-curve": st_own_curve, "binary-curve-selection": st_eb_selection,
         "edwards-curve-selection": st_ed_selection, "pentanomial": st_penta_poly, "dense-polynomial": st_dense_poly,
         "other-polynomial-id": st_other_fb_id, "same-polynomial-id": st_same_fb_id, "other-binary-curve": st_other_eb,
         "any-binary-curve": st_any_eb, "rejected-binary-curve-id": st_rejected_eb_id,
         "foreign-binary-curve": st_foreign_eb_curve}
FIELD_STEPS = ["dense-prime", "any-dense-prime", "sparse-prime", "family-prime", "other-field-id", "same-field-id",
               "foreign-field-id", "any-field"]
HIST = {"fp": FIELD_STEPS + ["same-id-again", "curve-selection", "edwards-curve-selection"],
        "ep": FIELD_STEPS + ["same-id-again", "other-curve", "any-curve", "rejected-curve-id", "foreign-plain-curve",
                             "foreign-super-curve", "failed-endom-curve", "own-prime-and-curve", "binary-curve-selection",
                             "edwards-curve-selection"],
        "ed": FIELD_STEPS + ["same-id-again", "curve-selection"],
        "fb": ["pentanomial", "dense-polynomial", "other-polynomial-id", "same-id-again", "binary-curve-selection"],
        "eb": ["pentanomial", "dense-polynomial", "other-polynomial-id", "same-polynomial-id", "same-id-again",
               "other-binary-curve", "any-binary-curve", "rejected-binary-curve-id", "foreign-binary-curve",
               "own-polynomial-and-curve", "curve-selection"]}
# Quick tier: a few histories per identifier - one of each group below, which one rotates with the position of the
# identifier and with VERIF_SEED (so one run spreads the histories over the identifiers of a build and further seeds move
# them on); every identifier always gets one history that replaces the modulus (polynomial) behind it and, for curves,
# one that replaces the curve behind it.  The full product identifier x history, more random sequences and all the
# obligations of the identifier after each history run in the thorough tier.  Selecting a binary field or curve costs a
# quarter of a second in the sanitizer builds: the quick tier runs one binary-curve history per run (polynomial and
# curve both replaced behind the identifier; the curve selection re-selects its field, so a stale binary-field selection
# shows there too; which identifier: rotates with VERIF_SEED) and no binary step inside the prime histories.
REPLACES_MODULUS = ["dense-prime", "any-dense-prime", "sparse-prime", "family-prime"]
REPLACES_CURVE = ["foreign-plain-curve", "failed-endom-curve", "own-prime-and-curve", "foreign-super-curve"]
QUICK_GROUPS = {"ep": [REPLACES_MODULUS, REPLACES_CURVE,
                       ["same-id-again", "other-field-id", "sequence", "other-curve", "same-field-id", "any-curve",
                        "foreign-field-id", "sequence", "rejected-curve-id", "any-field", "edwards-curve-selection"]],
                "fp": [REPLACES_MODULUS, ["same-id-again", "curve-selection", "sequence", "other-field-id", "any-field",
                                          "foreign-field-id", "same-field-id", "edwards-curve-selection"]],
                "ed": [REPLACES_MODULUS, ["curve-selection", "same-id-again", "sequence", "other-field-id"]],
                "eb": [["own-polynomial-and-curve"]],
                "fb": []}
SETTER = {"fp": "fp_param_set", "ep": "ep_param_set", "ed": "ed_param_set", "fb": "fb_param_set", "eb": "eb_param_set"}


def histories(ctx, kind, env, idx):
    """-> ([(name, [step, ...] or None = random sequence drawn by the owner of the unit)], applicable single steps)"""
    single = [s for s in HIST[kind] if not ((s == "edwards-curve-selection" and not env["ed_ids"]) or
                                            (s == "binary-curve-selection" and (ctx.quick or not env["eb_ids"])) or
                                            (s == "curve-selection" and not env["ep_ids"]) or
                                            (s == "other-curve" and len(env["ep_ids"]) < 2) or
                                            (s == "other-binary-curve" and len(env["eb_ids"]) < 2) or
                                            (s == "other-polynomial-id" and len(env["fb_ids"]) < 2) or
                                            (s == "foreign-field-id" and not env["fp_foreign"]))]
    if not ctx.quick:
        return [(s, [s]) for s in single] + [("sequence", None)] * ctx.n(2, 12), single
    out = []
    for group in QUICK_GROUPS[kind]:
        g = [s for s in group if s in single or s == "sequence"]
        if g:
            pick = g[(ctx.seed + idx) % len(g)]
            out.append((pick, None if pick == "sequence" else [pick]))
    return out, single


def run_history(R, steps, env):
    """the calls that precede the selection under test; what they return or raise is not judged"""
    import random
    strict = R.strict_chain
    R.strict_chain = False
    try:
        for name, seed in steps:
            STEPS[name](R, random.Random(seed), env)
    finally:
        R.strict_chain = strict


def snapshot(R, X, kind):
    """what the selection of an identifier installed, read through the getters -> dict (None: unusable)"""
    L = R.L
    try:
        if kind == "fp":
            return dict(p=R.fp_setup())
        if kind == "ep":
            P = R.ep_params()
            P.update(opt_a=L.ep_curve_opt_a(), opt_b=L.ep_curve_opt_b(), level=L.ep_param_level(),
                     embed=L.ep_curve_embed() if R.has("ep_curve_embed") else 0)
            # hash-to-curve constants that the installation of THIS curve writes (c2 is a leftover for the isogeny
            # maps, c5 = sqrt(-3) is written for a = 0 or b = 0 only)
            S = R.S
            c = [R.fp_raw(S.vf_x18_ptr(1, i)) for i in range(5)]
            # judged by behaviour, not by the raw constants (which of them an installation writes is an implementation
            # detail: a constant this curve's map never reads may legitimately keep a leftover of the previous curve):
            # the images of two fixed messages under the configured map
            P["map"] = []
            if R.has("ep_map"):
                for msg in (b"", b"relic-verif C18 map probe \x00\x01\x02"):
                    o_ = R.ep_new()
                    b_ = R.put(msg if msg else b"\0")
                    r_ = R.call("ep_map", o_, b_, len(msg))
                    if not r_.caught:
                        R.call("ep_norm", o_, o_)
                        x_, y_, z_, _, _ = R.ep_get(o_)
                        P["map"] += [x_, y_, z_]
                    else:
                        P["map"].append(-1)
                    R.free(o_)
                    R.free(b_)
            if P["ctmap"] and "off_iso_st_a" in X:
                iso = ptr_fn(R, "ep_curve_get_iso")()
                degs = [R.rd_int(iso + X["off_iso_st_deg_" + k_]) for k_ in ("xn", "xd", "yn", "yd")]
                P["iso"] = [R.fp_raw(iso + X["off_iso_st_a"]), R.fp_raw(iso + X["off_iso_st_b"]), degs] + \
                           [[R.fp_raw(iso + X["off_iso_st_" + k_] + i * R.fp_sz) for i in range(min(max(d, 0), X["RLC_EP_CTMAP_MAX"] - 1) + 1)]
                            for k_, d in zip(("xn", "xd", "yn", "yd"), degs)]
            return P
        if kind == "ed":
            p = R.fp_setup()
            K = R.K
            g = R.mem(K["sizeof_ed_st"], R.poison)
            R.call("ed_curve_get_gen", g)
            gx, gy, gz = (R.fp_get(g + K["off_ed_st_" + c])[0] for c in "xyz")
            R.free(g)
            return dict(p=p, a=R.fp_get(R.S.vf_x18_ptr(20, 0))[0], d=R.fp_get(R.S.vf_x18_ptr(21, 0))[0], gx=gx, gy=gy, gz=gz,
                        n=bn_of(R, "ed_curve_get_ord"), h=bn_of(R, "ed_curve_get_cof"), level=L.ed_param_level())
        if kind == "fb":
            return fb_int(R, ptr_fn(R, "fb_poly_get")())
        if kind == "eb":
            g = R.mem(R.K["sizeof_eb_st"], R.poison)
            R.call("eb_curve_get_gen", g)
            gx, gy, gz = (fb_int(R, g + R.K["off_eb_st_" + c]) for c in "xyz")
            gco = R.rd_int(g + R.K["off_eb_st_coord"])
            R.free(g)
            return dict(f=fb_int(R, ptr_fn(R, "fb_poly_get")()), a=fb_int(R, ptr_fn(R, "eb_curve_get_a")()),
                        b=fb_int(R, ptr_fn(R, "eb_curve_get_b")()), gx=gx, gy=gy, gz=gz, coord=gco,
                        n=bn_of(R, "eb_curve_get_ord"), h=bn_of(R, "eb_curve_get_cof"), kbltz=L.eb_curve_is_kbltz(),
                        level=L.eb_param_level(), opt_a=L.eb_curve_opt_a(), opt_b=L.eb_curve_opt_b())
    except (ValueError, ArithmeticError):
        return None


def check_curve_after(ob, R, X, nm, v, hist, ref):
    """the discriminating subset of check_curve for the selection that follows a history, plus behaviour"""
    ctx, rng, L = ob.ctx, ob.ctx.rng, R.L
    ob.ident = ident_of("ep", nm, hist)
    r0 = R.call("ep_param_set", v)
    if r0.caught or L.ep_param_get() != v:
        ob("installs", lambda: (False, {"why": "ep_param_set does not install the identifier it installed before",
                                        "error": bool(r0.caught), "ep_param_get": L.ep_param_get()}))
        return
    P = snapshot(R, X, "ep")
    if P is None:
        ob("field-prime", lambda: (False, {"why": "modulus not usable by the model", "p": hx(cur_modulus(R))}))
        return
    p, a, b, n, h = P["p"], P["a"], P["b"], P["n"], P["h"]
    ob("modulus-is-the-identifiers-prime", lambda: modulus_ok(nm, p, ref["p"]))
    ob("parameters-unchanged", lambda: unchanged({k_: P[k_] for k_ in ("a", "b", "gx", "gy", "n", "h")}, ref))
    ob("flags-unchanged", lambda: unchanged({k_: P[k_] for k_ in ("endom", "pairf", "super", "ctmap", "opt_a", "opt_b",
                                                                  "level", "embed")}, ref))
    # the map constants are recomputed by every installation: their defining equations are judged by group 'map' of part
    # 'ep' on the plain selection; after a history the configured map must send fixed messages to the same points
    ob("map-constants-unchanged", lambda: (P["map"] == ref["map"] and P.get("iso") == ref.get("iso"),
                                           {"observed": [hx(t) for t in P["map"]], "first-selection": [hx(t) for t in ref["map"]]}))
    ob("field-prime", lambda: (is_prime(p) and p.bit_length() == R.K["RLC_FP_BITS"], {"p": hx(p)}))
    if not is_prime(p):
        return
    digs = R.FP_DIGS
    Rr = 1 << (8 * R.DB * digs)

    def rd(getter, nd=digs):
        return int.from_bytes(ctypes.string_at(ptr_fn(R, getter)(), R.DB * nd), "little")
    ob("montgomery-constants", lambda: (rd("fp_prime_get_rdc", 1) == (-pow(p, -1, 1 << (8 * R.DB))) % (1 << (8 * R.DB)) and
                                        R.mont == Rr % p and rd("fp_prime_get_conv") == Rr * Rr % p,
                                        {"u": hx(rd("fp_prime_get_rdc", 1)), "one": hx(R.mont), "conv": hx(rd("fp_prime_get_conv"))}))
    q = L.fp_prime_get_qnr()
    ob("qnr-is-non-residue", lambda: (q % p != 0 and pow(q % p, (p - 1) // 2, p) == p - 1, {"qnr": q}))
    ob("field-arithmetic", lambda: field_battery(R, p, rng))
    F = PrimeField(p)
    E = WCurve(F, a, b, n, h)
    G = (P["gx"], P["gy"])
    ob("discriminant-nonzero", lambda: (4 * a ** 3 + 27 * b * b) % p != 0)
    on = ob("generator-on-curve", lambda: (E.on_curve(G), {"G": [hx(G[0]), hx(G[1])], "p": hx(p)}))
    ob("order-prime", lambda: (is_prime(n), {"r": hx(n)}))
    if not on or not is_prime(n) or (4 * a ** 3 + 27 * b * b) % p == 0:
        return
    ob("order-annihilates-generator", lambda: E.mul(n, G) is None)
    ob("hasse", lambda: (h >= 1 and abs(p + 1 - h * n) <= 2 * math.isqrt(p) + 1, {"p+1-hr": hx(p + 1 - h * n)}))
    ob("curve-arithmetic", lambda: curve_battery(R, E, G, n, rng))
    if P["endom"] and ctx.quick:
        # the variable-base multiplication above runs on beta and the GLV basis; here only beta's defining equation
        beta = R.fp_get(ptr_fn(R, "ep_curve_get_beta")())[0]
        ob("beta-cube-root-of-unity", lambda: (pow(beta, 3, p) == 1 and beta != 1, {"beta": hx(beta)}))
    if not ctx.quick:
        # thorough tier: the obligations of part 'ep' again on what this selection installed (the expensive twist and
        # cofactor-map groups only after the histories that replace the modulus or the curve behind the identifier).
        # They are comparisons of this (identifier, history) case but keep the keys of part 'ep' (identifier|obligation):
        # an obligation that the parameter table of the identifier fails on a plain selection is that same finding here.
        heavy = hist in ("dense-prime", "family-prime", "foreign-plain-curve", "own-prime-and-curve", "failed-endom-curve")
        for group in ("base", "endo") + (("pairing", "cof") if heavy else ()):
            check_curve(ob, R, X, nm, v, group)


def check_eb_after(ob, R, X, nm, v, hist, ref):
    ctx, rng, L = ob.ctx, ob.ctx.rng, R.L
    ob.ident = ident_of("eb", nm, hist)
    r0 = R.call("eb_param_set", v)
    if r0.caught or L.eb_param_get() != v:
        ob("installs", lambda: (False, {"why": "eb_param_set does not install the identifier it installed before",
                                        "error": bool(r0.caught)}))
        return
    m = X["FB_POLYN"]
    P = snapshot(R, X, "eb")
    f = P["f"]
    ob("polynomial-is-the-identifiers-polynomial", lambda: (f == ref["f"], {"observed": hx(f), "first-selection": hx(ref["f"])}))
    ob("parameters-unchanged", lambda: unchanged({k_: P[k_] for k_ in ("a", "b", "gx", "gy", "gz", "coord", "n", "h")}, ref))
    ob("flags-unchanged", lambda: unchanged({k_: P[k_] for k_ in ("kbltz", "level", "opt_a", "opt_b")}, ref))
    irr = f.bit_length() - 1 == m and gf2_irreducible(f)
    ob("field-irreducible", lambda: (irr, {"f": hx(f)}))
    if not irr:
        return
    K = GF2(f)
    ob("field-arithmetic", lambda: fb_battery(R, K, rng))
    E = BinCurve(K, P["a"], P["b"])
    G = (P["gx"], P["gy"])
    n = P["n"]
    on = ob("generator-on-curve", lambda: (P["b"] != 0 and P["gz"] == 1 and E.on_curve(G), {"G": [hx(G[0]), hx(G[1])]}))
    ob("order-prime", lambda: (is_prime(n), {"r": hx(n)}))
    if not on or not is_prime(n):
        return
    ob("order-annihilates-generator", lambda: E.mul(n, G) is None)
    if R.has("eb_mul_gen"):
        def gen_mul():
            k = rng.randrange(1, n)
            o = R.mem(R.K["sizeof_eb_st"], R.poison)
            kb = R.bn(k)
            try:
                rr = R.call("eb_mul_gen", o, kb)
                if rr.caught:
                    return False, {"k": hx(k), "why": "eb_mul_gen raised an error"}
                R.call("eb_norm", o, o)
                x, y, z = (fb_int(R, o + R.K["off_eb_st_" + c]) for c in "xyz")
            finally:
                R.free(o)
                R.bn_free(kb)
            return z == 1 and (x, y) == E.mul(k, G), {"k": hx(k), "got": [hx(x), hx(y), hx(z)]}
        ob("curve-arithmetic", gen_mul)
    if not ctx.quick:
        for group in (0, 1):          # keys of part 'binary' (see check_curve_after)
            check_eb(ob, R, X, nm, v, group)


def run_hist(ctx, R, X, ob, kinds, unit=0, fps=None):
    """For every identifier of the selection functions named by kinds ('ep', 'fp', 'ed', 'eb', 'fb') of this build:
    select it, run a history of other public calls that change the field / curve state, select it again and judge what
    is installed.  Thorough tier: parts 'hist' and 'hist-binary'; quick tier: hosted by the processes of part 'fp' (the
    one part that exists for every build of this module and is short)."""
    cfg = ctx.cfg
    L = R.L
    m = X.get("FB_POLYN")
    if fps is None:
        fps, silent = fp_ids(R)
    else:
        fps, silent = fps
    eps, broken = ep_ids(R)
    eds = accepted(R, "relic_ed.h", "ed_param_set", "ed_param_get")
    by_degree = lambda hdr: [(nm, v) for nm, v in sorted(R.EH.get(hdr, {}).items(), key=lambda kv: kv[1])
                             if trailing_number(nm) == m]
    # selecting a binary curve is slow in the sanitizer builds: the quick tier does not enumerate them (the identifiers
    # named after the degree of this build are taken; one that is not built is skipped, part 'binary' judges that)
    ebs_all = by_degree("relic_eb.h") if ctx.quick else accepted(R, "relic_eb.h", "eb_param_set", "eb_param_get")
    fbs = by_degree("relic_fb.h")
    enum_ep = [(nm, v) for nm, v in R.EH.get("relic_ep.h", {}).items() if not nm.startswith("EP_")]
    env0 = dict(bits=R.K["RLC_FP_BITS"], m=m, fp_ids=fps, ep_ids=eps, ed_ids=eds, fb_ids=fbs, eb_ids=ebs_all,
                fp_foreign=[R.E[nm] for nm in silent],
                ep_rejected=[v for nm, v in enum_ep if (nm, v) not in eps and (nm, v) not in broken],
                eb_rejected=[v for nm, v in R.EH.get("relic_eb.h", {}).items() if (nm, v) not in ebs_all])
    todo = [(kind, ids) for kind, ids in (("ep", eps), ("fp", fps), ("ed", eds), ("eb", ebs_all), ("fb", fbs)) if kind in kinds]
    ctx.note("hist_identifiers_%s_%s" % ("-".join(kinds), cfg), {kind: [n for n, _ in ids] for kind, ids in todo})
    recheck = {"fp": lambda nm, v, hist, ref: check_field(ob, R, X, nm, v, fps, hist=hist, ref=ref["p"]),
               "ep": lambda nm, v, hist, ref: check_curve_after(ob, R, X, nm, v, hist, ref),
               "ed": lambda nm, v, hist, ref: check_ed(ob, R, X, nm, v, hist=hist, ref=ref),
               "fb": lambda nm, v, hist, ref: check_fb(ob, R, X, nm, v, hist=hist, ref=ref),
               "eb": lambda nm, v, hist, ref: check_eb_after(ob, R, X, nm, v, hist, ref)}
    used = {}
    for kind, ids in todo:
        if ctx.quick and kind == "eb" and ids:
            ids = [ids[ctx.seed % len(ids)]]       # one binary-curve history per run
        for idx, (nm, v) in enumerate(ids):
            env = dict(env0, v=v, setter=SETTER[kind])
            hs, single = histories(ctx, kind, env, idx)
            ref = None
            for hname, steps in hs:
                mine = ctx.mine(unit)
                unit += 1
                if not mine:
                    continue
                if steps is None:
                    steps = [ctx.rng.choice(single) for _ in range(ctx.rng.randrange(2, 5))]
                plan = [[s, ctx.rng.getrandbits(48)] for s in steps]
                key = ident_of(kind, nm, hname)
                if not ctx.begin(key, [key, plan], budget=900):
                    continue
                ob.grouped = ctx.c18_grouped = True
                try:
                    r = R.call(SETTER[kind], v)                   # the identifier is the selected one ...
                    if ref is None and not r.caught:
                        # its parameter set as a plain selection installs it (judged by the other parts)
                        ref = snapshot(R, X, kind)
                    if ref is None:
                        if kind == "eb" and ctx.quick:
                            ctx.note("hist_binary_curve_not_built_" + cfg, [nm])
                        else:
                            ctx.check(False, key + "|installs", "the first selection of this identifier failed")
                        continue
                    run_history(R, plan, env)                     # ... the state changes behind its back ...
                    recheck[kind](nm, v, hname, ref)              # ... and it is selected again
                    used[hname] = used.get(hname, 0) + 1
                except MonitorViolation as e:
                    ctx.fail(key + "|" + e.kind, e.detail)
                finally:
                    ob.grouped = ctx.c18_grouped = False
                    ctx.end()
    ctx.note("hist_histories_" + cfg, used)


# ========================================================================================================== run
def capture_stderr(ctx):
    """route fd 2 (UBSan reports, library error text) into a file the harness's report scanner reads"""
    import os
    try:
        fd = os.open(os.path.join(ctx.outdir, ctx.tag + ".san.stderr"), os.O_WRONLY | os.O_CREAT | os.O_TRUNC, 0o644)
        os.dup2(fd, 2)
        os.close(fd)
    except OSError:
        pass


def run(ctx, part):
    capture_stderr(ctx)
    R = RT(ctx.cfg)
    R.strict_chain = True
    X = xconsts(R)
    ob = Ob(ctx, R)
    cfg = ctx.cfg
    unit = 0
    if part == "fp":
        ids, silent = fp_ids(R)
        ctx.note("identifiers_fp_" + cfg, [n for n, _ in ids])
        ctx.note("fp_identifiers_of_other_sizes_silently_ignored_" + cfg, len(silent))
        if not ids:
            raise RuntimeError("fp_param_set accepts no identifier in " + cfg)
        for nm, v in sorted(R.EH.get("relic_fp.h", {}).items(), key=lambda kv: kv[1]):
            # an identifier named after this field size must install
            if trailing_number(nm) == R.K["RLC_FP_BITS"] and (nm, v) not in ids:
                if ctx.mine(unit):
                    ob.ident = "fp:" + nm
                    ob("installs", lambda: (False, "fp_param_set does not install the identifier named after this field size"))
                unit += 1
        for nm, v in ids:
            if ctx.mine(unit):
                check_field(ob, R, X, nm, v, ids)
            unit += 1
        if ctx.quick:
            # the quick tier of the selection histories (see QUICK_GROUPS) is hosted by these short processes
            run_hist(ctx, R, X, ob, ("ep", "fp", "ed") + (("eb",) if cfg in BINARY_CFGS else ()), unit=unit, fps=(ids, silent))
    elif part == "ep":
        ids, broken = ep_ids(R)
        ctx.note("identifiers_ep_" + cfg, [n for n, _ in ids])
        if not ids and not broken:
            raise RuntimeError("ep_param_set accepts no identifier in " + cfg)
        for nm, v in broken:
            if ctx.mine(unit):
                ob.ident = "ep:" + nm
                ob("installs", lambda: (False, "ep_param_set installed the field of this identifier and then raised an error"))
            unit += 1
        for nm, v in ids:
            for group in ("base", "endo", "map", "pairing", "cof"):
                if ctx.mine(unit):
                    check_curve(ob, R, X, nm, v, group)
                unit += 1
    elif part == "binary":
        m = X.get("FB_POLYN")
        fbs, other = [], []
        for nm, v in sorted(R.EH.get("relic_fb.h", {}).items(), key=lambda kv: kv[1]):
            tail = nm.rsplit("_", 1)[-1]
            if tail.isdigit() and int(tail) == m:
                fbs.append((nm, v))
            else:
                other.append((nm, v))
        ctx.note("identifiers_fb_" + cfg, [n for n, _ in fbs])
        for nm, v in fbs:
            if ctx.mine(unit):
                check_fb(ob, R, X, nm, v)
            unit += 1
        if ctx.shard == 0:
            # identifiers of other degrees: outside the domain of this build, observation only
            acc = {}
            for nm, v in other:
                r = R.call("fb_param_set", v)
                if not r.caught:
                    f = fb_int(R, ptr_fn(R, "fb_poly_get")())
                    acc[nm] = bool(f.bit_length() - 1 == m and gf2_irreducible(f))
            ctx.note("fb_identifiers_of_other_degrees_accepted_silently(name->installed polynomial irreducible)", acc)
        ebs = accepted(R, "relic_eb.h", "eb_param_set", "eb_param_get")
        ctx.note("identifiers_eb_" + cfg, [n for n, _ in ebs])
        for nm, v in sorted(R.EH.get("relic_eb.h", {}).items(), key=lambda kv: kv[1]):
            if trailing_number(nm) == m and (nm, v) not in ebs:
                if ctx.mine(unit):
                    ob.ident = "eb:" + nm
                    ob("installs", lambda: (False, "eb_param_set does not install the identifier named after this field size"))
                unit += 1
        for nm, v in ebs:
            for group in (0, 1):
                if ctx.mine(unit):
                    check_eb(ob, R, X, nm, v, group)
                unit += 1
    elif part == "ed":
        eds = accepted(R, "relic_ed.h", "ed_param_set", "ed_param_get")
        ctx.note("identifiers_ed_" + cfg, [n for n, _ in eds])
        if not eds:
            raise RuntimeError("ed_param_set accepts no identifier in " + cfg)
        for nm, v in eds:
            check_ed(ob, R, X, nm, v)
    elif part in ("hist", "hist-binary"):
        run_hist(ctx, R, X, ob, ("eb", "fb") if part == "hist-binary" else ("ep", "fp", "ed"))
    ctx.note("functions_exercised", sorted(R.fn_seen))
    ctx.note("error_codes_seen", {str(k): v for k, v in R.err_codes.items()})


def finish(cov):
    ids = {k[len("identifiers_"):]: v for k, v in cov.items() if k.startswith("identifiers_")}
    cov["exhaustive"] = True
    cov["exhaustive_over"] = ("every enumerator of the five parameter enums was offered to the selection function of "
                              "each listed build; the accepted identifiers are: " + repr(ids))
    cov["identifiers"] = ids
    cov["parameter_sets"] = sum(len(v) for v in ids.values())
