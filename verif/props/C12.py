"""C12 - subgroup membership tests are exact; group exponentiation is repeated operation (G1, G2, GT).

Oracle: model/epx.py for the two curves (affine arithmetic, orders derived from the trace and confirmed on
random points) and the measured Fp12 tower of model/tower.py for the target group.  Membership truth is
"on the curve / non-zero, not the identity, killed by r", computed by plain double-and-add / square-and-multiply.
"""
import ctypes

from ..rt import RT, MonitorViolation
from ..ctx import hx
from ..model import epx
from ..model.tower import Ext
from .C11 import Env, scalars, rand_scalar, kcls, group, pd

LEVEL = "exploration"
RULE = ("per pairing curve: candidates for the three validity predicates are constructed by the model (members: generator, "
        "model multiples/powers, the (Phi12(p)/r)-th power of a model-made cyclotomic element; non-members: identity, off-curve "
        "coordinates, random curve/twist points verified not to be killed by r, points of every small prime order dividing "
        "the cofactor and their sums with members, zero, -1, random field elements, sub-field elements, unitary and "
        "cyclotomic elements not of order r, elements of small prime order in the cyclotomic subgroup and their products with "
        "members) and the predicate must equal the model's truth; every multiplication/exponentiation macro is compared "
        "with model double-and-add / square-and-multiply on the hostile scalar list of C11 plus random scalars; a case is "
        "non-trivial when the element is not the identity; distinct = distinct (routine, class, element, scalar)")
ASSUMPTIONS = ["Python integers / model.tower.Ext arithmetic is the reference for Fp, Fp2 and the measured tower Fp12 = "
               "Fp2[v]/(v^3 - xi)[w]/(w^2 - v) (xi and w^2 = v are read off the library's own basis elements)",
               "the constants (p, b, b', generators, r, #E(Fp)) reported by the library define the groups; the model checks "
               "generators, Hasse bound, CM discriminant, twist order on random points, r | Phi12(p)",
               "scalar policy of DESIGN.md section 3 (C03): 0 <= k < r exact and error-free, other scalars exact or an error",
               "multiplication/exponentiation routines are only given members of the respective order-r group",
               "points are passed in normalised form, in the build's native projective system written with a random Z, and as "
               "raw result objects of g?_add / g?_dbl / g?_blind (read back and compared with the model before use)"]


# the pairing layer (g1_/g2_/gt_ macros) of the 638-bit build is compiled for the k = 18 default curve of that size, so the
# k = 12 curves BN_P638/B12_P638 cannot be driven through it (C11 covers their ep2 arithmetic)
SWEEP = [("BN_P382", "asan382"), ("BN_P446", "asan446"), ("B12_P377", "asan377")]


def parts(tier):
    q = tier == "quick"
    ps = [dict(part="BN_P256", cfg="asan256", shards=6 if q else 8),
          dict(part="SM9_P256", cfg="asan256", shards=5 if q else 8),
          dict(part="B12_P381", cfg="asan381", shards=5 if q else 8)]
    if not q:
        # sweep over the other field sizes that carry a quadratic twist (thorough tier only)
        ps += [dict(part=nm, cfg=cfg, shards=4) for nm, cfg in SWEEP]
    return ps


def p1d(pt):
    return "O" if pt is None else [hx(pt[0]), hx(pt[1])]


class GtBase(object):
    """a model element of order dividing `order` with cached squarings"""

    def __init__(self, F, x, order):
        self.F, self.x, self.order = F, x, order
        self.s = [x]

    def pow(self, k):
        F = self.F
        k %= self.order
        s = self.s
        while len(s) < k.bit_length():
            s.append(F.mul(s[-1], s[-1]))
        acc = F.one
        i = 0
        while k:
            if k & 1:
                acc = F.mul(acc, s[i])
            k >>= 1
            i += 1
        return acc


def run(ctx, part):
    R = RT(ctx.cfg)
    R.strict_chain = True
    X = epx.X(R)
    M = epx.activate(R, part, X)
    env = Env(ctx, R, M, X.K)
    rng, e, K = ctx.rng, env.e, R.K
    E1, E2, F, F2 = M.E1, M.E2, M.F, M.F2
    n, p = M.r, M.p
    A2, B2, C2 = env.A, env.B, env.C
    ctx.note("parameter_sets", [part])
    notbuilt = set()
    sweep = part in [nm for nm, _ in SWEEP]

    def N(q, t):
        """case count; the sweep curves (thorough tier, larger fields, slower model) get a reduced random workload"""
        v = ctx.n(q, t)
        return max(1, v // 8) if sweep else v

    def has(fn):
        if R.has(fn):
            return True
        notbuilt.add(fn)
        return False

    case = [0]

    def mine():
        case[0] += 1
        return ctx.mine(case[0])

    def guard(fn):
        try:
            fn()
        except MonitorViolation as ex:
            ctx.fail((ctx.cur_key or "?") + "|" + ex.kind, ex.detail)
        finally:
            ctx.end()

    # ------------------------------------------------------------------ the target field, measured
    assert K["sizeof_gt_t"] == 12 * R.fp_sz and K["sizeof_g2_t"] == e.sz, "the pairing layer of this build is not k = 12"
    F6 = Ext(F2, 3, tuple(M.xi))
    F12 = Ext(F6, 2, F6.gen())
    w = R.fpx_new(12, [0] * 6 + [1] + [0] * 5)
    o12 = R.fpx_new(12)
    R.call("fp12_sqr", o12, w)
    assert R.fpx_get(o12, 12)[0] == [0, 0, 1] + [0] * 9, "w^2 != v in the library's Fp12"
    R.free(w)
    phi12 = p ** 4 - p * p + 1
    assert phi12 % n == 0, "r does not divide Phi12(p)"
    hT = phi12 // n
    ONE, ZERO = F12.one, F12.zero
    MINUS1 = F12.neg(ONE)

    def conj(x):
        return (x[0], F6.neg(x[1]))

    def gt_read(a):
        v, canon = R.fpx_get(a, 12)
        return F12.unflatten(v), canon

    def gt_write(a, x):
        R.fpx_put(a, F12.flatten(x))

    def gt_member(x):
        return (not F12.is_zero(x)) and (not F12.eq(x, ONE)) and F12.eq(F12.pow(x, n), ONE)

    def easy(x):
        """x^((p^6-1)(p^2+1)): an element of the cyclotomic subgroup of order Phi12(p)"""
        t = F12.mul(conj(x), F12.inv(x))
        return F12.mul(F12.pow(t, p * p), t)

    ga, gb, gc, gd = R.fpx_new(12), R.fpx_new(12), R.fpx_new(12), R.fpx_new(12)
    R.call("gt_get_gen", ga)
    gT, canon = gt_read(ga)
    if ctx.begin("gt_get_gen|", {}, nontrivial=True):
        ctx.check(canon and gt_member(gT), "gt_get_gen||not-a-member")
        ctx.end()
    assert gt_member(gT), "gt_get_gen() is not an element of order r (model)"
    GT = GtBase(F12, gT, n)
    if ctx.shard == 0:
        # model self-tests (once per part): conjugation is the p^6-power map; easy() lands in the cyclotomic subgroup
        xx = F12.rand(rng)
        assert F12.eq(F12.pow(xx, p ** 6), conj(xx))
        assert F12.eq(F12.pow(easy(xx), phi12), ONE)
        s = rng.randrange(n)
        assert F12.eq(GT.pow(s), F12.pow(gT, s))
    smallT = epx.small_factors(hT, 1 << 18)
    ctx.note("model", {part: {"h1": hx(M.h1), "small_factors_h1": [q for q, _ in M.small1()],
                              "small_factors_h2": [q for q, _ in M.small2()],
                              "small_factors_Phi12/r": [q for q, _ in smallT], "twist": M.twist, "pairf": M.pairf,
                              "dispatch": {m: R.target(m) for m in
                                           ("g1_mul_sec", "g1_mul_dig", "g1_mul_sim", "g1_mul_sim_lot", "g1_mul_any",
                                            "g2_mul_sec", "g2_mul_dig", "g2_mul_sim", "g2_mul_sim_lot", "g2_mul_any",
                                            "gt_mul", "gt_sqr", "gt_inv")}}})

    # ------------------------------------------------------------------ G1 objects
    PA, PB, PC = R.ep_new(), R.ep_new(), R.ep_new()
    BAS = K["BASIC"]
    G1 = epx.Base(E1, M.G1, n)
    S1 = [epx.Base(E1, G1.mul(rng.randrange(2, n)), n) for _ in range(3)]
    S2 = [env.sub_base() for _ in range(3)]

    def g1_read(P):
        x, y, z, coord, canon = R.ep_get(P)
        if z == 0:
            return None, coord, canon, z
        if coord == BAS:
            return (x, y), coord, canon, z
        if coord == K["PROJC"]:
            return E1.from_homog(x, y, z), coord, canon, z
        if coord == K["JACOB"]:
            return E1.from_jacob(x, y, z), coord, canon, z
        raise ValueError("coord tag %r" % coord)

    # representations of an input point: "aff" (normalised), "proj-in" (the build's native projective system written with a
    # random Z), "lib-proj-in" (the raw result object of g?_add / g?_dbl / g?_blind of model-known points)
    FORMS = ("aff", "proj-in", "lib-proj-in")
    NAT1 = {"ep_add_projc": K["PROJC"], "ep_add_jacob": K["JACOB"], "ep_add_basic": BAS}[R.target("g1_add")]
    L1a, L1b, L1c = R.ep_new(), R.ep_new(), R.ep_new()

    def fsfx(form):
        return "" if form == "aff" else "|" + form

    def g1_write(P, pt, form="aff", order=None):
        """-> description of the encoding"""
        if pt is None:
            R.ep_put(P, 0, 0, 0, BAS)
            return "O"
        if form == "aff" or NAT1 == BAS:
            R.ep_put(P, pt[0], pt[1], 1, BAS)
            return "aff"
        if form == "lib-proj-in":
            how = rng.choice(["add", "add", "blind", "dbl" if order else "add"])
            res = None
            if how == "add":
                V = G1.mul(rng.randrange(1, 1 << 16))
                U = E1.add(pt, E1.neg(V))
                if U is None or E1.eq(U, V):
                    how = "blind"
                else:
                    R.ep_put(L1a, U[0], U[1], 1, BAS)
                    R.ep_put(L1b, V[0], V[1], 1, BAS)
                    g1_poison(L1c)
                    res = R.call("g1_add", L1c, L1a, L1b)
            if how == "dbl":
                H = E1.mul((order + 1) // 2, pt)
                R.ep_put(L1a, H[0], H[1], 1, BAS)
                g1_poison(L1c)
                res = R.call("g1_dbl", L1c, L1a)
            if how == "blind":
                R.ep_put(L1a, pt[0], pt[1], 1, BAS)
                g1_poison(L1c)
                res = R.call("g1_blind", L1c, L1a)
            try:
                got, coord, canon, z = g1_read(L1c)
            except (ValueError, ZeroDivisionError):
                got = "bad"
            if not res.caught and got not in ("bad", None) and E1.eq(got, pt):
                ctypes.memmove(P, L1c, K["sizeof_ep_st"])
                ctx.add("lib_projective_inputs", 1)
                return {"lib": how, "tag": coord, "z": hx(z)}
            ctx.add("lib_projective_fallbacks", 1)      # a wrong producer is judged by its own property; fall back
        Z = rng.choice([rng.randrange(1, p), rng.randrange(1, p), p - 1, rng.randrange(1, 1 << 16)])
        if NAT1 == K["PROJC"]:
            R.ep_put(P, pt[0] * Z % p, pt[1] * Z % p, Z, NAT1)
        else:
            Z2 = Z * Z % p
            R.ep_put(P, pt[0] * Z2 % p, pt[1] * Z2 * Z % p, Z, NAT1)
        return {"proj": hx(Z)}

    def g2_write(P, pt, form="aff", order=None):
        if pt is None or form == "aff":
            e.put(P, pt, F2)
            return "aff" if pt is not None else "O"
        return env.wr(P, pt, env.NAT if form == "proj-in" else "L", order=order)

    def rform():
        return rng.choice(["aff", "aff", "aff", "proj-in", "lib-proj-in"])

    def g1_poison(P, cnt=1):
        ctypes.memset(P, R.poison, K["sizeof_ep_st"] * cnt)

    def g1_judge(out, exp, res, in_range=True):
        key = ctx.cur_key
        if res.caught:
            ctx.check(not in_range, key + "|unexpected-error", {"err": res.err})
            return
        try:
            pt, coord, canon, z = g1_read(out)
        except (ValueError, ZeroDivisionError) as ex:
            ctx.fail(key + "|bad-tag", repr(ex))
            return
        ctx.check(E1.eq(pt, exp), key + "|value", {"got": p1d(pt), "exp": p1d(exp), "coord": coord})
        ctx.check(canon, key + "|non-canonical")
        ctx.check(coord == BAS and (pt is None or z == 1), key + "|not-normalised", {"coord": coord, "z": hx(z)})

    def gt_judge(out, exp, res, in_range=True):
        key = ctx.cur_key
        if res.caught:
            ctx.check(not in_range, key + "|unexpected-error", {"err": res.err})
            return
        got, canon = gt_read(out)
        ctx.check(F12.eq(got, exp), key + "|value", {"got": [hx(v) for v in F12.flatten(got)][:4],
                                                      "exp": [hx(v) for v in F12.flatten(exp)][:4]})
        ctx.check(canon, key + "|non-canonical")

    # =========================================================================== validity predicates
    def valid_case(fn, cls, obj, truth, desc, nontrivial=True):
        def body():
            key = "%s|%s" % (fn, cls)
            if not ctx.begin(key, desc, nontrivial=nontrivial):
                return
            size = {"g1_is_valid": K["sizeof_ep_st"], "g2_is_valid": e.oc + 4, "gt_is_valid": 12 * R.fp_sz}[fn]
            before = R.get(obj, size)
            res = R.call(fn, obj)
            if res.caught:
                # for a member an error is a wrong answer.  Seen through a protected block an error hides the return
                # value, so the same call is repeated WITHOUT a protected block (the documented fallback: errors only set
                # the sticky code and the callee returns normally): the verdict a plain caller receives must be the truth
                # - "false for everything else" includes inputs on which an internal routine fails
                ctx.check(not truth, key + "|unexpected-error", {"err": res.err})
                rv = R.raw(fn, obj) & 0xFFFFFFFF
                code = R.err_get_code()          # read and clear the sticky code
                ctx.add("unprotected_repeats", 1)
                ctx.check(bool(rv) == bool(truth), key + ("|rejected-unprotected" if truth else "|accepted-unprotected"),
                          {"returned": rv, "model": bool(truth), "sticky_code": code})
                lastp = ctypes.c_void_p.from_address(R.ctx + K["off_ctx_t_last"]).value
                # a throw outside any protected block legitimately parks `last` on the context's own error record
                ctx.check((not lastp) or lastp == R.ctx + K["off_ctx_t_error"], key + "|handler-chain-after-unprotected-call",
                          {"last": lastp})
            else:
                ctx.check(bool(res.i) == bool(truth), key + ("|rejected" if truth else "|accepted"),
                          {"got": res.i, "model": bool(truth)})
            ctx.check(R.get(obj, size) == before, key + "|input-modified")
        guard(body)

    # ---- G1
    def g1_candidates():
        yield "member|gen", M.G1, True
        for b in S1:
            yield "member|multiple", b.P, True
        yield "member|small-multiple", G1.mul(rng.randrange(2, 20)), True
        yield "member|neg", E1.neg(rng.choice(S1).P), True
        yield "identity", None, False
        for _ in range(N(6, 60)):
            pt = M.rand_point1(rng)
            mem = M.in_g1(pt)
            if M.h1 == 1:
                assert mem
                yield "member|random-curve-point", pt, True
            else:
                yield ("member|random-curve-point" if mem else "curve-point-outside"), pt, mem
        for q, _ in M.small1():
            pt = M.point_of_order(1, q, rng)
            if pt is None:
                continue
            yield "small-order|%d" % q, pt, False
            yield "member+small-order|%d" % q, E1.add(pt, rng.choice(S1).P), False
        for _ in range(N(6, 60)):
            x, y = rng.choice(S1 + [G1]).P
            c = rng.randrange(3)
            bad = (x, (y + rng.randrange(1, p)) % p) if c == 0 else (((x + rng.randrange(1, p)) % p, y) if c == 1 else
                                                                      (rng.randrange(p), rng.randrange(p)))
            if not E1.on_curve(bad):
                yield "off-curve", bad, False
        yield "off-curve", (0, 0), False

    if has("g1_is_valid"):
        for cls, pt, expect in g1_candidates():
            truth = M.in_g1(pt)                     # the model's definition decides, the construction is cross-checked
            assert truth == expect, "model inconsistency for G1 candidate " + cls
            g1_write(PA, pt)
            valid_case("g1_is_valid", cls, PA, truth, {"P": p1d(pt)}, nontrivial=pt is not None)
            if pt is not None and NAT1 != BAS:
                # the same element as a projective representative (off-curve coordinates: written form only)
                for form in (FORMS[1:] if E1.on_curve(pt) else FORMS[1:2]):
                    enc = g1_write(PA, pt, form, order=n if truth else None)
                    valid_case("g1_is_valid", cls + fsfx(form), PA, truth, {"P": p1d(pt), "enc": enc})

    # ---- G2
    small2 = []
    for q, _ in M.small2():
        if ctx.quick and len(small2) >= 4 and q > 1 << 12:
            continue
        pt = M.point_of_order(2, q, rng)
        if pt is not None:
            small2.append((q, pt))

    def g2_candidates():
        yield "member|gen", M.G2, True
        for b in S2:
            yield "member|multiple", b.P, True
        yield "member|small-multiple", env.G.mul(rng.randrange(2, 20)), True
        yield "member|neg", E2.neg(rng.choice(S2).P), True
        yield "identity", None, False
        for _ in range(N(10, 100)):
            pt = M.rand_point2(rng)
            mem = E2.mul(n, pt) is None
            yield ("member|random-twist-point" if mem else "twist-point-outside"), pt, mem
        for q, pt in small2:
            yield "small-order|%d" % q, pt, False
            yield "member+small-order|%d" % q, E2.add(pt, rng.choice(S2).P), False
        if len(small2) > 1:
            yield "small-order|sum", E2.add(small2[0][1], small2[1][1]), False
        for _ in range(N(6, 60)):
            x, y = rng.choice(S2 + [env.G]).P
            c = rng.randrange(3)
            bad = (x, F2.add(y, (rng.randrange(1, p), 0))) if c == 0 else ((F2.add(x, (0, rng.randrange(1, p))), y) if c == 1
                                                                           else (F2.rand(rng), F2.rand(rng)))
            if not E2.on_curve(bad):
                yield "off-curve", bad, False
        yield "off-curve", ((0, 0), (0, 0)), False
        # a G1 point embedded in Fp2 coordinates lies on E, not on the twist
        emb = ((M.G1[0], 0), (M.G1[1], 0))
        if not E2.on_curve(emb):
            yield "off-curve", emb, False

    if has("g2_is_valid"):
        for cls, pt, expect in g2_candidates():
            truth = M.in_g2(pt)
            assert truth == expect, "model inconsistency for G2 candidate " + cls
            if pt is None:
                e.put(A2, None, F2)
            else:
                e.put_raw(A2, pt[0], pt[1], (1, 0), e.BASIC)
            valid_case("g2_is_valid", cls, A2, truth, {"P": pd(pt)}, nontrivial=pt is not None)
            if pt is not None and env.NAT != "A":
                for form in (FORMS[1:] if E2.on_curve(pt) else FORMS[1:2]):
                    enc = g2_write(A2, pt, form, order=n if truth else None)
                    valid_case("g2_is_valid", cls + fsfx(form), A2, truth, {"P": pd(pt), "enc": enc})

    # ---- GT
    def fd(x):
        return [hx(v) for v in F12.flatten(x)]

    def gt_candidates():
        yield "member|gen", gT, True
        for _ in range(N(3, 30)):
            yield "member|power", GT.pow(rng.randrange(2, n)), True
        yield "member|inverse", conj(gT), True
        yield "identity", ONE, False
        yield "zero", ZERO, False
        yield "minus-one", MINUS1, False
        yield "member*minus-one", F12.mul(MINUS1, GT.pow(rng.randrange(2, n))), False
        for _ in range(N(4, 40)):
            x = F12.rand(rng)
            yield "random", x, None
        x = F12.rand(rng)
        yield "subfield|fp", F12.embed(F6.embed(F2.embed(rng.randrange(2, p)))), False
        yield "subfield|fp2", F12.embed(F6.embed(F2.rand(rng))), False
        yield "subfield|fp6", F12.embed(x[0]), False
        # Fp4 inside Fp12: only the coordinates a[0][0] and a[1][1] are set (and the special values living there)
        z2 = F2.zero

        def fp4(c0, c1):
            return ((c0, z2, z2), (z2, c1, z2))
        yield "subfield|fp4", fp4(F2.rand(rng), F2.rand(rng)), None
        yield "subfield|fp4", fp4(F2.rand(rng), (rng.randrange(1, p), 0)), None
        yield "subfield|fp4-pure", fp4(z2, F2.rand(rng)), None
        yield "subfield|fp4-pure", fp4(z2, (1, 0)), None
        yield "subfield|small-int", fp4((rng.choice([2, 3, 5, 7]), 0), z2), None
        yield "subfield|small-int", fp4((p - rng.choice([2, 3]), 0), z2), None
        yield "subfield|u", fp4((0, 1), z2), None
        yield "subfield|fp2", fp4(F2.rand(rng), z2), None
        u = F12.mul(conj(x), F12.inv(x))
        yield "unitary-not-cyclotomic", u, None
        cyc = F12.mul(F12.pow(u, p * p), u)
        yield "cyclotomic-not-order-r", cyc, None
        yield "member*cyclotomic", F12.mul(cyc, GT.pow(rng.randrange(2, n))), None
        mem = F12.pow(cyc, hT)
        if not F12.eq(mem, ONE):
            yield "member|model-made", mem, True
        for q, _ in smallT[:(3 if ctx.quick else 12)]:
            so = F12.pow(cyc, phi12 // q)
            if F12.eq(so, ONE):
                continue
            yield "small-order|%d" % q, so, False
            yield "member*small-order|%d" % q, F12.mul(so, GT.pow(rng.randrange(2, n))), False

    if has("gt_is_valid"):
        gi = 0
        for cls, x, expect in gt_candidates():
            gi += 1
            truth = gt_member(x)
            assert expect is None or truth == expect, "model inconsistency for GT candidate " + cls
            if truth and not cls.startswith("member"):
                cls = "member|" + cls           # (probability ~ 1/h: never seen)
            gt_write(ga, x)
            valid_case("gt_is_valid", cls, ga, truth, {"x": fd(x)[:4], "i": gi}, nontrivial=not F12.eq(x, ONE))

    # =========================================================================== multiplication in G1
    SC = scalars(env)

    def in_range(k):
        return 0 <= k < n

    def g1_mul_case(fn, scls, k, base, bcls, form="aff"):
        def body():
            if not env.fits(k):
                return
            key = "%s|%s|%s%s" % (fn, kcls(scls), bcls, fsfx(form))
            enc = g1_write(PA, base.P, form, order=base.order)
            env.setk(env.k, k)
            if not ctx.begin(key, {"P": p1d(base.P), "enc": enc, "k": hx(k), "kclass": scls},
                             nontrivial=base.P is not None and k != 0):
                return
            g1_poison(PC)
            before = R.get(PA, K["sizeof_ep_st"])
            if fn == "g1_mul_gen":
                res = R.call(fn, PC, env.k)
            else:
                res = R.call(fn, PC, PA, env.k)
            g1_judge(PC, base.mul(k), res, in_range(k))
            ctx.check(R.get(PA, K["sizeof_ep_st"]) == before and R.bn_val(env.k) == k, key + "|input-modified")
        guard(body)

    g1fns = [f for f in ("g1_mul", "g1_mul_sec", "g1_mul_any", "g1_mul_gen") if has(f)]
    for fn in g1fns:
        for i, (scls, k) in enumerate(SC):
            if mine():
                b = G1 if (fn == "g1_mul_gen" or i % 2 == 0) else rng.choice(S1)
                g1_mul_case(fn, scls, k, b, "gen" if b is G1 else "member")
        if fn != "g1_mul_gen":
            for scls, k in (("zero", 0), ("one", 1), ("rand", rng.randrange(n)), ("neg-small", -3)):
                if mine():
                    g1_mul_case(fn, scls, k, epx.Base(E1, None), "identity")
            for form in FORMS[1:]:
                for scls, k in (("one", 1), ("small", 3), ("dig-edge", (1 << 64) + 1), ("n-1", n - 1), ("n", n), ("neg-small", -2),
                                ("neg", -rng.randrange(n)), ("rand", rng.randrange(n)), ("rand", rng.randrange(n)),
                                ("over", n * n + 7)):
                    if mine():
                        g1_mul_case(fn, scls, k, rng.choice(S1), "member", form)
    for _ in range(N(240, 3000)):
        fn = rng.choice(g1fns)
        scls, k = rand_scalar(env)
        b = G1 if fn == "g1_mul_gen" else rng.choice(S1 + [G1])
        g1_mul_case(fn, scls, k, b, "gen" if b is G1 else "member", "aff" if fn == "g1_mul_gen" else rform())

    def g1_dig_case(d, base, bcls, form="aff"):
        def body():
            dc = "zero" if d == 0 else ("one" if d == 1 else ("top-bit" if d >> 63 else "dig"))
            key = "g1_mul_dig|%s|%s%s" % (dc, bcls, fsfx(form))
            enc = g1_write(PA, base.P, form, order=base.order)
            if not ctx.begin(key, {"P": p1d(base.P), "enc": enc, "k": hx(d)}, nontrivial=base.P is not None and d != 0):
                return
            g1_poison(PC)
            res = R.call("g1_mul_dig", PC, PA, d)
            g1_judge(PC, base.mul(d), res)
        guard(body)

    if has("g1_mul_dig") and R.DIG == 64:
        for d in (0, 1, 2, 3, 0xFFFF, 1 << 63, (1 << 64) - 1, (1 << 63) + 1):
            for b, bc in ((G1, "gen"), (S1[0], "member"), (epx.Base(E1, None), "identity")):
                if mine():
                    g1_dig_case(d, b, bc)
        for _ in range(N(40, 500)):
            g1_dig_case(rng.getrandbits(rng.choice([5, 33, 64, 64])), rng.choice(S1), "member", rform())
        for form in FORMS[1:]:
            for d in (1, 2, (1 << 64) - 1):
                if mine():
                    g1_dig_case(d, rng.choice(S1), "member", form)

    hostile = [("zero", 0), ("one", 1), ("small", 2), ("n-1", n - 1), ("n", n), ("n+1", n + 1), ("near-mult-n", 2 * n + 3),
               ("neg-small", -1), ("neg-n", -n), ("neg", -rng.randrange(n)), ("over", n * n + 1),
               ("over", rng.getrandbits(2 * env.nb + 40) | 1 << (2 * env.nb + 39)), ("rand", rng.randrange(n)),
               ("rand", rng.randrange(n))]

    def g1_sim_case(kc, k, mc, m, rel="gen", forms=("aff", "aff")):
        def body():
            if not (env.fits(k) and env.fits(m)):
                return
            bp = rng.choice(S1 + [G1])
            if rel == "gen":
                bq = rng.choice([b for b in S1 + [G1] if b is not bp])
            elif rel == "P=Q":
                bq = bp
            elif rel == "P=-Q":
                bq = epx.Base(E1, E1.neg(bp.P), n)
            elif rel == "infP":
                bq, bp = bp, epx.Base(E1, None)
            else:
                bq = epx.Base(E1, None)
            g0, g1_ = sorted((group(kc), group(mc)))
            fs = "" if forms == ("aff", "aff") else ("|lib-proj-in" if "lib-proj-in" in forms else "|proj-in")
            key = "g1_mul_sim|%s|%s,%s%s" % (rel, g0, g1_, fs)
            g1_write(PA, bp.P, forms[0], order=bp.order)
            g1_write(PB, bq.P, forms[1], order=bq.order)
            env.setk(env.k, k)
            env.setk(env.m, m)
            if not ctx.begin(key, {"P": p1d(bp.P), "Q": p1d(bq.P), "k": hx(k), "m": hx(m), "kclass": [kc, mc]}):
                return
            g1_poison(PC)
            res = R.call("g1_mul_sim", PC, PA, env.k, PB, env.m)
            g1_judge(PC, E1.add(bp.mul(k), bq.mul(m)), res, in_range(k) and in_range(m))
        guard(body)

    if has("g1_mul_sim"):
        for i, (kc, k) in enumerate(hostile):
            for j in (0, 3, 5, 9):
                mc, m = hostile[(i + j) % len(hostile)]
                if mine():
                    g1_sim_case(kc, k, mc, m)
        for rel in ("P=Q", "P=-Q", "infP", "infQ"):
            for kc, k, mc, m in (("rand", rng.randrange(n), "rand", rng.randrange(n)), ("small", 5, "small", 5),
                                 ("rand", 987654321987654321987, "neg", -987654321987654321987)):
                if mine():
                    g1_sim_case(kc, k, mc, m, rel)
        for _ in range(N(90, 1500)):
            kc, k = rand_scalar(env)
            mc, m = rand_scalar(env)
            g1_sim_case(kc, k, mc, m, rng.choice(["gen"] * 6 + ["P=Q", "P=-Q", "infP", "infQ"]), (rform(), rform()))
        for forms in (("proj-in", "aff"), ("aff", "proj-in"), ("proj-in", "proj-in"), ("lib-proj-in", "aff"),
                      ("aff", "lib-proj-in"), ("lib-proj-in", "lib-proj-in")):
            for rel in ("gen", "P=Q", "P=-Q"):
                if mine():
                    g1_sim_case("rand", rng.randrange(n), "rand", rng.randrange(n), rel, forms)

    def lot_case(which, cnt, special=None):
        """g1_mul_sim_lot / g2_mul_sim_lot"""
        def body():
            g1 = which == 1
            Ec, pool = (E1, S1 + [G1]) if g1 else (E2, S2 + [env.G])
            bases = [rng.choice(pool) for _ in range(cnt)]
            ks = [rng.randrange(n) for _ in range(cnt)]
            if special == "hostile":
                ks = [rng.choice(hostile)[1] for _ in range(cnt)]
            if special == "cancel" and cnt > 1:
                bases[1] = epx.Base(Ec, Ec.neg(bases[0].P), n)
                ks[1] = ks[0]
            if special == "with-identity" and cnt:
                bases[rng.randrange(cnt)] = epx.Base(Ec, None)
            if not all(env.fits(k) for k in ks):
                return
            fn = "g1_mul_sim_lot" if g1 else "g2_mul_sim_lot"
            ncls = "n0" if cnt == 0 else ("n1" if cnt == 1 else ("n<=10" if cnt <= 10 else "n>10"))
            key = "%s|%s|%s" % (fn, ncls, special or "gen")
            sz = K["sizeof_ep_st"] if g1 else e.sz
            R.poison = rng.randrange(1, 256)
            arr = R.mem(sz * max(cnt, 1), R.poison)
            kb = R.mem(R.bn_sz * max(cnt, 1), R.poison)
            try:
                for i in range(cnt):
                    fm = rng.choice(FORMS[1:]) if special == "proj" else "aff"
                    (g1_write if g1 else g2_write)(arr + i * sz, bases[i].P, fm, order=bases[i].order)
                    if R.call("bn_make", kb + i * R.bn_sz, R.BN_SIZE).caught:
                        raise RuntimeError("bn_make")
                    R.bn_put(kb + i * R.bn_sz, ks[i])
                if not ctx.begin(key, {"pts": [(p1d if g1 else pd)(b.P) for b in bases][:4], "k": [hx(k) for k in ks][:12],
                                       "n": cnt}, nontrivial=cnt > 0, budget=600):
                    return
                out = PC if g1 else C2
                (g1_poison if g1 else e.poison)(out)
                res = R.call(fn, out, arr, kb, cnt)
                exp = None
                for b, k in zip(bases, ks):
                    exp = Ec.add(exp, b.mul(k))
                allin = all(in_range(k) for k in ks)
                if g1:
                    g1_judge(out, exp, res, allin)
                else:
                    env.judge(out, exp, res, in_range=allin, norm=True)
            finally:
                R.free(arr)
                R.free(kb)
        guard(body)

    for which, fn in ((1, "g1_mul_sim_lot"), (2, "g2_mul_sim_lot")):
        if not has(fn):
            continue
        for cnt in [0, 1, 2, 3, 10, 11] + ([17, 32, 40] if not ctx.quick else []):
            if mine():
                lot_case(which, cnt)
        for cnt in (2, 5, 12):
            for sp in ("hostile", "cancel", "with-identity", "proj"):
                if mine():
                    lot_case(which, cnt, sp)
        for _ in range(N(6, 150)):
            lot_case(which, rng.choice([1, 2, 3, 4, 9, 10, 11, 12]), rng.choice([None, None, "hostile", "proj"]))

    # =========================================================================== multiplication in G2
    def g2_mul_case(fn, scls, k, base, bcls, form="aff"):
        def body():
            if not env.fits(k):
                return
            key = "%s|%s|%s%s" % (fn, kcls(scls), bcls, fsfx(form))
            enc = g2_write(A2, base.P, form, order=base.order)
            env.setk(env.k, k)
            if not ctx.begin(key, {"P": pd(base.P), "enc": enc, "k": hx(k), "kclass": scls},
                             nontrivial=base.P is not None and k != 0):
                return
            e.poison(C2)
            sa = env.snap(A2)
            res = R.call(fn, C2, env.k) if fn == "g2_mul_gen" else R.call(fn, C2, A2, env.k)
            env.judge(C2, base.mul(k), res, in_range=in_range(k), norm=True)
            env.unchanged(A2, sa)
        guard(body)

    g2fns = [f for f in ("g2_mul", "g2_mul_sec", "g2_mul_any", "g2_mul_gen") if has(f)]
    for fn in g2fns:
        for i, (scls, k) in enumerate(SC):
            if mine():
                b = env.G if (fn == "g2_mul_gen" or i % 2 == 0) else rng.choice(S2)
                g2_mul_case(fn, scls, k, b, "gen" if b is env.G else "member")
        if fn != "g2_mul_gen":
            for scls, k in (("zero", 0), ("one", 1), ("rand", rng.randrange(n)), ("neg-small", -3)):
                if mine():
                    g2_mul_case(fn, scls, k, epx.Base(E2, None), "identity")
            for form in FORMS[1:]:
                for scls, k in (("one", 1), ("small", 3), ("dig-edge", (1 << 64) + 1), ("n-1", n - 1), ("n", n), ("neg-small", -2),
                                ("neg", -rng.randrange(n)), ("rand", rng.randrange(n)), ("rand", rng.randrange(n)),
                                ("over", n * n + 7)):
                    if mine():
                        g2_mul_case(fn, scls, k, rng.choice(S2), "member", form)
    for _ in range(N(180, 3000)):
        fn = rng.choice(g2fns)
        scls, k = rand_scalar(env)
        b = env.G if fn == "g2_mul_gen" else rng.choice(S2 + [env.G])
        g2_mul_case(fn, scls, k, b, "gen" if b is env.G else "member", "aff" if fn == "g2_mul_gen" else rform())

    def g2_dig_case(d, base, bcls, form="aff"):
        def body():
            dc = "zero" if d == 0 else ("one" if d == 1 else ("top-bit" if d >> 63 else "dig"))
            key = "g2_mul_dig|%s|%s%s" % (dc, bcls, fsfx(form))
            enc = g2_write(A2, base.P, form, order=base.order)
            if not ctx.begin(key, {"P": pd(base.P), "enc": enc, "k": hx(d)}, nontrivial=base.P is not None and d != 0):
                return
            e.poison(C2)
            res = R.call("g2_mul_dig", C2, A2, d)
            env.judge(C2, base.mul(d), res, norm=True)
        guard(body)

    if has("g2_mul_dig") and R.DIG == 64:
        for d in (0, 1, 2, 3, 0xFFFF, 1 << 63, (1 << 64) - 1, (1 << 63) + 1):
            for b, bc in ((env.G, "gen"), (S2[0], "member"), (epx.Base(E2, None), "identity")):
                if mine():
                    g2_dig_case(d, b, bc)
        for _ in range(N(30, 500)):
            g2_dig_case(rng.getrandbits(rng.choice([5, 33, 64, 64])), rng.choice(S2), "member", rform())
        for form in FORMS[1:]:
            for d in (1, 2, (1 << 64) - 1):
                if mine():
                    g2_dig_case(d, rng.choice(S2), "member", form)

    def g2_sim_case(kc, k, mc, m, rel="gen", forms=("aff", "aff")):
        def body():
            if not (env.fits(k) and env.fits(m)):
                return
            bp = rng.choice(S2 + [env.G])
            if rel == "gen":
                bq = rng.choice([b for b in S2 + [env.G] if b is not bp])
            elif rel == "P=Q":
                bq = bp
            elif rel == "P=-Q":
                bq = epx.Base(E2, E2.neg(bp.P), n)
            elif rel == "infP":
                bq, bp = bp, epx.Base(E2, None)
            else:
                bq = epx.Base(E2, None)
            g0, g1_ = sorted((group(kc), group(mc)))
            fs = "" if forms == ("aff", "aff") else ("|lib-proj-in" if "lib-proj-in" in forms else "|proj-in")
            key = "g2_mul_sim|%s|%s,%s%s" % (rel, g0, g1_, fs)
            g2_write(A2, bp.P, forms[0], order=bp.order)
            g2_write(B2, bq.P, forms[1], order=bq.order)
            env.setk(env.k, k)
            env.setk(env.m, m)
            if not ctx.begin(key, {"P": pd(bp.P), "Q": pd(bq.P), "k": hx(k), "m": hx(m), "kclass": [kc, mc]}):
                return
            e.poison(C2)
            res = R.call("g2_mul_sim", C2, A2, env.k, B2, env.m)
            env.judge(C2, E2.add(bp.mul(k), bq.mul(m)), res, in_range=in_range(k) and in_range(m), norm=True)
        guard(body)

    if has("g2_mul_sim"):
        for i, (kc, k) in enumerate(hostile):
            for j in (0, 3, 5, 9):
                mc, m = hostile[(i + j) % len(hostile)]
                if mine():
                    g2_sim_case(kc, k, mc, m)
        for rel in ("P=Q", "P=-Q", "infP", "infQ"):
            for kc, k, mc, m in (("rand", rng.randrange(n), "rand", rng.randrange(n)), ("small", 5, "small", 5),
                                 ("rand", 987654321987654321987, "neg", -987654321987654321987)):
                if mine():
                    g2_sim_case(kc, k, mc, m, rel)
        for _ in range(N(60, 1500)):
            kc, k = rand_scalar(env)
            mc, m = rand_scalar(env)
            g2_sim_case(kc, k, mc, m, rng.choice(["gen"] * 6 + ["P=Q", "P=-Q", "infP", "infQ"]), (rform(), rform()))
        for forms in (("proj-in", "aff"), ("aff", "proj-in"), ("proj-in", "proj-in"), ("lib-proj-in", "aff"),
                      ("aff", "lib-proj-in"), ("lib-proj-in", "lib-proj-in")):
            for rel in ("gen", "P=Q", "P=-Q"):
                if mine():
                    g2_sim_case("rand", rng.randrange(n), "rand", rng.randrange(n), rel, forms)

    # =========================================================================== exponentiation in GT
    memT = [GT, GtBase(F12, GT.pow(rng.randrange(2, n)), n)]
    memcls = ["gen", "member"]

    def model_made_member():
        x = F12.rand(rng)
        m = F12.pow(easy(x), hT)
        return None if F12.eq(m, ONE) else GtBase(F12, m, n)

    if ctx.mine(1):
        mm = model_made_member()
        if mm is not None:
            memT.append(mm)
            memcls.append("model-made-member")

    def gt_exp_case(fn, scls, k, bi):
        def body():
            if not env.fits(k):
                return
            base = memT[bi]
            key = "%s|%s|%s" % (fn, kcls(scls), memcls[bi])
            gt_write(ga, base.x)
            env.setk(env.k, k)
            if not ctx.begin(key, {"x": fd(base.x)[:2], "k": hx(k), "kclass": scls}, nontrivial=k != 0):
                return
            ctypes.memset(gc, R.poison, 12 * R.fp_sz)
            before = R.get(ga, 12 * R.fp_sz)
            res = R.call(fn, gc, env.k) if fn == "gt_exp_gen" else R.call(fn, gc, ga, env.k)
            gt_judge(gc, base.pow(k), res, in_range(k))
            ctx.check(R.get(ga, 12 * R.fp_sz) == before and R.bn_val(env.k) == k, key + "|input-modified")
        guard(body)

    gtfns = [f for f in ("gt_exp", "gt_exp_sec", "gt_exp_gen") if has(f)]
    for fn in gtfns:
        for i, (scls, k) in enumerate(SC):
            if mine():
                gt_exp_case(fn, scls, k, 0 if fn == "gt_exp_gen" else i % len(memT))
    for _ in range(N(60, 1500)):
        fn = rng.choice(gtfns)
        scls, k = rand_scalar(env)
        gt_exp_case(fn, scls, k, 0 if fn == "gt_exp_gen" else rng.randrange(len(memT)))

    def gt_dig_case(d, bi, alias=0):
        def body():
            base = memT[bi]
            dc = "zero" if d == 0 else ("one" if d == 1 else ("top-bit" if d >> 63 else "dig"))
            key = "gt_exp_dig|%s|%s%s" % (dc, memcls[bi], "|alias" if alias else "")
            gt_write(ga, base.x)
            if not ctx.begin(key, {"x": fd(base.x)[:2], "k": hx(d)}, nontrivial=d != 0):
                return
            ctypes.memset(gc, R.poison, 12 * R.fp_sz)
            out = ga if alias else gc
            res = R.call("gt_exp_dig", out, ga, d)
            gt_judge(out, base.pow(d), res)
        guard(body)

    if has("gt_exp_dig") and R.DIG == 64:
        for d in (0, 1, 2, 3, 0xFFFF, 1 << 63, (1 << 64) - 1, (1 << 63) + 1):
            if mine():
                gt_dig_case(d, case[0] % len(memT))
        if mine():
            gt_dig_case(rng.getrandbits(64), 0, alias=1)
        for _ in range(N(15, 300)):
            gt_dig_case(rng.getrandbits(rng.choice([5, 33, 64, 64])), rng.randrange(len(memT)))

    def gt_sim_case(kc, k, mc, m, rel="gen"):
        def body():
            if not (env.fits(k) and env.fits(m)):
                return
            ba = rng.choice(memT)
            bb = ba if rel == "a=c" else (GtBase(F12, conj(ba.x), n) if rel == "a=1/c" else
                                          rng.choice([b for b in memT if b is not ba]))
            g0, g1_ = sorted((group(kc), group(mc)))
            key = "gt_exp_sim|%s|%s,%s" % (rel, g0, g1_)
            gt_write(ga, ba.x)
            gt_write(gb, bb.x)
            env.setk(env.k, k)
            env.setk(env.m, m)
            if not ctx.begin(key, {"a": fd(ba.x)[:2], "c": fd(bb.x)[:2], "b": hx(k), "d": hx(m), "kclass": [kc, mc]}):
                return
            ctypes.memset(gc, R.poison, 12 * R.fp_sz)
            res = R.call("gt_exp_sim", gc, ga, env.k, gb, env.m)
            gt_judge(gc, F12.mul(ba.pow(k), bb.pow(m)), res, in_range(k) and in_range(m))
        guard(body)

    if has("gt_exp_sim"):
        for i, (kc, k) in enumerate(hostile):
            for j in (0, 5):
                mc, m = hostile[(i + j) % len(hostile)]
                if mine():
                    gt_sim_case(kc, k, mc, m)
        for rel in ("a=c", "a=1/c"):
            for kc, k, mc, m in (("rand", rng.randrange(n), "rand", rng.randrange(n)), ("small", 5, "small", 5)):
                if mine():
                    gt_sim_case(kc, k, mc, m, rel)
        for _ in range(N(20, 600)):
            kc, k = rand_scalar(env)
            mc, m = rand_scalar(env)
            gt_sim_case(kc, k, mc, m, rng.choice(["gen"] * 5 + ["a=c", "a=1/c"]))

    def gt_rand_case():
        def body():
            key = "gt_rand|"
            if not ctx.begin(key, {}, nontrivial=True):
                return
            ctypes.memset(gc, R.poison, 12 * R.fp_sz)
            res = R.call("gt_rand", gc)
            if res.caught:
                ctx.check(False, key + "|unexpected-error", {"err": res.err})
                return
            x, canon = gt_read(gc)
            ctx.check(gt_member(x) or F12.eq(x, ONE), key + "|not-a-member", {"x": fd(x)[:4]})
            ctx.check(canon, key + "|non-canonical")
            # and the predicate agrees
            res = R.call("gt_is_valid", gc)
            ctx.check(bool(res.i) == gt_member(x), key + "|is_valid-disagrees")
        guard(body)

    if has("gt_rand"):
        for _ in range(N(3, 40)):
            gt_rand_case()

    ctx.note("functions_exercised", sorted(R.fn_seen))
    ctx.note("functions_not_built", sorted(notbuilt))
    ctx.note("error_codes_seen", {str(k): v for k, v in R.err_codes.items()})


def finish(cov):
    import json
    import os
    inv = os.path.join(os.path.dirname(os.path.dirname(os.path.dirname(os.path.abspath(__file__)))), "design",
                       "api_inventory.json")
    try:
        F = json.load(open(inv))["functions"]
    except (OSError, ValueError, KeyError):
        return
    scope = sorted(k for k, v in F.items() if v.get("property") == "C12")
    seen = set(cov.get("functions_exercised", []))
    cov["functions_in_scope"] = len(scope)
    cov["functions_in_scope_exercised"] = len([f for f in scope if f in seen])
    cov["functions_uncovered"] = [f for f in scope if f not in seen and f not in set(cov.get("functions_not_built", []))]
