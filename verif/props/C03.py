"""C03 - prime-curve group law and every scalar multiplication equal [k]P.

Oracle: affine short-Weierstrass arithmetic on Python integers (model/curves.py).  Operands are
written raw (affine, homogeneous projective, Jacobian, arbitrary Z, every reachable encoding of
the identity), results are read raw and converted by the model according to their coord tag.
"""
import ctypes
import json
import os
import random

from ..rt import RT, MonitorViolation
from ..ctx import hx
from ..model.curves import Fp, WCurve, sqrt_mod

LEVEL = "exploration"
RULE = ("per curve accepted by the build: (law) ep_neg/add_*/sub/dbl_*/norm/norm_sim/cmp/on_curve/psi on operands "
        "written raw in affine / the routine's native projective system with Z in {1, 2, p-1, small, random}, every "
        "operand relation (generic, P=Q, P=-Q, identity operands in every encoding the library itself produces, "
        "points of order 2 and 3 where the curve has them, P-Q of order 2) x coordinate pair x alias pattern is "
        "enumerated once and then sampled (incl. distinct points with equal / opposite y); (mul) every ep_mul_* / ep_mul_pre_*+ep_mul_fix_* on subgroup points "
        "(O, G, small multiples, random) with scalars 0,+-1,2,n-1,n,n+1,2n,jn+-1,n^2,negatives,2^j,2^j-1,alternating "
        "patterns, up to RLC_BN_BITS bits, GLV boundary values; (sim) every ep_mul_sim_* on pairs incl. P=Q, P=-Q, O, "
        "sim_lot for n=0..40, sim_dig for n=0..40 (n=0 of sim_dig / norm_sim: one directed case).  Scalar classes: residue (r0: k=0 mod n, k!=0; r1: k=1 mod n; r) and range "
        "(in: |k|<n; ge: |k|>=n within the regular-recoding length; wide: up to the recoding buffer; long: beyond). "
        "Verdict: 0<=k<n must give [k]P without error; other scalars may raise an error or give [k]P; "
        "results of multiplications must be affine with Z=1 (or Z=0) and canonical digits. "
        "A case is non-trivial when an operand is not the identity and the scalar is non-zero; distinct = distinct "
        "(key, curve, operands, representation)")
ASSUMPTIONS = ["the affine Python model (model/curves.py WCurve over ints mod p) is the reference for the group law",
               "curve constants p, a, b, G, n, h are read through the library getters and validated by the model "
               "(G on curve, [n]G = O); their agreement with the standards is C18's subject",
               "the coord tag of a result selects the model's conversion (BASIC: x,y with Z in {0,1}; PROJC: X/Z, Y/Z; "
               "JACOB: X/Z^2, Y/Z^3)",
               "B12 cofactor clearing multiplies by 1 - z (source comment in relic_ep_mul_cof.c, RFC 9380 h_eff)"]

KNOWN = os.path.join(os.path.dirname(os.path.dirname(os.path.dirname(os.path.abspath(__file__)))),
                     "known_findings.jsonl")


def parts(tier):
    q = tier == "quick"
    return [dict(part="law", cfg="asan256", shards=2 if q else 4),
            dict(part="mul", cfg="asan256", shards=5 if q else 8),
            dict(part="sim", cfg="asan256", shards=3 if q else 6),
            dict(part="law", cfg="asan255", shards=1 if q else 2),
            dict(part="mul", cfg="asan255", shards=1 if q else 3),
            dict(part="sim", cfg="asan255", shards=1 if q else 2),
            dict(part="law", cfg="asan381", shards=1 if q else 2),
            dict(part="mul", cfg="asan381", shards=1 if q else 4),
            dict(part="sim", cfg="asan381", shards=1 if q else 3),
            # EP_ADD = BASIC dispatch: every ep_mul_* / ep_mul_sim_* over affine addition (reduced counts)
            dict(part="mulx", cfg="asan256x", shards=2 if q else 4)]


# Fatal (sanitizer abort) defects listed as *known* are produced by exactly one directed case per
# configuration, executed first in shard 0; everywhere else the generators step around the predicate.
# When the entry disappears from known_findings.jsonl or is marked fixed, the class is generated at
# full rate again, so a regression is reported.
CONFINE = {
    "norm_sim_n0": "ep_norm_sim|n0*",
    "sim_dig_n0": "ep_mul_sim_dig|n0*",
    "fix_lwnaf_r0": "ep_mul_fix_lwnaf|*|r0|*",
    "lwreg_long": "ep_mul_lwreg|plain|*|?long*",
    "trick_r01": "ep_mul_sim_trick|*|[!i]*|r01|*",
}


def load_confined():
    active = set()
    try:
        for ln in open(KNOWN):
            ln = ln.strip()
            if not ln or ln.startswith("#"):
                continue
            k = json.loads(ln)
            if k.get("property") == "C03" and k.get("status") == "known":
                for name, pat in CONFINE.items():
                    if k.get("key") == pat:
                        active.add(name)
    except OSError:
        pass
    return active


class Cv(object):
    """model-side view of the active curve"""

    def __init__(self, R, name, ident, rng):
        self.R = R
        self.name = name
        self.ident = ident
        r = R.call("ep_param_set", ident)
        if r.caught:
            raise RuntimeError("ep_param_set(%s) failed" % name)
        P = R.ep_params()
        self.P = P
        self.p, self.a, self.b, self.n, self.h = P["p"], P["a"], P["b"], P["n"], P["h"]
        self.F = Fp(self.p)
        self.C = WCurve(self.F, self.a, self.b, self.n, self.h)
        self.G = (P["gx"], P["gy"])
        self.endom = P["endom"]
        self.kind = "endom" if P["endom"] else "plain"
        self.atag = "a0" if self.a == 0 else ("am3" if self.a == self.p - 3 else "ax")
        self.nbits = self.n.bit_length()
        w = R.K["RLC_WIDTH"]
        l = -(-self.nbits // (w - 1))
        self.bufcap = R.DIG * (-(-(l * (w - 1)) // R.DIG))     # bits of the recoding buffer in bn_rec_reg
        self.regcap = min(l * (w - 1) + (w - 1), self.bufcap)  # regular recoding: l digits + a top digit < 2^(w-1)
        self.rng = rng
        self.lam = None
        self.beta = None
        self.small = {}

    # ------------------------------------------------------------ points
    def validate(self):
        C = self.C
        return C.on_curve(self.G) and C.mul(self.n, self.G) is None

    def mulG(self, d):
        d %= self.n
        if d in self.small:
            return self.small[d]
        return self.C.mul(d, self.G)

    def build_pool(self, nrand=3):
        """subgroup points with known discrete logarithm: list of (d, point)"""
        C, G, n, rng = self.C, self.G, self.n, self.rng
        pool = []
        T = None
        for d in range(1, 9):
            T = C.add(T, G)
            self.small[d] = T
            pool.append((d, T))
        for d in range(1, 4):
            pool.append((n - d, C.neg(self.small[d])))
            self.small[n - d] = C.neg(self.small[d])
        for _ in range(nrand):
            d = rng.randrange(1, n)
            pool.append((d, C.mul(d, G)))
        self.pool = pool
        self.small[0] = None

    def rand_sub(self):
        """random subgroup point (d, P): pool element or the sum of two (cheap)"""
        rng = self.rng
        d1, P1 = rng.choice(self.pool)
        if rng.random() < 0.3:
            return d1, P1
        while True:
            d2, P2 = rng.choice(self.pool[8:])
            P = self.C.add(P1, P2)
            d = (d1 + d2) % self.n
            if P is not None:
                break
        if len(self.pool) < 400:
            self.pool.append((d, P))
        return d, P

    def rand_curve_point(self):
        """random point of the full curve group (equals the subgroup when h = 1)"""
        p, rng = self.p, self.rng
        while True:
            x = rng.randrange(p)
            y = sqrt_mod((x * x * x + self.a * x + self.b) % p, p)
            if y is not None:
                if rng.random() < 0.5:
                    y = -y % p
                return (x, y)

    def torsion(self, ell):
        """a point of exact order ell (2 or 3) when ell divides the cofactor, else None"""
        if self.h % ell:
            return None
        C = self.C
        N = self.h * self.n
        m = N
        while m % ell == 0:
            m //= ell
        for _ in range(20):
            T = C.mul(m, self.rand_curve_point())
            if T is None:
                continue
            while True:
                T2 = C.mul(ell, T)
                if T2 is None:
                    return T
                T = T2
        return None

    # ------------------------------------------------------------ endomorphism
    def find_lambda(self, psiG):
        """eigenvalue of the library's psi on the subgroup, by the model: psi(G) = [lam]G"""
        n = self.n
        cands = []
        if self.a == 0:
            s = sqrt_mod(n - 3, n)
            if s is not None:
                i2 = pow(2, -1, n)
                cands = [(-1 + s) * i2 % n, (-1 - s) * i2 % n]
        elif self.b == 0:
            s = sqrt_mod(n - 1, n)
            if s is not None:
                cands = [s, n - s]
        for lam in cands:
            if self.C.eq(self.C.mul(lam, self.G), psiG):
                self.lam = lam
                return lam
        return None

    # ------------------------------------------------------------ scalar classes
    def kcls(self, k):
        if k == 0:
            return "z|zero"
        a = -k if k < 0 else k
        s = "-" if k < 0 else "+"
        bl = a.bit_length()
        if a < self.n:
            rg = "in"
        elif bl <= self.regcap:
            rg = "ge"
        elif bl <= self.bufcap:
            rg = "wide"
        else:
            rg = "long"
        r = k % self.n
        return ("r0" if r == 0 else ("r1" if r == 1 else "r")) + "|" + s + rg

    RANK = {"zero": 0, "in": 1, "ge": 2, "wide": 3, "long": 4}

    def paircls(self, ks):
        """class of a tuple of scalars: residue part and the widest range"""
        res = "r"
        top, neg = "in", False
        for k in ks:
            c = self.kcls(k)
            rs, rg = c.split("|")
            if rs in ("r0", "r1"):
                res = "r01"
            if k < 0:
                neg = True
            rg = rg.lstrip("+-")
            if self.RANK[rg] > self.RANK[top]:
                top = rg
        if res == "r" and any(k == 0 for k in ks):
            res = "z"
        return res + "|" + ("-" if neg else "+") + top

    def in_range(self, k):
        return 0 <= k < self.n


class W(object):
    """workload driver shared by the three parts"""

    def __init__(self, ctx, R):
        self.ctx = ctx
        self.R = R
        self.rng = ctx.rng
        self.crng = random.Random(0)
        K = R.K
        self.K = K
        self.SZ = K["sizeof_ep_st"]
        self.BASIC, self.PROJC, self.JACOB = K["BASIC"], K["PROJC"], K["JACOB"]
        self.tagname = {self.BASIC: "B", self.PROJC: "P", self.JACOB: "J"}
        self.sysof = {"basic": self.BASIC, "projc": self.PROJC, "jacob": self.JACOB}
        self.EQ, self.NE = K["RLC_EQ"], K["RLC_NE"]
        self.confined = load_confined()
        self.light = 30 if ctx.cfg.endswith("x") else 1
        self.not_built = set()
        self.skipped_confined = 0
        self.info = {}
        self.a = R.ep_new()
        self.b = R.ep_new()
        self.c = R.ep_new()
        self.k = R.bn_new()
        self.m = R.bn_new()
        self.s = None           # slope output of ep_add_slp_basic / ep_dbl_slp_basic (allocated after the field set-up)
        t = R.target("ep_add")
        self.native = self.sysof.get(t.rsplit("_", 1)[-1], self.BASIC)
        ctx.note("dispatch", {n: R.target(n) for n in ("ep_add", "ep_dbl", "ep_mul", "ep_mul_pre", "ep_mul_fix",
                                                       "ep_mul_sim", "ep_mul_big", "ec_mul", "ec_mul_gen",
                                                       "ec_mul_sim", "ec_add") if R.has(n)})
        ctx.note("confined_known_fatal", sorted(self.confined))

    # ------------------------------------------------------------------ helpers
    def n(self, q, t=None):
        """case count; the affine-dispatch build (every addition inverts) gets a fraction of it"""
        v = self.ctx.n(q, t)
        return max(1, v // self.light) if self.light > 1 else v

    def begin(self, key, desc=None, **kw):
        """ctx.begin plus a per-case generator: the main stream advances by exactly one draw whether or not the case
        runs, everything random inside a case comes from self.crng - a replay (which runs only the cases of one
        key) therefore sees the same inputs as the original run"""
        seed = self.rng.getrandbits(64)
        if self.ctx.begin(key, desc, **kw):
            self.crng = random.Random(seed)
            return True
        return False

    def has(self, fn):
        if self.R.has(fn):
            return True
        self.not_built.add(fn)
        return False

    def scrub(self, P, n=1):
        ctypes.memset(P, self.crng.randrange(1, 256), self.SZ * n)

    def snap(self, P, n=1):
        return ctypes.string_at(P, self.SZ * n)

    def rz(self, cv):
        """a non-zero Z"""
        rng, p = self.crng, cv.p
        c = rng.randrange(8)
        if c == 0:
            return 1
        if c == 1:
            return p - 1
        if c == 2:
            return 2
        if c == 3:
            return rng.randrange(1, 1 << 16)
        return rng.randrange(1, p)

    def put(self, cv, ptr, Pm, coord, inf=None):
        """write model point Pm raw in system coord; returns a short description of the representation"""
        R = self.R
        if Pm is None:
            reps = cv.infreps[coord]
            i = self.crng.randrange(len(reps)) if inf is None else inf % len(reps)
            x, y, z, tg, nm = reps[i]
            if x == "r":      # valid projective encodings of the identity with a random scale
                lam = self.crng.randrange(1, cv.p)
                if coord == self.PROJC:
                    x, y = 0, lam
                else:
                    x, y = lam * lam % cv.p, lam * lam * lam % cv.p
            R.ep_put(ptr, x, y, z, tg)
            return "O" + nm
        x, y = Pm
        p = cv.p
        if coord == self.BASIC:
            R.ep_put(ptr, x, y, 1, coord)
            return "B"
        Z = self.rz(cv)
        if coord == self.PROJC:
            R.ep_put(ptr, x * Z % p, y * Z % p, Z, coord)
        else:
            Z2 = Z * Z % p
            R.ep_put(ptr, x * Z2 % p, y * Z2 * Z % p, Z, coord)
        return self.tagname[coord] + (":z=" + hx(Z) if Z < (1 << 16) or Z == p - 1 else "")

    def rd(self, cv, ptr):
        """-> (status, model point, canonical); status 'ok' or a description of a malformed representation"""
        x, y, z, co, can = self.R.ep_get(ptr)
        if z == 0:
            return "ok", None, can, co, z
        C = cv.C
        if co == self.BASIC:
            if z != 1:
                return "affine-tag-with-z=%s" % hx(z), (x, y), can, co, z
            return "ok", (x, y), can, co, z
        if co == self.PROJC:
            return "ok", C.from_homog(x, y, z), can, co, z
        if co == self.JACOB:
            return "ok", C.from_jacob(x, y, z), can, co, z
        return "coord-tag=%d" % co, None, can, co, z

    def pdesc(self, P):
        return None if P is None else [hx(P[0]), hx(P[1])]

    def verdict_point(self, cv, out, exp, affine=False):
        """compare a result object with the model point; record value / representation / canonical form"""
        ctx = self.ctx
        st, got, can, co, z = self.rd(cv, out)
        key = ctx.cur_key
        if st != "ok":
            ctx.fail(key + "|bad-representation", {"what": st})
            return False
        ok = ctx.check(cv.C.eq(got, exp), key + "|value", {"got": self.pdesc(got), "exp": self.pdesc(exp), "coord": co})
        ctx.check(can, key + "|non-canonical", {"coord": co})
        if affine:
            ctx.check(z == 0 or (co == self.BASIC and z == 1), key + "|normal-form", {"coord": co, "z": hx(z)})
        return ok

    # slope-returning affine routines (ep_add_slp_basic / ep_dbl_slp_basic)
    def slope_arm(self):
        """fill the slope output with a per-case random raw pattern; returns it (an untouched output is recognised)"""
        R = self.R
        if self.s is None:
            self.s = R.fp_new()
        sent = self.crng.getrandbits(8 * R.FP_DIGS * R.DB) | 1
        R.fp_put_raw(self.s, sent)
        return sent

    def verdict_slope(self, cv, P, Q, sent):
        """P, Q finite with a finite sum: the returned slope is the model's chord slope (y2 - y1)/(x2 - x1), for
        P = Q the tangent slope (3 x^2 + a)/(2 y), as a canonical field element"""
        ctx, R, p = self.ctx, self.R, cv.p
        key = ctx.cur_key
        x1, y1 = P
        x2, y2 = Q
        if (x1 - x2) % p == 0:
            lam = (3 * x1 * x1 + cv.a) * pow(2 * y1 % p, -1, p) % p
            what = "tangent"
        else:
            lam = (y2 - y1) * pow((x2 - x1) % p, -1, p) % p
            what = "chord"
        if R.fp_raw(self.s) == sent:
            ctx.check(False, key + "|slope-not-written", {"exp": hx(lam), "slope": what})
            return
        got, can = R.fp_get(self.s)
        ctx.check(got == lam, key + "|slope", {"got": hx(got), "exp": hx(lam), "slope": what})
        ctx.check(can, key + "|slope-non-canonical", {"raw": hx(R.fp_raw(self.s))})

    def unchanged(self, ptr, before, n=1, what="|input-modified"):
        self.ctx.check(self.snap(ptr, n) == before, self.ctx.cur_key + what)

    def bn_unchanged(self, ptr, val):
        v = self.R.bn_get(ptr)
        self.ctx.check(v[0] == val and v[3], self.ctx.cur_key + "|scalar-modified", {"was": hx(val), "now": repr(v)})

    # ------------------------------------------------------------------ curve set-up
    def setup(self, name, ident, law=False):
        ctx, R = self.ctx, self.R
        cv = Cv(R, name, ident, self.rng)
        cv.build_pool()
        B, Pj, J = self.BASIC, self.PROJC, self.JACOB
        # encodings of the identity: ep_set_infty's, the valid projective ones, and whatever the library's own
        # additions / doublings return for P + (-P) (captured below)
        # each entry: (x, y, z, tag, name); name is part of the ep_cmp keys
        cv.infreps = {B: [(0, 0, 0, B, "set")], Pj: [(0, 0, 0, B, "set"), ("r", "r", 0, Pj, "proj")],
                      J: [(0, 0, 0, B, "set"), ("r", "r", 0, J, "proj")]}
        active = self.begin("setup|" + name, {"curve": name}, nontrivial=False)
        if active or ctx.only is not None:     # a replay of another key still needs the set-up
            try:
                if active:
                    ctx.check(cv.validate(), "setup|%s|generator" % name, {"why": "model: G on curve and [n]G = O"})
                for sysn, sysc in (("projc", Pj), ("jacob", J)):
                    fn = "ep_add_" + sysn
                    if not R.has(fn):
                        continue
                    d, P = cv.pool[9 + 3]
                    for pc in (B, sysc):
                        for qc in (B, sysc):
                            self.put(cv, self.a, P, pc)
                            self.put(cv, self.b, cv.C.neg(P), qc)
                            self.scrub(self.c)
                            r = R.call(fn, self.c, self.a, self.b)
                            x, y, z, co, can = R.ep_get(self.c)
                            nm_ = "lib0" if (x, y) == (0, 0) else "lib"
                            if not r.caught and z == 0 and co == sysc and (x, y, 0, co, nm_) not in cv.infreps[sysc]:
                                # the library's own encoding of P + (-P) in this system
                                cv.infreps[sysc].append((x, y, 0, co, nm_))
                if cv.endom and R.has("ep_psi"):
                    R.ep_put(self.a, cv.G[0], cv.G[1], 1, B)
                    r = R.call("ep_psi", self.c, self.a)
                    st, Q, can, co, z = self.rd(cv, self.c)
                    lam = cv.find_lambda(Q) if (st == "ok" and not r.caught) else None
                    if active:
                        ctx.check(lam is not None, "setup|%s|psi-eigenvalue" % name,
                                  {"why": "psi(G) is not [lam]G for a root lam of the characteristic polynomial mod n"})
            except MonitorViolation as e:
                if active:
                    ctx.fail("setup|%s|%s" % (name, e.kind), e.detail)
            finally:
                if active:
                    ctx.end()
        cv.ord2 = cv.torsion(2) if law else None
        cv.ord3 = cv.torsion(3) if law else None
        ctx.add("curves_instantiated", 1)
        return cv

    # =================================================================== group law
    def pick_point(self, cv, allow_inf=True):
        rng = self.rng
        c = rng.randrange(12)
        if c == 0 and allow_inf:
            return None
        if c == 1:
            return cv.G
        if c == 2 and cv.h > 1:
            return cv.rand_curve_point()
        if c == 3 and cv.ord2 is not None:
            return cv.ord2
        if c == 4 and cv.ord3 is not None:
            return cv.ord3
        if c == 5 and cv.h > 1:
            return cv.rand_curve_point()
        return cv.rand_sub()[1]

    def make_pair(self, cv, rel):
        """points (P, Q) in relation rel, or None when the curve has no such pair"""
        C, rng = cv.C, self.rng
        if rel == "OO":
            return None, None
        if rel == "OQ":
            return None, self.pick_point(cv, False)
        if rel == "PO":
            return self.pick_point(cv, False), None
        if rel == "eq2":
            return (cv.ord2, cv.ord2) if cv.ord2 is not None else None
        if rel == "ord3":       # 2P = -P
            if cv.ord3 is None:
                return None
            return (cv.ord3, cv.ord3) if rng.random() < 0.5 else (cv.ord3, C.neg(cv.ord3))
        if rel == "diff2":      # P - Q of order two
            if cv.ord2 is None:
                return None
            Q = self.pick_point(cv, False)
            if Q == cv.ord2:
                return None
            return C.add(Q, cv.ord2), Q
        if rel in ("samey", "sameyneg"):
            # two distinct points with the same y: the other roots of x^2 + x1 x + x1^2 + a (for a = 0: beta * x1)
            p = cv.p
            for _ in range(40):
                P = self.pick_point(cv, False)
                x1, y1 = P
                s_ = sqrt_mod((-3 * x1 * x1 - 4 * cv.a) % p, p)
                if s_ is None or s_ == 0 or y1 == 0:
                    continue
                if rng.random() < 0.5:
                    s_ = p - s_
                x2 = (-x1 + s_) * pow(2, -1, p) % p
                Q = (x2, y1)
                if x2 == x1 or not C.on_curve(Q):
                    continue
                return P, (Q if rel == "samey" else C.neg(Q))
            return None
        P = self.pick_point(cv, False)
        if rel == "eq":
            return P, P
        if rel == "opp":
            return P, C.neg(P)
        if rel == "dblrel":     # Q = 2P or -2P: intermediate values of the formulas coincide
            Q = C.dbl(P)
            return P, (Q if rng.random() < 0.5 else C.neg(Q))
        Q = self.pick_point(cv, False)
        return P, Q

    def relof(self, cv, P, Q):
        """relation class computed from the operands"""
        C = cv.C
        if P is None and Q is None:
            return "infOO"
        if P is None:
            return "infOQ"
        if Q is None:
            return "infPO"
        if C.eq(P, Q):
            if P[1] == 0:
                return "eq2"
            if cv.ord3 is not None and C.eq(C.dbl(P), C.neg(P)):
                return "ord3"
            return "eq"
        if C.eq(P, C.neg(Q)):
            if cv.ord3 is not None and C.eq(C.dbl(P), C.neg(P)):
                return "ord3"
            return "opp"
        if P[1] == Q[1]:
            return "samey"
        if (P[1] + Q[1]) % cv.p == 0:
            return "sameyneg"
        if cv.ord2 is not None:
            D = C.sub(P, Q)
            if D is not None and D[1] == 0:
                return "diff2"
        return "gen"

    RELS = ["gen", "gen", "eq", "opp", "OO", "OQ", "PO", "dblrel", "eq2", "ord3", "diff2"]

    def law_add(self, cv, fn, native, rel, pc, qc, alias):
        """one case of a binary group operation (add variants and ep_sub)"""
        ctx, R, C = self.ctx, self.R, cv.C
        pq = self.make_pair(cv, rel)
        if pq is None:
            return
        P, Q = pq
        sub = fn == "ep_sub"
        slp = fn == "ep_add_slp_basic"
        if sub:
            # the relation class of ep_sub(P, Q) is that of the operands of the addition it performs, (P, -Q)
            Q = C.neg(Q)
        if alias >= 3:
            # p and q are the same object
            if not C.eq(P, Q):
                Q = P
            qc = pc
        r = self.relof(cv, P, C.neg(Q) if sub else Q)
        pn = "B" if pc == self.BASIC else "N"
        qn = "B" if qc == self.BASIC else "N"
        if r.startswith("inf"):
            key = "%s|%s|%s|alias%d" % (fn, cv.atag, r, alias)
        else:
            key = "%s|%s|%s|%s%s|alias%d" % (fn, cv.atag, r, pn, qn, alias)
        desc = {"curve": cv.name, "P": self.pdesc(P), "Q": self.pdesc(Q)}
        if not self.begin(key, desc, nontrivial=(P is not None and Q is not None)):
            return
        rng = self.crng
        try:
            a, b, c = self.a, self.b, self.c
            desc["Prep"] = self.put(cv, a, P, pc)
            pa = a
            if alias >= 3:
                pb = a
            else:
                pb = b
                desc["Qrep"] = self.put(cv, b, Q, qc)
            out = {0: c, 1: pa, 2: pb, 3: c, 4: pa}[alias]
            if out == c:
                self.scrub(c)
            sa = self.snap(a)
            sb = self.snap(b)
            if slp:
                sent = self.slope_arm()
                res = R.call(fn, out, self.s, pa, pb)
            else:
                res = R.call(fn, out, pa, pb)
            exp = C.sub(P, Q) if sub else C.add(P, Q)
            if res.caught:
                ctx.check(False, key + "|unexpected-error", {"err": res.err})
                return
            self.verdict_point(cv, out, exp)
            if slp and P is not None and Q is not None and exp is not None:
                # identity operand / P = -Q: only the point is judged, the slope is unspecified
                self.verdict_slope(cv, P, Q, sent)
            if out != a:
                self.unchanged(a, sa)
            if out != b and pb == b:
                self.unchanged(b, sb)
        except MonitorViolation as e:
            ctx.fail(key + "|" + e.kind, e.detail)
        finally:
            ctx.end()

    def law_unary(self, cv, fn, pc, alias, P):
        """ep_dbl_*, ep_neg, ep_norm, ep_psi"""
        ctx, R, C = self.ctx, self.R, cv.C
        if P is None:
            pcl = "inf"
        elif P[1] == 0:
            pcl = "ord2"
        elif cv.ord3 is not None and C.eq(C.dbl(P), C.neg(P)):
            pcl = "ord3"
        else:
            pcl = "fin"
        key = "%s|%s|%s|%s|alias%d" % (fn, cv.atag, pcl, self.tagname[pc], alias)
        desc = {"curve": cv.name, "P": self.pdesc(P)}
        if not self.begin(key, desc, nontrivial=P is not None):
            return
        rng = self.crng
        try:
            a, c = self.a, self.c
            desc["Prep"] = self.put(cv, a, P, pc)
            out = a if alias else c
            if not alias:
                self.scrub(c)
            sa = self.snap(a)
            slp = fn == "ep_dbl_slp_basic"
            if slp:
                sent = self.slope_arm()
                res = R.call(fn, out, self.s, a)
            else:
                res = R.call(fn, out, a)
            if res.caught:
                ctx.check(False, key + "|unexpected-error", {"err": res.err})
                return
            if fn.startswith("ep_dbl"):
                exp = C.dbl(P)
            elif fn == "ep_neg":
                exp = C.neg(P)
            elif fn == "ep_norm":
                exp = P
            else:  # ep_psi: multiplication by the eigenvalue on the subgroup (model)
                exp = C.mul(cv.lam, P)
            self.verdict_point(cv, out, exp, affine=(fn == "ep_norm"))
            if slp and P is not None and exp is not None:
                # identity / point of order two: only the point is judged, the slope is unspecified
                self.verdict_slope(cv, P, P, sent)
            if not alias:
                self.unchanged(a, sa)
        except MonitorViolation as e:
            ctx.fail(key + "|" + e.kind, e.detail)
        finally:
            ctx.end()

    def law_cmp(self, cv, pc, qc, rel):
        ctx, R, C = self.ctx, self.R, cv.C
        pq = self.make_pair(cv, rel)
        if pq is None:
            return
        P, Q = pq
        same = self.rng.random() < 0.1 and C.eq(P, Q) and pc == qc
        r = self.relof(cv, P, Q)
        ip = self.rng.randrange(len(cv.infreps[pc]))
        iq = self.rng.randrange(len(cv.infreps[qc]))
        pn = self.tagname[pc] + ("." + cv.infreps[pc][ip][4] if P is None else "")
        qn = self.tagname[qc] + ("." + cv.infreps[qc][iq][4] if Q is None else "")
        key = "ep_cmp|%s|%s,%s%s" % (r, pn, qn, "|same-object" if same else "")
        desc = {"curve": cv.name, "P": self.pdesc(P), "Q": self.pdesc(Q)}
        if not self.begin(key, desc, nontrivial=(P is not None or Q is not None)):
            return
        rng = self.crng
        try:
            desc["Prep"] = self.put(cv, self.a, P, pc, inf=ip)
            pb = self.a
            if not same:
                desc["Qrep"] = self.put(cv, self.b, Q, qc, inf=iq)
                pb = self.b
            sa, sb = self.snap(self.a), self.snap(self.b)
            res = R.call("ep_cmp", self.a, pb)
            exp = self.EQ if C.eq(P, Q) else self.NE
            if res.caught:
                ctx.check(False, key + "|unexpected-error", {"err": res.err})
                return
            ctx.check(res.i == exp, key + "|value", {"got": res.i, "exp": exp})
            self.unchanged(self.a, sa)
            self.unchanged(self.b, sb)
        except MonitorViolation as e:
            ctx.fail(key + "|" + e.kind, e.detail)
        finally:
            ctx.end()

    def law_on_curve(self, cv, pc, mode):
        ctx, R, rng = self.ctx, self.R, self.rng
        p = cv.p
        P = self.pick_point(cv, allow_inf=(mode == "valid"))
        if mode == "valid":
            pts, exp = P, 1
        else:
            x, y = P
            while True:
                if mode == "bad-y":
                    pts = (x, (y + rng.randrange(1, p)) % p)
                elif mode == "bad-x":
                    pts = ((x + rng.randrange(1, p)) % p, y)
                else:    # a point of the curve with another b (invalid-curve style)
                    x2 = rng.randrange(p)
                    pts = (x2, rng.randrange(p))
                if not cv.C.on_curve(pts):
                    break
            exp = 0
        key = "ep_on_curve|%s|%s|%s" % (mode if P is not None else "inf", self.tagname[pc], cv.atag)
        desc = {"curve": cv.name, "P": self.pdesc(pts)}
        if not self.begin(key, desc):
            return
        rng = self.crng
        try:
            desc["Prep"] = self.put(cv, self.a, pts, pc)
            sa = self.snap(self.a)
            res = R.call("ep_on_curve", self.a)
            if res.caught:
                ctx.check(False, key + "|unexpected-error", {"err": res.err})
                return
            ctx.check(res.i == exp, key + ("|accepted" if exp == 0 else "|rejected"), {"got": res.i})
            self.unchanged(self.a, sa)
        except MonitorViolation as e:
            ctx.fail(key + "|" + e.kind, e.detail)
        finally:
            ctx.end()

    def law_norm_sim(self, cv, n, inplace, withinf, mode):
        ctx, R, rng = self.ctx, self.R, self.rng
        systems = [self.BASIC, self.PROJC, self.JACOB]
        if mode == "B":
            coords = [self.BASIC] * n
        elif mode == "P":
            coords = [self.PROJC] * n
        elif mode == "J":
            coords = [self.JACOB] * n
        else:
            coords = [rng.choice(systems) for _ in range(n)]
        pts = [self.pick_point(cv, False) for _ in range(n)]
        if withinf:
            for j in rng.sample(range(n), rng.randrange(1, n + 1) if n > 1 else 1):
                pts[j] = None
        key = "ep_norm_sim|%s|%s|%s|%s" % ("n1" if n == 1 else "n", mode, "inplace" if inplace else "separate",
                                           "hasinf" if any(x is None for x in pts) else "fin")
        desc = {"curve": cv.name, "n": n, "P": [self.pdesc(x) for x in pts][:6]}
        if not self.begin(key, desc):
            return
        rng = self.crng
        t = R.mem(self.SZ * n, rng.randrange(1, 256))
        r = t if inplace else R.mem(self.SZ * n, rng.randrange(1, 256))
        try:
            desc["rep"] = [self.put(cv, t + i * self.SZ, pts[i], coords[i]) for i in range(n)][:6]
            st = self.snap(t, n)
            res = R.call("ep_norm_sim", r, t, n)
            if res.caught:
                ctx.check(False, key + "|unexpected-error", {"err": res.err})
                return
            for i in range(n):
                s, got, can, co, z = self.rd(cv, r + i * self.SZ)
                ok = s == "ok" and cv.C.eq(got, pts[i])
                ctx.check(ok, key + "|value", {"i": i, "got": self.pdesc(got) if s == "ok" else s,
                                               "exp": self.pdesc(pts[i]), "in_coord": coords[i]})
                if ok:
                    ctx.check(can and (z == 0 or (co == self.BASIC and z == 1)), key + "|normal-form",
                              {"i": i, "coord": co, "z": hx(z)})
            if not inplace:
                self.unchanged(t, st, n)
        except MonitorViolation as e:
            ctx.fail(key + "|" + e.kind, e.detail)
        finally:
            ctx.end()
            R.free(t)
            if r != t:
                R.free(r)

    def norm_sim_n0(self, cv):
        """ep_norm_sim over zero points: nothing to do, nothing may be touched"""
        ctx, R = self.ctx, self.R
        key = "ep_norm_sim|n0"
        if not self.begin(key, {"curve": cv.name, "n": 0}, nontrivial=False):
            return
        t = R.mem(0)
        try:
            res = R.call("ep_norm_sim", t, t, 0)
            ctx.check(not res.caught, key + "|unexpected-error", {"err": res.err})
        except MonitorViolation as e:
            ctx.fail(key + "|" + e.kind, e.detail)
        finally:
            ctx.end()
            R.free(t)

    def edge_n0(self, name, first):
        """whether the n = 0 case of a routine runs here: everywhere once it is repaired; while it is a known fatal
        finding, only as the very first case of shard 0 of the base configuration"""
        if name in self.confined:
            return first and self.ctx.shard == 0 and self.ctx.cfg == "asan256"
        return self.ctx.shard == 0

    def part_law(self, cv, first=False):
        ctx, R, rng = self.ctx, self.R, self.rng
        B = self.BASIC
        idx = [0]
        if self.edge_n0("norm_sim_n0", first):
            self.norm_sim_n0(cv)

        def mine():
            idx[0] += 1
            return ctx.mine(idx[0])
        binfns = []
        for sysn in ("basic", "projc", "jacob"):
            if self.has("ep_add_" + sysn):
                binfns.append(("ep_add_" + sysn, self.sysof[sysn]))
        binfns.append(("ep_add", self.native))
        binfns.append(("ep_sub", self.native))
        unfns = []
        for sysn in ("basic", "projc", "jacob"):
            if self.has("ep_dbl_" + sysn):
                unfns.append(("ep_dbl_" + sysn, self.sysof[sysn]))
        unfns.append(("ep_dbl", self.native))
        anysys = [self.BASIC, self.PROJC, self.JACOB]
        rels = ["gen", "eq", "opp", "OO", "OQ", "PO", "dblrel", "eq2", "ord3", "diff2", "samey", "sameyneg"]

        def coordsets(native):
            return [B] if native == B else [B, native]
        # ---- directed: every class once
        for fn, native in binfns:
            for rel in rels:
                for pc in coordsets(native):
                    for qc in coordsets(native):
                        for alias in (0, 1, 2, 3, 4):
                            if alias >= 3 and (rel not in ("eq", "OO", "eq2", "ord3") or pc != qc):
                                continue
                            if mine():
                                self.law_add(cv, fn, native, rel, pc, qc, alias)
        specials = [None, cv.G, cv.ord2, cv.ord3, "rand", "rand"]
        for fn, native in unfns:
            for pc in coordsets(native):
                for alias in (0, 1):
                    for sp in specials:
                        if mine():
                            P = self.pick_point(cv, False) if sp == "rand" else sp
                            if sp is None or P is not None:
                                self.law_unary(cv, fn, pc, alias, P)
        un2 = ["ep_neg", "ep_norm"] + (["ep_psi"] if (cv.endom and cv.lam is not None and self.has("ep_psi")) else [])
        for fn in un2:
            for pc in anysys:
                for alias in (0, 1):
                    for sp in specials:
                        if mine():
                            if fn == "ep_psi":
                                P = cv.rand_sub()[1] if sp is not None else None
                            else:
                                P = self.pick_point(cv, False) if sp == "rand" else sp
                            if sp is None or P is not None:
                                self.law_unary(cv, fn, pc, alias, P)
        for rel in rels:
            for pc in anysys:
                for qc in anysys:
                    if mine():
                        self.law_cmp(cv, pc, qc, rel)
        for pc in anysys:
            for mode in ("valid", "valid", "bad-y", "bad-x", "random"):
                if mine():
                    self.law_on_curve(cv, pc, mode)
        for n in (1, 2, 3, 8, 40):
            for inplace in (True, False):
                for withinf in (False, True):
                    for mode in ("B", "P", "J", "mix"):
                        if mine():
                            self.law_norm_sim(cv, n, inplace, withinf, mode)
        # ---- random sampling
        N = ctx.n(16000, 300000)
        relw = ["gen"] * 6 + ["eq", "eq", "opp", "opp", "OO", "OQ", "PO", "dblrel", "eq2", "ord3", "diff2", "diff2",
                              "samey", "samey", "sameyneg", "sameyneg"]
        for it in range(N):
            c = rng.randrange(20)
            if c < 10:
                fn, native = rng.choice(binfns)
                cs = coordsets(native)
                alias = rng.choice([0, 0, 1, 1, 2, 2, 3, 4])
                self.law_add(cv, fn, native, rng.choice(relw) if alias < 3 else rng.choice(["eq", "OO", "eq2", "ord3"]),
                             rng.choice(cs), rng.choice(cs), alias)
            elif c < 13:
                fn, native = rng.choice(unfns)
                self.law_unary(cv, fn, rng.choice(coordsets(native)), rng.randrange(2), self.pick_point(cv))
            elif c < 15:
                fn = rng.choice(un2)
                P = (cv.rand_sub()[1] if rng.random() < 0.95 else None) if fn == "ep_psi" else self.pick_point(cv)
                self.law_unary(cv, fn, rng.choice(anysys), rng.randrange(2), P)
            elif c < 17:
                self.law_cmp(cv, rng.choice(anysys), rng.choice(anysys), rng.choice(relw))
            elif c < 19:
                self.law_on_curve(cv, rng.choice(anysys), rng.choice(["valid", "bad-y", "bad-x", "random"]))
            else:
                self.law_norm_sim(cv, rng.choice([1, 2, 3, 5, 9, 17]), rng.random() < 0.5, rng.random() < 0.3,
                                  rng.choice(["B", "P", "J", "mix"]))
        # ---- affine addition / doubling that also return the slope (a block of its own after the others, so the
        # cases above are the same with and without it): every relation x alias pattern once, then sampled
        has_as, has_ds = self.has("ep_add_slp_basic"), self.has("ep_dbl_slp_basic")
        if has_as:
            for rel in rels:
                for alias in (0, 1, 2, 3, 4):
                    if alias >= 3 and rel not in ("eq", "OO", "eq2", "ord3"):
                        continue
                    if mine():
                        self.law_add(cv, "ep_add_slp_basic", B, rel, B, B, alias)
        if has_ds:
            for alias in (0, 1):
                for sp in specials:
                    if mine():
                        P = self.pick_point(cv, False) if sp == "rand" else sp
                        if sp is None or P is not None:
                            self.law_unary(cv, "ep_dbl_slp_basic", B, alias, P)
        for it in range(ctx.n(1000, 20000)):
            if has_as and (rng.randrange(10) < 7 or not has_ds):
                alias = rng.choice([0, 0, 1, 1, 2, 2, 3, 4])
                self.law_add(cv, "ep_add_slp_basic", B,
                             rng.choice(relw) if alias < 3 else rng.choice(["eq", "OO", "eq2", "ord3"]), B, B, alias)
            elif has_ds:
                self.law_unary(cv, "ep_dbl_slp_basic", B, rng.randrange(2), self.pick_point(cv))

    # =================================================================== scalars
    def directed_scalars(self, cv):
        n, rng = cv.n, self.rng
        nb = cv.nbits
        BB = self.R.BN_BITS
        s = [0, 1, -1, 2, 3, -2, n - 1, n, n + 1, n - 2, 2 * n, 2 * n + 1, 2 * n - 1, 3 * n - 1, -n, -(n + 1), -(n - 1),
             -2 * n, n * n, n * n + 1, n * n - 1, (n - 1) // 2, (n + 1) // 2]
        for j in (rng.randrange(3, 1 << 40), rng.randrange(1 << 200, 1 << 700)):
            s += [j * n + 1, j * n - 1, j * n]
        for j in (1, 2, 3, 4, 5, 63, 64, 65, 127, 128, nb - 2, nb - 1, nb, nb + 1, cv.regcap - 1, cv.regcap, cv.regcap + 1,
                  cv.bufcap - 1, cv.bufcap, cv.bufcap + 1, 2 * nb, BB - 1):
            s += [1 << j, (1 << j) - 1]
        for bits in (nb - 1, cv.bufcap, BB):
            alt = int("10" * (bits // 2), 2)
            s += [alt, alt >> 1, -alt]
        s += [(1 << BB) - 1, -((1 << BB) - 1), rng.getrandbits(BB), -rng.getrandbits(BB - 1)]
        s += [rng.getrandbits(cv.regcap), rng.getrandbits(cv.bufcap)]
        if cv.endom and cv.lam is not None:
            lam = cv.lam
            s += [lam, lam + 1, lam - 1, n - lam, -lam, 2 * lam % n, (lam * lam) % n, lam + n]
            h = 1 << (nb // 2)
            for a_ in (h, h - 1, h + 1, -h, 1, 0):
                for b_ in (h, h - 1, -h, 1, -1):
                    s.append((a_ + b_ * lam) % n)
            for j in range(1, 6):
                s.append(j * lam % n)
                s.append(-j * lam % n)
            for v in cv.glv:
                v = abs(v)
                s += [v % n, (n - v) % n, (v * lam) % n, (v + 1) % n, (v * lam + v) % n]
        out, seen = [], set()
        for k in s:
            if abs(k).bit_length() <= BB and k not in seen:
                seen.add(k)
                out.append(k)
        return out

    def random_scalar(self, cv):
        rng, n = self.rng, cv.n
        c = rng.randrange(20)
        if c < 9:
            return rng.randrange(n)
        if c == 9:
            return rng.randrange(1 << 64)
        if c == 10:
            return -rng.randrange(n)
        if c == 11:
            return rng.getrandbits(rng.randrange(1, cv.nbits + 1))
        if c == 12:
            return n + rng.randrange(-5, 6)
        if c == 13:
            return rng.randrange(1, 1 << rng.randrange(1, 200)) * n + rng.randrange(-3, 4)
        if c == 14:
            return rng.getrandbits(rng.randrange(cv.nbits, self.R.BN_BITS + 1)) * rng.choice([1, 1, -1])
        if c == 15:
            v = 0
            for _ in range(rng.randrange(1, 6)):
                v ^= 1 << rng.randrange(cv.nbits)
            return v
        if c == 16:
            return (1 << rng.randrange(1, cv.nbits + 1)) - 1 - (1 << rng.randrange(0, cv.nbits) if rng.random() < 0.5 else 0)
        if c == 17 and cv.endom and cv.lam is not None:
            h = 1 << (cv.nbits // 2)
            return (rng.randrange(-h, h) + rng.randrange(-4, 5) * cv.lam) % n if rng.random() < 0.5 else \
                (rng.randrange(-4, 5) + rng.randrange(-h, h) * cv.lam) % n
        if c == 18:
            return rng.getrandbits(cv.regcap + rng.randrange(-3, 4))
        return rng.randrange(n)

    def read_glv(self, cv):
        """lattice basis entries the library holds for the active endomorphism curve (for boundary scalars only)"""
        R = self.R
        cv.glv = []
        if not cv.endom:
            return
        for f in ("ep_curve_get_v1", "ep_curve_get_v2"):
            try:
                fn = getattr(R.L, f)
            except AttributeError:
                return
            fn.restype = ctypes.c_void_p
            base = fn()
            for i in range(3):
                v = R.bn_get(base + i * R.bn_sz)[0]
                if v is not None:
                    cv.glv.append(v)

    # =================================================================== single multiplications
    def mul_verdict(self, cv, fn, key, res, out, exp, inrange, ins, scal):
        ctx = self.ctx
        if res.caught:
            ctx.check(not inrange, key + "|unexpected-error", {"err": res.err})
            if not inrange:
                d = self.info.setdefault("errors_on_out_of_range_scalars", {})
                d[fn] = d.get(fn, 0) + 1
            return
        self.verdict_point(cv, out, exp, affine=True)
        for ptr, before in ins:
            if ptr != out:
                self.unchanged(ptr, before)
        for ptr, val in scal:
            self.bn_unchanged(ptr, val)

    def confined_skip(self, name):
        if name in self.confined:
            self.skipped_confined += 1
            return True
        return False

    def mul_group(self, cv, d, P, k, fns, tabs, force=False):
        """all single-point routines on (P = [d]G, k); one model multiplication serves them all"""
        ctx, R, rng = self.ctx, self.R, self.rng
        n = cv.n
        kc = cv.kcls(k)
        inr = cv.in_range(k)
        memo = []

        def expected():
            if not memo:
                memo.append(cv.mulG(d * (k % n)) if P is not None else None)
            return memo[0]
        pcl = "Pinf" if P is None else "P"
        for fn in fns:
            if fn == "ep_mul_lwreg" and cv.kind == "plain" and kc.endswith("long") and not force \
                    and self.confined_skip("lwreg_long"):
                continue
            if fn == "ep_mul_gen":
                if d != 1 or P is None:
                    continue
                key = "ep_mul_gen|%s|%s" % (cv.kind, kc)
            elif fn == "ep_mul_dig":
                if not (0 <= k < R.B):
                    continue
                key = "ep_mul_dig|%s|%s|%s" % (cv.kind, kc, pcl)
            else:
                key = "%s|%s|%s|%s" % (fn, cv.kind, kc, pcl)
            pc = rng.choice([self.BASIC, self.native])
            alias = rng.random() < 0.25 and fn != "ep_mul_gen"
            desc = {"curve": cv.name, "d": hx(d), "k": hx(k), "alias": int(alias)}
            if not self.begin(key, desc, nontrivial=(P is not None and k % n != 0)):
                continue
            crng = self.crng
            try:
                desc["Prep"] = self.put(cv, self.a, P, pc)
                out = self.a if alias else self.c
                if not alias:
                    self.scrub(self.c)
                sa = self.snap(self.a)
                R.poison = crng.randrange(1, 256)
                if fn == "ep_mul_gen":
                    R.bn_put(self.k, k)
                    res = R.call(fn, out, self.k)
                    self.mul_verdict(cv, fn, key, res, out, expected(), inr, [], [(self.k, k)])
                elif fn == "ep_mul_dig":
                    res = R.call(fn, out, self.a, k)
                    self.mul_verdict(cv, fn, key, res, out, expected(), True, [(self.a, sa)], [])
                else:
                    R.bn_put(self.k, k)
                    res = R.call(fn, out, self.a, self.k)
                    self.mul_verdict(cv, fn, key, res, out, expected(), inr, [(self.a, sa)], [(self.k, k)])
            except MonitorViolation as e:
                ctx.fail(key + "|" + e.kind, e.detail)
            finally:
                ctx.end()
        for fn, tab, size in tabs:
            if fn == "ep_mul_fix_lwnaf" and kc.startswith("r0") and not force and self.confined_skip("fix_lwnaf_r0"):
                continue
            key = "%s|%s|%s|%s" % (fn, cv.kind, kc, pcl)
            desc = {"curve": cv.name, "d": hx(d), "k": hx(k)}
            if not self.begin(key, desc, nontrivial=(P is not None and k % n != 0)):
                continue
            crng = self.crng
            try:
                self.scrub(self.c)
                st = self.snap(tab, size)
                R.poison = crng.randrange(1, 256)
                R.bn_put(self.k, k)
                res = R.call(fn, self.c, tab, self.k)
                self.mul_verdict(cv, fn, key, res, self.c, expected(), inr, [], [(self.k, k)])
                ctx.check(self.snap(tab, size) == st, key + "|table-modified")
            except MonitorViolation as e:
                ctx.fail(key + "|" + e.kind, e.detail)
            finally:
                ctx.end()

    FIX = [("basic", "RLC_EP_TABLE_BASIC"), ("yaowi", "RLC_EP_TABLE_YAOWI"), ("nafwi", "RLC_EP_TABLE_NAFWI"),
           ("combs", "RLC_EP_TABLE_COMBS"), ("combd", "RLC_EP_TABLE_COMBD"), ("lwnaf", "RLC_EP_TABLE_LWNAF"),
           ("", "RLC_EP_TABLE")]

    def make_tables(self, cv, d, P):
        """precomputation tables for P, each in one exact-size block; -> [(fix function, table, entries)]"""
        ctx, R, rng = self.ctx, self.R, self.rng
        tabs = []
        pcl = "inf" if P is None else ("G" if d == 1 else "fin")
        for suf, cname in self.FIX:
            pre = "ep_mul_pre_" + suf if suf else "ep_mul_pre"
            fix = "ep_mul_fix_" + suf if suf else "ep_mul_fix"
            if not (self.has(pre) and self.has(fix)):
                continue
            size = self.K.get(cname)
            if not size:
                self.not_built.add(pre + ":" + cname)
                continue
            pc = rng.choice([self.BASIC, self.native])
            key = "%s|%s|%s|%s" % (pre, cv.kind, pcl, "B" if pc == self.BASIC else "N")
            desc = {"curve": cv.name, "d": hx(d), "entries": size}
            if not self.begin(key, desc, nontrivial=P is not None):
                if ctx.only is not None:
                    # replay of another key: the table is still needed, build it outside any case
                    tab = R.mem(self.SZ * size, 0x5A)
                    self.put(cv, self.a, P, pc)
                    if not R.call(pre, tab, self.a).caught:
                        tabs.append((fix, tab, size))
                continue
            crng = self.crng
            tab = R.mem(self.SZ * size, crng.randrange(1, 256))
            good = False
            try:
                desc["Prep"] = self.put(cv, self.a, P, pc)
                sa = self.snap(self.a)
                res = R.call(pre, tab, self.a)
                if res.caught:
                    ctx.check(False, key + "|unexpected-error", {"err": res.err})
                else:
                    ctx.ok()
                    good = True
                    self.unchanged(self.a, sa)
            except MonitorViolation as e:
                ctx.fail(key + "|" + e.kind, e.detail)
            finally:
                ctx.end()
            if good:
                tabs.append((fix, tab, size))
            else:
                R.free(tab)
        return tabs

    def free_tables(self, tabs):
        for fn, tab, size in tabs:
            self.R.free(tab)

    def sacrificial(self, cv):
        """the single directed case of every confined known fatal class (first thing in shard 0)"""
        n = cv.n
        d, P = cv.pool[11]
        if "lwreg_long" in self.confined and cv.kind == "plain":
            self.mul_group(cv, d, P, (1 << (cv.bufcap + 70)) + 12345, ["ep_mul_lwreg"], [], force=True)
        if "fix_lwnaf_r0" in self.confined and self.R.has("ep_mul_pre_lwnaf"):
            size = self.K["RLC_EP_TABLE_LWNAF"]
            tab = self.R.mem(self.SZ * size, 0x5A)
            self.put(cv, self.a, P, self.BASIC)
            if self.begin("ep_mul_pre_lwnaf|%s|fin|B" % cv.kind, {"curve": cv.name, "d": hx(d)}):
                try:
                    r = self.R.call("ep_mul_pre_lwnaf", tab, self.a)
                    self.ctx.check(not r.caught, None, {"err": r.err})
                finally:
                    self.ctx.end()
            self.mul_group(cv, d, P, n, [], [("ep_mul_fix_lwnaf", tab, size)], force=True)
            self.R.free(tab)

    def part_mul(self, cv, first):
        ctx, R, rng = self.ctx, self.R, self.rng
        self.read_glv(cv)
        if first and ctx.shard == 0:
            self.sacrificial(cv)
        fns = [f for f in ("ep_mul_basic", "ep_mul_slide", "ep_mul_monty", "ep_mul_lwnaf", "ep_mul_lwreg", "ep_mul",
                           "ep_mul_gen", "ep_mul_dig") if self.has(f)]
        for f in ("ep_mul_pre_yaowi", "ep_mul_pre_nafwi", "ep_mul_fix_yaowi", "ep_mul_fix_nafwi"):
            self.has(f)
        ds = self.directed_scalars(cv)
        self.info.setdefault("directed_scalars_per_curve", {})[cv.name] = str(len(ds))
        # base points: G, a small multiple, random ones, the identity
        bases = [cv.pool[0], cv.pool[rng.randrange(1, 8)], cv.pool[11], cv.pool[12], (0, None)]
        idx = 0
        for bi, (d, P) in enumerate(bases):
            tabs = self.make_tables(cv, d, P)
            # the directed scalars are split over the shards; G and one random base see all of them,
            # the other bases a sample
            for k in ds:
                idx += 1
                if not ctx.mine(idx):
                    continue
                if bi in (1, 3, 4) and rng.random() < 0.7:
                    continue
                if self.light > 1 and rng.random() < 0.88:
                    continue
                self.mul_group(cv, d, P, k, fns, tabs)
            N = self.n(60, 1500) if bi != 4 else self.n(6, 100)
            for it in range(N):
                self.mul_group(cv, d, P, self.random_scalar(cv), fns, tabs)
            self.free_tables(tabs)
        # fresh random points without tables (variable-base routines only), incl. in-place and native coordinates
        for it in range(self.n(80, 2500)):
            d, P = cv.rand_sub()
            self.mul_group(cv, d, P, self.random_scalar(cv), fns, [])
        # digits
        for it in range(self.n(40, 1500)):
            d, P = cv.rand_sub() if rng.random() < 0.9 else (0, None)
            k = rng.choice([0, 1, 2, 3, R.B - 1, R.B >> 1, (R.B >> 1) - 1, rng.randrange(R.B), rng.randrange(R.B),
                            rng.randrange(1 << 16)])
            self.mul_group(cv, d, P, k, ["ep_mul_dig"], [])
        self.cof(cv)

    def cof(self, cv):
        """ep_mul_cof: [h_eff]P for arbitrary curve points, result in the prime-order subgroup"""
        ctx, R, rng = self.ctx, self.R, self.rng
        if not self.has("ep_mul_cof"):
            return
        heff = cv.h
        # the routine dispatches on the pairing-friendly family: it is the curve class of the keys
        fam = "plain"
        for nm_, v_ in R.EH.get("relic_ep.h", {}).items():
            if nm_.startswith("EP_") and v_ == cv.P["pairf"] and cv.P["pairf"]:
                fam = nm_
                break
        if cv.P["pairf"] and cv.h > 1:
            # B12/B24/B48 families: multiplication by 1 - z (source comment, RFC 9380 h_eff); other families unknown here
            z = R.bn_new()
            R.call("fp_prime_get_par", z)
            zv = R.bn_val(z)
            R.bn_free(z)
            x_ = 1 - zv
            if (zv - 1) ** 2 == 3 * cv.h:
                heff = x_
            else:
                ctx.note("ep_mul_cof_skipped", cv.name)
                return
        for it in range(self.n(6, 100)):
            P = cv.rand_curve_point() if rng.random() < 0.8 else rng.choice([None, cv.G])
            alias = it % 2
            pc = rng.choice([self.BASIC, self.native])
            key = "ep_mul_cof|%s|%s|alias%d" % (fam, "inf" if P is None else "fin", alias)
            desc = {"curve": cv.name, "P": self.pdesc(P)}
            if not self.begin(key, desc, nontrivial=P is not None):
                continue
            crng = self.crng
            try:
                desc["Prep"] = self.put(cv, self.a, P, pc)
                out = self.a if alias else self.c
                if not alias:
                    self.scrub(self.c)
                sa = self.snap(self.a)
                res = R.call("ep_mul_cof", out, self.a)
                if res.caught:
                    ctx.check(False, key + "|unexpected-error", {"err": res.err})
                    continue
                exp = cv.C.mul(heff, P)
                if self.verdict_point(cv, out, exp) and cv.h > 1:
                    ctx.check(cv.C.mul(cv.n, exp) is None, key + "|not-in-subgroup")
                if not alias:
                    self.unchanged(self.a, sa)
            except MonitorViolation as e:
                ctx.fail(key + "|" + e.kind, e.detail)
            finally:
                ctx.end()

    # =================================================================== simultaneous multiplications
    def sim_group(self, cv, dP, P, k, dQ, Q, m, fns, force=False):
        ctx, R, rng = self.ctx, self.R, self.rng
        n, C = cv.n, cv.C
        rel = self.simrel(cv, dP, P, dQ, Q)
        pc = cv.paircls((k, m))
        inr = cv.in_range(k) and cv.in_range(m)
        memo = {}

        def expected(gen):
            if gen not in memo:
                e = (dQ * (m % n)) % n if Q is not None else 0
                if gen:
                    e = (e + k) % n
                elif P is not None:
                    e = (e + dP * (k % n)) % n
                memo[gen] = cv.mulG(e)
            return memo[gen]
        for fn in fns:
            gen = fn == "ep_mul_sim_gen"
            if fn == "ep_mul_sim_trick" and pc.startswith("r01") and rel != "inf" and not force \
                    and self.confined_skip("trick_r01"):
                continue
            if gen:
                grel = self.simrel(cv, 1, cv.G, dQ, Q)
                key = "%s|%s|%s|%s" % (fn, cv.kind, grel, pc)
            else:
                key = "%s|%s|%s|%s" % (fn, cv.kind, rel, pc)
            # result object: separate, the first point (not for sim_gen) or the second point
            al = rng.randrange(6)
            acl = "r=P" if (al == 0 and not gen) else ("r=Q" if al == 1 else "sep")
            key += "|" + acl
            desc = {"curve": cv.name, "dP": hx(dP), "k": hx(k), "dQ": hx(dQ), "m": hx(m), "alias": acl}
            if not self.begin(key, desc, nontrivial=(P is not None and Q is not None and k % n != 0 and m % n != 0)):
                continue
            crng = self.crng
            try:
                a, b, c = self.a, self.b, self.c
                desc["Prep"] = self.put(cv, a, P, crng.choice([self.BASIC, self.native]))
                desc["Qrep"] = self.put(cv, b, Q, crng.choice([self.BASIC, self.native]))
                out = a if acl == "r=P" else (b if acl == "r=Q" else c)
                if out == c:
                    self.scrub(c)
                sa, sb = self.snap(a), self.snap(b)
                R.poison = crng.randrange(1, 256)
                R.bn_put(self.k, k)
                R.bn_put(self.m, m)
                if gen:
                    res = R.call(fn, out, self.k, b, self.m)
                    ins = [(b, sb)]
                else:
                    res = R.call(fn, out, a, self.k, b, self.m)
                    ins = [(a, sa), (b, sb)]
                self.mul_verdict(cv, fn, key, res, out, expected(gen), inr, ins, [(self.k, k), (self.m, m)])
            except MonitorViolation as e:
                ctx.fail(key + "|" + e.kind, e.detail)
            finally:
                ctx.end()

    def simrel(self, cv, dP, P, dQ, Q):
        """relation of two subgroup points given by their discrete logarithms: inf, eq, opp, lin (iP + jQ = O for
        some 1 <= i, j <= 3 other than i = j = 1: a window table of the pair contains the identity), gen"""
        n = cv.n
        if P is None or Q is None:
            return "inf"
        if (dP - dQ) % n == 0:
            return "eq"
        if (dP + dQ) % n == 0:
            return "opp"
        for i in (1, 2, 3):
            for j in (1, 2, 3):
                if (i * dP + j * dQ) % n == 0:
                    return "lin"
        return "gen"

    def pick_pair(self, cv):
        rng, C, n = self.rng, cv.C, cv.n
        dP, P = cv.rand_sub()
        c = rng.randrange(12)
        if c == 0:
            return dP, P, dP, P
        if c == 1:
            return dP, P, (n - dP) % n, C.neg(P)
        if c == 2:
            return 0, None, dP, P
        if c == 3:
            return dP, P, 0, None
        if c == 4:
            return 1, cv.G, dP, P
        if c == 5:
            return 1, cv.G, 1, cv.G
        if c == 6:
            return 1, cv.G, n - 1, C.neg(cv.G)
        if c == 7:
            d1, d2 = rng.choice([(1, n - 3), (2, n - 1), (3, n - 2), (n - 2, 3), (n - 1, 2), (1, n - 2), (n - 3, 2)])
            return d1, cv.small[d1], d2, cv.small[d2]
        dQ, Q = cv.rand_sub()
        return dP, P, dQ, Q

    @staticmethod
    def alias_index(cnt, alias):
        """index of the input element the result aliases, or None: alias in (None, 'first', 'mid', 'last')"""
        if alias is None or cnt == 0:
            return None, "sep"
        j = {"first": 0, "mid": cnt // 2, "last": cnt - 1}[alias]
        return j, ("r=p0" if j == 0 else ("r=plast" if j == cnt - 1 else "r=pmid"))

    def same_but(self, before, after, j):
        """array snapshots equal except element j (the aliased output)"""
        if j is None:
            return before == after
        a, b = j * self.SZ, (j + 1) * self.SZ
        return before[:a] == after[:a] and before[b:] == after[b:]

    def sim_lot(self, cv, cnt, mode, alias=None):
        """ep_mul_sim_lot with cnt points; contiguous arrays of ep_st / bn_st in exact-size blocks; the result is a
        separate object or one of the input points (r is p[j])"""
        ctx, R, rng = self.ctx, self.R, self.rng
        n = cv.n
        ds = self.dscal
        pts, ks = [], []
        for i in range(cnt):
            if rng.random() < 0.08:
                pts.append((0, None))
            elif i and rng.random() < 0.1:
                dd, PP = pts[rng.randrange(i)]
                pts.append((dd, PP) if rng.random() < 0.5 else ((n - dd) % n, cv.C.neg(PP)))
            else:
                pts.append(cv.rand_sub())
            if mode == "in":
                ks.append(rng.choice([rng.randrange(n), rng.randrange(n), rng.randrange(1 << 64), 0, 1, 2, n - 1]))
            elif mode == "short":
                ks.append(rng.randrange(1 << rng.randrange(1, 40)))
            else:
                ks.append(rng.choice(ds) if rng.random() < 0.5 else self.random_scalar(cv))
        pc = cv.paircls(ks) if ks else "r|+in"
        ncl = "n0" if cnt == 0 else ("n1" if cnt == 1 else ("n<=10" if cnt <= 10 else "n>10"))
        aj, acl = self.alias_index(cnt, alias)
        key = "ep_mul_sim_lot|%s|%s|%s|%s" % (cv.kind, ncl, pc, acl)
        desc = {"curve": cv.name, "n": cnt, "d": [hx(d) for d, _ in pts][:8], "k": [hx(k) for k in ks][:8], "r_is_p": aj}
        if not self.begin(key, desc, nontrivial=cnt > 0):
            return
        rng = self.crng
        parr = R.mem(self.SZ * cnt, rng.randrange(1, 256))
        karr = R.mem(R.bn_sz * cnt, rng.randrange(1, 256))
        try:
            R.poison = rng.randrange(1, 256)
            for i in range(cnt):
                self.put(cv, parr + i * self.SZ, pts[i][1], rng.choice([self.BASIC, self.native]))
                if R.call("bn_make", karr + i * R.bn_sz, R.BN_SIZE).caught:
                    raise RuntimeError("bn_make failed")
                R.bn_put(karr + i * R.bn_sz, ks[i])
            sp = self.snap(parr, cnt)
            out = self.c if aj is None else parr + aj * self.SZ
            if aj is None:
                self.scrub(self.c)
            res = R.call("ep_mul_sim_lot", out, parr, karr, cnt)
            e = 0
            for (d, P), k in zip(pts, ks):
                if P is not None:
                    e = (e + d * (k % n)) % n
            inr = all(cv.in_range(k) for k in ks)
            self.mul_verdict(cv, "ep_mul_sim_lot", key, res, out, cv.mulG(e), inr, [], [])
            if not res.caught:
                ctx.check(self.same_but(sp, self.snap(parr, cnt), aj), key + "|input-modified")
                for i in range(cnt):
                    self.bn_unchanged(karr + i * R.bn_sz, ks[i])
        except MonitorViolation as e:
            ctx.fail(key + "|" + e.kind, e.detail)
        finally:
            ctx.end()
            R.free(parr)
            R.free(karr)

    def sim_dig(self, cv, cnt, alias=None):
        ctx, R, rng = self.ctx, self.R, self.rng
        n = cv.n
        pts, ks = [], []
        for i in range(cnt):
            if rng.random() < 0.08:
                pts.append((0, None))
            elif i and rng.random() < 0.15:
                dd, PP = pts[rng.randrange(i)]
                pts.append((dd, PP) if rng.random() < 0.5 else ((n - dd) % n, cv.C.neg(PP)))
            else:
                pts.append(cv.rand_sub())
            ks.append(rng.choice([0, 1, 2, 3, R.B - 1, R.B >> 1, rng.randrange(R.B), rng.randrange(R.B),
                                  rng.randrange(1 << 8)]))
        ncl = "n1" if cnt == 1 else "n"
        aj, acl = self.alias_index(cnt, alias)
        key = "ep_mul_sim_dig|%s|%s|%s|%s" % (cv.kind, ncl, "allzero" if not any(ks) else "k", acl)
        if cnt == 0:
            key = "ep_mul_sim_dig|n0"
        desc = {"curve": cv.name, "n": cnt, "d": [hx(d) for d, _ in pts][:8], "k": [hx(k) for k in ks][:8]}
        if not self.begin(key, desc):
            return
        rng = self.crng
        parr = R.mem(self.SZ * cnt, rng.randrange(1, 256))
        karr = R.put(b"".join(k.to_bytes(R.DB, "little") for k in ks))
        try:
            for i in range(cnt):
                self.put(cv, parr + i * self.SZ, pts[i][1], rng.choice([self.BASIC, self.native]))
            sp = self.snap(parr, cnt)
            out = self.c if aj is None else parr + aj * self.SZ
            if aj is None:
                self.scrub(self.c)
            res = R.call("ep_mul_sim_dig", out, parr, karr, cnt)
            e = 0
            for (d, P), k in zip(pts, ks):
                if P is not None:
                    e = (e + d * k) % n
            self.mul_verdict(cv, "ep_mul_sim_dig", key, res, out, cv.mulG(e), True, [], [])
            if not res.caught:
                ctx.check(self.same_but(sp, self.snap(parr, cnt), aj), key + "|input-modified")
                ctx.check(R.get(karr, R.DB * cnt) == b"".join(k.to_bytes(R.DB, "little") for k in ks),
                          key + "|scalar-modified")
        except MonitorViolation as e:
            ctx.fail(key + "|" + e.kind, e.detail)
        finally:
            ctx.end()
            R.free(parr)
            R.free(karr)

    def part_sim(self, cv, first):
        ctx, R, rng = self.ctx, self.R, self.rng
        n = cv.n
        self.read_glv(cv)
        fns = [f for f in ("ep_mul_sim_basic", "ep_mul_sim_trick", "ep_mul_sim_inter", "ep_mul_sim_joint", "ep_mul_sim",
                           "ep_mul_sim_gen") if self.has(f)]
        two = [f for f in fns if f != "ep_mul_sim_gen"]
        ds = self.directed_scalars(cv)
        self.dscal = ds
        if self.has("ep_mul_sim_dig") and self.edge_n0("sim_dig_n0", first):
            self.sim_dig(cv, 0)
        if first and ctx.shard == 0 and "trick_r01" in self.confined and "ep_mul_sim_trick" in fns:
            dP, P = cv.pool[11]
            dQ, Q = cv.pool[12]
            self.sim_group(cv, dP, P, 1, dQ, Q, rng.randrange(2, n), ["ep_mul_sim_trick"], force=True)
        # directed: a core of hostile scalars against each other, the rest against random partners
        core = [0, 1, -1, 2, 3, n - 1, n, n + 1, 2 * n, 2 * n + 3, -n, -(n + 5), n * n, 1 << (cv.nbits - 1),
                (1 << cv.nbits) - 1, 1 << cv.nbits, rng.getrandbits(R.BN_BITS), (1 << R.BN_BITS) - 1,
                rng.randrange(n), rng.getrandbits(64)]
        idx = 0
        for k in core:
            for m in core:
                idx += 1
                if ctx.mine(idx) and (self.light == 1 or rng.random() < 0.2):
                    dP, P, dQ, Q = self.pick_pair(cv)
                    self.sim_group(cv, dP, P, k, dQ, Q, m, fns if dP == 1 else two)
        for k in ds:
            idx += 1
            if ctx.mine(idx) and (self.light == 1 or rng.random() < 0.15):
                dP, P, dQ, Q = self.pick_pair(cv)
                m = self.random_scalar(cv)
                if rng.random() < 0.5:
                    k, m = m, k
                self.sim_group(cv, dP, P, k, dQ, Q, m, fns if dP == 1 else two)
        for it in range(self.n(150, 4000)):
            dP, P, dQ, Q = self.pick_pair(cv)
            self.sim_group(cv, dP, P, self.random_scalar(cv), dQ, Q, self.random_scalar(cv), fns if dP == 1 else two)
        for it in range(self.n(30, 1000)):
            dQ, Q = cv.rand_sub() if rng.random() < 0.9 else (0, None)
            self.sim_group(cv, 1, cv.G, self.random_scalar(cv), dQ, Q, self.random_scalar(cv), ["ep_mul_sim_gen"])
        if self.has("ep_mul_sim_lot"):
            for cnt in range(0, 41):
                idx += 1
                if ctx.mine(idx) and (self.light == 1 or cnt % 4 == 0 or cnt in (10, 11)):
                    self.sim_lot(cv, cnt, "in" if cnt % 3 == 0 else ("short" if cnt % 3 == 1 else "hostile"))
            # the result aliasing an input point, on both sides of the n = 10 / 11 switch to the bucket method
            for cnt in (1, 2, 3, 10, 11, 12, 16, 20, 33):
                for al in ("first", "mid", "last"):
                    idx += 1
                    if ctx.mine(idx):
                        self.sim_lot(cv, cnt, rng.choice(["in", "in", "short", "hostile"]), alias=al)
            for it in range(self.n(6, 300)):
                self.sim_lot(cv, rng.choice([1, 2, 3, 5, 10, 11, 12, 16, 33]), rng.choice(["in", "short", "hostile"]),
                             alias=rng.choice([None, None, "first", "mid", "last"]))
        if self.has("ep_mul_sim_dig"):
            for cnt in range(1, 41):
                idx += 1
                if ctx.mine(idx) and (self.light == 1 or cnt % 4 == 0):
                    self.sim_dig(cv, cnt)
            for cnt in (1, 2, 3, 10, 11, 20):
                for al in ("first", "mid", "last"):
                    idx += 1
                    if ctx.mine(idx):
                        self.sim_dig(cv, cnt, alias=al)
            for it in range(self.n(10, 400)):
                self.sim_dig(cv, rng.choice([1, 2, 3, 4, 8, 17]), alias=rng.choice([None, None, "first", "mid", "last"]))


def run(ctx, part):
    R = RT(ctx.cfg)
    w = W(ctx, R)
    ids = R.ep_param_ids()
    ctx.note("parameter_sets", [nm for nm, _ in ids])
    first = True
    for nm, ident in ids:
        cv = w.setup(nm, ident, law=(part == "law"))
        w.info.setdefault("curve_kinds", {})[nm] = "%s/%s/h=%s" % (cv.kind, cv.atag, "1" if cv.h == 1 else ">1")
        if part == "law":
            w.part_law(cv, first)
        elif part == "mul":
            w.part_mul(cv, first)
        elif part == "sim":
            w.part_sim(cv, first)
        elif part == "mulx":
            w.part_mul(cv, first)
            w.part_sim(cv, first)
        first = False
    for k_, v_ in w.info.items():
        ctx.note(k_, v_)
    ctx.note("functions_exercised", sorted(R.fn_seen))
    ctx.note("functions_not_built", sorted(w.not_built))
    ctx.note("error_codes_seen", {str(k): v for k, v in R.err_codes.items()})
    ctx.add("cases_stepped_around_confined_known_fatal", w.skipped_confined)


SCOPE = ["ep_neg", "ep_add_basic", "ep_add_slp_basic", "ep_add_projc", "ep_add_jacob", "ep_sub", "ep_dbl_basic",
         "ep_dbl_slp_basic", "ep_dbl_projc", "ep_dbl_jacob",
         "ep_norm", "ep_norm_sim", "ep_cmp", "ep_on_curve", "ep_psi", "ep_mul_basic", "ep_mul_slide", "ep_mul_monty",
         "ep_mul_lwnaf", "ep_mul_lwreg", "ep_mul_gen", "ep_mul_dig", "ep_mul_cof", "ep_mul_pre_basic", "ep_mul_pre_yaowi",
         "ep_mul_pre_nafwi", "ep_mul_pre_combs", "ep_mul_pre_combd", "ep_mul_pre_lwnaf", "ep_mul_fix_basic",
         "ep_mul_fix_yaowi", "ep_mul_fix_nafwi", "ep_mul_fix_combs", "ep_mul_fix_combd", "ep_mul_fix_lwnaf",
         "ep_mul_sim_basic", "ep_mul_sim_trick", "ep_mul_sim_inter", "ep_mul_sim_joint", "ep_mul_sim_gen",
         "ep_mul_sim_dig", "ep_mul_sim_lot"]


def finish(cov):
    seen = set(cov.get("functions_exercised", []))
    cov["functions_in_scope"] = len(SCOPE)
    cov["functions_in_scope_exercised"] = sorted(f for f in SCOPE if f in seen)
    cov["functions_in_scope_not_exercised"] = sorted(f for f in SCOPE if f not in seen)
