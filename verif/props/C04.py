"""C04 - the pairing is bilinear, non-degenerate and maps into the order-r target group.

Relational oracle with independent arithmetic: [a]G1 and [b]G2 are computed by the affine curve models (G1 over the
prime field, G2 over the measured Fp2 on the twist the library reports) and written raw into the library; the
library's e(G1, G2) is raised to a*b mod r by the measured Fp12 tower model; the library's e([a]G1, [b]G2) must equal
it.  A multi-pairing must equal e(G1, G2)^(sum a_i*b_i).
"""
import ctypes

from ..rt import RT, MonitorViolation
from ..ctx import hx
from ..model import fpxmeas
from ..model.tower import PrimeField
from ..model.curves import WCurve

LEVEL = "exploration"
RULE = ("for BN_P256, SM9_P256 (asan256) and B12_P381 (asan381): points [a]G1, [b]G2 computed by the models for a, b in "
        "{0, 1, 2, r-1, r, r+1, small, negative, random} (pool refreshed with fresh random scalars), written raw as affine "
        "points, as homogeneous projective (tag PROJC) or as Jacobian (tag JACOB) points with random Z in every argument and "
        "every slot of the multi-pairings, identities as all-zero or z = 0 with junk x,y; each of pc_map, "
        "pp_map_{oatep,tatep,weilp}_k12 is compared with (library e(G1,G2))^(ab mod r) computed in the model tower; "
        "multi-pairings pc_map_sim / pp_map_sim_*_k12 with m = 0..8 pairs and identities at slot 0 / later slots / all slots "
        "are compared with e(G1,G2)^(sum a_i b_i); e(G1,G2) != 1 and e(G1,G2)^r = 1 by model exponentiation; final "
        "exponentiation: order and multiplicativity (its relation to the documented power is recorded, not judged).  A case is non-trivial when no argument is the "
        "identity; distinct = distinct (function, scalars, representations)")
ASSUMPTIONS = [
    "Python integers; verif/model/curves.py (affine chord-tangent law over any model field) and verif/model/tower.py",
    "the Fp2/Fp6/Fp12 tower is the one measured on the library's basis elements (fpxmeas), each non-residue checked in the model",
    "the curve coefficients, generators and the group order are the ones the library reports; the models check that the "
    "generators lie on their curves and are annihilated by r (parameter consistency itself is C18)",
    "the twist type of each family is the one set by RT.pairing_set (ep2_curve_set_twist)",
    "the pairing routines normalise their arguments themselves (ep_norm/ep2_norm in every pp_map_*_k12), so projective "
    "arguments in either projective system (the tag of the point selects the formula in ep_norm/ep2_norm, whatever EP_ADD the "
    "build uses) are in their domain",
]

SINGLE = ["pc_map", "pp_map_oatep_k12", "pp_map_tatep_k12", "pp_map_weilp_k12"]
SIM = {"pc_map_sim": "pc_map", "pp_map_sim_oatep_k12": "pp_map_oatep_k12", "pp_map_sim_tatep_k12": "pp_map_tatep_k12",
       "pp_map_sim_weilp_k12": "pp_map_weilp_k12"}
WEIGHT = {"pc_map": 3, "pp_map_oatep_k12": 2, "pp_map_tatep_k12": 2, "pp_map_weilp_k12": 1,
          "pc_map_sim": 3, "pp_map_sim_oatep_k12": 2, "pp_map_sim_tatep_k12": 2, "pp_map_sim_weilp_k12": 1}


def parts(tier):
    q = tier == "quick"
    P = [dict(part="BN_P256", cfg="asan256", shards=6 if q else 8),
         dict(part="SM9_P256", cfg="asan256", shards=5 if q else 8),
         dict(part="B12_P381", cfg="asan381", shards=5 if q else 8)]
    # the pairing through the non-default (non-lazy) Miller-loop step functions: reduced workload
    P += [dict(part="BN_P256", cfg="asan256ppb", shards=1 if q else 2),
          dict(part="SM9_P256", cfg="asan256ppb", shards=1 if q else 2)]
    # affine curve arithmetic (EP_ADD == BASIC; also basic dispatch of the extension and pairing layers): the line
    # functions and sparse products of the affine paths, D-type (BN_P256) and M-type (SM9_P256) twists
    P += [dict(part="BN_P256", cfg="asan256x", shards=1 if q else 2),
          dict(part="SM9_P256", cfg="asan256x", shards=1 if q else 2)]
    if not q:
        # k = 12 families at other field sizes (the unchanged tree is silent there); the k = 8/16/18/24 families need
        # pp_map_*_k8/k16/k18/k24 with ep4/ep3/ep8 models and are not covered
        P += [dict(part="BN_P382", cfg="asan382", shards=3), dict(part="B12_P377", cfg="asan377", shards=3),
              dict(part="BN_P446", cfg="asan446", shards=3)]
    return P


class World(object):
    """models + raw object access for one active pairing parameter set"""

    def __init__(self, R, ctx, name):
        self.R, self.ctx, self.name = R, ctx, name
        self.rng = ctx.rng
        K = self.K = R.K
        P = self.P = R.pairing_set(name)
        self.p, self.r = R.p, P["n"]
        M = self.M = fpxmeas.measure(R, degrees={2, 6, 12})
        if 12 not in M.F:
            raise RuntimeError("fp12 tower could not be measured: %r %r" % (M.absent, M.problems))
        self.F2, self.F12 = M.F[2], M.F[12]
        L = R.L
        L.ep2_curve_get_a.restype = ctypes.c_void_p
        L.ep2_curve_get_b.restype = ctypes.c_void_p
        self.a2 = tuple(R.fpx_get(L.ep2_curve_get_a(), 2)[0])
        self.b2 = tuple(R.fpx_get(L.ep2_curve_get_b(), 2)[0])
        self.E1 = WCurve(PrimeField(self.p), P["a"], P["b"], self.r)
        self.E2 = WCurve(self.F2, self.a2, self.b2, self.r)
        self.G1 = (P["gx"], P["gy"])
        self.sz2 = K["sizeof_ep2_st"]
        q = R.mem(self.sz2, 0)
        R.call("ep2_curve_get_gen", q)
        x, y, z, co = self.ep2_get(q)
        R.free(q)
        self.G2 = (x, y)
        if z != (1, 0):
            raise RuntimeError("G2 generator is not normalised")
        # trusted base: the models accept the reported generators
        E1, E2, r = self.E1, self.E2, self.r
        if not (E1.on_curve(self.G1) and E1.mul(r, self.G1) is None and E2.on_curve(self.G2)
                and E2.mul(r, self.G2) is None):
            raise RuntimeError("reported generators are not points of order r on the reported curves (see C18)")
        xi = M.nr[6]
        F2 = self.F2
        bb = F2.embed(P["b"])
        self.twist_model = "D" if F2.eq(self.b2, F2.mul(bb, F2.inv(xi))) else ("M" if F2.eq(self.b2, F2.mul(bb, xi)) else "?")
        add = R.target("ep_add")
        self.system = "jacob" if "jacob" in add else ("projc" if "projc" in add else "basic")
        self.egen = {}
        self.pow_cache = {}

    # ------------------------------------------------------------------ raw objects
    def ep2_get(self, Q):
        R, K = self.R, self.K
        x = tuple(R.fpx_get(Q + K["off_ep2_st_x"], 2)[0])
        y = tuple(R.fpx_get(Q + K["off_ep2_st_y"], 2)[0])
        z = tuple(R.fpx_get(Q + K["off_ep2_st_z"], 2)[0])
        return x, y, z, R.rd_int(Q + K["off_ep2_st_coord"])

    def put1(self, ptr, pt, rep):
        """G1 point (model affine tuple or None) written raw in representation rep: 'aff', 'proj' (X = xZ, Y = yZ, tag
        PROJC) or 'jac' (X = xZ^2, Y = yZ^3, tag JACOB), random Z != 0.  ep_norm dispatches on the tag of the point, so
        both projective systems are in the domain of every build."""
        R, K, rng, p = self.R, self.K, self.rng, self.p
        tag = {"aff": K["BASIC"], "proj": K["PROJC"], "jac": K["JACOB"]}[rep]
        if pt is None:
            if rep != "aff":
                R.ep_put(ptr, rng.randrange(p), rng.randrange(p), 0, tag)     # z = 0 with junk x, y
                return "O-junk"
            R.ep_put(ptr, 0, 0, 0, tag)
            return "O"
        x, y = pt
        if rep == "aff":
            R.ep_put(ptr, x, y, 1, tag)
            return rep
        z = rng.randrange(1, p)
        if rep == "proj":
            R.ep_put(ptr, x * z % p, y * z % p, z, tag)
        else:
            R.ep_put(ptr, x * z * z % p, y * z * z * z % p, z, tag)
        return rep

    def put2(self, ptr, pt, rep):
        """G2 point on the twist, same three representations with Z in Fp2*"""
        R, K, rng, F2 = self.R, self.K, self.rng, self.F2
        ox, oy, oz, oc = K["off_ep2_st_x"], K["off_ep2_st_y"], K["off_ep2_st_z"], K["off_ep2_st_coord"]
        tag = {"aff": K["BASIC"], "proj": K["PROJC"], "jac": K["JACOB"]}[rep]
        if pt is None:
            if rep != "aff":
                x, y, z, d = F2.rand(rng), F2.rand(rng), (0, 0), "O-junk"
            else:
                x, y, z, d = (0, 0), (0, 0), (0, 0), "O"
        elif rep == "aff":
            x, y, z, d = pt[0], pt[1], F2.one, rep
        else:
            z = F2.rand(rng)
            if F2.is_zero(z):
                z = F2.one
            if rep == "proj":
                x, y = F2.mul(pt[0], z), F2.mul(pt[1], z)
            else:
                z2 = F2.mul(z, z)
                x, y = F2.mul(pt[0], z2), F2.mul(pt[1], F2.mul(z2, z))
            d = rep
        R.fpx_put(ptr + ox, list(x))
        R.fpx_put(ptr + oy, list(y))
        R.fpx_put(ptr + oz, list(z))
        R.wr_int(ptr + oc, tag)
        return d

    def gt(self, ptr):
        got, canon = self.R.fpx_get(ptr, 12)
        return self.F12.unflatten(got), canon

    def power(self, fn, e):
        """(library e(G1,G2) of routine fn)^e in the model, e reduced mod r"""
        e %= self.r
        k = (fn, e)
        v = self.pow_cache.get(k)
        if v is None:
            v = self.F12.pow(self.egen[fn], e)
            if len(self.pow_cache) < 4000:
                self.pow_cache[k] = v
        return v


def scalar(rng, r, cls):
    if cls == "0":
        return 0
    if cls == "1":
        return 1
    if cls == "2":
        return 2
    if cls == "r-1":
        return r - 1
    if cls == "r":
        return r
    if cls == "r+1":
        return r + 1
    if cls == "small":
        return rng.randrange(3, 1 << 16)
    if cls == "neg":
        return -rng.randrange(1, 1 << 20)
    if cls == "negbig":
        return -rng.randrange(1, r)
    if cls == "2r+":
        return 2 * r + rng.randrange(1, 1 << 10)
    return rng.randrange(1, r)


REPS = ["aff", "proj", "jac"]      # representations of every argument / slot
SCLS = ["0", "1", "2", "r-1", "r", "r+1", "small", "neg", "negbig", "2r+", "rnd", "rnd", "rnd"]


def run(ctx, part):
    R = RT(ctx.cfg)
    rng = ctx.rng
    W = World(R, ctx, part)
    F12, r, K = W.F12, W.r, R.K
    ctx.note("parameter_sets", [part])
    ctx.note("setup_" + part, {"pairf": str(W.P["pairf"]), "embedding_degree": str(R.L.ep_curve_embed()), "ep_add": R.target("ep_add"),
                               "coordinate_system_of_projective_inputs": W.system,
                               "twist_library": str(R.L.ep2_curve_is_twist()), "twist_by_model(b' = b/xi: D, b*xi: M)": W.twist_model,
                               "dispatch": {m: R.target(m) for m in ("pc_map", "pc_map_sim")},
                               "measured_nonresidues": {str(d): repr(v) for d, v in W.M.nr.items()},
                               "measurement_problems": [repr(q) for q in W.M.problems]})
    light = ctx.cfg in ("asan256ppb", "asan256x")      # alternative dispatch: reduced volume
    affine_build = ctx.cfg == "asan256x"
    singles = [f for f in SINGLE if R.has(f) and (not light or f in ("pc_map", "pp_map_oatep_k12")
                                                 or (affine_build and f == "pp_map_weilp_k12"))]
    sims = [f for f in SIM if R.has(f) and (not light or f in ("pc_map_sim", "pp_map_sim_oatep_k12"))]
    ctx.note("miller_step_dispatch_" + ctx.cfg, {m: R.target(m) for m in ("pp_dbl_k12", "pp_add_k12") if R.has(m)})

    def own(k):
        return ctx.mine(k) and (not light or k % 3 == 0)
    ctx.note("functions_not_built", [f for f in SINGLE + list(SIM) + ["pp_exp_k12"] if not R.has(f)])
    tag = "@%s;p%%8=%d" % (part, W.p % 8)
    szg1, szg2, szgt = K["sizeof_ep_st"], W.sz2, R.fp_sz * 12
    Pp, Qq = R.mem(szg1, 0), R.mem(szg2, 0)
    e0 = R.fpx_new(12)
    MAXM = 8
    PA, QA = R.mem(szg1 * MAXM, 0), R.mem(szg2 * MAXM, 0)

    def finish_case():
        ctx.end()

    # ---------------------------------------------------------------- generator pairing of each routine
    for fn in singles:
        try:
            if not ctx.begin("%s|generators" % fn, {"set": part}, budget=300):
                continue
            W.put1(Pp, W.G1, "aff")
            W.put2(Qq, W.G2, "aff")
            ctypes.memset(e0, R.poison, szgt)
            res = R.call(fn, e0, Pp, Qq)
            if not ctx.check(not res.caught, "%s|generators|unexpected-error%s" % (fn, tag), {"err": res.err}):
                continue
            E, canon = W.gt(e0)
            W.egen[fn] = E
            ctx.check(canon, "%s|generators|canonical%s" % (fn, tag))
            ctx.check(not F12.eq(E, F12.one) and not F12.is_zero(E), "%s|generators|degenerate%s" % (fn, tag))
            ctx.check(F12.eq(F12.pow(E, r), F12.one), "%s|generators|order-r%s" % (fn, tag))
        except MonitorViolation as e:
            ctx.fail("%s|generators|%s" % (fn, e.kind), e.detail)
        finally:
            ctx.end()
    singles = [f for f in singles if f in W.egen]
    sims = [f for f in sims if SIM[f] in W.egen]

    # ---------------------------------------------------------------- pools of model points with known scalars
    def fresh(cls):
        s = scalar(rng, r, cls)
        return (cls, s)

    pool1, pool2 = [], []
    for i, cls in enumerate(SCLS):
        c, s = fresh(cls)
        pool1.append((c, s, W.E1.mul(s, W.G1)))
    for i, cls in enumerate(SCLS):
        c, s = fresh(cls)
        pool2.append((c, s, W.E2.mul(s, W.G2)))
    # opposite / equal pairs for the multi-pairing: -P of a pool entry
    s = pool1[-1][1]
    pool1.append(("opp", -s, W.E1.neg(pool1[-1][2])))
    s = pool2[-1][1]
    pool2.append(("opp", -s, W.E2.neg(pool2[-1][2])))

    def refresh():
        # replace one random-class entry of each pool by a fresh scalar
        for pool, E, G in ((pool1, W.E1, W.G1), (pool2, W.E2, W.G2)):
            idx = [i for i, e in enumerate(pool) if e[0] in ("rnd", "negbig", "small", "neg", "2r+")]
            i = rng.choice(idx)
            c, s = fresh(pool[i][0])
            pool[i] = (c, s, E.mul(s, G))

    def idkind(flags):
        if not any(flags):
            return "none"
        if all(flags):
            return "all"
        return "slot0" if flags[0] else "later"

    # ---------------------------------------------------------------- one single-pairing case
    def single_case(fn, i, j, rep1, rep2):
        c1, s1, P1 = pool1[i]
        c2, s2, Q1 = pool2[j]
        ident = ("P" if P1 is None else "") + ("Q" if Q1 is None else "")
        key = "%s|pair|%s" % (fn, ("identity" + ident) if ident else "generic")
        tok = "%s,%s,%s,%s" % (c1, c2, rep1, rep2)
        desc = {"set": part, "a": hx(s1), "b": hx(s2), "rep": [rep1, rep2]}
        try:
            if not ctx.begin(key, desc, nontrivial=not ident, budget=300):
                return
            d1 = W.put1(Pp, P1, rep1)
            d2 = W.put2(Qq, Q1, rep2)
            b1, b2 = R.get(Pp, szg1), R.get(Qq, szg2)
            ctypes.memset(e0, R.poison, szgt)
            res = R.call(fn, e0, Pp, Qq)
            if not ctx.check(not res.caught, "%s|%s|unexpected-error%s" % (key, tok, tag), {"err": res.err}):
                return
            E, canon = W.gt(e0)
            exp = F12.one if ident else W.power(fn, s1 * s2)
            ctx.check(F12.eq(E, exp), "%s|%s|value%s" % (key, tok, tag),
                      {"got": [hx(x) for x in F12.flatten(E)[:2]], "exp": [hx(x) for x in F12.flatten(exp)[:2]]})
            ctx.check(canon, "%s|%s|canonical%s" % (key, tok, tag))
            ctx.check(R.get(Pp, szg1) == b1 and R.get(Qq, szg2) == b2, "%s|%s|input-modified%s" % (key, tok, tag))
        except MonitorViolation as e:
            ctx.fail("%s|%s" % (key, e.kind), e.detail)
        finally:
            ctx.end()

    # ---------------------------------------------------------------- one multi-pairing case
    def sim_case(fn, m, want, reps=None):
        """want: identity placement none | slot0 | later | all"""
        base = SIM[fn]
        ids1 = [i for i, e in enumerate(pool1) if e[2] is None]
        ids2 = [i for i, e in enumerate(pool2) if e[2] is None]
        ok1 = [i for i, e in enumerate(pool1) if e[2] is not None]
        ok2 = [i for i, e in enumerate(pool2) if e[2] is not None]
        pairs = []
        later = rng.randrange(1, m) if (want == "later" and m > 1) else None      # a slot > 0 that surely holds an identity
        while len(pairs) < m:
            k = len(pairs)
            isid = (want == "all") or (want == "slot0" and k == 0) or \
                   (want == "later" and k > 0 and (k == later or rng.random() < 0.3))
            if isid:
                c = rng.randrange(3)
                i = rng.choice(ids1) if c in (0, 2) else rng.choice(ok1)
                j = rng.choice(ids2) if c in (1, 2) else rng.choice(ok2)
            else:
                i, j = rng.choice(ok1), rng.choice(ok2)
                c = rng.random()
                if k > 0 and c < 0.12 and not pairs[-1][2]:
                    i, j = pairs[-1][0], pairs[-1][1]                     # the same pair again
                elif c < 0.24 and k + 2 <= m and later not in (k, k + 1) and want in ("none", "later") and k > 0:
                    pairs.append((len(pool1) - 2, j, False))                # (P, Q) followed by (-P, Q)
                    i = len(pool1) - 1
            pairs.append((i, j, pool1[i][2] is None or pool2[j][2] is None))
        pairs = pairs[:m]
        flags = [f for _, _, f in pairs]
        kind = idkind(flags) if m else "none"
        key = "%s|sim|m%d|id-%s" % (fn, m, kind)
        reps = reps or [(rng.choice(REPS), rng.choice(REPS)) for _ in range(m)]
        desc = {"set": part, "m": m, "pairs": [[hx(pool1[i][1]), hx(pool2[j][1])] for i, j, _ in pairs], "reps": reps}
        tok = "m%d" % m
        try:
            if not ctx.begin(key, desc, nontrivial=m > 0 and not all(flags), budget=300):
                return
            ctypes.memset(PA, R.poison, szg1 * MAXM)
            ctypes.memset(QA, R.poison, szg2 * MAXM)
            e = 0
            for k, (i, j, f) in enumerate(pairs):
                W.put1(PA + k * szg1, pool1[i][2], reps[k][0])
                W.put2(QA + k * szg2, pool2[j][2], reps[k][1])
                if not f:
                    e += pool1[i][1] * pool2[j][1]
            b1, b2 = R.get(PA, szg1 * MAXM), R.get(QA, szg2 * MAXM)
            ctypes.memset(e0, R.poison, szgt)
            res = R.call(fn, e0, PA, QA, m)
            if not ctx.check(not res.caught, "%s|%s|unexpected-error%s" % (key, tok, tag), {"err": res.err}):
                return
            E, canon = W.gt(e0)
            exp = W.power(base, e)
            ctx.check(F12.eq(E, exp), "%s|%s|value%s" % (key, tok, tag),
                      {"got": [hx(x) for x in F12.flatten(E)[:2]], "exp": [hx(x) for x in F12.flatten(exp)[:2]]})
            ctx.check(canon, "%s|%s|canonical%s" % (key, tok, tag))
            ctx.check(R.get(PA, szg1 * MAXM) == b1 and R.get(QA, szg2 * MAXM) == b2,
                      "%s|%s|input-modified%s" % (key, tok, tag))
        except MonitorViolation as e:
            ctx.fail("%s|%s" % (key, e.kind), e.detail)
        finally:
            ctx.end()

    # ---------------------------------------------------------------- directed enumeration (split over the shards)
    n = 0
    for fn in singles:
        for i in range(len(pool1)):
            # every scalar class in either slot against a generic partner, and the identity/identity pair
            for (a, b) in ((i, SCLS.index("rnd")), (SCLS.index("rnd"), i), (i, i)):
                n += 1
                if own(n) and (fn == "pc_map" or (a + b) % 3 == 0 or pool1[a][2] is None or pool2[b][2] is None):
                    single_case(fn, a, b, rng.choice(REPS), rng.choice(REPS))
    # every pair of representations for every single routine, and each representation in every slot of the multi-pairings
    gi, gj = SCLS.index("rnd"), SCLS.index("small")
    for fn in singles:
        for r1 in REPS:
            for r2 in REPS:
                n += 1
                if own(n):
                    single_case(fn, gi, gj, r1, r2)
    for fn in sims:
        for r1 in REPS:
            for r2 in REPS:
                if r1 == r2 == "aff":
                    continue
                for slot in range(3):
                    n += 1
                    if own(n):
                        rr = [("aff", "aff")] * 3
                        rr[slot] = (r1, r2)
                        sim_case(fn, 3, "none", reps=rr)
    for fn in sims:
        for m in range(0, MAXM + 1):
            for want in ("none", "slot0", "later", "all"):
                if m == 0 and want != "none":
                    continue
                if m == 1 and want == "later":
                    continue
                n += 1
                if own(n) and (fn == "pc_map_sim" or (m + len(want)) % 2 == 0):
                    sim_case(fn, m, want)
    # ---------------------------------------------------------------- random phase
    N = ctx.n(420, 6000) // ctx.nshards
    if light:
        N = ctx.n(45, 500) // ctx.nshards
    if part not in ("BN_P256", "SM9_P256", "B12_P381"):
        N = ctx.n(420, 900) // ctx.nshards          # sweep sizes: slower models
    ws = [WEIGHT[f] for f in singles]
    wm = [WEIGHT[f] for f in sims]
    for it in range(N):
        R.poison = rng.randrange(1, 256)
        if it % 4 == 3:
            refresh()
        if rng.random() < 0.55 or not sims:
            fn = rng.choices(singles, ws)[0]
            single_case(fn, rng.randrange(len(pool1)), rng.randrange(len(pool2)),
                        rng.choice(REPS), rng.choice(REPS))
        else:
            fn = rng.choices(sims, wm)[0]
            m = rng.choice([0, 1, 2, 2, 3, 3, 4, 5, 6, 7, 8])
            sim_case(fn, m, rng.choice(["none", "none", "slot0", "later", "later", "all"]) if m else "none")

    # ---------------------------------------------------------------- Miller-loop step functions, every built variant
    # pp_dbl_k12_*(l, r, q, p): r = [2]q and the tangent line at p; pp_add_k12_*(l, r, q, p): r = r + q and the chord.
    # Oracles: the point equals the model's (normalised by the model); the in-place call r == q, which is how every
    # Miller loop calls the doubling, gives the same line and point as the out-of-place call; variants that share a
    # coordinate system (projc_basic / projc_lazyr) give the same line and point (differential between variants).
    szl = szgt
    l1, l2 = R.fpx_new(12), R.fpx_new(12)
    T1, T2, Q1 = R.mem(szg2, 0), R.mem(szg2, 0), R.mem(szg2, 0)

    def rd2(ptr):
        x, y, z, co = W.ep2_get(ptr)
        canon = all(R.fpx_get(ptr + K[o], 2)[1] for o in ("off_ep2_st_x", "off_ep2_st_y", "off_ep2_st_z"))
        if W.F2.is_zero(z):
            return None, canon, co
        if co == K["BASIC"]:
            return (x, y), canon, co
        return (W.E2.from_homog(x, y, z) if co == K["PROJC"] else W.E2.from_jacob(x, y, z)), canon, co

    def line(ptr):
        return R.fpx_get(ptr, 12)

    def step_case(kind):
        F2, E2 = W.F2, W.E2
        s1, s2 = rng.randrange(2, r - 1), rng.randrange(2, r - 1)
        A = E2.mul(s1, W.G2)                 # the running point T
        B = E2.mul(s2, W.G2)                 # the point added (affine in the loop)
        Pm = W.E1.mul(rng.randrange(1, r), W.G1)
        variants = [f for f in (("pp_dbl_k12_basic", "pp_dbl_k12_projc_basic", "pp_dbl_k12_projc_lazyr", "pp_dbl_k12")
                                if kind == "dbl" else
                                ("pp_add_k12_basic", "pp_add_k12_projc_basic", "pp_add_k12_projc_lazyr", "pp_add_k12"))
                    if R.has(f)]
        seen = {}
        raw_t = {}
        for rp in ("aff", "proj"):
            ctypes.memset(T1, 0, szg2)
            W.put2(T1, A, rp)
            raw_t[rp] = R.get(T1, szg2)          # one representative of T per representation, shared by all variants

        def fields(ptr):
            return tuple(R.get(ptr + K[o], 2 * R.fp_sz) for o in ("off_ep2_st_x", "off_ep2_st_y", "off_ep2_st_z")) + \
                (R.rd_int(ptr + K["off_ep2_st_coord"]),)
        for fn in variants:
            tgt = R.target(fn)
            affine = tgt.endswith("k12_basic")
            rep_t = "aff" if affine else rng.choice(["aff", "proj"])       # the projective steps take T as (X:Y:Z), tag PROJC
            key = "%s|step|%s" % (fn, rep_t)
            try:
                if not ctx.begin(key, {"set": part, "t": hx(s1), "q": hx(s2), "rep": rep_t}, budget=120):
                    continue
                W.put1(Pp, Pm, "aff")
                W.put2(Q1, B, "aff")
                ctypes.memmove(T1, raw_t[rep_t], szg2)
                keep = R.get(T1, szg2)
                ctypes.memset(T2, R.poison, szg2)
                for lp in (l1, l2):
                    R.fpx_put(lp, [0] * 12)
                exp = E2.dbl(A) if kind == "dbl" else E2.add(A, B)
                if kind == "dbl":
                    ra = R.call(fn, l1, T2, T1, Pp)          # out of place
                    ok_in = R.get(T1, szg2) == keep
                    rb = R.call(fn, l2, T1, T1, Pp)          # in place, as in pp_mil_k12
                    outs = ((T2, l1, "out-of-place"), (T1, l2, "in-place"))
                else:
                    ctypes.memmove(T2, T1, szg2)
                    ra = R.call(fn, l1, T1, Q1, Pp)
                    rb = R.call(fn, l2, T2, Q1, Pp)          # the same step again from a copy: deterministic
                    ok_in = True
                    outs = ((T1, l1, "first"), (T2, l2, "second"))
                if not ctx.check(not (ra.caught or rb.caught), "%s|unexpected-error%s" % (key, tag)):
                    continue
                ctx.check(ok_in, "%s|input-modified%s" % (key, tag))
                vals = []
                for ptr, lp, what in outs:
                    pt, canon, co = rd2(ptr)
                    lv, lcanon = line(lp)
                    ctx.check(E2.eq(pt, exp), "%s|%s|point%s" % (key, what, tag))
                    ctx.check(canon and lcanon, "%s|%s|canonical%s" % (key, what, tag))
                    vals.append((fields(ptr), lv))
                ctx.check(vals[0][1] == vals[1][1], "%s|line-differs-between-aliasing-patterns%s" % (key, tag))
                ctx.check(vals[0][0] == vals[1][0], "%s|point-differs-between-aliasing-patterns%s" % (key, tag))
                # variants of the same coordinate system and the same representation of T agree exactly
                grp = ("aff" if affine else "projc", rep_t)
                if grp in seen and seen[grp][2] != tgt:
                    ctx.check(seen[grp][0] == vals[0][1], "%s|line-differs-from-%s%s" % (key, seen[grp][2], tag))
                elif grp not in seen:
                    seen[grp] = (vals[0][1], None, tgt)
            except MonitorViolation as e:
                ctx.fail("%s|%s" % (key, e.kind), e.detail)
            finally:
                ctx.end()

    for it in range(ctx.n(10, 120) if ctx.shard < 2 else ctx.n(3, 40)):
        step_case("dbl")
        step_case("add")

    # ---------------------------------------------------------------- sparse products on line-shaped operands
    # b is a line produced by the step function the build selects (pp_dbl_k12 / pp_add_k12: exactly the operands of
    # fp12_mul_dxs in the Miller loop of this (twist type, EP_ADD) path), or random values in the coefficient slots that
    # line occupies (every slot of the shape non-zero); fp12_mul_dxs, _basic and _lazyr must equal the model product.
    da, db, dc = R.fpx_new(12), R.fpx_new(12), R.fpx_new(12)
    dxs_fns = [f for f in ("fp12_mul_dxs", "fp12_mul_dxs_basic", "fp12_mul_dxs_lazyr") if R.has(f)]

    def dxs_case(kind, synthetic):
        stepfn = "pp_dbl_k12" if kind == "dbl" else "pp_add_k12"
        if not R.has(stepfn):
            return
        A = W.E2.mul(rng.randrange(2, r - 1), W.G2)
        B = W.E2.mul(rng.randrange(2, r - 1), W.G2)
        Pm = W.E1.mul(rng.randrange(1, r), W.G1)
        key = "fp12_mul_dxs|line-%s|%s" % (kind, "synthetic" if synthetic else "library-line")
        try:
            if not ctx.begin(key, {"set": part, "step": R.target(stepfn)}, budget=120):
                return
            W.put1(Pp, Pm, "aff")
            W.put2(Q1, B, "aff")
            W.put2(T1, A, "aff")
            R.fpx_put(l1, [0] * 12)
            res = R.call(stepfn, l1, T1, T1 if kind == "dbl" else Q1, Pp)
            if not ctx.check(not res.caught, "%s|unexpected-error%s" % (key, tag)):
                return
            b, _ = R.fpx_get(l1, 12)
            slots = [i for i, x in enumerate(b) if x]
            ctx.note("line_slots_%s_%s_%s" % (ctx.cfg, part, kind), ",".join(str(i) for i in slots))
            if synthetic:
                c = rng.randrange(3)
                b = [(rng.randrange(1, W.p) if c < 2 else rng.choice([1, W.p - 1, (W.p + 1) // 2])) if i in slots else 0
                     for i in range(12)]
            a = F12.flatten(F12.rand(rng))
            exp = F12.flatten(F12.mul(F12.unflatten(a), F12.unflatten(b)))
            for fn in dxs_fns:
                for alias in (0, 1):
                    R.fpx_put(da, a)
                    R.fpx_put(db, b)
                    ctypes.memset(dc, R.poison, szgt)
                    out = da if alias else dc
                    rr = R.call(fn, out, da, db)
                    if not ctx.check(not rr.caught, "%s|%s,a%d|unexpected-error%s" % (key, fn, alias, tag)):
                        continue
                    got, canon = R.fpx_get(out, 12)
                    ctx.check(got == exp, "%s|%s,a%d|value%s" % (key, fn, alias, tag),
                              {"slots": slots, "wrong": [i for i in range(12) if got[i] != exp[i]]})
                    ctx.check(canon, "%s|%s,a%d|canonical%s" % (key, fn, alias, tag))
        except MonitorViolation as e:
            ctx.fail("%s|%s" % (key, e.kind), e.detail)
        finally:
            ctx.end()

    for it in range(ctx.n(8, 100) if (ctx.shard < 2 or light) else ctx.n(2, 30)):
        for kind in ("dbl", "add"):
            dxs_case(kind, False)
            dxs_case(kind, True)

    # ---------------------------------------------------------------- final exponentiation
    if R.has("pp_exp_k12"):
        a, c = R.fpx_new(12), R.fpx_new(12)
        p = W.p

        def fexp(x):
            R.fpx_put(a, F12.flatten(x))
            ctypes.memset(c, R.poison, szgt)
            res = R.call("pp_exp_k12", c, a)
            v, canon = W.gt(c)
            return res, v, canon
        for it in range(ctx.n(2, 12) if ctx.shard < 4 else 0):
            try:
                if not ctx.begin("pp_exp_k12|random", {"set": part}, budget=600):
                    continue
                x, y = F12.rand(rng), F12.rand(rng)
                rx, vx, cx = fexp(x)
                ry, vy, cy = fexp(y)
                rz, vz, cz = fexp(F12.mul(x, y))
                if not ctx.check(not (rx.caught or ry.caught or rz.caught), "pp_exp_k12|random|unexpected-error" + tag):
                    continue
                ctx.check(cx and cy and cz, "pp_exp_k12|random|canonical" + tag)
                ctx.check(F12.eq(F12.mul(vx, vy), vz), "pp_exp_k12|random|multiplicative" + tag)
                ctx.check(F12.eq(F12.pow(vx, r), F12.one) and not F12.eq(vx, F12.one), "pp_exp_k12|random|order-r" + tag)
                if it == 0 and ctx.shard == 0:
                    # documented: c = a^((p^12 - 1)/r)
                    # not part of the property (bilinearity does not depend on it): observation only
                    doc = F12.pow(x, (p ** 12 - 1) // r)
                    rel = "equal to the documented a^((p^12-1)/r)" if F12.eq(doc, vx) else (
                        "the documented power cubed" if F12.eq(F12.pow(doc, 3), vx) else
                        "a fixed power of the documented a^((p^12-1)/r) other than 1 and 3 (order r, multiplicative)")
                    ctx.note("pp_exp_k12_observed_power_" + part, rel)
            except MonitorViolation as e:
                ctx.fail("pp_exp_k12|random|" + e.kind, e.detail)
            finally:
                ctx.end()
    ctx.note("functions_exercised", sorted(R.fn_seen))
    ctx.note("error_codes_seen", {str(k): v for k, v in R.err_codes.items()})
    ctx.add("model_exponentiations", len(W.pow_cache))
