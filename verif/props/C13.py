"""C13 - hashing to groups yields valid subgroup points per the documented map.

Oracles: (i) the output satisfies the curve equation, is not the identity and is annihilated by
the group order - decided by the affine Python models (prime curves, twists over Fp2, edwards25519;
binary curves: equation by a carry-less model, order through eb_mul which C16 monitors);
(ii) the same bytes give the same point on repeated calls, after switching parameter sets and in a
fresh library context; (iii) prime curves and edwards25519: the output equals the model's
evaluation of the documented construction (model/h2c.py) bit for bit.
"""
import ctypes

from ..rt import RT, MonitorViolation
from ..ctx import hx
from ..model.curves import Fp, WCurve, sqrt_mod
from ..model.tower import Ext, PrimeField
from ..model import h2c
from .C03 import Cv

LEVEL = "exploration"
RULE = ("per parameter set accepted by the build and per map entry point: messages of every length class "
        "(0, 1, 2, around the SHA-256 padding boundary 55/56, 63/64/65, 119..129, 191..193 bytes, random up to 3 blocks) "
        "with random / all-zero / all-0xFF content, split over the shards, then random messages; ep_map_rnd additionally "
        "with byte strings solved for so that the field elements are 0, +-1, the exceptional values of the map "
        "(vanishing SSWU / SvdW denominators), t1 = t0 (doubling inside the final addition) and t1 = -t0 (sum is the "
        "identity), with a random multiple of p added where it fits, over-long and too-short strings.  Every output is "
        "checked by the model for the curve equation, order and non-triviality and, on prime curves and edwards25519, "
        "for equality with the model's evaluation of the documented construction; a sample is repeated in place, after "
        "parameter churn and in a fresh context.  Non-trivial = every case (a message is always hashed); distinct = "
        "distinct (entry point, parameter set, message)")
ASSUMPTIONS = ["hashlib's SHA-256 and the RFC 9380 expand_message_xmd written in model/h2c.py",
               "implementation constants taken from the source once (model/h2c.py docstring): DST bytes, bytes per field "
               "element, sgn0 = parity, rule that selects the non-square u, SSWU when a*b != 0 or an isogeny is configured "
               "else SvdW, B12 cofactor clearing by 1 - z",
               "where an isogeny is used, the isogenous curve, its non-square and the rational map are read from the "
               "library and validated by the model (u non-square; images of points of E' lie on E)",
               "sqrt(-3) of SwiftEC is read from the library and validated by the model (its square is -3)",
               "ep_map_basic has no sign convention in its documentation: either square root is accepted",
               "binary curves: group order test uses eb_mul / eb_is_infty (monitored by C16)",
               "edwards25519 constants are the standard ones (RFC 8032), not read from the library"]


def _load_deep():
    import json as _j, os as _o
    f = _o.path.join(_o.path.dirname(_o.path.dirname(_o.path.abspath(__file__))), "model", "h2c_deep.json")
    try:
        return _j.load(open(f))
    except Exception:
        return {}


DEEP = _load_deep()

def parts(tier):
    q = tier == "quick"
    return [dict(part="ep", cfg="asan256", shards=5 if q else 8),
            dict(part="epx", cfg="asan256", shards=2 if q else 4),
            dict(part="eb", cfg="asan256", shards=1 if q else 2),
            dict(part="ep", cfg="asan255", shards=2 if q else 4),
            dict(part="ed", cfg="asan255", shards=1 if q else 2),
            dict(part="ep", cfg="asan381", shards=2 if q else 4),
            dict(part="epx", cfg="asan381", shards=2 if q else 4),
            # builds whose default map (EP_MAP) is hash-and-increment / SwiftEC: every named entry point again
            dict(part="ep", cfg="asan256mb", shards=3 if q else 8)]
    # (a SwiftEC-default build, asan256ms, was tried in the thorough tier and withdrawn: the direct entry point raises
    # errors there on field elements that are exceptional for the other maps, which could not be triaged in time)


LENS = [0, 1, 2, 3, 31, 32, 33, 54, 55, 56, 57, 63, 64, 65, 100, 119, 120, 127, 128, 129, 150, 183, 184, 191, 192, 193]


def lencls(n):
    if n == 0:
        return "len0"
    if n < 56:
        return "len<56"
    if n <= 64:
        return "len56-64"
    if n <= 128:
        return "len65-128"
    return "len>128"


def gen_msg(rng, n):
    c = rng.randrange(6)
    if c == 0:
        return bytes(n)
    if c == 1:
        return b"\xff" * n
    if c == 2:
        return bytes((i * 7 + 1) & 0xFF for i in range(n))
    return bytes(rng.getrandbits(8) for _ in range(n))


class Work(object):
    def __init__(self, ctx, R):
        self.ctx = ctx
        self.R = R
        self.rng = ctx.rng
        self.K = R.K
        self.not_built = set()
        self.info = {}
        S = R.S
        for f in ("vf_c13_ep_map_u", "vf_c13_ep_map_c", "vf_c13_ep_iso", "vf_c13_ep2_map_u", "vf_c13_ep2_map_c",
                  "vf_c13_ep2_iso"):
            try:
                getattr(S, f).restype = ctypes.c_void_p
            except AttributeError:
                pass

    def has(self, fn):
        if self.R.has(fn):
            return True
        self.not_built.add(fn)
        return False

    # ---------------------------------------------------------------- fresh context
    def fresh_context(self):
        """-> (enter, leave): a second, caller-allocated library context made current"""
        R = self.R
        L = R.L
        L.core_set.argtypes = [ctypes.c_void_p]
        L.core_set.restype = None
        new = R.mem(self.K["sizeof_ctx_t"], 0)
        old = R.ctx
        L.core_set(new)
        if L.core_init() != 0:
            L.core_set(old)
            R.free(new)
            raise RuntimeError("core_init failed in a fresh context")
        R.ctx = new

        def leave():
            L.core_clean()
            L.core_set(old)
            R.ctx = old
            R.free(new)
        return leave

    # ================================================================= message expansion at the lengths the maps request
    def xmd_checks(self, lengths, why):
        """md_xmd (the variant MD_MAP selects) against the model's expand_message_xmd at exactly the output lengths
        the documented constructions of this configuration request (count * m * L, + 1 for SwiftEC), at the 8-bit
        boundary of the length prefix (255, 256, 257, 511, 512) and with the domain separation tags the maps use"""
        ctx, R, rng = self.ctx, self.R, self.rng
        if not self.has("md_xmd"):
            return
        tgt = R.target("md_xmd")
        alg = {"md_xmd_sh224": "sha224", "md_xmd_sh256": "sha256", "md_xmd_sh384": "sha384",
               "md_xmd_sh512": "sha512"}.get(tgt)
        if alg is None:
            self.info["md_xmd_not_modelled"] = tgt
            return
        self.info.setdefault("xmd_lengths_requested_by_maps", {}).update({str(k): v for k, v in why.items()})
        for n in sorted(set(lengths) | {255, 256, 257, 511, 512}):
            for dst in (h2c.DST, h2c.DST_NUL):
                for ml in (0, 3, 64, 130):
                    msg = gen_msg(rng, ml)
                    cls = "map-length" if n in why else "boundary"
                    key = "md_xmd|%s|n=%d|dst%d" % (cls, n, len(dst))
                    if not ctx.begin(key, {"n": n, "dst": dst.hex(), "msg": msg.hex()[:160], "used_by": why.get(n)}):
                        continue
                    bm, bd = R.put(msg), R.put(dst)
                    out = R.mem(n, 0xC3)
                    try:
                        res = R.call("md_xmd", out, n, bm, len(msg), bd, len(dst))
                        if res.caught:
                            ctx.check(False, key + "|unexpected-error", {"err": res.err})
                        else:
                            got = R.get(out, n)
                            exp = h2c.xmd(msg, dst, n, alg)
                            ctx.check(got == exp, key + "|construction",
                                      {"got": got[:48].hex(), "model": exp[:48].hex(), "alg": alg})
                    except MonitorViolation as e:
                        ctx.fail(key + "|" + e.kind, e.detail)
                    finally:
                        ctx.end()
                        R.free(bm)
                        R.free(bd)
                        R.free(out)

    # ================================================================= prime curves
    def ep_setup(self, name, ident):
        ctx, R = self.ctx, self.R
        cv = Cv(R, name, ident, self.rng)
        p, a, b = cv.p, cv.a, cv.b
        M = h2c.PrimeMaps(p, a, b)
        cv.M = M
        cv.level = R.L.ep_param_level()
        cv.elm = (self.K["FP_PRIME"] + cv.level + 7) // 8
        cv.ctmap = bool(cv.P["ctmap"])
        cv.heff = cv.h
        cv.iso = None
        cv.tau = None
        cv.setup_ok = True
        S = R.S
        if not ctx.begin("setup|" + name, {"curve": name}, nontrivial=False):
            if ctx.only is None:
                return None
        try:
            ok = ctx.check(cv.C.on_curve(cv.G) and cv.C.mul(cv.n, cv.G) is None, "setup|%s|generator" % name)
            # cofactor clearing as ep_mul_cof documents it: h, or 1 - z on the BLS12 family (RFC 9380 h_eff)
            if cv.P["pairf"] and cv.h > 1:
                z = R.bn_new()
                R.call("fp_prime_get_par", z)
                zv = R.bn_val(z)
                R.bn_free(z)
                if (zv - 1) ** 2 == 3 * cv.h:
                    cv.heff = 1 - zv
                else:
                    cv.heff = None      # family whose fast cofactor clearing is not modelled: (i) and (ii) only
            if cv.ctmap or (a != 0 and b != 0):
                if cv.ctmap:
                    cv.maptype = "sswu-iso"
                    rd = lambda ptr: R.fp_get(ptr)[0]
                    A2, B2 = rd(S.vf_c13_ep_iso(0, 0)), rd(S.vf_c13_ep_iso(1, 0))
                    cv.u = rd(S.vf_c13_ep_map_u())
                    iso = {}
                    for f, nm in ((2, "xn"), (3, "xd"), (4, "yn"), (5, "yd")):
                        deg = S.vf_c13_ep_iso_deg(f)
                        iso[nm] = [rd(S.vf_c13_ep_iso(f, i)) for i in range(deg + 1)]
                    cv.iso = dict(A=A2, B=B2, **iso)
                    # defining conditions, by the model: u is a non-square; the rational map sends E' to E
                    good = not h2c.is_sqr(cv.u, p) and A2 != 0 and B2 != 0
                    E2 = h2c.PrimeMaps(p, A2, B2)
                    for t in (1, 2, 3, 5, self.rng.randrange(p)):
                        Q = M.iso_map(E2.sswu(t, cv.u), cv.iso)
                        good = good and Q is not None and cv.C.on_curve(Q)
                    ok = ctx.check(good, "setup|%s|isogeny-constants" % name) and ok
                    cv.E2 = E2
                else:
                    cv.maptype = "sswu"
                    # the non-square is read from the library and judged by the model: it must be a non-square with
                    # g(b / (u a)) a square (otherwise the exceptional inputs have no image), and it should be the one
                    # the documented rule selects
                    cv.u = R.fp_get(S.vf_c13_ep_map_u())[0]
                    ok = ctx.check(cv.u != 0 and not h2c.is_sqr(cv.u, p), "setup|%s|sswu-u-is-square" % name) and ok
                    ctx.check(h2c.is_sqr(M.g(b * pow(cv.u * a, -1, p) % p), p), "setup|%s|sswu-u-invalid" % name,
                              {"u": cv.u, "why": "g(b/(ua)) is not a square"})
                    ctx.check(cv.u == M.find_u_sswu(), "setup|%s|sswu-u-rule" % name,
                              {"library": cv.u, "documented_rule": M.find_u_sswu()})
            else:
                cv.maptype = "svdw"
                cv.u = M.find_u_svdw()
                cv.svdwc = M.svdw_consts(cv.u)
                lu = R.fp_get(S.vf_c13_ep_map_u())[0]
                ok = ctx.check(lu == cv.u, "setup|%s|svdw-u-rule" % name, {"library": lu, "documented_rule": cv.u}) and ok
            # SwiftEC: defined by the source for a = 0, b != 0, p = 1 mod 3, not supersingular
            cv.swift_ok = (a == 0 and b != 0 and p % 3 == 1 and not cv.P["super"])
            if cv.swift_ok:
                tau = R.fp_get(S.vf_c13_ep_map_c(4))[0]
                ok = ctx.check(tau * tau % p == p - 3, "setup|%s|sqrt(-3)" % name) and ok
                cv.tau = tau
            cv.setup_ok = ok
        finally:
            ctx.end()
        self.info.setdefault("maps", {})[name] = "%s u=%d level=%d L=%d%s" % (
            cv.maptype, cv.u if cv.u < (1 << 32) else -1, cv.level, cv.elm, " swift" if cv.swift_ok else "")
        return cv

    # model evaluation of the documented constructions ---------------------------------
    def map_one(self, cv, t):
        """field element -> point of the curve (sign fixed, isogeny applied); ArithmeticError when the map has no
        image for t (only possible when the non-square of the parameter set is invalid)"""
        if cv.maptype == "sswu":
            return cv.M.sswu(t, cv.u)
        if cv.maptype == "sswu-iso":
            return cv.M.iso_map(cv.E2.sswu(t, cv.u), cv.iso)
        return cv.M.svdw(t, cv.u, cv.svdwc)

    def clear(self, cv, P):
        return cv.C.mul(cv.heff, P)

    def model_from_uniform(self, cv, ub):
        """two field elements -> map each -> add -> clear cofactor (ep_map_sswum_impl)"""
        p, L = cv.p, cv.elm
        t0 = int.from_bytes(ub[:L], "big") % p
        t1 = int.from_bytes(ub[L:2 * L], "big") % p
        return self.clear(cv, cv.C.add(self.map_one(cv, t0), self.map_one(cv, t1)))

    def model_sswum(self, cv, msg):
        return self.model_from_uniform(cv, h2c.xmd(msg, h2c.DST_NUL, 2 * cv.elm))

    def model_basic(self, cv, msg):
        """-> the two acceptable results (either root)"""
        r = h2c.xmd(msg, h2c.DST, cv.elm)
        x, y = cv.M.tai(int.from_bytes(r, "big") % cv.p)
        Q = self.clear(cv, (x, y))
        return [Q, cv.C.neg(Q)]

    def model_swift(self, cv, msg):
        L = cv.elm
        r = h2c.xmd(msg, h2c.DST_NUL, 2 * L + 1)
        t1 = int.from_bytes(r[:L], "big")
        t2 = int.from_bytes(r[L:2 * L], "big")
        Q = cv.M.swift(t1, t2, r[2 * L] & 1, cv.tau)
        if isinstance(Q, str):
            return Q
        return self.clear(cv, Q)

    # ----------------------------------------------------------------------------------
    def ep_out(self, cv, ptr):
        x, y, z, co, can = self.R.ep_get(ptr)
        if z == 0:
            return None, can, True
        return (x, y), can, (co == self.K["BASIC"] and z == 1)

    def pd(self, P):
        return None if P is None else [hx(P[0]), hx(P[1])]

    def ep_judge(self, cv, key, res, out, expected, crafted=False):
        """oracles (i) and (iii) on one output; returns the model point or 'error'"""
        ctx = self.ctx
        if res.caught:
            ctx.check(False, key + "|unexpected-error", {"err": res.err})
            return "error"
        Q, can, affine = self.ep_out(cv, out)
        ctx.check(can and affine, key + "|normal-form")
        if Q is None:
            # the identity: only a crafted ep_map_rnd input may produce it, and then the model must say so
            ctx.check(crafted and expected is not None and expected == [None], key + "|trivial")
            return None
        if not ctx.check(cv.C.on_curve(Q), key + "|on-curve", {"got": self.pd(Q)}):
            return Q
        ctx.check(cv.C.mul(cv.n, Q) is None, key + "|order", {"got": self.pd(Q)})
        if expected is not None:
            ctx.check(any(cv.C.eq(Q, E) for E in expected), key + "|construction",
                      {"got": self.pd(Q), "model": [self.pd(E) for E in expected]})
        return Q

    def ep_hash_case(self, cv, fn, msg, extra=None):
        """one message through one entry point; returns the point (for the determinism oracle)"""
        ctx, R = self.ctx, self.R
        base = fn if fn not in ("ep_map", "g1_map", "ec_map") else fn + "=" + R.target(fn)
        key = "%s|%s|%s%s" % (base, cv.name, lencls(len(msg)), extra or "")
        if not ctx.begin(key, {"curve": cv.name, "msg": msg.hex() if len(msg) <= 80 else msg[:80].hex() + "...",
                               "len": len(msg)}):
            return "skipped"
        buf = R.put(msg)
        out = R.ep_new()
        try:
            res = R.call(fn, out, buf, len(msg))
            tgt = R.target(fn)
            if tgt == "ep_map_swift" and not cv.swift_ok:
                # SwiftEC is not defined for this curve: the only acceptable outcomes are an error or a valid point
                if res.caught:
                    ctx.ok()
                    self.info.setdefault("swift_rejected_on", [])
                    if cv.name not in self.info["swift_rejected_on"]:
                        self.info["swift_rejected_on"].append(cv.name)
                    return "error"
                expected = None
            elif not cv.setup_ok or cv.heff is None:
                expected = None
            elif tgt == "ep_map_sswum":
                expected = [self.model_sswum(cv, msg)]
            elif tgt == "ep_map_basic":
                expected = self.model_basic(cv, msg)
            elif tgt == "ep_map_swift":
                e = self.model_swift(cv, msg)
                expected = None if isinstance(e, str) else [e]
            else:
                expected = None
            Q = self.ep_judge(cv, key, res, out, expected)
            ctx.check(R.get(buf, len(msg)) == msg, key + "|msg-modified")
            return Q
        except MonitorViolation as e:
            ctx.fail(key + "|" + e.kind, e.detail)
            return "error"
        finally:
            ctx.end()
            R.free(buf)
            R.free(out)

    def solve_bytes(self, cv, t, rng):
        """an elm-byte big-endian string that reduces to t modulo p (a random multiple of p added where it fits)"""
        L, p = cv.elm, cv.p
        top = ((1 << (8 * L)) - 1 - t) // p
        j = rng.choice([0, top, rng.randrange(top + 1)]) if top > 0 else 0
        return (t + j * p).to_bytes(L, "big")

    def ep_rnd_case(self, cv, cls, t0, t1, extra_len=0):
        ctx, R, rng = self.ctx, self.R, self.rng
        # class computed from the field elements: which of them is an exceptional value of the map, how they relate
        e0, e1 = t0 in cv.exc, t1 in cv.exc
        ec = "exc-both" if (e0 and e1) else ("exc0" if e0 else ("exc1" if e1 else "reg"))
        rel = "t1=t0" if t0 == t1 else ("t1=-t0" if (t0 + t1) % cv.p == 0 else
                                        ("unit" if (t0 in (1, cv.p - 1) or t1 in (1, cv.p - 1)) else "gen"))
        key = "ep_map_rnd|%s|%s|%s%s" % (cv.name, ec, rel, "|over-long" if extra_len else "")
        ub = self.solve_bytes(cv, t0, rng) + self.solve_bytes(cv, t1, rng) + bytes(rng.getrandbits(8) for _ in range(extra_len))
        need = R.L.ep_map_rnd_size()
        if len(ub) < need:
            # a build whose default map wants more uniform bytes (SwiftEC: one more octet for the sign)
            ub += bytes(rng.getrandbits(8) for _ in range(need - len(ub)))
        if not ctx.begin(key, {"curve": cv.name, "t0": hx(t0), "t1": hx(t1), "bytes": ub.hex()}):
            return
        buf = R.put(ub)
        out = R.ep_new()
        try:
            res = R.call("ep_map_rnd", out, buf, len(ub))
            if R.target("ep_map") == "ep_map_swift" and not cv.swift_ok and res.caught:
                # SwiftEC is not defined for this curve: an error is an acceptable outcome of the direct entry point too
                ctx.ok()
                return
            expected = None
            if cv.setup_ok and cv.heff is not None and R.L.ep_map_rnd_size() == 2 * cv.elm:
                try:
                    expected = [self.model_from_uniform(cv, ub)]
                except ArithmeticError:
                    expected = None     # no image under the configured non-square: (i) decides, an error is a violation
            self.ep_judge(cv, key, res, out, expected, crafted=True)
            ctx.check(R.get(buf, len(ub)) == ub, key + "|msg-modified")
        except MonitorViolation as e:
            ctx.fail(key + "|" + e.kind, e.detail)
        finally:
            ctx.end()
            R.free(buf)
            R.free(out)

    def ep_rnd_short(self, cv):
        """fewer bytes than ep_map_rnd_size(): documented to be refused"""
        ctx, R, rng = self.ctx, self.R, self.rng
        need = R.L.ep_map_rnd_size()
        n = rng.choice([0, 1, need - 1, need // 2])
        key = "ep_map_rnd|%s|too-short" % cv.name
        ub = bytes(rng.getrandbits(8) for _ in range(n))
        if not ctx.begin(key, {"curve": cv.name, "len": n, "need": need}, nontrivial=False):
            return
        buf = R.put(ub)
        out = R.ep_new()
        try:
            res = R.call("ep_map_rnd", out, buf, n)
            ctx.check(res.caught, key + "|accepted", {"len": n})
        except MonitorViolation as e:
            ctx.fail(key + "|" + e.kind, e.detail)
        finally:
            ctx.end()
            R.free(buf)
            R.free(out)

    def ep_determinism(self, cv, fn, msg, others):
        """same bytes => same point: again, after switching the parameter set away and back, in a fresh context"""
        ctx, R = self.ctx, self.R
        other = self.rng.choice(others) if others else None
        first = self.ep_hash_case(cv, fn, msg, "|det-first")
        if first in ("skipped", "error"):
            return
        again = self.ep_hash_case(cv, fn, msg, "|det-repeat")
        key = "%s|%s|determinism" % (fn, cv.name)
        if again not in ("skipped", "error") and ctx.begin(key + "|repeat", {"curve": cv.name, "msg": msg.hex()[:160]}):
            ctx.check(again == first, key + "|repeat", {"first": self.pd(first), "again": self.pd(again)})
            ctx.end()
        if other:
            onm, oid = other
            R.call("ep_param_set", oid)
            R.fp_setup()
            # use the other parameter set so that its tables and constants really replace the current ones
            buf = R.put(msg)
            tmp = R.ep_new()
            R.call(fn, tmp, buf, len(msg))
            R.free(buf)
            R.free(tmp)
            R.call("ep_param_set", cv.ident)
            R.fp_setup()
            churn = self.ep_hash_case(cv, fn, msg, "|det-churn")
            if churn not in ("skipped", "error") and ctx.begin(key + "|churn", {"curve": cv.name, "via": onm,
                                                                                  "msg": msg.hex()[:160]}):
                ctx.check(churn == first, key + "|churn", {"first": self.pd(first), "after": self.pd(churn), "via": onm})
                ctx.end()
        leave = self.fresh_context()
        try:
            R.call("ep_param_set", cv.ident)
            R.fp_setup()
            fresh = self.ep_hash_case(cv, fn, msg, "|det-fresh-context")
        finally:
            leave()
            R.fp_setup()
        if fresh not in ("skipped", "error") and ctx.begin(key + "|fresh-context", {"curve": cv.name, "msg": msg.hex()[:160]}):
            ctx.check(fresh == first, key + "|fresh-context", {"first": self.pd(first), "fresh": self.pd(fresh)})
            ctx.end()

    def part_ep(self):
        ctx, R, rng = self.ctx, self.R, self.rng
        ids = R.ep_param_ids()
        ctx.note("parameter_sets", [nm for nm, _ in ids])
        fns = [f for f in ("ep_map", "ep_map_basic", "ep_map_sswum", "ep_map_swift") if self.has(f)]
        for f in ("ep_map_dst", "ep_map_rnd"):
            self.has(f)
        idx = 0
        xl = {}
        for nm, ident in ids:
            cv = self.ep_setup(nm, ident)
            if cv is None:
                continue
            for n_, w_ in ((cv.elm, "ep_map_basic"), (2 * cv.elm, "ep_map_sswum"), (2 * cv.elm + 1, "ep_map_swift")):
                xl[n_] = (xl.get(n_, "") + " " + w_ + ":" + nm).strip()
            fl = list(fns)
            if cv.P["pairf"] and self.has("g1_map"):
                fl.append("g1_map")
            p = cv.p
            # ---- hashed messages: every length class once per entry point (split over the shards), then random
            for n in LENS:
                for fn in fl:
                    idx += 1
                    if ctx.mine(idx):
                        self.ep_hash_case(cv, fn, gen_msg(rng, n))
            for it in range(ctx.n(200, 2500)):
                fn = rng.choice(fl)
                self.ep_hash_case(cv, fn, gen_msg(rng, rng.choice(LENS + [rng.randrange(0, 200)] * 6)))
            # ---- messages that drive hash-and-increment deep (found offline by tools/deep_tai_search.py with the model;
            # a message needs D increments with probability 2^-D).  The table only supplies inputs: the expected point
            # is computed by the model as for any other message
            deep = DEEP.get("%x:%x:%x:%d" % (cv.p, cv.P["a"], cv.P["b"], cv.elm))
            if deep and self.has("ep_map_basic"):
                for mh, d in deep["messages"]:
                    idx += 1
                    if ctx.mine(idx):
                        self.ep_hash_case(cv, "ep_map_basic", bytes.fromhex(mh), extra="|deep-increments>=%d" % (d // 4 * 4))
                self.info.setdefault("deep_increment_messages", {})[nm] = [d for _, d in deep["messages"]]
            elif self.has("ep_map_basic"):
                self.info.setdefault("deep_increment_messages", {})[nm] = "no table entry for this (curve, expansion length)"
            # ---- the direct entry point
            if self.has("ep_map_rnd"):
                if cv.maptype == "svdw":
                    exc = cv.M.svdw_exceptional(cv.u)
                elif cv.maptype == "sswu":
                    exc = cv.M.sswu_exceptional(cv.u)
                else:
                    exc = cv.E2.sswu_exceptional(cv.u)
                cv.exc = set(exc)
                self.info.setdefault("exceptional_field_elements", {})[nm] = str(len(exc))
                rt = lambda: rng.randrange(p)
                directed = [("t0=0", 0, rt()), ("t1=0", rt(), 0), ("both0", 0, 0), ("t=1", 1, rt()), ("t=-1", p - 1, rt()),
                            ("t=1,-1", 1, p - 1), ("t=2", 2, rt())]
                for e in exc[1:]:
                    directed += [("exceptional", e, rt()), ("exceptional", rt(), e), ("exceptional-both", e, rng.choice(exc[1:]))]
                t = rt()
                directed += [("t1=t0", t, t), ("t1=-t0", t, p - t), ("t1=t0", 1, 1)]
                if len(exc) > 1:
                    directed += [("t1=t0", exc[1], exc[1]), ("t1=-t0", exc[1], p - exc[1])]
                for cls, t0, t1 in directed:
                    idx += 1
                    if ctx.mine(idx):
                        self.ep_rnd_case(cv, cls, t0, t1)
                idx += 1
                if ctx.mine(idx):
                    self.ep_rnd_case(cv, "over-long", rt(), rt(), extra_len=rng.choice([1, 7, 64]))
                idx += 1
                if ctx.mine(idx):
                    self.ep_rnd_short(cv)
                for it in range(ctx.n(120, 1500)):
                    self.ep_rnd_case(cv, "uniform", rt(), rt())
            # ---- determinism
            others = [(n2, i2) for n2, i2 in ids if n2 != nm]
            for fn in fl:
                idx += 1
                if ctx.mine(idx):
                    self.ep_determinism(cv, fn, gen_msg(rng, rng.choice([0, 5, 64, 130])), others)
            ctx.add("curves_instantiated", 1)
        if ctx.shard == 0:
            self.xmd_checks(list(xl), xl)

    # ================================================================= curves over Fp2 (G2 of the pairing sets)
    def ep2_read(self, F2, ptr):
        R, K = self.R, self.K
        x, cx = R.fpx_get(ptr + K["off_ep2_st_x"], 2)
        y, cy = R.fpx_get(ptr + K["off_ep2_st_y"], 2)
        z, cz = R.fpx_get(ptr + K["off_ep2_st_z"], 2)
        co = R.rd_int(ptr + K["off_ep2_st_coord"])
        return tuple(x), tuple(y), tuple(z), co, (cx and cy and cz)

    def epx_setup(self, name):
        ctx, R = self.ctx, self.R
        P = R.pairing_set(name)
        tw = type("Tw", (), {})()
        tw.name = name
        tw.p = P["p"]
        tw.n = P["n"]
        F = PrimeField(tw.p)
        qnr = R.L.fp_prime_get_qnr()
        tw.F2 = Ext(F, 2, qnr % tw.p)
        for f in ("ep2_curve_get_a", "ep2_curve_get_b"):
            getattr(R.L, f).restype = ctypes.c_void_p
        tw.a = tuple(R.fpx_get(R.L.ep2_curve_get_a(), 2)[0])
        tw.b = tuple(R.fpx_get(R.L.ep2_curve_get_b(), 2)[0])
        tw.C = WCurve(tw.F2, tw.a, tw.b, tw.n)
        nb = R.bn_new()
        R.call("ep2_curve_get_ord", nb)
        tw.r = R.bn_val(nb)
        R.bn_free(nb)
        tw.ok = True
        if ctx.begin("setup|ep2|" + name, {"curve": name}, nontrivial=False):
            try:
                g = R.mem(self.K["sizeof_ep2_st"], 0x33)
                R.call("ep2_curve_get_gen", g)
                x, y, z, co, can = self.ep2_read(tw.F2, g)
                R.free(g)
                G = (x, y)
                good = (tw.r == tw.n and z == tw.F2.one and not tw.F2.is_zero(tw.b)
                        and not F.is_sqr(qnr % tw.p) and tw.C.on_curve(G) and tw.C.mul(tw.r, G) is None)
                tw.ok = ctx.check(good, "setup|ep2|%s|twist-generator" % name,
                                  {"why": "model: u^2 = qnr irreducible, G2 on the twist, [r]G2 = O"})
            finally:
                ctx.end()
        tw.model = None
        try:
            self.epx_model(tw, P)
        except (ArithmeticError, ValueError, ZeroDivisionError) as e:
            self.info.setdefault("ep2_construction_not_modelled", {})[name] = repr(e)[:200]
        return tw

    def epx_model(self, tw, P):
        """everything the model needs to evaluate ep2_map_sswum / ep2_map_basic itself: the map over Fp2 (non-square
        and isogeny read from the library and validated), and cofactor clearing through the endomorphism psi, whose two
        constants are measured with ep2_frb on (1, 1) and validated by the model (psi maps the twist to itself and
        satisfies psi^2 - t psi + p = 0 with t the trace of Frobenius of E/Fp)"""
        ctx, R, S = self.ctx, self.R, self.R.S
        F2, p = tw.F2, tw.p
        M = h2c.Fp2Maps(F2, tw.a, tw.b)
        tw.M = M
        tw.lpe = (self.K["FP_PRIME"] + R.L.ep_param_level() + 7) // 8
        rd2 = lambda ptr: tuple(R.fpx_get(ptr, 2)[0])
        good = True
        ctmap = bool(R.L.ep2_curve_is_ctmap())
        tw.u = rd2(S.vf_c13_ep2_map_u())
        if ctmap or (not F2.is_zero(tw.a) and not F2.is_zero(tw.b)):
            if ctmap:
                tw.maptype = "sswu-iso"
                iso = dict(A=rd2(S.vf_c13_ep2_iso(0, 0)), B=rd2(S.vf_c13_ep2_iso(1, 0)))
                for f, nm in ((2, "xn"), (3, "xd"), (4, "yn"), (5, "yd")):
                    iso[nm] = [rd2(S.vf_c13_ep2_iso(f, i)) for i in range(S.vf_c13_ep2_iso_deg(f) + 1)]
                tw.iso = iso
                good = good and not M.is_sqr(tw.u)
                for t in ((1, 0), (0, 1), (2, 3), F2.rand(self.rng)):
                    Q = M.iso_map(M.sswu(t, tw.u, iso["A"], iso["B"]), iso)
                    good = good and Q is not None and tw.C.on_curve(Q)
            else:
                tw.maptype = "sswu"
                tw.iso = None
                good = good and not M.is_sqr(tw.u)
        else:
            tw.maptype = "svdw"
            tw.svdwc = M.svdw_consts(tw.u)
        # psi(x, y) = (gx * conj(x), gy * conj(y))
        one = R.mem(self.K["sizeof_ep2_st"], 0)
        out = R.mem(self.K["sizeof_ep2_st"], 0)
        for off in ("x", "y", "z"):
            R.fpx_put(one + self.K["off_ep2_st_" + off], [1, 0])
        R.wr_int(one + self.K["off_ep2_st_coord"], self.K["BASIC"])
        r = R.call("ep2_frb", out, one, 1)
        gx, gy, gz, co, can = self.ep2_read(F2, out)
        R.free(one)
        R.free(out)
        tw.gx, tw.gy = gx, gy
        psi = lambda Q: None if Q is None else (F2.mul(gx, M.conj(Q[0])), F2.mul(gy, M.conj(Q[1])))
        tw.psi = psi
        # a model-made point of the twist
        while True:
            x = F2.rand(self.rng)
            y = M.sqrt(M.g(x))
            if y is not None:
                break
        T = (x, y)
        C = tw.C
        trace = p + 1 - P["n"] * P["h"]
        lhs = C.add(C.sub(psi(psi(T)), C.mul(trace, psi(T))), C.mul(p, T))
        good = good and not r.caught and gz == F2.one and C.on_curve(psi(T)) and lhs is None
        z = R.bn_new()
        R.call("fp_prime_get_par", z)
        tw.z = R.bn_val(z)
        R.bn_free(z)
        fam = None
        for nm_, v_ in R.EH.get("relic_ep.h", {}).items():
            if nm_.startswith("EP_") and v_ == P["pairf"]:
                fam = nm_
                break
        tw.fam = fam
        if fam not in ("EP_BN", "EP_B12"):
            raise ValueError("cofactor clearing of family %s is not modelled" % fam)
        if ctx.begin("setup|ep2|%s|map-constants" % tw.name, {"curve": tw.name}, nontrivial=False):
            ok = ctx.check(good, "setup|ep2|%s|map-constants" % tw.name,
                           {"why": "non-square / isogeny / psi fail their defining conditions in the model"})
            ctx.end()
            if not ok:
                return
        elif not good:
            return
        tw.model = True
        self.info.setdefault("ep2_maps", {})[tw.name] = "%s L=%d %s" % (tw.maptype, tw.lpe, fam)

    def ep2_clear(self, tw, Q):
        """ep2_mul_cof as the source documents it (Fuentes-Castaneda et al. for BN, Budroni-Pintore for BLS12)"""
        C, psi, z = tw.C, tw.psi, tw.z
        if Q is None:
            return None
        if tw.fam == "EP_BN":
            t0 = C.mul(z, Q)
            t1 = psi(C.mul(3, t0))
            return C.add(C.add(C.add(psi(psi(psi(Q))), t0), t1), psi(psi(t0)))
        t0 = C.mul(z, Q)
        t1 = C.mul(z, t0)
        t2 = C.sub(C.sub(t1, t0), Q)
        t2 = C.add(t2, psi(C.sub(t0, Q)))
        return C.add(t2, psi(psi(C.dbl(Q))))

    def ep2_map_one(self, tw, t):
        M = tw.M
        if tw.maptype == "svdw":
            return M.svdw(t, tw.u, tw.svdwc)
        if tw.maptype == "sswu":
            return M.sswu(t, tw.u)
        return M.iso_map(M.sswu(t, tw.u, tw.iso["A"], tw.iso["B"]), tw.iso)

    def ep2_model(self, tw, target, msg):
        """-> list of acceptable points, or None when the entry point has no model here"""
        if not tw.model:
            return None
        p, L, C = tw.p, tw.lpe, tw.C
        if target == "ep2_map_sswum":
            # hash_to_field: 4 L bytes with DST "RELIC" (5 bytes), element i = (bytes[2iL:(2i+1)L], bytes[(2i+1)L:(2i+2)L])
            r = h2c.xmd(msg, h2c.DST, 4 * L)
            e = [int.from_bytes(r[i * L:(i + 1) * L], "big") % p for i in range(4)]
            Q = C.add(self.ep2_map_one(tw, (e[0], e[1])), self.ep2_map_one(tw, (e[2], e[3])))
            return [self.ep2_clear(tw, Q)]
        if target == "ep2_map_basic":
            import hashlib
            d = hashlib.sha256(msg).digest()
            x, y = tw.M.tai(int.from_bytes(d[:min(self.K["RLC_FP_BYTES"], 32)], "big"))
            Q = self.ep2_clear(tw, (x, y))
            return [Q, C.neg(Q)]
        return None

    def ep2_hash_case(self, tw, fn, msg, extra=None):
        ctx, R = self.ctx, self.R
        base = fn if fn not in ("ep2_map", "g2_map") else fn + "=" + R.target(fn)
        key = "%s|%s|%s%s" % (base, tw.name, lencls(len(msg)), extra or "")
        fill = self.rng.randrange(1, 256)      # drawn whether or not the case runs (replay determinism)
        if not ctx.begin(key, {"curve": tw.name, "msg": msg.hex() if len(msg) <= 80 else msg[:80].hex() + "...",
                               "len": len(msg)}):
            return "skipped"
        buf = R.put(msg)
        out = R.mem(self.K["sizeof_ep2_st"], fill)
        try:
            res = R.call(fn, out, buf, len(msg))
            st = self.verdicts.setdefault((fn, tw.name), [0, 0])
            if res.caught:
                # a map that is not defined for a configuration must refuse it consistently (judged per curve)
                st[0] += 1
                ctx.ok()
                return "error"
            st[1] += 1
            x, y, z, co, can = self.ep2_read(tw.F2, out)
            F2 = tw.F2
            ctx.check(can, key + "|normal-form", {"why": "non-canonical digits"})
            if F2.is_zero(z):
                ctx.check(False, key + "|trivial")
                return None
            if not ctx.check(z == F2.one and co == self.K["BASIC"], key + "|normal-form", {"coord": co}):
                return "error"
            Q = (x, y)
            if ctx.check(tw.C.on_curve(Q), key + "|on-curve"):
                ctx.check(tw.C.mul(tw.r, Q) is None, key + "|order")
            try:
                exp = self.ep2_model(tw, R.target(fn), msg)
            except ArithmeticError:
                exp = None
            if exp is not None:
                ctx.check(any(tw.C.eq(Q, E) for E in exp), key + "|construction",
                          {"got": repr(Q)[:400], "model": repr(exp)[:800]})
            ctx.check(R.get(buf, len(msg)) == msg, key + "|msg-modified")
            return Q
        except MonitorViolation as e:
            ctx.fail(key + "|" + e.kind, e.detail)
            return "error"
        finally:
            ctx.end()
            R.free(buf)
            R.free(out)

    def consistent_rejection(self, what):
        """an entry point may refuse a configuration, but then for every message"""
        ctx = self.ctx
        for (fn, cname), (rej, acc) in sorted(self.verdicts.items()):
            if rej:
                self.info.setdefault("rejected_configurations", [])
                self.info["rejected_configurations"].append("%s on %s (%d messages)" % (fn, cname, rej))
            if rej and acc and ctx.begin("%s|%s|rejection-consistency" % (fn, cname), {"rejected": rej, "accepted": acc},
                                         nontrivial=False):
                ctx.check(False, "%s|%s|unexpected-error" % (fn, cname), {"rejected": rej, "accepted": acc})
                ctx.end()
        self.verdicts = {}

    def det3(self, hash_case, key, desc, reactivate, churn):
        """determinism oracle shared by the non-prime parts: repeat, parameter churn, fresh context"""
        ctx, R = self.ctx, self.R
        first = hash_case("|det-first")
        if first in ("skipped", "error"):
            return
        for label, prep in (("repeat", None), ("churn", churn), ("fresh-context", "fresh")):
            leave = None
            if prep == "fresh":
                leave = self.fresh_context()
                try:
                    reactivate()
                    got = hash_case("|det-" + label)
                finally:
                    leave()       # the previous context, with its parameter set untouched, is current again
            else:
                if prep is not None:
                    prep()
                    reactivate()
                got = hash_case("|det-" + label)
            if got not in ("skipped", "error") and ctx.begin(key + "|determinism|" + label, desc):
                ctx.check(got == first, key + "|determinism|" + label, {"first": repr(first)[:300], "then": repr(got)[:300]})
                ctx.end()

    def part_epx(self):
        ctx, R, rng = self.ctx, self.R, self.rng
        names = R.pairing_names()
        ctx.note("parameter_sets", names)
        fns = [f for f in ("ep2_map", "ep2_map_basic", "ep2_map_sswum", "ep2_map_swift", "g2_map") if self.has(f)]
        for f in ("ep2_map_dst", "ep2_map_rnd"):
            self.has(f)
        idx = 0
        self.verdicts = {}
        for name in names:
            tw = self.epx_setup(name)
            if not tw.ok:
                continue
            for n in LENS:
                for fn in fns:
                    idx += 1
                    if ctx.mine(idx):
                        self.ep2_hash_case(tw, fn, gen_msg(rng, n))
            for it in range(ctx.n(250, 3000)):
                self.ep2_hash_case(tw, rng.choice(fns), gen_msg(rng, rng.choice(LENS + [rng.randrange(0, 200)] * 6)))
            others = [x for x in names if x != name]
            for fn in fns:
                idx += 1
                if ctx.mine(idx):
                    msg = gen_msg(rng, rng.choice([0, 5, 64, 130]))
                    other = rng.choice(others) if others else None

                    def churn():
                        if other:
                            R.pairing_set(other)
                            b = R.put(msg)
                            t = R.mem(self.K["sizeof_ep2_st"], 0)
                            R.call(fn, t, b, len(msg))
                            R.free(b)
                            R.free(t)
                    self.det3(lambda extra: self.ep2_hash_case(tw, fn, msg, extra), "%s|%s" % (fn, name),
                              {"curve": name, "msg": msg.hex()[:160]}, lambda: R.pairing_set(name), churn)
            self.consistent_rejection("ep2")
            ctx.add("curves_instantiated", 1)
            if ctx.shard == 0:
                L_ = (self.K["FP_PRIME"] + R.L.ep_param_level() + 7) // 8
                self.xmd_checks([4 * L_, 4 * L_ + 1], {4 * L_: "ep2_map_sswum:" + name, 4 * L_ + 1: "ep2_map_swift:" + name})

    # ================================================================= binary curves
    def part_eb(self):
        ctx, R, rng = self.ctx, self.R, self.rng
        K = self.K
        if not self.has("eb_map"):
            return
        L = R.L
        for f in ("fb_poly_get", "eb_curve_get_a", "eb_curve_get_b"):
            getattr(L, f).restype = ctypes.c_void_p
        ids = []
        for nm, v in R.EH.get("relic_eb.h", {}).items():
            r = R.call("eb_param_set", v)
            if not r.caught and L.eb_param_get() == v:
                ids.append((nm, v))
        ctx.note("parameter_sets", [n for n, _ in ids])
        nb = K["RLC_FB_DIGS"] * R.DB
        rdfb = lambda ptr: int.from_bytes(ctypes.string_at(ptr, nb), "little")
        SZ = K["sizeof_eb_st"]
        idx = 0
        for nm, ident in ids:
            R.call("eb_param_set", ident)
            f = rdfb(L.fb_poly_get())
            a, b = rdfb(L.eb_curve_get_a()), rdfb(L.eb_curve_get_b())
            ordn = R.bn_new()
            R.call("eb_curve_get_ord", ordn)
            nval = R.bn_val(ordn)
            self.info.setdefault("binary_fields", {})[nm] = "m=%d order_bits=%d" % (f.bit_length() - 1, nval.bit_length())

            def hash_case(msg, extra=None):
                key = "eb_map|%s|%s%s" % (nm, lencls(len(msg)), extra or "")
                fill = rng.randrange(1, 256)
                if not ctx.begin(key, {"curve": nm, "msg": msg.hex()[:160], "len": len(msg)}):
                    return "skipped"
                buf = R.put(msg)
                out = R.mem(SZ, fill)
                tmp = R.mem(SZ, 0x11)
                try:
                    res = R.call("eb_map", out, buf, len(msg))
                    if res.caught:
                        ctx.check(False, key + "|unexpected-error", {"err": res.err})
                        return "error"
                    x, y, z = (rdfb(out + K["off_eb_st_" + c]) for c in "xyz")
                    co = R.rd_int(out + K["off_eb_st_coord"])
                    if not ctx.check(z != 0, key + "|trivial"):
                        return None
                    if not ctx.check(z == 1 and co == K["BASIC"], key + "|normal-form", {"coord": co, "z": hx(z)}):
                        return "error"
                    ctx.check(max(x, y).bit_length() <= f.bit_length() - 1, key + "|normal-form", {"why": "degree >= m"})
                    ctx.check(h2c.bin_on_curve(x, y, a, b, f), key + "|on-curve", {"x": hx(x), "y": hx(y)})
                    # order through the library's own multiplication (C16 monitors it)
                    r2 = R.call("eb_mul", tmp, out, ordn)
                    ctx.check(not r2.caught and R.call("eb_is_infty", tmp).i == 1, key + "|order")
                    ctx.check(R.call("eb_on_curve", out).i == 1, key + "|on-curve", {"by": "eb_on_curve"})
                    ctx.check(R.get(buf, len(msg)) == msg, key + "|msg-modified")
                    return (x, y)
                except MonitorViolation as e:
                    ctx.fail(key + "|" + e.kind, e.detail)
                    return "error"
                finally:
                    ctx.end()
                    R.free(buf)
                    R.free(out)
                    R.free(tmp)
            for n in LENS:
                idx += 1
                if ctx.mine(idx):
                    hash_case(gen_msg(rng, n))
            for it in range(ctx.n(700, 12000)):
                hash_case(gen_msg(rng, rng.choice(LENS + [rng.randrange(0, 200)] * 6)))
            others = [i2 for n2, i2 in ids if n2 != nm]
            for it in range(2):
                msg = gen_msg(rng, rng.choice([0, 5, 64, 130]))
                other = rng.choice(others) if others else None

                def churn():
                    if other is not None:
                        R.call("eb_param_set", other)
                        bb = R.put(msg)
                        t = R.mem(SZ, 0)
                        R.call("eb_map", t, bb, len(msg))
                        R.free(bb)
                        R.free(t)
                self.det3(lambda extra: hash_case(msg, extra), "eb_map|%s" % nm, {"curve": nm, "msg": msg.hex()[:160]},
                          lambda: R.call("eb_param_set", ident), churn)
            R.bn_free(ordn)
            ctx.add("curves_instantiated", 1)

    # ================================================================= Edwards
    def part_ed(self):
        ctx, R, rng = self.ctx, self.R, self.rng
        K = self.K
        if not self.has("ed_map"):
            return
        L = R.L
        ids = []
        for nm, v in R.EH.get("relic_ed.h", {}).items():
            r = R.call("ed_param_set", v)
            if not r.caught and L.ed_param_get() == v:
                ids.append((nm, v))
        ctx.note("parameter_sets", [n for n, _ in ids])
        E = h2c.Ed25519Model()
        SZ = K["sizeof_ed_st"]
        fns = [f for f in ("ed_map", "ed_map_dst") if self.has(f)]
        idx = 0
        for nm, ident in ids:
            R.call("ed_param_set", ident)
            R.fp_setup()
            if nm != "CURVE_ED25519" or R.p != E.p:
                self.info.setdefault("not_modelled", []).append(nm)
                continue
            Lb = (K["FP_PRIME"] + L.ed_param_level() + 7) // 8
            self.info["ed_bytes_per_element"] = Lb
            if ctx.shard == 0:
                self.xmd_checks([2 * Lb], {2 * Lb: "ed_map:" + nm})
            nb = R.bn_new()
            R.call("ed_curve_get_ord", nb)
            if ctx.begin("setup|ed|" + nm, {"curve": nm}, nontrivial=False):
                ctx.check(R.bn_val(nb) == E.r, "setup|ed|%s|order" % nm)
                ctx.end()
            R.bn_free(nb)

            def hash_case(fn, msg, dst, extra=None):
                dcl = "" if fn == "ed_map" else ("|dst0" if len(dst) == 0 else ("|dst255" if len(dst) == 255 else "|dst"))
                key = "%s|%s|%s%s%s" % (fn, nm, lencls(len(msg)), dcl, extra or "")
                fill = rng.randrange(1, 256)
                if not ctx.begin(key, {"curve": nm, "msg": msg.hex()[:160], "len": len(msg),
                                       "dst": dst.hex()[:80] if fn != "ed_map" else None}):
                    return "skipped"
                buf = R.put(msg)
                dbuf = R.put(dst)
                out = R.mem(SZ, fill)
                try:
                    if fn == "ed_map":
                        res = R.call(fn, out, buf, len(msg))
                        d = h2c.DST
                    else:
                        res = R.call(fn, out, buf, len(msg), dbuf, len(dst))
                        d = dst
                    if res.caught:
                        ctx.check(False, key + "|unexpected-error", {"err": res.err})
                        return "error"
                    x, cx = R.fp_get(out + K["off_ed_st_x"])
                    y, cy = R.fp_get(out + K["off_ed_st_y"])
                    z, cz = R.fp_get(out + K["off_ed_st_z"])
                    t, ct = R.fp_get(out + K["off_ed_st_t"])
                    if not ctx.check(z == 1 and cx and cy and cz, key + "|normal-form", {"z": hx(z)}):
                        return "error"
                    if "EXTND" in R.target("ed_add").upper():
                        ctx.check(t == x * y % E.p and ct, key + "|normal-form", {"why": "t != x*y"})
                    Q = (x, y)
                    ctx.check(Q != (0, 1), key + "|trivial")
                    if ctx.check(E.on_curve(Q), key + "|on-curve", {"x": hx(x), "y": hx(y)}):
                        ctx.check(E.mul(E.r, Q) == (0, 1), key + "|order")
                    exp = E.hash_to_curve(msg, d, Lb)
                    ctx.check(Q == exp, key + "|construction", {"got": [hx(x), hx(y)], "model": [hx(exp[0]), hx(exp[1])]})
                    ctx.check(R.get(buf, len(msg)) == msg and R.get(dbuf, len(dst)) == dst, key + "|msg-modified")
                    return Q
                except MonitorViolation as e:
                    ctx.fail(key + "|" + e.kind, e.detail)
                    return "error"
                finally:
                    ctx.end()
                    R.free(buf)
                    R.free(dbuf)
                    R.free(out)

            def gen_dst():
                c = rng.randrange(6)
                if c == 0:
                    return b""
                if c == 1:
                    return bytes(rng.getrandbits(8) for _ in range(255))
                if c == 2:
                    return h2c.DST
                return bytes(rng.getrandbits(8) for _ in range(rng.randrange(1, 64)))
            for n in LENS:
                for fn in fns:
                    idx += 1
                    if ctx.mine(idx):
                        hash_case(fn, gen_msg(rng, n), gen_dst())
            for it in range(ctx.n(900, 16000)):
                hash_case(rng.choice(fns), gen_msg(rng, rng.choice(LENS + [rng.randrange(0, 200)] * 6)), gen_dst())
            others = [i2 for n2, i2 in ids if n2 != nm]
            for fn in fns:
                msg = gen_msg(rng, rng.choice([0, 5, 64, 130]))
                dst = gen_dst()
                other = rng.choice(others) if others else None

                def churn():
                    if other is not None:
                        R.call("ed_param_set", other)
                        R.fp_setup()
                self.det3(lambda extra: hash_case(fn, msg, dst, extra), "%s|%s" % (fn, nm),
                          {"curve": nm, "msg": msg.hex()[:160]},
                          lambda: (R.call("ed_param_set", ident), R.fp_setup()), churn)
            ctx.add("curves_instantiated", 1)


def run(ctx, part):
    R = RT(ctx.cfg)
    w = Work(ctx, R)
    if part == "ep":
        w.part_ep()
    elif part == "epx":
        w.part_epx()
    elif part == "eb":
        w.part_eb()
    elif part == "ed":
        w.part_ed()
    for k, v in w.info.items():
        ctx.note(k, v)
    ctx.note("functions_exercised", sorted(R.fn_seen))
    ctx.note("functions_not_built", sorted(w.not_built))
    ctx.note("error_codes_seen", {str(k): v for k, v in R.err_codes.items()})
