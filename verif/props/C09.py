"""C09 - modular and number-theoretic integer functions and scalar recodings are correct.

Oracles: Python pow / math.gcd / math.isqrt / own Jacobi symbol / BPSW-style primality (verif/model/nt.py); every
recoding is decoded by the model and must give back the input integer with the digit set, sparsity and length its
header promises; output buffers are exact-size malloc blocks (ASan red zones directly behind the announced length).
"""
import ctypes
import math

from ..rt import RT, MonitorViolation
from ..ctx import hx
from ..model import nt

LEVEL = "exploration"
RULE = ("operands from structured digit patterns (0, 1, B-1, B/2, single bit, runs, random) of 0..capacity digits, both "
        "signs, operands below / equal to / above the modulus, moduli odd / even / 2^k-c / with extreme digits; Lehmer "
        "inputs (Fibonacci neighbours, equal leading digits, huge quotients); hostile composites proven composite by "
        "the model (Carmichael, Chernick, psi_k strong pseudoprimes, a constructed strong pseudoprime to 2,3,5, p^2, "
        "p(2p-1), close primes); recodings for every width 2..8 on structured scalars with exact-size buffers and "
        "too-short buffers; a case is non-trivial when an operand is non-zero; distinct = distinct (key, inputs)")
ASSUMPTIONS = ["Python integers, pow, math.gcd, math.isqrt are the reference for Z and Z/m",
               "verif/model/nt.py: Jacobi symbol, BPSW + 40 random Miller-Rabin bases decide primality (self-tested)",
               "bn_mod* return the non-negative residue for a positive modulus (floor convention of bn_div, DESIGN 8)",
               "Montgomery radix R = 2^(digit bits * used digits of m); bn_mod_monty_* are defined for 0 <= a < m*R",
               "bn_rec_jsf stores the second row at offset max(bits(k), bits(l)) + 1 (layout used by every caller)",
               "bn_rec_sac: *len is the per-row capacity on input and the row stride on output, row 0 holds sign bits "
               "(0 = +1, 1 = -1), k[0] odd, all k[i] >= 0 (usage in ep2_mul_reg_gls)",
               "bn_rec_reg is regular (all digits odd) only for odd k; bits(k) <= n is its domain",
               "tau-adic digits are decoded with the alpha_u = beta_u + gamma_u*tau table of bn_rec_tnaf_get after that "
               "table has been validated by alpha_u = u (mod tau^w) through tau -> t_w",
               "GLV: lambda is the root of x^2+x+1 mod n with [lambda]G = (beta*x_G, y_G), found with the model curve"]


def parts(tier):
    q = tier == "quick"
    out = []
    for cfg, k in (("asan256", 1.0), ("asan256w8", 1.0), ("asan256k", 1.0)):
        out.append(dict(part="mod", cfg=cfg, shards=3 if q else 6))
        out.append(dict(part="num", cfg=cfg, shards=2 if q else 6))
        out.append(dict(part="prime", cfg=cfg, shards=2 if q else 4))
        out.append(dict(part="rec", cfg=cfg, shards=2 if q else 6))
    out.append(dict(part="fatal", cfg="asan256", shards=2))
    return out


def sg(x):
    return "neg" if x < 0 else ("zero" if x == 0 else "pos")


class Env(object):
    """per-worker state: runtime, generators, object pool, common verdict helpers"""

    def __init__(self, ctx, R):
        self.ctx = ctx
        self.R = R
        self.rng = ctx.rng
        self.W = R.DIG
        self.B = 1 << R.DIG
        self.CAP = R.BN_SIZE
        self.w8 = R.DIG == 8
        self.K = R.K
        self.pool = [R.bn_new() for _ in range(10)]
        self.lenp = R.mem(8, 0)
        self.monty = R.target("bn_mod_pre") == "bn_mod_pre_monty"

    # ------------------------------------------------------------ generators
    def pat(self):
        rng, B, W = self.rng, self.B, self.W
        c = rng.randrange(10)
        if c == 0:
            return 0
        if c == 1:
            return B - 1
        if c == 2:
            return 1 << rng.randrange(W)
        if c == 3:
            return B >> 1
        if c == 4:
            return (B >> 1) + rng.choice([-1, 1])
        if c == 5:
            return 1
        if c == 6:
            return B - 2
        return rng.randrange(B)

    def mag(self, nd):
        """magnitude with exactly nd digits worth of structure (may have leading zero digits)"""
        rng = self.rng
        v = 0
        mode = rng.randrange(6)
        for i in range(nd):
            if mode == 0:
                d = self.B - 1
            elif mode == 1:
                d = 0 if i else self.pat()
            elif mode in (2, 3):
                d = rng.randrange(self.B)
            else:
                d = self.pat()
            v = (v << self.W) | d
        if mode == 1 and nd:
            v |= self.pat() << (self.W * (nd - 1))
        return v

    def ndig(self, maxd):
        rng = self.rng
        return rng.choice([1, 1, 2, 2, 3, 4, rng.randrange(1, maxd + 1), rng.randrange(1, maxd + 1), maxd])

    def operand(self, maxd, signed=True, zero_ok=True):
        rng = self.rng
        nd = self.ndig(maxd)
        if zero_ok and rng.random() < 0.04:
            nd = 0
        v = self.mag(nd)
        if rng.random() < 0.1:
            v = rng.choice([0, 1, 2, 3, self.B - 1, self.B, self.B + 1]) if zero_ok else rng.choice([1, 2, 3, self.B - 1, self.B, self.B + 1])
        if not zero_ok and v == 0:
            v = 1
        if signed and rng.random() < 0.3:
            v = -v
        return v

    def modulus(self, maxd, kind=None):
        """positive modulus >= 2 (unless kind says otherwise)"""
        rng, W, B = self.rng, self.W, self.B
        nd = self.ndig(maxd)
        kind = kind or rng.choice(["odd", "odd", "odd", "rand", "even", "topmax", "lowzero", "pm", "small", "top1"])
        if kind == "small":
            return rng.choice([2, 3, 4, 5, 7, 8, 9, 15, 16, 255, 256, 257, B - 1, B + 1]) if rng.random() < 0.7 else max(2, self.pat())
        m = self.mag(nd) | (1 << (W * (nd - 1)))
        if kind == "odd":
            m |= 1
        elif kind == "even":
            m &= ~1
        elif kind == "topmax":
            m |= (B - 1) << (W * (nd - 1))
            m |= rng.randrange(2)
        elif kind == "lowzero" and nd > 1:
            z = rng.randrange(1, nd)
            m = (m >> (W * z)) << (W * z)
            if rng.random() < 0.7:
                m |= 1
        elif kind == "pm":
            k = rng.randrange(2, W * nd + 1)
            m = (1 << k) + rng.choice([-1, 1]) * rng.choice([1, 3, 5, 17, 19, 189, 255])
        elif kind == "top1":
            m = (1 << (W * (nd - 1))) | (self.mag(nd - 1) if nd > 1 else 1)
        return max(2, m)

    def odd_modulus(self, maxd):
        m = self.modulus(maxd, self.rng.choice(["odd", "odd", "topmax", "lowzero", "pm", "small", "top1"]))
        m |= 1
        return m if m > 2 else 3

    # -------------------------------------------------------------- verdicts
    def out_bn(self, p, exp, key, what="value"):
        ctx, R = self.ctx, self.R
        v, used, sign, normal = R.bn_get(p)
        ok = ctx.check(v == exp, key + "|" + what, {"got": hx(v) if v is not None else None, "exp": hx(exp)})
        ctx.check(normal, key + "|normal-form", {"used": used, "sign": sign, "got": hx(v) if v is not None else None})
        return ok

    def unchanged(self, pairs, key, outs=()):
        ctx, R = self.ctx, self.R
        for p, val in pairs:
            if p in outs:
                continue
            vv = R.bn_get(p)
            ctx.check(vv[0] == val and vv[3], key + "|input-modified", {"was": hx(val), "now": repr(vv)})

    def junk(self, *ps):
        """overwrite outputs with a poisoned non-trivial value"""
        for p in ps:
            self.R.bn_put(p, self.rng.getrandbits(70) | 1)

    def newpoison(self):
        self.R.poison = self.rng.randrange(1, 256)

    # contiguous bn_st arrays (ALLOC=AUTO ABI of bn_t *)
    def arr_new(self, n):
        R = self.R
        p = R.mem(max(1, n) * R.bn_sz, R.poison)
        for i in range(n):
            r = R.call("bn_make", p + i * R.bn_sz, R.BN_SIZE)
            if r.caught:
                raise RuntimeError("bn_make failed")
        return p

    def arr_at(self, p, i):
        return p + i * self.R.bn_sz

    def setlen(self, v):
        self.R.wr_sz(self.lenp, v)
        return self.lenp

    def getlen(self):
        return self.R.rd_sz(self.lenp)


def s8(b):
    return b - 256 if b > 127 else b


def guard(ctx, fn):
    """run one case body; monitor violations of the trampoline become failures of the current case"""
    try:
        fn()
    except MonitorViolation as e:
        ctx.fail((ctx.cur_key or "?") + "|" + e.kind, e.detail)
    finally:
        ctx.end()
