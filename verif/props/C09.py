"""C09 - modular and number-theoretic integer functions and scalar recodings are correct.

Oracles: Python pow / math.gcd / math.isqrt / own Jacobi symbol / BPSW-style primality (verif/model/nt.py); every
recoding is decoded by the model and must give back the input integer with the digit set, sparsity and length its
header promises; output buffers are exact-size malloc blocks (ASan red zones directly behind the announced length).
"""
import ctypes
import math

from ..rt import RT, MonitorViolation
from ..ctx import hx
from ..model import nt

LEVEL = "exploration"
RULE = ("operands from structured digit patterns (0, 1, B-1, B/2, single bit, runs, random) of 0..capacity digits, both "
        "signs, operands below / equal to / above the modulus, moduli odd / even / 2^k-c / with extreme digits; Lehmer "
        "inputs (Fibonacci neighbours, equal leading digits, huge quotients); hostile composites proven composite by "
        "the model (Carmichael, Chernick, psi_k strong pseudoprimes, a constructed strong pseudoprime to 2,3,5, p^2, "
        "p(2p-1), close primes); recodings for every width 2..8 on structured scalars with exact-size buffers and "
        "too-short buffers; a case is non-trivial when an operand is non-zero; distinct = distinct (key, inputs)")
ASSUMPTIONS = ["Python integers, pow, math.gcd, math.isqrt are the reference for Z and Z/m",
               "verif/model/nt.py: Jacobi symbol, BPSW + 40 random Miller-Rabin bases decide primality (self-tested)",
               "bn_mod* return the non-negative residue for a positive modulus (floor convention of bn_div, DESIGN 8)",
               "Montgomery radix R = 2^(digit bits * used digits of m); bn_mod_monty_* are defined for 0 <= a < m*R",
               "bn_rec_jsf stores the second row at offset max(bits(k), bits(l)) + 1 (layout used by every caller)",
               "bn_rec_sac: *len is the per-row capacity on input and the row stride on output, row 0 holds sign bits "
               "(0 = +1, 1 = -1), k[0] odd, all k[i] >= 0 (usage in ep2_mul_reg_gls)",
               "bn_rec_reg is regular (all digits odd) only for odd k; bits(k) <= n is its domain",
               "tau-adic digits are decoded with the alpha_u = beta_u + gamma_u*tau table of bn_rec_tnaf_get after that "
               "table has been validated by alpha_u = u (mod tau^w) through tau -> t_w",
               "GLV: lambda is the root of x^2+x+1 mod n with [lambda]G = (beta*x_G, y_G), found with the model curve"]


def parts(tier):
    q = tier == "quick"
    out = []
    for cfg, k in (("asan256", 1.0), ("asan256w8", 1.0), ("asan256k", 1.0)):
        out.append(dict(part="mod", cfg=cfg, shards=3 if q else 6))
        out.append(dict(part="num", cfg=cfg, shards=2 if q else 6))
        out.append(dict(part="prime", cfg=cfg, shards=2 if q else 4))
        out.append(dict(part="rec", cfg=cfg, shards=2 if q else 6))
    # GLV / Frobenius / SAC recodings on every endomorphism curve of the other built field sizes (B12_P381 has a 255-bit
    # order: bits(n) % 64 == 63) plus synthetic lattice bases for orders of other lengths
    out.append(dict(part="glv", cfg="asan381", shards=1))
    out.append(dict(part="glv", cfg="asan255", shards=1))
    out.append(dict(part="fatal", cfg="asan256", shards=1))
    out.append(dict(part="fatal", cfg="asan256k", shards=1))
    return out


def sg(x):
    return "neg" if x < 0 else ("zero" if x == 0 else "pos")


class Env(object):
    """per-worker state: runtime, generators, object pool, common verdict helpers"""

    def __init__(self, ctx, R):
        self.ctx = ctx
        self.R = R
        self.rng = ctx.rng
        self.W = R.DIG
        self.B = 1 << R.DIG
        self.CAP = R.BN_SIZE
        self.w8 = R.DIG == 8
        self.K = R.K
        self.pool = [R.bn_new() for _ in range(10)]
        self.lenp = R.mem(8, 0)
        self.monty = R.target("bn_mod_pre") == "bn_mod_pre_monty"
        ctx.default_budget = 20 if ctx.quick else 60     # every case here takes milliseconds; generators raise it

    # ------------------------------------------------------------ generators
    def pat(self):
        rng, B, W = self.rng, self.B, self.W
        c = rng.randrange(10)
        if c == 0:
            return 0
        if c == 1:
            return B - 1
        if c == 2:
            return 1 << rng.randrange(W)
        if c == 3:
            return B >> 1
        if c == 4:
            return (B >> 1) + rng.choice([-1, 1])
        if c == 5:
            return 1
        if c == 6:
            return B - 2
        return rng.randrange(B)

    def mag(self, nd):
        """magnitude with exactly nd digits worth of structure (may have leading zero digits)"""
        rng = self.rng
        v = 0
        mode = rng.randrange(6)
        for i in range(nd):
            if mode == 0:
                d = self.B - 1
            elif mode == 1:
                d = 0 if i else self.pat()
            elif mode in (2, 3):
                d = rng.randrange(self.B)
            else:
                d = self.pat()
            v = (v << self.W) | d
        if mode == 1 and nd:
            v |= self.pat() << (self.W * (nd - 1))
        return v

    def ndig(self, maxd):
        rng = self.rng
        return rng.choice([1, 1, 2, 2, 3, 4, rng.randrange(1, maxd + 1), rng.randrange(1, maxd + 1), maxd])

    def operand(self, maxd, signed=True, zero_ok=True):
        rng = self.rng
        nd = self.ndig(maxd)
        if zero_ok and rng.random() < 0.04:
            nd = 0
        v = self.mag(nd)
        if rng.random() < 0.1:
            v = rng.choice([0, 1, 2, 3, self.B - 1, self.B, self.B + 1]) if zero_ok else rng.choice([1, 2, 3, self.B - 1, self.B, self.B + 1])
        if not zero_ok and v == 0:
            v = 1
        if signed and rng.random() < 0.3:
            v = -v
        return v

    def modulus(self, maxd, kind=None):
        """positive modulus >= 2 (unless kind says otherwise)"""
        rng, W, B = self.rng, self.W, self.B
        nd = self.ndig(maxd)
        kind = kind or rng.choice(["odd", "odd", "odd", "rand", "even", "topmax", "lowzero", "pm", "small", "top1"])
        if kind == "small":
            return rng.choice([2, 3, 4, 5, 7, 8, 9, 15, 16, 255, 256, 257, B - 1, B + 1]) if rng.random() < 0.7 else max(2, self.pat())
        m = self.mag(nd) | (1 << (W * (nd - 1)))
        if kind == "odd":
            m |= 1
        elif kind == "even":
            m &= ~1
        elif kind == "topmax":
            m |= (B - 1) << (W * (nd - 1))
            m |= rng.randrange(2)
        elif kind == "lowzero" and nd > 1:
            z = rng.randrange(1, nd)
            m = (m >> (W * z)) << (W * z)
            if rng.random() < 0.7:
                m |= 1
        elif kind == "pm":
            k = rng.randrange(2, W * nd + 1)
            m = (1 << k) + rng.choice([-1, 1]) * rng.choice([1, 3, 5, 17, 19, 189, 255])
            if m.bit_length() > W * nd:
                m = (1 << k) - 1      # stay within nd digits (Barrett needs 2*nd + 1 digits of precision)
        elif kind == "top1":
            m = (1 << (W * (nd - 1))) | (self.mag(nd - 1) if nd > 1 else 1)
        return max(2, m)

    def odd_modulus(self, maxd):
        m = self.modulus(maxd, self.rng.choice(["odd", "odd", "topmax", "lowzero", "pm", "small", "top1"]))
        m |= 1
        return m if m > 2 else 3

    # -------------------------------------------------------------- verdicts
    def out_bn(self, p, exp, key, what="value"):
        ctx, R = self.ctx, self.R
        v, used, sign, normal = R.bn_get(p)
        ok = ctx.check(v == exp, key + "|" + what, {"got": hx(v) if v is not None else None, "exp": hx(exp)})
        ctx.check(normal, key + "|normal-form", {"used": used, "sign": sign, "got": hx(v) if v is not None else None})
        return ok

    def unchanged(self, pairs, key, outs=()):
        ctx, R = self.ctx, self.R
        for p, val in pairs:
            if p in outs:
                continue
            vv = R.bn_get(p)
            ctx.check(vv[0] == val and vv[3], key + "|input-modified", {"was": hx(val), "now": repr(vv)})

    def junk(self, *ps):
        """overwrite outputs with a poisoned non-trivial value"""
        for p in ps:
            self.R.bn_put(p, self.rng.getrandbits(70) | 1)

    def newpoison(self):
        self.R.poison = self.rng.randrange(1, 256)

    # contiguous bn_st arrays (ALLOC=AUTO ABI of bn_t *)
    def arr_new(self, n):
        R = self.R
        p = R.mem(max(1, n) * R.bn_sz, R.poison)
        for i in range(n):
            r = R.call("bn_make", p + i * R.bn_sz, R.BN_SIZE)
            if r.caught:
                raise RuntimeError("bn_make failed")
        return p

    def arr_at(self, p, i):
        return p + i * self.R.bn_sz

    def setlen(self, v):
        self.R.wr_sz(self.lenp, v)
        return self.lenp

    def getlen(self):
        return self.R.rd_sz(self.lenp)


def s8(b):
    return b - 256 if b > 127 else b


def guard(ctx, fn):
    """run one case body; monitor violations of the trampoline become failures of the current case"""
    try:
        fn()
    except MonitorViolation as e:
        ctx.fail((ctx.cur_key or "?") + "|" + e.kind, e.detail)
    finally:
        ctx.end()


# =============================================================================================== part "mod"
def run_mod(E):
    ctx, R, rng, W, B, CAP, K = E.ctx, E.R, E.rng, E.W, E.B, E.CAP, E.K
    a, b, c, d, e, m, u, t0, t1, t2 = E.pool
    MAXM = 40 if E.w8 else 16            # modulus digits
    MXPM = 20 if E.w8 else 16
    NV = K["ERR_NO_VALID"]
    METH = "monty" if E.monty else "barrt"       # reduction behind bn_mod(c, a, m, u) in this build

    def nd(v):
        return max(1, (abs(v).bit_length() + W - 1) // W)

    # ------------------------------------------------------------------ bn_mod_2b
    def mod_2b():
        x = E.operand(CAP - 2)
        if x > 0 and rng.random() < 0.75:
            x = -x
        s = rng.choice([0, 1, W - 1, W, W + 1, 2 * W, rng.randrange(0, 3 * W), rng.randrange(0, (CAP - 2) * W),
                        abs(x).bit_length(), abs(x).bit_length() + 1, max(0, abs(x).bit_length() - 1)])
        exp = x % (1 << s)
        cls = sg(x)
        if x < 0:
            cls += "|exact" if exp == 0 else "|inexact"
        alias = rng.randrange(2)
        if not ctx.begin("bn_mod_2b|%s|alias%d" % (cls, alias), [hx(x), s], nontrivial=bool(x)):
            return
        R.bn_put(a, x)
        E.junk(c)
        out = a if alias else c
        r = R.call("bn_mod_2b", out, a, s)
        if ctx.check(not r.caught, ctx.cur_key + "|unexpected-error", {"err": r.err}):
            E.out_bn(out, exp, ctx.cur_key)
            E.unchanged([(a, x)], ctx.cur_key, (out,))

    # ------------------------------------------------------------------ bn_mod_basic
    def mod_basic():
        x = E.operand(CAP - 3)
        mm = E.operand(MAXM, zero_ok=False) if rng.random() < 0.5 else E.modulus(MAXM) * rng.choice([1, 1, 1, -1])
        if rng.random() < 0.15:
            x = mm * E.operand(3) + rng.choice([0, 0, 1, -1])
        if rng.random() < 0.03:
            mm = 0
        if abs(x).bit_length() > (CAP - 3) * W:
            x >>= 3 * W
        if mm == 0:
            if not ctx.begin("bn_mod_basic|modulus-zero", [hx(x)]):
                return
            R.bn_put(a, x)
            R.bn_put(m, 0)
            E.junk(c)
            R.call("bn_mod_basic", c, a, m)      # no modulus: outside the domain, no verdict (sanitizers only)
            ctx.ok()
            return
        exp = x % mm
        alias = rng.randrange(2)
        if not ctx.begin("bn_mod_basic|%s,%s|%s|alias%d" % (sg(x), sg(mm), "rem0" if exp == 0 else "rem", alias), [hx(x), hx(mm)], nontrivial=bool(x)):
            return
        R.bn_put(a, x)
        R.bn_put(m, mm)
        E.junk(c)
        out = a if alias else c
        r = R.call("bn_mod_basic", out, a, m)
        if ctx.check(not r.caught, ctx.cur_key + "|unexpected-error", {"err": r.err}):
            E.out_bn(out, exp, ctx.cur_key)
            E.unchanged([(a, x), (m, mm)], ctx.cur_key, (out,))

    # operand to reduce modulo mm: classes below / equal / multiple / above / long
    def reducible(mm, maxfactor_digits, signed=True):
        k = nd(mm)
        c_ = rng.randrange(10)
        if c_ == 0:
            x = rng.randrange(mm)
        elif c_ == 1:
            x = mm * rng.choice([1, 1, 2, 3, rng.randrange(1, B)])
        elif c_ == 2:
            x = mm + rng.choice([-1, 1])
        elif c_ == 3:
            x = mm * mm - rng.choice([0, 1, 2]) if 2 * k <= maxfactor_digits + k else mm
        elif c_ == 4:
            x = (1 << (2 * k * W)) - 1 - rng.randrange(3)
        elif c_ == 5:
            x = rng.choice([0, 1, 2])
        elif c_ == 6:
            x = E.mag(rng.randrange(1, 2 * k + 1))
        else:
            x = E.mag(2 * k)
        if signed and rng.random() < 0.3:
            x = -x
        return x

    # ------------------------------------------------------------------ Barrett
    def barrt():
        mm = E.modulus(MAXM)
        if rng.random() < 0.03:
            mm = rng.choice([0, -mm])
        if mm <= 0:
            if not ctx.begin("bn_mod_barrt|modulus-not-positive", [hx(mm)]):
                return
            R.bn_put(m, mm)
            E.junk(u, c)
            # "modulo a positive integer": outside the domain, no verdict (sanitizers only)
            R.call("bn_mod_pre_barrt", u, m)
            R.bn_put(a, 12345)
            R.bn_put(u, 1)
            R.call("bn_mod_barrt", c, a, m, u)
            ctx.ok()
            return
        k = nd(mm)
        x = reducible(mm, CAP)
        if rng.random() < 0.08 and 2 * k + 3 < CAP - 3:
            x = E.mag(2 * k + rng.randrange(1, 4)) * rng.choice([1, -1])      # longer than 2k digits: documented fallback
        if abs(x).bit_length() > (CAP - 3) * W:
            x >>= 3 * W
        exp = x % mm
        rel = "lt" if abs(x) < mm else ("long" if nd(x) > 2 * k else "ge")
        cls = "%s|%s|%s" % (sg(x), rel, "mult" if exp == 0 and x else "rem")
        alias = rng.randrange(2)
        if not ctx.begin("bn_mod_barrt|%s|alias%d" % (cls, alias), [hx(x), hx(mm)], nontrivial=bool(x)):
            return
        R.bn_put(a, x)
        R.bn_put(m, mm)
        E.junk(u, c)
        r = R.call("bn_mod_pre_barrt", u, m)
        if not ctx.check(not r.caught, "bn_mod_pre_barrt|pos|unexpected-error", {"err": r.err, "m": hx(mm)}):
            return
        uu = R.bn_val(u)
        out = a if alias else c
        r = R.call("bn_mod_barrt", out, a, m, u)
        if ctx.check(not r.caught, ctx.cur_key + "|unexpected-error", {"err": r.err}):
            E.out_bn(out, exp, ctx.cur_key)
            E.unchanged([(a, x), (m, mm), (u, uu)], ctx.cur_key, (out,))

    # ------------------------------------------------------------------ Montgomery
    def monty():
        mm = E.odd_modulus(MAXM)
        bad = rng.random() < 0.04
        if bad:
            mm = rng.choice([mm + 1, -mm, 0])
            if not ctx.begin("bn_mod_monty|modulus-even-or-negative", [hx(mm)]):
                return
            R.bn_put(m, mm)
            R.bn_put(a, 5)
            R.bn_put(u, 1)
            E.junk(c)
            for fn, args in (("bn_mod_pre_monty", (u, m)), ("bn_mod_monty_conv", (c, a, m)), ("bn_mod_monty_back", (c, a, m)),
                             ("bn_mod_monty_basic", (c, a, m, u)), ("bn_mod_monty_comba", (c, a, m, u))):
                r = R.call(fn, *args)
                if fn == "bn_mod_pre_monty":     # the only one whose header documents the throw; the rest: no verdict
                    ctx.check(r.caught and r.err == NV, fn + "|modulus-even-or-negative|accepted", {"caught": r.caught, "err": r.err, "m": hx(mm)})
            return
        k = nd(mm)
        Rr = 1 << (k * W)
        Rinv = pow(Rr, -1, mm)
        op = rng.choice(["conv", "back", "basic", "comba", "basic", "comba", "roundtrip", "mulred"])
        R.bn_put(m, mm)
        E.junk(u)
        r = R.call("bn_mod_pre_monty", u, m)
        uu = R.bn_val(u)
        if op == "conv":
            x = reducible(mm, CAP)
            if abs(x).bit_length() > (CAP - 3 - k) * W:
                x %= mm
            if not ctx.begin("bn_mod_monty_conv|%s|%s" % (sg(x), "lt" if abs(x) < mm else "ge"), [hx(x), hx(mm)], nontrivial=bool(x)):
                return
            ctx.check(not r.caught, "bn_mod_pre_monty|odd|unexpected-error", {"m": hx(mm)})     # the constant itself is judged through the reducers
            R.bn_put(a, x)
            E.junk(c)
            alias = rng.randrange(2)
            out = a if alias else c
            r = R.call("bn_mod_monty_conv", out, a, m)
            if ctx.check(not r.caught, ctx.cur_key + "|unexpected-error", {"err": r.err}):
                E.out_bn(out, x * Rr % mm, ctx.cur_key)
                E.unchanged([(a, x), (m, mm)], ctx.cur_key, (out,))
            return
        if op in ("back", "basic", "comba"):
            fn = {"back": "bn_mod_monty_back", "basic": "bn_mod_monty_basic", "comba": "bn_mod_monty_comba"}[op]
            c_ = rng.randrange(8)
            lim = mm * Rr
            if c_ == 0:
                x = rng.randrange(mm)
            elif c_ == 1:
                x = lim - 1 - rng.randrange(3)
            elif c_ == 2:
                x = mm * rng.randrange(0, Rr)
            elif c_ == 3:
                x = rng.choice([0, 1, mm - 1, mm, mm + 1, Rr - 1, Rr, Rr + 1])
            elif c_ == 4:
                x = (mm - 1) * (mm - 1)
            elif c_ == 5:
                x = E.mag(rng.randrange(1, 2 * k + 1))
            else:
                x = rng.randrange(lim)
            x %= lim
            if op == "back" and rng.random() < 0.6:
                x %= mm
            cls = "lt-m" if x < mm else ("lt-mR" if nd(x) < 2 * k else "full")
            if not ctx.begin("%s|%s" % (fn, cls), [hx(x), hx(mm)], nontrivial=bool(x)):
                return
            R.bn_put(a, x)
            E.junk(c)
            alias = rng.randrange(2)
            out = a if alias else c
            r = R.call(fn, out, a, m) if op == "back" else R.call(fn, out, a, m, u)
            if ctx.check(not r.caught, ctx.cur_key + "|unexpected-error", {"err": r.err}):
                E.out_bn(out, x * Rinv % mm, ctx.cur_key)
                E.unchanged([(a, x), (m, mm), (u, uu)], ctx.cur_key, (out,))
            return
        if op == "roundtrip":
            x = reducible(mm, CAP)
            if abs(x).bit_length() > (CAP - 3 - k) * W:
                x %= mm
            if not ctx.begin("bn_mod_monty|roundtrip|%s" % sg(x), [hx(x), hx(mm)], nontrivial=bool(x)):
                return
            R.bn_put(a, x)
            E.junk(c, d)
            r1 = R.call("bn_mod_monty_conv", c, a, m)
            r2 = R.call("bn_mod_monty_back", d, c, m)
            if ctx.check(not r1.caught and not r2.caught, ctx.cur_key + "|unexpected-error", None):
                E.out_bn(d, x % mm, ctx.cur_key)
            return
        # product of two Montgomery images reduced = image of the product
        x, y = rng.randrange(mm), rng.randrange(mm)
        fn = rng.choice(["bn_mod_monty_basic", "bn_mod_monty_comba"])
        if not ctx.begin("%s|product-of-images" % fn, [hx(x), hx(y), hx(mm)]):
            return
        xi, yi = x * Rr % mm, y * Rr % mm
        R.bn_put(a, xi * yi)
        E.junk(c)
        r = R.call(fn, c, a, m, u)
        if ctx.check(not r.caught, ctx.cur_key + "|unexpected-error", {"err": r.err}):
            E.out_bn(c, x * y * Rr % mm, ctx.cur_key)

    # ------------------------------------------------------------------ pseudo-Mersenne
    def pmers():
        kb = rng.choice([2, 3, 8, W - 1, W, W + 1, 2 * W, 127, 128, 130, 255, 256, 257, rng.randrange(2, MAXM * W)])
        kb = min(kb, MAXM * W)
        cc = rng.choice([1, 1, 3, 5, 19, 189, 255, rng.randrange(1, 1 << max(1, min(kb // 2, 62)))])
        mm = (1 << kb) - cc
        if mm < 2 or mm.bit_length() != kb:
            mm = (1 << kb) - 1
        if mm < 2:
            mm = 3
        kb = mm.bit_length()
        x = reducible(mm, CAP)
        if abs(x).bit_length() > (CAP - 4) * W // 2:
            x >>= abs(x).bit_length() - (CAP - 4) * W // 2
        exp = x % mm
        cls = "%s|%s|%s" % (sg(x), "lt" if abs(x) < mm else "ge", "mult" if exp == 0 and x else "rem")
        alias = rng.randrange(2)
        if not ctx.begin("bn_mod_pmers|%s|alias%d" % (cls, alias), [hx(x), hx(mm)], nontrivial=bool(x)):
            return
        R.bn_put(a, x)
        R.bn_put(m, mm)
        E.junk(u, c)
        r = R.call("bn_mod_pre_pmers", u, m)
        uu = R.bn_val(u)
        ctx.check(not r.caught and uu == (1 << kb) - mm, "bn_mod_pre_pmers|value", {"u": hx(uu or 0), "m": hx(mm)})
        out = a if alias else c
        r = R.call("bn_mod_pmers", out, a, m, u)
        if ctx.check(not r.caught, ctx.cur_key + "|unexpected-error", {"err": r.err}):
            E.out_bn(out, exp, ctx.cur_key)
            E.unchanged([(a, x), (m, mm), (u, uu)], ctx.cur_key, (out,))

    # ------------------------------------------------------------------ inverse
    def coprime_to(mm, signed=True):
        for _ in range(50):
            x = E.operand(nd(mm) + 2, signed=signed, zero_ok=False)
            if rng.random() < 0.3:
                x %= mm
            if x and math.gcd(x, mm) == 1:
                return x
        return 1

    def inv():
        mm = E.modulus(MAXM)
        if rng.random() < 0.75:
            x = coprime_to(mm)
        else:
            x = E.operand(nd(mm) + 1)
        if nd(x) + nd(mm) > CAP - 3:
            x %= mm         # cofactor * operand must fit the precision (an overflow error would be legitimate)
        g = math.gcd(x, mm)
        par = "odd" if mm & 1 else "even"
        if g != 1:
            if not ctx.begin("bn_mod_inv|non-invertible|%s" % par, [hx(x), hx(mm)]):
                return
            R.bn_put(a, x)
            R.bn_put(m, mm)
            E.junk(c)
            r = R.call("bn_mod_inv", c, a, m)
            ctx.check(r.caught, ctx.cur_key + "|accepted", {"got": hx(R.bn_val(c) or 0)})
            return
        rel = "lt" if abs(x) < mm else "ge"
        alias = rng.randrange(2)
        if not ctx.begin("bn_mod_inv|%s|%s|%s|%s|alias%d" % (R.target("bn_gcd_ext")[11:], sg(x), rel, par, alias), [hx(x), hx(mm)]):
            return
        R.bn_put(a, x)
        R.bn_put(m, mm)
        E.junk(c)
        out = a if alias else c
        r = R.call("bn_mod_inv", out, a, m)
        if ctx.check(not r.caught, ctx.cur_key + "|unexpected-error", {"err": r.err}):
            E.out_bn(out, pow(x, -1, mm), ctx.cur_key)
            E.unchanged([(a, x), (m, mm)], ctx.cur_key, (out,))

    def inv_sim():
        mm = E.modulus(MAXM // 2)
        n = rng.choice([1, 2, 3, 5, 8])
        xs = [coprime_to(mm, signed=False) % mm or 1 for _ in range(n)]
        bad = rng.random() < 0.1
        if bad:
            g = next((q for q in nt.SMALL_PRIMES[:30] if mm % q == 0), None)
            if g is None or g >= mm:
                bad = False
            else:
                xs[rng.randrange(n)] = g
        if any(math.gcd(x, mm) != 1 for x in xs):
            bad = True
        if not ctx.begin("bn_mod_inv_sim|%s|n%s" % ("non-invertible" if bad else "ok", "1" if n == 1 else ">1"), [[hx(x) for x in xs], hx(mm)]):
            return
        pa, pc = E.arr_new(n), E.arr_new(n)
        try:
            for i, x in enumerate(xs):
                R.bn_put(E.arr_at(pa, i), x)
                R.bn_put(E.arr_at(pc, i), rng.getrandbits(66))
            R.bn_put(m, mm)
            r = R.call("bn_mod_inv_sim", pc, pa, m, n)
            if bad:
                ctx.check(r.caught, ctx.cur_key + "|accepted", None)
            elif ctx.check(not r.caught, ctx.cur_key + "|unexpected-error", {"err": r.err}):
                for i, x in enumerate(xs):
                    E.out_bn(E.arr_at(pc, i), pow(x, -1, mm), ctx.cur_key)
                    E.unchanged([(E.arr_at(pa, i), x)], ctx.cur_key)
        finally:
            R.free(pa)
            R.free(pc)

    # ------------------------------------------------------------------ exponentiation
    def exponent(mm):
        c_ = rng.randrange(12)
        k = nd(mm)
        if c_ == 0:
            return 0
        if c_ == 1:
            return rng.choice([1, 2, 3])
        if c_ == 2:
            return -rng.choice([1, 2, 3, E.mag(rng.randrange(1, k + 1)) or 1])
        if c_ == 3:
            return E.mag(k + rng.randrange(1, max(2, k // 2 + 1))) or 1      # longer than the modulus
        if c_ == 4:
            return (1 << rng.randrange(1, k * W)) - rng.randrange(2)
        if c_ == 5:
            return mm - 1
        return E.mag(rng.randrange(1, k + 1)) or 1

    def bcls(x, mm):
        """base class: negative / reduced / not reduced"""
        return "neg" if x < 0 else ("lt" if x < mm else "ge")

    def ecls(ev):
        return "e0" if ev == 0 else ("e-1" if ev == -1 else ("eneg" if ev < 0 else ("e1" if ev == 1 else "e")))

    def mxp_verdict(key, out, x, ev, mm, r, ins):
        """common verdict of a^e mod m"""
        if mm > 1 and ev < 0 and math.gcd(x, mm) != 1:
            ctx.check(r.caught, key + "|accepted-non-invertible", {"got": hx(R.bn_val(out) or 0)})
            return
        if r.caught:
            # even moduli are rejected by the Montgomery configuration (DESIGN 11): accepted as an error
            ctx.check(mm % 2 == 0 and E.monty, key + "|unexpected-error", {"err": r.err})
            return
        E.out_bn(out, pow(x, ev, mm), key)
        E.unchanged(ins, key, (out,))

    def mxp():
        fn = rng.choice(["bn_mxp_basic", "bn_mxp_slide", "bn_mxp_monty", "bn_mxp"])
        mm = E.modulus(MXPM) if rng.random() < 0.8 else rng.choice([1, 2, 3, 4])
        x = E.operand(min(nd(mm) + 2, CAP // 2 - 1))
        if rng.random() < 0.5:
            x %= mm
        ev = exponent(mm)
        if E.w8 and abs(ev).bit_length() > 200:
            ev >>= abs(ev).bit_length() - 200
        mc = "m1" if mm == 1 else ("odd" if mm & 1 else "even")
        alias = rng.choice([0, 0, 1, 2, 3])      # c == a, c == b (exponent), c == m: all used inside the library
        if R.target(fn) == "bn_mxp_basic" and alias >= 2:
            # bn_mxp_basic writes c before it has finished reading b and m: c == b is a directed class below, c == m
            # (may not terminate) a directed class of the fatal part
            alias = 2 if (alias == 2 and rng.random() < 0.3) else rng.randrange(2)
        lab = fn if R.target(fn) == fn else fn + ">" + R.target(fn)[3:]
        key = "%s|%s|%s|%s|%s" % (lab, METH, bcls(x, mm), ecls(ev), "alias2" if alias == 2 else "alias013")
        if not ctx.begin(key, [hx(x), hx(ev), hx(mm)], nontrivial=bool(x)):
            return
        R.bn_put(a, x)
        R.bn_put(b, ev)
        R.bn_put(m, mm)
        E.junk(c)
        out = (c, a, b, m)[alias]
        r = R.call(fn, out, a, b, m)
        mxp_verdict(key, out, x, ev, mm, r, [(a, x), (b, ev), (m, mm)])

    def mxp_dig():
        mm = E.modulus(MXPM) if rng.random() < 0.85 else rng.choice([1, 2, 3])
        x = E.operand(min(nd(mm) + 2, CAP // 2 - 1))
        ev = rng.choice([0, 1, 2, 3, B - 1, B >> 1, rng.randrange(B), rng.randrange(B)])
        mc = "m1" if mm == 1 else ("odd" if mm & 1 else "even")
        key = "bn_mxp_dig|%s|%s|%s" % (METH, bcls(x, mm), ecls(ev))
        if not ctx.begin(key, [hx(x), hx(ev), hx(mm)], nontrivial=bool(x)):
            return
        R.bn_put(a, x)
        R.bn_put(m, mm)
        E.junk(c)
        alias = rng.randrange(2)
        out = a if alias else c
        r = R.call("bn_mxp_dig", out, a, ev, m)
        mxp_verdict(key, out, x, ev, mm, r, [(a, x), (m, mm)])

    def mxp_sim():
        fn = rng.choice(["bn_mxp_sim", "bn_mxp_sim_few", "bn_mxp_sim_few", "bn_mxp_sim_lot", "bn_mxp_sim_lot"])
        mm = E.modulus(MXPM // 2)
        if rng.random() < 0.05:
            mm = 1
        n = 2 if fn == "bn_mxp_sim" else (rng.choice([0, 1, 2, 3, 5, 8, 9]) if fn == "bn_mxp_sim_few" else rng.choice([0, 1, 2, 7, 8, 9, 10, 16, 17]))
        if E.w8 and n > 9:
            n = 9
        neg = rng.random() < 0.06
        xs, es = [], []
        for i in range(n):
            xs.append(E.operand(nd(mm) + 1) if rng.random() < 0.3 else rng.randrange(mm))
            ev = rng.choice([0, 1, 2, E.mag(rng.randrange(1, nd(mm) + 1)), E.mag(1), rng.getrandbits(rng.choice([1, 8, 64, 100]))])
            if E.w8:
                ev &= (1 << 96) - 1
            es.append(ev)
        if neg and n:
            i = rng.randrange(n)
            es[i] = -(es[i] or 1)
            xs[i] = coprime_to(mm)
        exp = 1 % mm
        ok = True
        for x, ev in zip(xs, es):
            if ev < 0 and math.gcd(x, mm) != 1:
                ok = False
            else:
                exp = exp * pow(x, ev, mm) % mm
        ncls = "n0" if n == 0 else ("n1" if n == 1 else ("n>8" if n > 8 else "n2-8"))
        mc = "m1" if mm == 1 else ("odd" if mm & 1 else "even")
        key = "%s|%s|%s|%s|%s" % (fn, METH, ncls, "eneg" if neg and n else "e", "negbase" if any(x < 0 for x in xs) else "base")
        if not ctx.begin(key, [[hx(x) for x in xs], [hx(v) for v in es], hx(mm)], nontrivial=n > 0):
            return
        R.bn_put(m, mm)
        E.junk(c)
        if fn == "bn_mxp_sim":
            R.bn_put(a, xs[0])
            R.bn_put(b, es[0])
            R.bn_put(d, xs[1])
            R.bn_put(e, es[1])
            r = R.call(fn, c, a, b, d, e, m)
        else:
            pa, pb = E.arr_new(n), E.arr_new(n)
            for i in range(n):
                R.bn_put(E.arr_at(pa, i), xs[i])
                R.bn_put(E.arr_at(pb, i), es[i])
            r = R.call(fn, c, pa, pb, m, n)
            for i in range(n):
                E.unchanged([(E.arr_at(pa, i), xs[i]), (E.arr_at(pb, i), es[i])], key)
            R.free(pa)
            R.free(pb)
        if fn == "bn_mxp_sim_few" and n > 8 and r.caught:
            ctx.ok()        # documented for up to 8 integers: a refusal is fine, a value must be right
            return
        if not ok:
            ctx.check(r.caught, key + "|accepted-non-invertible", None)
            return
        if r.caught:
            ctx.check(mm % 2 == 0 and E.monty, key + "|unexpected-error", {"err": r.err})
            return
        E.out_bn(c, exp, key)

    # ------------------------------------------------------------------ CRT exponentiation
    S = R.S
    S.vf_crt_new.restype = ctypes.c_void_p
    S.vf_crt_field.restype = ctypes.c_void_p
    S.vf_crt_field.argtypes = [ctypes.c_void_p, ctypes.c_int]
    S.vf_deref.restype = ctypes.c_void_p
    S.vf_deref.argtypes = [ctypes.c_void_p]
    crt = S.vf_crt_new()
    crtf = [S.vf_crt_field(crt, i) for i in range(6)]      # n p q dp dq qi
    crt_arg = S.vf_deref(crt)
    prime_cache = {}

    def two_primes():
        # balanced primes only: bn_mxp_crt reduces m1 - m2 modulo p by repeated addition (q >> p never finishes,
        # see the directed case of the fatal part)
        bits = rng.choice([16, 32, 48, 64] if E.w8 else [16, 32, 64, 65, 128, 192, 256])
        cache = prime_cache.setdefault(bits, [])
        if len(cache) < 4 or rng.random() < 0.2:
            cache.append(nt.rand_prime(rng, bits))
            cache.append(nt.rand_prime(rng, bits + rng.choice([0, 0, 1, 3])))
        while True:
            p, q = rng.sample(cache, 2)
            if p != q and p > 2 and q > 2:
                return p, q

    def mxp_crt():
        p, q = two_primes()
        n = p * q
        sqr = rng.random() < 0.4
        if sqr and R.target("bn_mxp") == "bn_mxp_basic":
            sqr = False     # bn_mxp(t, a, b, t) inside: c == m on bn_mxp_basic (directed class of the fatal part)
        if not sqr:
            x = rng.choice([0, 1, 2, n - 1, rng.randrange(n * n), rng.randrange(n)])
            base = rng.choice([0, 1, n - 1, rng.randrange(n), rng.randrange(n), p, q * 3 % n])
            exp = pow(base, x, n)
            vals = [n, p, q, x % (p - 1), x % (q - 1), pow(q, -1, p)]
            eb, ec = x % (p - 1), x % (q - 1)
            key = "bn_mxp_crt|%s|mod-n|%s" % (R.target("bn_mxp"), "base-shares-factor" if math.gcd(base, n) != 1 else "unit")
        else:
            g = n + 1
            msg = rng.choice([0, 1, 2, n - 1, rng.randrange(n)])
            rr = rng.randrange(1, n)
            while math.gcd(rr, n) != 1:
                rr = rng.randrange(1, n)
            base = (1 + msg * n) * pow(rr, n, n * n) % (n * n)
            hp = pow((pow(g, p - 1, p * p) - 1) // p, -1, p)
            hq = pow((pow(g, q - 1, q * q) - 1) // q, -1, q)
            vals = [n, p, q, hp, hq, pow(q, -1, p)]
            eb, ec = p - 1, q - 1
            exp = msg
            key = "bn_mxp_crt|%s|mod-n^2|paillier" % R.target("bn_mxp")
        if not ctx.begin(key, [hx(base), hx(eb), hx(ec), hx(p), hx(q), int(sqr)]):
            return
        for ptr, v in zip(crtf, vals):
            R.bn_put(ptr, v)
        R.bn_put(a, base)
        R.bn_put(b, eb)
        R.bn_put(c, ec)
        E.junk(d)
        r = R.call("bn_mxp_crt", d, a, b, c, crt_arg, int(sqr))
        if ctx.check(not r.caught, key + "|unexpected-error", {"err": r.err}):
            E.out_bn(d, exp, key)
            E.unchanged([(a, base), (b, eb), (c, ec)] + list(zip(crtf, vals)), key)

    ops = ([mod_2b] * 3 + [mod_basic] * 3 + [barrt] * 8 + [monty] * 8 + [pmers] * 4 + [inv] * 4 + [inv_sim] + [mxp] * 7 + [mxp_dig] * 2 +
           [mxp_sim] * 3 + [mxp_crt])
    N = ctx.n(1500 if E.w8 else 3200, 60000)
    for _ in range(N):
        E.newpoison()
        guard(ctx, rng.choice(ops))


# =============================================================================================== part "num"
def fib_pair(rng, maxbits):
    n = rng.randrange(2, int(maxbits / 0.6942) - 1)
    x, y = 0, 1
    for _ in range(n):
        x, y = y, x + y
    return y, x          # F(n+1), F(n)


def run_num(E):
    ctx, R, rng, W, B, CAP, K = E.ctx, E.R, E.rng, E.W, E.B, E.CAP, E.K
    a, b, c, d, e, f, m, t0, t1, t2 = E.pool
    MAXD = 40 if E.w8 else 14
    dig = R.mem(8, 0)
    primes = [3, 5, 7, 11, 13, 251, 257, 65537, (1 << 31) - 1, (1 << 61) - 1, (1 << 89) - 1, (1 << 127) - 1,
              (1 << 255) - 19, 2 ** 256 - 2 ** 224 + 2 ** 192 + 2 ** 96 - 1]
    for bits in (8, 16, 32, 33, 63, 64, 65, 128, 129, 192, 256) + (() if E.w8 else (384, 521)):
        primes.append(nt.rand_prime(rng, bits))

    def gcd_pair():
        """pairs that drive Euclid / Lehmer / binary gcd into their corners"""
        c_ = rng.randrange(12)
        mb = MAXD * W
        if c_ == 0:
            x, y = fib_pair(rng, mb)
        elif c_ == 1:       # equal leading digits
            k = rng.randrange(1, MAXD)
            h = E.mag(rng.randrange(1, MAXD - k + 1)) or 1
            x, y = (h << (k * W)) | E.mag(k), (h << (k * W)) | E.mag(k)
        elif c_ == 2:       # huge quotient at some step (single-precision approximation fails, full division step)
            y = E.mag(rng.randrange(1, MAXD // 2 + 1)) or 1
            q = E.mag(rng.randrange(1, 3)) | (1 << (W - 1))
            x = y * q + rng.randrange(y)
        elif c_ == 3:       # large common factor
            g = E.mag(rng.randrange(1, MAXD // 2 + 1)) or 1
            x, y = g * (E.mag(rng.randrange(1, MAXD // 2)) or 1), g * (E.mag(rng.randrange(1, MAXD // 2)) or 1)
        elif c_ == 4:
            x = E.mag(E.ndig(MAXD)) or 1
            y = x + rng.choice([-1, 0, 1])
        elif c_ == 5:       # powers of two and multiples
            x = (E.mag(2) | 1) << rng.randrange(0, 3 * W)
            y = (E.mag(2) | 1) << rng.randrange(0, 3 * W)
        elif c_ == 6:
            y = E.mag(E.ndig(MAXD // 2)) or 1
            x = y * (E.mag(rng.randrange(1, 3)) or 1)
        elif c_ == 7:
            x, y = E.operand(MAXD, signed=False), rng.choice([0, 1, 2, B - 1, B, B + 1])
        elif c_ == 8:       # continued fraction with chosen partial quotients (many large quotients)
            x, y = 1, 0
            for _ in range(rng.randrange(2, 30)):
                q = rng.choice([1, 1, 2, B - 1, B >> 1, (1 << (W // 2)) - 1, 1 << (W // 2), rng.randrange(1, B)])
                x, y = q * x + y, x
                if x.bit_length() > mb - W:
                    break
        else:
            x, y = E.operand(MAXD, signed=False), E.operand(MAXD, signed=False)
        if rng.random() < 0.5:
            x, y = y, x
        if rng.random() < 0.25:
            x = -x
        if rng.random() < 0.25:
            y = -y
        return x, y

    def rel(x, y):
        return "lt" if abs(x) < abs(y) else ("eq" if abs(x) == abs(y) else "gt")

    def sgn2(x, y):
        """sign class of an operand pair: a negative operand present / zero present / both positive"""
        return "neg" if x < 0 or y < 0 else ("zero" if x == 0 or y == 0 else "pos")

    def gcd():
        fn = rng.choice(["bn_gcd_basic", "bn_gcd_lehme", "bn_gcd_binar", "bn_gcd"])
        x, y = gcd_pair()
        alias = rng.randrange(3)
        if not ctx.begin("%s|%s|%s|alias%d" % (fn, sgn2(x, y), rel(x, y), alias), [hx(x), hx(y)], nontrivial=bool(x or y)):
            return
        R.bn_put(a, x)
        R.bn_put(b, y)
        E.junk(c)
        out = (c, a, b)[alias]
        r = R.call(fn, out, a, b)
        if ctx.check(not r.caught, ctx.cur_key + "|unexpected-error", {"err": r.err}):
            E.out_bn(out, math.gcd(x, y), ctx.cur_key)
            E.unchanged([(a, x), (b, y)], ctx.cur_key, (out,))

    def gcd_dig():
        x = E.operand(MAXD)
        dg = E.pat()
        if not ctx.begin("bn_gcd_dig|%s|%s" % (sg(x), "d0" if dg == 0 else "d"), [hx(x), hx(dg)], nontrivial=bool(x or dg)):
            return
        R.bn_put(a, x)
        E.junk(c)
        alias = rng.randrange(2)
        out = a if alias else c
        r = R.call("bn_gcd_dig", out, a, dg)
        if ctx.check(not r.caught, ctx.cur_key + "|unexpected-error", {"err": r.err}):
            E.out_bn(out, math.gcd(x, dg), ctx.cur_key)

    def gcd_ext():
        fn = rng.choice(["bn_gcd_ext_basic", "bn_gcd_ext_lehme", "bn_gcd_ext_binar", "bn_gcd_ext"])
        x, y = gcd_pair()
        enull = rng.random() < 0.15
        # alias patterns used inside the library: d == a (bn_mod_inv(c, c, m)); 0 = none
        alias = rng.choice([0, 0, 0, 1, 2])      # 1: d == a, 2: e == b
        if enull:
            alias = 0
        unit = "|bdiv" if y and x % y == 0 else ""        # b divides a (includes b = +-1 and |a| = |b|)
        lab = fn if R.target(fn) == fn else fn + ">" + R.target(fn)[11:]
        key = "%s|%s%s|%s" % (lab, sgn2(x, y), unit, "e-null" if enull else "alias%d" % alias)
        if not ctx.begin(key, [hx(x), hx(y)], nontrivial=bool(x or y)):
            return
        R.bn_put(a, x)
        R.bn_put(b, y)
        E.junk(c, d, e)
        pd = a if alias == 1 else d
        pe = 0 if enull else (b if alias == 2 else e)
        r = R.call(fn, c, pd, pe, a, b)
        if not ctx.check(not r.caught, key + "|unexpected-error", {"err": r.err}):
            return
        g = math.gcd(x, y)
        E.out_bn(c, g, key, "gcd")
        dv = R.bn_get(pd)
        ctx.check(dv[3], key + "|normal-form", {"d": repr(dv)})
        if enull:
            okb = dv[0] is not None and ((g - dv[0] * x) % y == 0 if y else dv[0] * x == g)
            ctx.check(okb, key + "|bezout", {"g": hx(g), "d": hx(dv[0] or 0)})
        else:
            ev = R.bn_get(pe)
            ctx.check(ev[3], key + "|normal-form", {"e": repr(ev)})
            okb = dv[0] is not None and ev[0] is not None and dv[0] * x + ev[0] * y == g
            ctx.check(okb, key + "|bezout", {"g": hx(g), "d": hx(dv[0] or 0), "e": hx(ev[0] or 0)})
        E.unchanged([(a, x), (b, y)], key, (pd, pe))

    def gcd_ext_dig():
        x = E.operand(MAXD)
        dg = E.pat()
        enull = rng.random() < 0.15
        key = "bn_gcd_ext_dig|%s|%s|%s" % (sg(x), "d0" if dg == 0 else ("d1" if dg == 1 else "d"), "e-null" if enull else "e")
        if not ctx.begin(key, [hx(x), hx(dg)], nontrivial=bool(x or dg)):
            return
        R.bn_put(a, x)
        E.junk(c, d, e)
        r = R.call("bn_gcd_ext_dig", c, d, 0 if enull else e, a, dg)
        if not ctx.check(not r.caught, key + "|unexpected-error", {"err": r.err}):
            return
        g = math.gcd(x, dg)
        E.out_bn(c, g, key, "gcd")
        dv = R.bn_val(d)
        if enull:
            ctx.check(dv is not None and ((g - dv * x) % dg == 0 if dg else dv * x == g), key + "|bezout", {"d": hx(dv or 0)})
        else:
            ev = R.bn_val(e)
            ctx.check(dv is not None and ev is not None and dv * x + ev * dg == g, key + "|bezout", {"g": hx(g), "d": hx(dv or 0), "e": hx(ev or 0)})
        E.unchanged([(a, x)], key)

    def gcd_ext_mid():
        # documented use: short lattice vectors for k = k0 + k1*a (mod b): coprime a < b, b > 1
        while True:
            y = E.mag(rng.choice([1, 2, 2, 3, 4, 4, min(8, MAXD)])) | 1
            if rng.random() < 0.4:
                y = rng.choice(primes)
            x = rng.randrange(2, y) if y > 3 else 2
            if rng.random() < 0.2:
                x = rng.choice([2, 3, y - 1, y - 2, math.isqrt(y), math.isqrt(y) + 1]) % y
            if x > 1 and y > 4 and math.gcd(x, y) == 1:
                break
        swap = rng.random() < 0.3
        # x < sqrt(y): the remainder sequence is below sqrt(y) after the first division step already
        key = "bn_gcd_ext_mid|coprime|%s|%s" % ("a>b" if swap else "a<b", "min<sqrt(max)" if x * x < y else "min>=sqrt(max)")
        if not ctx.begin(key, [hx(x), hx(y)]):
            return
        R.bn_put(a, y if swap else x)
        R.bn_put(b, x if swap else y)
        SENT = (1 << 69) + 12345
        for p in (c, d, e, f):
            R.bn_put(p, SENT)
        r = R.call("bn_gcd_ext_mid", c, d, e, f, a, b)
        if not ctx.check(not r.caught, key + "|unexpected-error", {"err": r.err}):
            return
        v = [R.bn_get(p) for p in (c, d, e, f)]
        if not ctx.check(all(q[0] is not None and q[3] for q in v), key + "|normal-form", repr(v)):
            return
        cv, dv, ev, fv = [q[0] for q in v]
        ctx.check(SENT not in (cv, dv, ev, fv), key + "|output-not-written", [hx(q) for q in (cv, dv, ev, fv)])
        det = {"c": hx(cv), "d": hx(dv), "e": hx(ev), "f": hx(fv)}
        # both vectors lie in the lattice {(s, t): s + t*x = 0 mod y} (v2 up to the documented sign of its first entry)
        ctx.check((cv + dv * x) % y == 0, key + "|v1-not-in-lattice", det)
        ctx.check((ev + fv * x) % y == 0 or (-ev + fv * x) % y == 0, key + "|v2-not-in-lattice", det)
        # they form a basis of it (|det| = y) and one of them is short (entries at most 2*sqrt(y): a shortest lattice
        # vector has max-norm <= 1.08*sqrt(y)); order and choice of the second vector are left to the algorithm
        ctx.check(abs(cv * fv - dv * ev) == y, key + "|not-a-basis", det)
        s = math.isqrt(y) + 1
        ctx.check(min(max(abs(cv), abs(dv)), max(abs(ev), abs(fv))) <= 2 * s, key + "|no-short-vector", det)
        E.unchanged([(a, y if swap else x), (b, x if swap else y)], key)

    def lcm():
        x, y = gcd_pair()
        while (abs(x).bit_length() + abs(y).bit_length()) > (CAP - 2) * W:
            x >>= W
            y >>= W
        zz = "|both-zero" if x == 0 and y == 0 else ""
        alias = rng.randrange(3)
        key = "bn_lcm|%s%s|alias%d" % (sgn2(x, y), zz, alias)
        if not ctx.begin(key, [hx(x), hx(y)], nontrivial=bool(x or y)):
            return
        R.bn_put(a, x)
        R.bn_put(b, y)
        E.junk(c)
        out = (c, a, b)[alias]
        r = R.call("bn_lcm", out, a, b)
        if ctx.check(not r.caught, key + "|unexpected-error", {"err": r.err}):
            g = math.gcd(x, y)
            E.out_bn(out, abs(x * y) // g if g else 0, key)
            E.unchanged([(a, x), (b, y)], key, (out,))

    def symbol_arg(n):
        c_ = rng.randrange(10)
        if c_ == 0:
            x = rng.choice([0, 1, 2, 3, n - 1, n, n + 1, 2 * n, n * n])
        elif c_ == 1:
            x = n * (E.mag(2) or 1)
        elif c_ == 2:
            x = E.mag(rng.randrange(1, 4))
            x = x * x % n
        elif c_ == 3:
            x = E.operand(min(MAXD, max(1, n.bit_length() // W + 2)), signed=False)
        else:
            x = rng.randrange(n) if n > 1 else 0
        if rng.random() < 0.25:
            x = -x
        return x

    def smb_leg():
        p = rng.choice(primes)
        x = symbol_arg(p)
        key = "bn_smb_leg|%s|%s|%s" % (R.target("bn_mxp")[3:], sg(x), "lt" if abs(x) < p else "ge")
        if not ctx.begin(key, [hx(x), hx(p)], nontrivial=bool(x)):
            return
        R.bn_put(a, x)
        R.bn_put(b, p)
        r = R.call("bn_smb_leg", a, b)
        if ctx.check(not r.caught, key + "|unexpected-error", {"err": r.err}):
            ctx.check(r.i == nt.jacobi(x, p), key + "|value", {"got": r.i, "exp": nt.jacobi(x, p)})
            E.unchanged([(a, x), (b, p)], key)

    def smb_jac():
        c_ = rng.randrange(8)
        if c_ == 0:
            n = rng.choice(primes)
        elif c_ == 1:
            n = rng.choice(primes) * rng.choice(primes)
        elif c_ == 2:
            n = rng.choice([1, 3, 9, 15, 21, 25, 27, 45, 255, 257, B - 1, B + 1, (B >> 1) + 1])
        elif c_ == 3:
            n = (E.mag(rng.randrange(1, 4)) | 1) ** 2
        else:
            n = E.odd_modulus(MAXD)
        bad = rng.random() < 0.04
        if bad:
            n = rng.choice([n + 1, -n, 0])
            if not ctx.begin("bn_smb_jac|modulus-even-or-negative", [hx(n)]):
                return
            R.bn_put(a, 5)
            R.bn_put(b, n)
            r = R.call("bn_smb_jac", a, b)
            ctx.check(r.caught, ctx.cur_key + "|accepted", {"ret": r.i})
            return
        x = symbol_arg(n)
        exp = nt.jacobi(x, n)
        key = "bn_smb_jac|w%d|%s|%s|%s" % (W, sg(x), "lt" if abs(x) < n else "ge", "n1" if n == 1 else ("1digit" if n < B else "multi"))
        if not ctx.begin(key, [hx(x), hx(n)], nontrivial=bool(x)):
            return
        R.bn_put(a, x)
        R.bn_put(b, n)
        r = R.call("bn_smb_jac", a, b)
        if ctx.check(not r.caught, key + "|unexpected-error", {"err": r.err}):
            ctx.check(r.i == exp, key + "|value", {"got": r.i, "exp": exp})
            E.unchanged([(a, x), (b, n)], key)

    def srt():
        c_ = rng.randrange(8)
        if c_ == 0:
            x = rng.choice([0, 1, 2, 3, 4, 8, 9, 15, 16, 17, B - 1, B, B * B - 1, B * B])
        elif c_ in (1, 2):
            r0 = E.mag(E.ndig(MAXD // 2)) or 1
            x = r0 * r0 + rng.choice([-1, 0, 0, 1, 2 * r0, 2 * r0 - 1])
        elif c_ == 3:
            k = rng.randrange(1, MAXD * W)
            x = (1 << k) - rng.randrange(2)
        else:
            x = E.operand(MAXD, signed=False)
        if rng.random() < 0.05:
            x = -abs(x) - 1
        if x < 0:
            if not ctx.begin("bn_srt|neg", [hx(x)]):
                return
            R.bn_put(a, x)
            E.junk(c)
            r = R.call("bn_srt", c, a)
            ctx.check(r.caught, ctx.cur_key + "|accepted", None)
            return
        s = math.isqrt(x)
        alias = rng.randrange(2)
        key = "bn_srt|%s|%s|alias%d" % ("zero" if x == 0 else "pos", "square" if s * s == x else "nonsquare", alias)
        if not ctx.begin(key, [hx(x)], nontrivial=bool(x)):
            return
        R.bn_put(a, x)
        E.junk(c)
        out = a if alias else c
        r = R.call("bn_srt", out, a)
        if ctx.check(not r.caught, key + "|unexpected-error", {"err": r.err}):
            E.out_bn(out, s, key)
            E.unchanged([(a, x)], key, (out,))

    def poly_mul_root(poly, r0, q):
        """(x - r0) * poly mod q, coefficients low to high"""
        out = [0] * (len(poly) + 1)
        for i, cf in enumerate(poly):
            out[i + 1] = (out[i + 1] + cf) % q
            out[i] = (out[i] - r0 * cf) % q
        return out

    def lag():
        q = rng.choice(primes) if rng.random() < 0.7 else E.modulus(min(MAXD, 8))
        n = rng.choice([0, 1, 1, 2, 3, 4, 5, 8])
        roots = []
        for _ in range(n):
            roots.append(rng.choice([0, 1, q - 1, rng.randrange(q), rng.randrange(q), rng.randrange(min(q, 50))]))
        if n and rng.random() < 0.3:
            roots[rng.randrange(n)] = roots[0]          # repeated root
        zc = "|root0-zero" if n == 1 and roots[0] == 0 else ""
        key = "bn_lag|n%s%s" % ("0" if n == 0 else ("1" if n == 1 else ">1"), zc)
        if not ctx.begin(key, [[hx(x) for x in roots], hx(q)], nontrivial=n > 0):
            return
        pa, pc = E.arr_new(n), E.arr_new(n + 1)
        try:
            for i, x in enumerate(roots):
                R.bn_put(E.arr_at(pa, i), x)
            for i in range(n + 1):
                R.bn_put(E.arr_at(pc, i), rng.getrandbits(66) | 1)
            R.bn_put(m, q)
            r = R.call("bn_lag", pc, pa, m, n)
            if not ctx.check(not r.caught, key + "|unexpected-error", {"err": r.err}):
                return
            poly = [1 % q]
            for x in roots:
                poly = poly_mul_root(poly, x, q)
            got = [R.bn_get(E.arr_at(pc, i)) for i in range(n + 1)]
            vals = [g[0] for g in got]
            ctx.check(all(v is not None and v % q == ex for v, ex in zip(vals, poly)), key + "|value",
                      {"got": [hx(v or 0) for v in vals], "exp": [hx(v) for v in poly]})
            ctx.check(all(v is not None and 0 <= v < q and g[3] for v, g in zip(vals, got)), key + "|not-reduced",
                      {"got": [hx(v or 0) for v in vals], "q": hx(q)})
            for i, x in enumerate(roots):
                E.unchanged([(E.arr_at(pa, i), x)], key)
            # bn_evl on the coefficients just produced: every root evaluates to zero (n+1 coefficients, count = n+1)
            if n and all(v is not None for v in vals):
                x = rng.choice(roots)
                R.bn_put(a, x)
                E.junk(c)
                r = R.call("bn_evl", c, pc, a, m, n + 1)
                if ctx.check(not r.caught, "bn_evl|root-of-lag|unexpected-error", {"err": r.err}):
                    ctx.check(R.bn_val(c) == 0, "bn_evl|root-of-lag|value", {"got": hx(R.bn_val(c) or 0), "root": hx(x)})
        finally:
            R.free(pa)
            R.free(pc)

    def evl():
        q = rng.choice(primes) if rng.random() < 0.7 else E.modulus(min(MAXD, 8))
        n = rng.choice([0, 1, 2, 3, 4, 8])
        cf = [rng.choice([0, 1, q - 1, rng.randrange(q), rng.randrange(q)]) for _ in range(n + 1)]
        x = rng.choice([0, 1, q - 1, rng.randrange(q), rng.randrange(q)])
        # n is the number of coefficients a[0..n-1] (the code and every in-tree caller, mpc_sss_gen); the header comment
        # speaks of degree n with n + 1 coefficients - recorded as a documentation discrepancy, not judged
        code = sum(v * pow(x, j, q) for j, v in enumerate(cf[:n])) % q
        key = "bn_evl|n%s" % ("0" if n == 0 else ">0")
        if not ctx.begin(key, [[hx(v) for v in cf], hx(x), hx(q), n], nontrivial=True):
            return
        pa = E.arr_new(n + 1)
        try:
            for i, v in enumerate(cf):
                R.bn_put(E.arr_at(pa, i), v)
            R.bn_put(a, x)
            R.bn_put(m, q)
            E.junk(c)
            r = R.call("bn_evl", c, pa, a, m, n)
            if not ctx.check(not r.caught, key + "|unexpected-error", {"err": r.err}):
                return
            got = R.bn_get(c)
            ctx.check(got[0] == code, key + "|value", {"got": hx(got[0] or 0), "exp": hx(code), "n": n})
            ctx.check(got[3], key + "|normal-form", repr(got))
        finally:
            R.free(pa)

    ctx.note("bn_evl_header_discrepancy", "relic_bn.h documents n as the degree with n + 1 coefficients; the code and its callers use "
             "n coefficients a[0..n-1]; the oracle follows the code")
    ops = ([gcd] * 6 + [gcd_dig] + [gcd_ext] * 8 + [gcd_ext_dig] * 2 + [gcd_ext_mid] * 3 + [lcm] * 2 + [smb_leg] * 2 + [smb_jac] * 5 +
           [srt] * 3 + [lag] * 2 + [evl] * 2)
    N = ctx.n(1500 if E.w8 else 3500, 70000)
    for _ in range(N):
        E.newpoison()
        guard(ctx, rng.choice(ops))


# =============================================================================================== part "prime"
def instantiate_from(R, seed):
    R.wr_int(R.ctx_field("seeded"), 0)
    sd = R.put(seed)
    R.call("rand_seed", sd, len(seed))
    R.free(sd)


def first_prime_from_seed(R, seed, bits, obj):
    """the prime bn_gen_prime(bits) returns when the generator has just been instantiated with seed - asked from the
    library itself (used only to steer around inputs that starve bn_gen_prime_factor)"""
    instantiate_from(R, seed)
    r = R.call("bn_gen_prime", obj, bits)
    return None if r.caught else R.bn_val(obj)


def factor_candidates(av, abits, bbits):
    """number of multipliers u in [2^(g-1), 2^g), g = bbits - abits, for which av*u + 1 has exactly bbits bits"""
    t = 1 << (bbits - abits - 1)
    umin = max(t, -(-((1 << (bbits - 1)) - 1) // av))
    return max(0, 2 * t - umin)


_COMPOSITES = None


def composites():
    global _COMPOSITES
    if _COMPOSITES is None:
        nt.selftest()
        _COMPOSITES = nt.build_composites()
    return _COMPOSITES


def run_prime(E):
    ctx, R, rng, W, B, CAP, K = E.ctx, E.R, E.rng, E.W, E.B, E.CAP, E.K
    a, b, c = E.pool[:3]
    comps = [(n, "spsp-psi" if tg.startswith("spsp-first") else ("p(2p-1)" if tg.startswith("p(2p-1)") else tg)) for n, tg in composites()]
    ctx.note("hostile_composites", {t: sum(1 for _, tg in comps if tg == t) for t in sorted(set(tg for _, tg in comps))})
    big = 260 if E.w8 else 1100                      # bit limit for the expensive tests in the quick tier
    sol_big = 140 if E.w8 else 600

    plist = list(nt.SMALL_PRIMES[:70]) + [211, 223, 227, 229, 251, 257, 3671, 3673, 3677, 65537]
    plist += [(1 << k) - 1 for k in (13, 17, 19, 31, 61, 89, 107, 127, 521)]
    plist += [(1 << 255) - 19, 2 ** 256 - 2 ** 224 + 2 ** 192 + 2 ** 96 - 1, 2 ** 256 - 2 ** 32 - 977]
    for bits in (9, 12, 16, 31, 32, 33, 63, 64, 65, 100, 128, 192, 256, 384, 512, 768, 1024):
        plist.append(nt.rand_prime(rng, bits))
    plist = [p for p in plist if p.bit_length() <= big]

    def candidate():
        c_ = rng.randrange(10)
        if c_ < 3:
            return rng.choice(plist), "prime"
        if c_ < 6:
            n, tag = rng.choice(comps)
            return n, tag
        if c_ == 6:
            return rng.choice([0, 1, 2, 3, 4, 5, 6, 8, 9, 15, 21, 25, 27, 49, 255, 256, 341, 645]), "tiny"
        if c_ == 7:       # product of two primes just above the trial-division table
            p, q = rng.sample([3673, 3677, 3691, 3697, 3701, 3709, 3719, 3727] if not E.w8 else [227, 229, 233, 239, 241, 251, 257, 263], 2)
            return p * q, "no-small-factor"
        if c_ == 8:
            return (rng.getrandbits(rng.choice([16, 32, 64, 128, 256])) | 1) + 2, "random-odd"
        return -rng.choice(plist[:40] + [1, 4, 9]), "negative"

    def is_prime():
        n, tag = candidate()
        if n.bit_length() > big:
            n, tag = rng.choice(plist[:80]), "prime"
        truth = nt.is_prime(n, rng) if n > 0 else False
        if tag not in ("tiny", "negative", "random-odd"):
            assert truth == (tag == "prime"), (n, tag)
        fn = rng.choice(["bn_is_prime", "bn_is_prime_basic", "bn_is_prime_rabin", "bn_is_prime_solov"])
        cls = tag if tag != "random-odd" else ("random-prime" if truth else "random-composite")
        if tag == "tiny":
            cls = "tiny-prime" if truth else "tiny-composite"
        if fn == "bn_is_prime_solov":
            # every integer is judged strictly (since 20ec48f: 0 for a <= 1 and even a, 1 for 2 and 3, no error raised)
            if n > 2 and n % 2 == 0:
                cls = "even"
            if n.bit_length() > sol_big:
                return
        if fn == "bn_is_prime_rabin" and n < 0:
            cls = "negative"
        key = "%s|%s" % (fn if fn != "bn_is_prime_solov" else fn + "|w%d,%s" % (W, R.target("bn_mxp")[3:]), cls)
        if not ctx.begin(key, [hx(n), tag], nontrivial=n > 3):
            return
        R.bn_put(a, n)
        r = R.call(fn, a)
        E.unchanged([(a, n)], key)
        if not ctx.check(not r.caught, key + "|unexpected-error", {"err": r.err, "ret": r.i}):
            return
        if fn == "bn_is_prime_basic":
            # trial division: must accept every prime and reject whatever has a factor in its table
            if truth:
                ctx.check(r.i == 1, key + "|rejected-prime", {"ret": r.i})
            else:
                # which divisors are tried is the implementation's choice: only 0 and 1 must be rejected outright
                if n in (0, 1):
                    ctx.check(r.i == 0, key + "|accepted-composite", {"ret": r.i})
                else:
                    ctx.check(r.i in (0, 1), key + "|return-value", {"ret": r.i})
                    ctx.add("bn_is_prime_basic_composites_%s" % ("rejected" if r.i == 0 else "passed_on"), 1)
            return
        if truth:
            ctx.check(r.i == 1, key + "|rejected-prime", {"ret": r.i})
        else:
            ctx.check(r.i == 0, key + "|accepted-composite", {"ret": r.i})

    def reseed():
        sd = R.put(rng.getrandbits(256).to_bytes(32, "big"))
        R.call("rand_seed", sd, 32)
        R.free(sd)

    def gen_prime():
        fn = rng.choice(["bn_gen_prime_basic", "bn_gen_prime_basic", "bn_gen_prime_safep", "bn_gen_prime_stron", "bn_gen_prime"])
        if fn in ("bn_gen_prime_basic", "bn_gen_prime"):
            bits = rng.choice([2, 3, 4, 5, 8, 16, 31, 32, 33, 63, 64, 65, 96] + ([] if E.w8 else [128, 160, 256]))
        elif fn == "bn_gen_prime_safep":
            bits = rng.choice([3, 4, 5, 8, 12, 16, 24, 32] + ([] if E.w8 else [40, 48]))
        else:
            # s and t are drawn with bits/2 - digit/2 bits: the smallest sizes that leave room for them
            bits = rng.choice([24, 32, 40, 48] if E.w8 else [96, 112, 128])
        key = "%s|bits%s" % (fn, ("=%d" % bits) if bits <= 8 else ("<=64" if bits <= 64 else ">64"))
        if not ctx.begin(key, [bits], budget=120):
            return
        reseed()
        E.junk(a)
        r = R.call(fn, a, bits)
        if not ctx.check(not r.caught, key + "|unexpected-error", {"err": r.err}):
            return
        v, used, sign, normal = R.bn_get(a)
        det = {"bits": bits, "got": hx(v or 0)}
        ctx.check(normal and v is not None and v > 0, key + "|normal-form", det)
        if v is None:
            return
        ctx.check(nt.is_prime(v, rng), key + "|composite", det)
        ctx.check(v.bit_length() == bits, key + "|bit-length", det)
        if fn == "bn_gen_prime_safep":
            ctx.check(nt.is_prime((v - 1) // 2, rng), key + "|not-safe", det)
        if fn == "bn_gen_prime_stron" and bits <= 48 and nt.is_prime(v, rng):
            # Gordon's structure, as evidence (the header's "(a-1)/2, (a+1)/2 prime" cannot hold for any a > 5)
            fm = max(nt.factor_small(v - 1, rng))
            fp = max(nt.factor_small(v + 1, rng))
            ctx.add("stron_cases", 1)
            ctx.add("stron_largest_factor_bits_of_p-1_sum", fm.bit_length())
            ctx.add("stron_largest_factor_bits_of_p+1_sum", fp.bit_length())
            ctx.add("stron_requested_bits_sum", bits)

    def gen_factor():
        abits = rng.choice([8, 12, 16] if E.w8 else [8, 16, 32, 64])
        bbits = abits + rng.choice([16, 24, 32] if E.w8 else [16, 32, 64])
        key = "bn_gen_prime_factor|ok"
        bad = rng.random() < 0.1
        if bad:
            bbits = rng.choice([abits, abits - 1])
            key = "bn_gen_prime_factor|bbits<=abits"
        seed = rng.getrandbits(256).to_bytes(32, "big")
        if not bad:
            # the routine draws the prime a once and then looks for u with a*u + 1 prime of exactly bbits bits; when a is
            # at the bottom of its range (almost) no u qualifies and the call never returns (directed class of the fatal
            # part).  Draw around that predicate: ask the library itself which prime the generator yields first from
            # this seed (no model of how primes are sampled); if the routine draws differently this is only a heuristic
            apred = first_prime_from_seed(R, seed, abits, a)
            if apred is None or factor_candidates(apred, abits, bbits) < 40 * bbits:
                ctx.add("bn_gen_prime_factor_starved_inputs_avoided", 1)
                return
        if not ctx.begin(key, [abits, bbits, seed.hex()], budget=60):
            return
        instantiate_from(R, seed)
        E.junk(a, b)
        r = R.call("bn_gen_prime_factor", a, b, abits, bbits)
        if bad:
            ctx.check(r.i == K["RLC_ERR"] or r.caught, key + "|accepted", {"ret": r.i})
            return
        if not ctx.check(not r.caught and r.i == K["RLC_OK"], key + "|unexpected-error", {"err": r.err, "ret": r.i}):
            return
        va, vb = R.bn_val(a), R.bn_val(b)
        det = {"a": hx(va or 0), "b": hx(vb or 0), "abits": abits, "bbits": bbits}
        ctx.check(va is not None and nt.is_prime(va, rng) and va.bit_length() == abits, key + "|factor", det)
        ctx.check(vb is not None and nt.is_prime(vb, rng) and vb.bit_length() == bbits, key + "|prime", det)
        ctx.check(va and vb and (vb - 1) % va == 0, key + "|divisibility", det)

    def factor():
        # Pollard p-1 with a fixed bound: may or may not find a factor; whatever it returns must be one
        c_ = rng.randrange(5)
        if c_ == 0:
            n = rng.choice(comps)[0]
        elif c_ == 1:
            n = rng.choice(plist)
        elif c_ == 2:
            n = rng.choice([257, 241, 211, 181, 163]) * nt.rand_prime(rng, 24 if E.w8 else 48)      # p - 1 smooth
        elif c_ == 3:
            n = 2 * (rng.getrandbits(40) + 2)
        else:
            n = (rng.getrandbits(48) | 1) + 2
        if n.bit_length() > (64 if E.w8 else 130):
            n = 1729 * 2047
        even = n % 2 == 0
        key = "bn_factor|%s" % ("even" if even else ("prime" if nt.is_prime(n, rng) else "odd-composite"))
        if not ctx.begin(key, [hx(n)], budget=120):
            return
        R.bn_put(a, n)
        E.junk(c)
        r = R.call("bn_factor", c, a)
        if not ctx.check(not r.caught, key + "|unexpected-error", {"err": r.err}):
            return
        v = R.bn_val(c)
        if r.i == 1:
            ctx.check(v is not None and v > 1 and n % v == 0 and (v < n or even), key + "|not-a-factor", {"n": hx(n), "c": hx(v or 0)})
            ctx.add("bn_factor_found", 1)
        else:
            ctx.check(r.i == 0, key + "|return-value", {"ret": r.i})
            ctx.add("bn_factor_not_found", 1)
        E.unchanged([(a, n)], key)

    def is_factor():
        x = E.operand(6)
        y = E.operand(3, zero_ok=False)
        if rng.random() < 0.5:
            x = y * E.operand(3)
        key = "bn_is_factor|%s,%s|%s" % (sg(y), sg(x), "divides" if x % y == 0 else "does-not")
        if not ctx.begin(key, [hx(y), hx(x)], nontrivial=bool(x)):
            return
        R.bn_put(c, y)
        R.bn_put(a, x)
        r = R.call("bn_is_factor", c, a)
        if ctx.check(not r.caught, key + "|unexpected-error", {"err": r.err}):
            ctx.check(r.i == int(x % y == 0), key + "|value", {"ret": r.i})
            E.unchanged([(c, y), (a, x)], key)

    # every hostile composite and every listed prime goes through every test once (directed enumeration, split over shards)
    i = 0
    for n, tag in [(p, "prime") for p in plist] + comps + [(0, "tiny-composite"), (1, "tiny-composite"), (4, "tiny-composite"), (6, "tiny-composite"),
                                                           (256, "tiny-composite"), (-7, "negative")]:
        for fn in ("bn_is_prime", "bn_is_prime_rabin", "bn_is_prime_solov", "bn_is_prime_basic"):
            i += 1
            if not ctx.mine(i):
                continue
            if fn == "bn_is_prime_solov" and n.bit_length() > sol_big:
                continue
            if n.bit_length() > big:
                continue

            def one(n=n, tag=tag, fn=fn):
                key = "%s|%s" % (fn if fn != "bn_is_prime_solov" else fn + "|w%d,%s" % (W, R.target("bn_mxp")[3:]), tag)
                if not ctx.begin(key, [hx(n), tag], budget=60):
                    return
                R.bn_put(a, n)
                r = R.call(fn, a)
                if not ctx.check(not r.caught, key + "|unexpected-error", {"err": r.err}):
                    return
                if tag == "prime":
                    ctx.check(r.i == 1, key + "|rejected-prime", {"ret": r.i})
                elif fn != "bn_is_prime_basic" or n in (0, 1):
                    ctx.check(r.i == 0, key + "|accepted-composite", {"ret": r.i})
            guard(ctx, one)
    ops = [is_prime] * 12 + [gen_prime] * 3 + [gen_factor] + [is_factor] * 2
    N = ctx.n(250 if E.w8 else 500, 12000)
    for _ in range(N):
        E.newpoison()
        guard(ctx, rng.choice(ops))
    for _ in range(ctx.n(1 if not E.w8 else 3, 40)):
        guard(ctx, factor)


# =============================================================================================== part "rec"
def scalar(E, maxbits):
    """structured scalars: 0, 1, 2^k, 2^k-1, long runs, alternating, maximal length, random"""
    rng = E.rng
    bits = rng.choice([1, 2, 3, 7, 8, 9, 63, 64, 65, 127, 128, 255, 256, 257, maxbits, maxbits, rng.randrange(1, maxbits + 1)])
    bits = min(bits, maxbits)
    c_ = rng.randrange(12)
    if c_ == 0:
        v = rng.choice([0, 1, 2, 3, 4, 5])
    elif c_ == 1:
        v = 1 << (bits - 1)
    elif c_ == 2:
        v = (1 << bits) - 1
    elif c_ == 3:
        v = (1 << (bits - 1)) + 1
    elif c_ == 4:
        v = int(("10" * bits)[:bits], 2)
    elif c_ == 5:
        v = int(("1100" * bits)[:bits], 2)
    elif c_ == 6:       # long runs of ones and zeros
        v = 0
        pos = 0
        while pos < bits:
            run = rng.choice([1, 2, 7, 8, 9, 31, 64, 65, 100])
            if rng.random() < 0.5:
                v |= ((1 << run) - 1) << pos
            pos += run
        v &= (1 << bits) - 1
    elif c_ == 7:
        v = (1 << bits) - (1 << (bits // 2))
    elif c_ == 8:       # carries rippling into a new top digit: all ones above a few random low bits
        v = ((1 << bits) - 1) ^ rng.getrandbits(min(bits, 6))
    else:
        v = rng.getrandbits(bits)
    return v


def run_rec(E, only_curves=False):
    ctx, R, rng, W, B, CAP, K = E.ctx, E.R, E.rng, E.W, E.B, E.CAP, E.K
    a, b, c, d, e, f, m, t0, t1, t2 = E.pool
    MAXB = R.BN_BITS
    NB = K["ERR_NO_BUFFER"]
    FILL = 0x55

    def buf_call(fn, cap, args_after, lenv=None):
        """exact-size output block of cap bytes, *len = lenv or cap; -> (result, returned *len, bytes)"""
        buf = R.mem(max(cap, 1), FILL)
        E.setlen(cap if lenv is None else lenv)
        r = R.call(fn, buf, E.lenp, *args_after)
        ln = E.getlen()
        data = R.get(buf, cap) if cap else b""
        R.free(buf)
        return r, ln, data

    def too_short(fn, key, need, args_after, decodes=None):
        """a buffer one byte below the bound used above (exact-size block: an overrun is an ASan report): either the
        documented ERR_NO_BUFFER, or a result that fits the announced length (and decodes, where a decoder is given) -
        how much room a routine insists on beyond what it writes is its own choice"""
        if need < 1:
            return
        r, ln, data = buf_call(fn, need - 1, args_after)
        if r.caught:
            ctx.check(r.err == NB, key + "|short-buffer-error-code", {"err": r.err})
        else:
            ctx.check(ln <= need - 1 and (decodes is None or decodes(data[:ln])), key + "|short-buffer-overrun-or-wrong",
                      {"need": need, "len": ln})

    def kcls(k, w=None):
        s = "zero" if k == 0 else ("neg" if k < 0 else "pos")
        return s

    def signed_scalar():
        k = scalar(E, MAXB)
        if rng.random() < 0.15:
            k = -k
        return k

    # ------------------------------------------------------------------ fixed window
    def rec_win():
        w = rng.randrange(2, 9)
        k = signed_scalar()
        if rng.random() < 0.25:
            k = rng.choice([0, 1, 2, 3, (1 << (w - 1)) - 1, 1 << (w - 1), (1 << w) - 1, 1 << w])       # bits(k) <= w
        l = abs(k).bit_length()
        need = max((l + w - 1) // w, 1)
        key = "bn_rec_win|w%d|%s|%s" % (w, kcls(k), "bits<w" if l < w else ("bits=w" if l == w else "bits>w"))
        if not ctx.begin(key, [hx(k), w], nontrivial=bool(k)):
            return
        R.bn_put(a, k)
        extra = rng.choice([0, 0, 0, 1, 5])
        r, ln, data = buf_call("bn_rec_win", need + extra, (a, w))
        if ctx.check(not r.caught, key + "|unexpected-error", {"err": r.err}):
            dg = list(data[:ln])
            ctx.check(ln <= need, key + "|length", {"len": ln, "bound": need})
            ctx.check(sum(x << (w * i) for i, x in enumerate(dg)) == abs(k), key + "|decode", {"digits": dg[:12], "len": ln})
            ctx.check(all(x < (1 << w) for x in dg), key + "|digit-range", {"digits": dg[:12]})
            E.unchanged([(a, k)], key)
        if k and need > 1 or (k == 0):
            too_short("bn_rec_win", key, need, (a, w), lambda dd: sum(x << (w * i) for i, x in enumerate(dd)) == abs(k))

    # ------------------------------------------------------------------ sliding window
    def rec_slw():
        w = rng.randrange(2, 9)
        k = signed_scalar()
        l = abs(k).bit_length()
        key = "bn_rec_slw|w%d|%s" % (w, kcls(k))
        if not ctx.begin(key, [hx(k), w], nontrivial=bool(k)):
            return
        R.bn_put(a, k)
        r, ln, data = buf_call("bn_rec_slw", l + rng.choice([0, 0, 0, 2]), (a, w))
        if ctx.check(not r.caught, key + "|unexpected-error", {"err": r.err}):
            dg = list(data[:ln])
            v = 0
            for x in dg:
                v = (v << 1) if x == 0 else ((v << x.bit_length()) | x)
            ctx.check(ln <= l, key + "|length", {"len": ln, "bound": l})
            ctx.check(v == abs(k), key + "|decode", {"digits": dg[:12], "len": ln})
            ctx.check(all(x == 0 or (x & 1 and x < (1 << w)) for x in dg), key + "|digit-range", {"digits": dg[:12]})
            E.unchanged([(a, k)], key)
        too_short("bn_rec_slw", key, l, (a, w))

    # ------------------------------------------------------------------ width-w NAF
    def rec_naf():
        w = rng.randrange(2, 9)
        k = signed_scalar()
        l = abs(k).bit_length()
        key = "bn_rec_naf|w%d|%s" % (w, kcls(k))
        if not ctx.begin(key, [hx(k), w], nontrivial=bool(k)):
            return
        R.bn_put(a, k)
        r, ln, data = buf_call("bn_rec_naf", l + 1 + rng.choice([0, 0, 0, 3]), (a, w))
        if r.caught and l + 1 > (CAP - 1) * W:
            return      # the recoding needs |k| + digit: at capacity an overflow error is legitimate
        if ctx.check(not r.caught, key + "|unexpected-error", {"err": r.err}):
            dg = [s8(x) for x in data[:ln]]
            ctx.check(ln <= l + 1, key + "|length", {"len": ln, "bound": l + 1})
            ctx.check(sum(x << i for i, x in enumerate(dg)) == abs(k), key + "|decode", {"digits": dg[:16], "len": ln})
            ctx.check(all(x == 0 or (x & 1 and abs(x) < (1 << (w - 1))) for x in dg), key + "|digit-range", {"digits": dg[:16]})
            nz = [i for i, x in enumerate(dg) if x]
            ctx.check(all(j - i >= w for i, j in zip(nz, nz[1:])), key + "|non-adjacency", {"positions": nz[:12]})
            E.unchanged([(a, k)], key)
        too_short("bn_rec_naf", key, l + 1, (a, w), lambda dd: sum(s8(x) << i for i, x in enumerate(dd)) == abs(k))

    # ------------------------------------------------------------------ regular recoding
    def rec_reg():
        w = rng.randrange(2, 9)
        k = abs(scalar(E, MAXB))
        if rng.random() < 0.85:
            k |= 1
        l0 = k.bit_length()
        n = rng.choice([l0, l0, l0 + 1, l0 + (-l0) % (w - 1), l0 + (-l0) % (w - 1) + 1, max(l0, 256), max(l0, MAXB), l0 + rng.randrange(0, 70)])
        n = max(n, 1)
        longer = rng.random() < 0.06 and l0 > 8
        if longer:
            n = rng.choice([l0 - 1, l0 // 2, 1, max(1, l0 - W), max(1, l0 - 2 * W)])
        l = (n + w - 2) // (w - 1)
        key = "bn_rec_reg|w%d|%s" % (w, "k-longer-than-n" if longer else ("odd" if k & 1 else "even"))
        if not ctx.begin(key, [hx(k), n, w], nontrivial=bool(k)):
            return
        R.bn_put(a, k)
        r, ln, data = buf_call("bn_rec_reg", l + 1 + rng.choice([0, 0, 0, 2]), (a, n, w))
        if longer:
            # outside the domain (k does not fit n bits): an error or any digits, but never more than l + 1 bytes
            if not r.caught:
                ctx.check(ln <= l + 1, key + "|length", {"len": ln, "bound": l + 1})
            return
        if ctx.check(not r.caught, key + "|unexpected-error", {"err": r.err}):
            dg = [s8(x) for x in data[:ln]]
            ctx.check(ln <= l + 1, key + "|length", {"len": ln, "bound": l + 1})
            ctx.check(sum(x << ((w - 1) * i) for i, x in enumerate(dg)) == k, key + "|decode", {"digits": dg[:16], "len": ln})
            if k & 1:
                # regular: every digit but the most significant one is odd (non-zero) and in the signed digit set
                ctx.check(all(x & 1 and abs(x) < (1 << (w - 1)) for x in dg[:-1]), key + "|not-regular", {"digits": dg[:16]})
                ctx.check(bool(dg) and abs(dg[-1]) < (1 << (w - 1)), key + "|top-digit", {"top": dg[-1] if dg else None})
            E.unchanged([(a, k)], key)
        too_short("bn_rec_reg", key, l + 1, (a, n, w))

    # ------------------------------------------------------------------ joint sparse form
    def rec_jsf():
        x, y = signed_scalar(), signed_scalar()
        if rng.random() < 0.3:
            y = x + rng.choice([-1, 0, 1])
        if rng.random() < 0.2:
            x = rng.choice([0, 1, 2, 3])
        lx, ly = abs(x).bit_length(), abs(y).bit_length()
        off = max(lx, ly) + 1
        key = "bn_rec_jsf|%s,%s|%s" % (kcls(x), kcls(y), "k<l" if lx < ly else ("k=l" if lx == ly else "k>l"))
        if not ctx.begin(key, [hx(x), hx(y)], nontrivial=bool(x or y)):
            return
        R.bn_put(a, x)
        R.bn_put(b, y)
        r, ln, data = buf_call("bn_rec_jsf", 2 * off, (a, b))
        if r.caught and off > (CAP - 1) * W:
            return
        if ctx.check(not r.caught, key + "|unexpected-error", {"err": r.err}):
            ctx.check(ln <= off, key + "|length", {"len": ln, "bound": off})
            u0 = [s8(v) for v in data[:ln]]
            u1 = [s8(v) for v in data[off:off + ln]]
            ctx.check(sum(v << i for i, v in enumerate(u0)) == abs(x) and sum(v << i for i, v in enumerate(u1)) == abs(y),
                      key + "|decode", {"u0": u0[:12], "u1": u1[:12], "len": ln})
            ctx.check(all(v in (-1, 0, 1) for v in u0 + u1), key + "|digit-range", None)
            # Solinas' joint sparse form: of any three consecutive columns at least one is zero; adjacent non-zero terms
            # of a row have the same sign... (JSF-1, JSF-2, JSF-3)
            p1 = all(any(u0[i + j] == 0 and u1[i + j] == 0 for j in range(3)) for i in range(max(0, ln - 2)))
            p2 = all(u[i] * u[i + 1] != -1 for u in (u0, u1) for i in range(ln - 1))
            p3 = all(not (u[i] and u[i + 1]) or (o[i + 1] != 0 and o[i] == 0) for u, o in ((u0, u1), (u1, u0)) for i in range(ln - 1))
            ctx.check(p1 and p2 and p3, key + "|not-joint-sparse", {"jsf1": p1, "jsf2": p2, "jsf3": p3, "u0": u0[:16], "u1": u1[:16]})
            E.unchanged([(a, x), (b, y)], key)
        too_short("bn_rec_jsf", key, 2 * off, (a, b))

    # ------------------------------------------------------------------ tau-adic
    tables = {}

    def tnaf_tables(u, w):
        """beta, gamma, t_w from bn_rec_tnaf_get, validated: t_w is a root of x^2 - u*x + 2 mod 2^w and
        beta_i + gamma_i * t_w = 2i + 1 (mod 2^w), i.e. alpha_(2i+1) = 2i+1 (mod tau^w)"""
        if (u, w) in tables:
            return tables[(u, w)]
        n = 1 << (w - 2)
        pt, pb, pg = R.mem(1, FILL), R.mem(n, FILL), R.mem(n, FILL)
        key = "bn_rec_tnaf_get|u%d|w%d" % (u, w)
        res = None
        if ctx.begin(key, [u, w]):
            r = R.call("bn_rec_tnaf_get", pt, pb, pg, u, w)
            if ctx.check(not r.caught, key + "|unexpected-error", {"err": r.err}):
                tw = R.get(pt, 1)[0]
                beta = [s8(x) for x in R.get(pb, n)]
                gama = [s8(x) for x in R.get(pg, n)]
                ok1 = ctx.check((tw * tw - u * tw + 2) % (1 << w) == 0, key + "|t_w", {"t_w": tw})
                ok2 = ctx.check(all((beta[i] + gama[i] * tw - (2 * i + 1)) % (1 << w) == 0 for i in range(n)), key + "|alpha-table",
                                {"beta": beta, "gama": gama, "t_w": tw})
                if ok1 and ok2:
                    res = (tw, beta, gama)
            ctx.end()
        for p in (pt, pb, pg):
            R.free(p)
        tables[(u, w)] = res
        return res

    MS = [7, 13, 41, 97, 163, 233, 283] + ([] if E.w8 else [409, 571])

    def tnaf_mod_lib(k, u, mm):
        R.bn_put(a, k)
        E.junk(c, d)
        r = R.call("bn_rec_tnaf_mod", c, d, a, u, mm)
        if r.caught:
            return None
        return R.bn_get(c), R.bn_get(d)

    def rec_tnaf_mod():
        u = rng.choice([-1, 1])
        mm = rng.choice(MS)
        k = scalar(E, mm)
        if rng.random() < 0.1:
            k = -k
        key = "bn_rec_tnaf_mod|u%d|%s" % (u, kcls(k))
        if not ctx.begin(key, [hx(k), u, mm], nontrivial=bool(k)):
            return
        res = tnaf_mod_lib(k, u, mm)
        if not ctx.check(res is not None, key + "|unexpected-error", None):
            return
        (r0, _, _, n0), (r1, _, _, n1) = res
        ctx.check(n0 and n1, key + "|normal-form", repr(res))
        delta = nt.tau_delta(mm, u)
        ctx.check(nt.tau_divides(delta, (abs(k) - r0, -r1), u), key + "|not-congruent", {"r0": hx(r0), "r1": hx(r1)})
        E.unchanged([(a, k)], key)

    def alpha(dg, tab, w):
        """element of Z[tau] denoted by a signed odd digit"""
        if dg == 0:
            return (0, 0)
        if w == 2:
            return (dg, 0)
        tw, beta, gama = tab
        i = abs(dg) >> 1
        s = 1 if dg > 0 else -1
        return (s * beta[i], s * gama[i])

    def rec_tnaf():
        u = rng.choice([-1, 1])
        w = rng.randrange(2, 9)
        mm = rng.choice(MS)
        tab = tnaf_tables(u, w)
        if tab is None:
            return
        k = scalar(E, mm)
        if k.bit_length() < mm // 2:
            k |= 1 << (mm - 1 - rng.randrange(0, 3))       # short scalars: the length check of the routine is bits(k) + 1
        if rng.random() < 0.1:                                # while the recoding has about m digits (fatal part)
            k = -k
        key = "bn_rec_tnaf|u%d|w%d|%s" % (u, w, kcls(k))
        if not ctx.begin(key, [hx(k), u, mm, w], nontrivial=bool(k)):
            return
        res = tnaf_mod_lib(k, u, mm)
        R.bn_put(a, k)
        cap = max(abs(k).bit_length() + 1, mm + 8)
        r, ln, data = buf_call("bn_rec_tnaf", cap, (a, u, mm, w))
        if ctx.check(not r.caught, key + "|unexpected-error", {"err": r.err}):
            dg = [s8(x) for x in data[:ln]]
            ctx.check(all(x == 0 or (x & 1 and abs(x) < (1 << (w - 1))) for x in dg), key + "|digit-range", {"digits": dg[:16]})
            nz = [i for i, x in enumerate(dg) if x]
            ctx.check(all(j - i >= w for i, j in zip(nz, nz[1:])), key + "|non-adjacency", {"positions": nz[:12]})
            val = nt.tau_eval([alpha(x, tab, w) for x in dg], u)
            delta = nt.tau_delta(mm, u)
            ctx.check(nt.tau_divides(delta, (abs(k) - val[0], -val[1]), u), key + "|decode-not-congruent-mod-delta", {"value": [hx(val[0]), hx(val[1])], "len": ln})
            ctx.add("tnaf_len_minus_m_max_seen_sum", 0)
            tl = ctx.info.get("tnaf_max_len_minus_m", "-99")
            if ln - mm > int(tl):
                ctx.note("tnaf_max_len_minus_m", str(ln - mm))
            E.unchanged([(a, k)], key)

    def rec_rtnaf():
        u = rng.choice([-1, 1])
        w = rng.randrange(2, 9)
        mm = rng.choice(MS)
        tab = tnaf_tables(u, w)
        if tab is None:
            return
        # domain (as in the stock test): both halves of the partial reduction are odd
        for _ in range(40):
            k = scalar(E, mm) | (1 << (mm - 1 - rng.randrange(0, 2)))
            res = tnaf_mod_lib(k, u, mm)
            if res is not None and res[0][0] is not None and res[0][0] & 1 and res[1][0] & 1:
                break
        else:
            return
        key = "bn_rec_rtnaf|u%d|w%d" % (u, w)
        if not ctx.begin(key, [hx(k), u, mm, w]):
            return
        l = (mm + 2 + w - 2) // (w - 1)
        R.bn_put(a, k)
        cap = max(k.bit_length() + 1, l + 3)
        r, ln, data = buf_call("bn_rec_rtnaf", cap, (a, u, mm, w))
        if ctx.check(not r.caught, key + "|unexpected-error", {"err": r.err}):
            dg = [s8(x) for x in data[:ln]]
            ctx.check(ln <= cap, key + "|length", {"len": ln, "cap": cap})
            ctx.check(all(x & 1 and abs(x) < (1 << (w - 1)) + (1 if w == 2 else 0) for x in dg[:-2]), key + "|not-regular", {"digits": dg[:16]})
            val = nt.tau_eval([alpha(x, tab, w) for x in dg], u, step=w - 1)
            ctx.check(nt.tau_divides(nt.tau_delta(mm, u), (k - val[0], -val[1]), u), key + "|decode-not-congruent-mod-delta",
                      {"value": [hx(val[0]), hx(val[1])], "len": ln})
            E.unchanged([(a, k)], key)

    # ------------------------------------------------------------------ GLV / Frobenius / SAC on the endomorphism curves
    curves = {}

    def read_vs(p1, p2):
        """entries [1], [2] of the two bn_st[3] arrays handed to bn_rec_glv"""
        return [R.bn_val(p1 + i * R.bn_sz) for i in (1, 2)] + [R.bn_val(p2 + i * R.bn_sz) for i in (1, 2)]

    def curve(name, ident):
        """activate a curve; -> dict for endomorphism and/or pairing-friendly curves, else None"""
        if name in curves:
            cu = curves[name]
            if cu is not None:
                R.call("ep_param_set", ident)
            return cu
        from ..model import curves as mc
        cu = None
        r = R.call("ep_param_set", ident)
        if not r.caught and (R.L.ep_curve_is_endom() or R.L.ep_curve_is_pairf()):
            P = R.ep_params()
            n, p = P["n"], P["p"]
            lam = None
            endom = bool(R.L.ep_curve_is_endom())
            if endom:
                R.L.ep_curve_get_beta.restype = ctypes.c_void_p
                beta = R.fp_get(R.L.ep_curve_get_beta())[0]
                s3 = mc.sqrt_mod(n - 3, n)
                if s3 is not None and P["a"] == 0:
                    C = mc.WCurve(mc.Fp(p), P["a"], P["b"])
                    G = (P["gx"], P["gy"])
                    for cand in ((-1 + s3) * pow(2, -1, n) % n, (-1 - s3) * pow(2, -1, n) % n):
                        Q = C.mul(cand, G)
                        if Q is not None and Q[0] == beta * G[0] % p and Q[1] == G[1]:
                            lam = cand
            R.bn_put(a, 0)
            R.call("fp_prime_get_par", a)
            cu = dict(id=ident, n=n, p=p, lam=lam, x=R.bn_val(a), pairf=P["pairf"], name=name, endom=endom and lam is not None, synth=None)
            ctx.note("glv_curve_%s_%s" % (ctx.cfg, name), "order %d bits; %s" % (n.bit_length(), "lambda found with the model curve" if lam is not None
                     else ("no usable endomorphism" if not endom else "endomorphism eigenvalue not identified: GLV class skipped")))
        curves[name] = cu
        return cu

    synth = {}

    def synth_curve(bits, rep):
        """a prime n = 1 mod 3 of exactly `bits` bits, lambda a root of x^2+x+1, and a reduced basis v1, v2 of the lattice
        {(x, y): x + y*lambda = 0 mod n} from the extended Euclid sequence (GLV paper); v1[0], v2[0] by the rule of
        ep_curve_set_endom: round(v2[2] * 2^(bits+1) / det), -round(v1[2] * 2^(bits+1) / det)"""
        if (bits, rep) in synth:
            return synth[(bits, rep)]
        from ..model import curves as mc
        while True:
            n = nt.rand_prime(rng, bits)
            if n % 3 == 1:
                break
        s3 = mc.sqrt_mod(n - 3, n)
        lam = (-1 + (s3 if rep == 0 else -s3)) * pow(2, -1, n) % n
        assert (lam * lam + lam + 1) % n == 0
        seq = [(n, 0), (lam, 1)]
        while seq[-1][0]:
            q = seq[-2][0] // seq[-1][0]
            seq.append((seq[-2][0] - q * seq[-1][0], seq[-2][1] - q * seq[-1][1]))
        mi = max(i for i, (r0, _) in enumerate(seq) if r0 * r0 >= n)
        v1 = (seq[mi + 1][0], -seq[mi + 1][1])
        ca, cb = (seq[mi][0], -seq[mi][1]), (seq[mi + 2][0], -seq[mi + 2][1])
        v2 = ca if ca[0] ** 2 + ca[1] ** 2 <= cb[0] ** 2 + cb[1] ** 2 else cb
        D = v1[0] * v2[1] - v1[1] * v2[0]
        assert abs(D) == n and all((x + y * lam) % n == 0 for x, y in (v1, v2))

        def rnd(num, den):
            sgn = -1 if (num < 0) != (den < 0) else 1
            return sgn * ((2 * abs(num) + abs(den)) // (2 * abs(den)))
        v10 = rnd(v2[1] << (bits + 1), D)
        v20 = -rnd(v1[1] << (bits + 1), D)
        p1, p2 = E.arr_new(3), E.arr_new(3)
        for ptr, vals in ((p1, (v10, v1[0], v1[1])), (p2, (v20, v2[0], v2[1]))):
            for i, v in enumerate(vals):
                R.bn_put(ptr + i * R.bn_sz, v)
        cu = dict(n=n, lam=lam, name="synthetic-b%s" % ("max" if bits % W == W - 1 else ("0" if bits % W == 0 else "mid")), endom=True, pairf=0,
                  synth=(p1, p2), bits=bits)
        synth[(bits, rep)] = cu
        ctx.add("synthetic_glv_bases", 1)
        return cu

    def rec_glv(cu):
        if cu is None or cu["lam"] is None:
            return
        n, lam = cu["n"], cu["lam"]
        if cu["synth"]:
            v1, v2 = cu["synth"]
        else:
            v1 = R.call("ep_curve_get_v1").r
            v2 = R.call("ep_curve_get_v2").r
        v11, v12, v21, v22 = read_vs(v1, v2)
        c_ = rng.randrange(10)
        if c_ == 0:
            k = rng.choice([0, 1, 2, 3, n - 1, n - 2, n // 2, n // 2 + 1, lam, lam - 1, lam + 1, (lam * lam) % n])
        elif c_ == 1:
            k = scalar(E, n.bit_length() - 1)
        elif c_ == 2:
            k = rng.choice([n, n + 1, (1 << n.bit_length()) - 1, (1 << (R.K["RLC_FP_DIGS"] * W)) - 1])
        else:
            k = rng.randrange(n)
        neg = rng.random() < 0.1
        alias = rng.random() < 0.3
        key = "bn_rec_glv|%s|%s|%s" % (cu["name"], "k<n" if k < n else "k>=n", "neg" if neg else "pos")
        if not ctx.begin(key, [hx(-k if neg else k), int(alias)], nontrivial=bool(k)):
            return
        R.bn_put(a, -k if neg else k)
        R.bn_put(m, n)
        E.junk(c, d)
        k0p = a if alias else c
        r = R.call("bn_rec_glv", k0p, d, a, m, v1, v2)
        if ctx.check(not r.caught, key + "|unexpected-error", {"err": r.err}):
            g0, g1 = R.bn_get(k0p), R.bn_get(d)
            if ctx.check(g0[0] is not None and g1[0] is not None and g0[3] and g1[3], key + "|normal-form", repr((g0, g1))):
                ctx.check((g0[0] + g1[0] * lam - k) % n == 0, key + "|decode", {"k0": hx(g0[0]), "k1": hx(g1[0])})
                if k < n:
                    # rounding against a lattice basis leaves (k0, k1) = a1*v1 + a2*v2 with |a_i| <= 1/2 + e*n/2^(bits+1),
                    # e <= 3/2 the rounding error of the precomputed reciprocals v1[0], v2[0]: |a_i| < 5/4 < 2, so each
                    # component is below twice the sum of the basis entries (a first version asked for |a_i| <= 1 and
                    # fired on B12_P381 / k0 = 1.002 * |v2[1]|: model asked for more than the rounding guarantees)
                    ctx.check(abs(g0[0]) <= 2 * (abs(v11) + abs(v21)) + 2 and abs(g1[0]) <= 2 * (abs(v12) + abs(v22)) + 2, key + "|lattice-bound",
                              {"k0": hx(g0[0]), "k1": hx(g1[0]), "v1": [hx(v11), hx(v12)], "v2": [hx(v21), hx(v22)]})
                    # half length (bound asserted by the stock test on the library's own curves; two bits of slack for
                    # the synthetic bases, whose second vector may be the longer neighbour)
                    bound = 1 + (n.bit_length() >> 1) + (2 if cu["synth"] else 0)
                    ctx.check(abs(g0[0]).bit_length() <= bound and abs(g1[0]).bit_length() <= bound, key + "|length",
                              {"k0_bits": abs(g0[0]).bit_length(), "k1_bits": abs(g1[0]).bit_length(), "bound": bound})
            E.unchanged([(m, n)], key)

    def rec_frb(cu=None):
        cof = cu is not None and cu["n"] == 36 * cu["x"] ** 4 + 36 * cu["x"] ** 3 + 18 * cu["x"] ** 2 + 6 * cu["x"] + 1
        if cu is not None and not cof:
            # any other pairing-friendly family: expansion of k < n in base x (the curve parameter), as the GLS
            # multiplications of its twists use it
            n, x = cu["n"], cu["x"]
            if abs(x) < 2:
                return
            sub = 4
            while abs(x) ** sub <= n and sub < 16:
                sub += 2
            if abs(x) ** sub <= n:
                return
            k = rng.choice([0, 1, 2, n - 1, n // 2, abs(x), abs(x) - 1, abs(x) ** (sub - 1), rng.randrange(n), rng.randrange(n), rng.randrange(n),
                            scalar(E, n.bit_length() - 1)])
            key = "bn_rec_frb|%s|sub%d" % (cu["name"], sub)
        elif cof:
            n, x, p = cu["n"], cu["x"], cu["p"]
            lam = p % n          # eigenvalue of the Frobenius on the order-n subgroup of the twist
            k = rng.choice([0, 1, 2, n - 1, n // 2, rng.randrange(n), rng.randrange(n), rng.randrange(n), scalar(E, n.bit_length() - 1)])
            key = "bn_rec_frb|%s|bn|sub4" % cu["name"]
            sub = 4
        else:
            x = rng.choice([-(2 ** 63 + 2 ** 62 + 2 ** 60 + 2 ** 57 + 2 ** 48 + 2 ** 16), 0x44E992B44A6909F1, 2, 3, -2, -3, B - 1, B, -B, E.mag(2) or 5,
                            -(E.mag(1) or 7), rng.getrandbits(64) | 2])
            if abs(x) < 2:
                x = 2
            sub = rng.choice([1, 2, 4, 6, 8])
            k = rng.randrange(abs(x) ** sub)
            if rng.random() < 0.3:
                k = rng.choice([0, 1, abs(x) - 1, abs(x), abs(x) + 1, abs(x) ** sub - 1, abs(x) ** (sub - 1)]) % (abs(x) ** sub)
            if rng.random() < 0.2:
                k = -k
            n = abs(x) ** sub + 1
            key = "bn_rec_frb|base-x|%s|%s" % ("x<0" if x < 0 else "x>0", kcls(k))
        if k.bit_length() > (CAP // 2 - 1) * W:
            return
        if not ctx.begin(key, [hx(k), hx(x), sub], nontrivial=bool(k)):
            return
        arr = E.arr_new(max(sub, 4))
        try:
            for i in range(max(sub, 4)):
                R.bn_put(E.arr_at(arr, i), rng.getrandbits(66) | 1)
            alias = rng.random() < 0.5      # every caller passes k = ki[0]
            if alias:
                R.bn_put(arr, k)
                kp = arr
            else:
                R.bn_put(a, k)
                kp = a
            R.bn_put(b, x)
            R.bn_put(m, n)
            r = R.call("bn_rec_frb", arr, sub, kp, b, m, int(cof))
            chain = False
            if not ctx.check(not r.caught, key + "|unexpected-error", {"err": r.err}):
                return
            got = [R.bn_get(E.arr_at(arr, i)) for i in range(sub)]
            if not ctx.check(all(g[0] is not None and g[3] for g in got), key + "|normal-form", repr(got)):
                return
            ki = [g[0] for g in got]
            det = {"ki": [hx(v) for v in ki]}
            if cof:
                ctx.check((sum(v * pow(lam, i, n) for i, v in enumerate(ki)) - k) % n == 0, key + "|decode", det)
                ctx.check(all(abs(v).bit_length() <= n.bit_length() // 4 + 3 for v in ki), key + "|length", det)
            elif cu is not None:
                # curve parameter: x is the eigenvalue of the endomorphism modulo the order, so the contract is the
                # congruence and short sub-scalars (an exact base-x expansion is one way to get there)
                ctx.check((sum(v * x ** i for i, v in enumerate(ki)) - k) % n == 0, key + "|decode", det)
                ctx.check(all(abs(v) <= 2 * abs(x) for v in ki), key + "|length", det)
            else:
                ctx.check(sum(v * x ** i for i, v in enumerate(ki)) == k, key + "|decode", det)
                ctx.check(all(abs(v) < abs(x) for v in ki), key + "|digit-range", det)
            chain = cu is not None and sub <= 8
        finally:
            R.free(arr)
        if chain:
            # the sub-scalars as the regular GLS multiplications hand them to bn_rec_sac: magnitudes, first one made odd
            ks = [abs(v) for v in ki]
            ks[0] |= 1
            ctx.end()
            sac_run("bn_rec_sac|%s|m%d|%s" % (cu["name"], sub, "cof" if cof else "nocof"), ks, abs(x), 1, sub, n.bit_length(), cof)

    def rec_sac():
        mm = rng.choice([1, 2, 4, 6, 8])
        cc = 1
        nbits = rng.choice([64, 128, 254, 256])
        l = (nbits + cc * mm - 1) // (cc * mm) + 1
        ubits = rng.choice([1, 8, min(l - 1, 63), min(l - 1, 64)])
        uu = rng.getrandbits(ubits) | (1 << (ubits - 1))
        cof = rng.random() < 0.3
        ks = []
        for i in range(mm):
            kb = rng.choice([l - 1, l - 1, l - 2, 1, max(1, l // 2)])
            v = rng.getrandbits(kb)
            if rng.random() < 0.2:
                v = rng.choice([0, 1, (1 << kb) - 1, 1 << (kb - 1)])
            ks.append(v)
        ks[0] |= 1
        sac_run("bn_rec_sac|m%d|%s" % (mm, "cof" if cof else "nocof"), ks, uu, cc, mm, nbits, cof)

    def sac_run(key, ks, uu, cc, mm, nbits, cof):
        l = (nbits + cc * mm - 1) // (cc * mm) + 1
        L = max(l, uu.bit_length() + 1)
        if cof:
            L = max([L] + [v.bit_length() + 1 for v in ks])
        if any(v.bit_length() > L - 1 for v in ks):
            ctx.add("bn_rec_sac_inputs_longer_than_the_recoding_skipped", 1)
            return
        if not ctx.begin(key, [[hx(v) for v in ks], hx(uu), mm, nbits, int(cof)]):
            return
        arr = E.arr_new(mm)
        cap = L + 4
        total = mm * cap
        buf = R.mem(total, FILL)
        try:
            for i, v in enumerate(ks):
                R.bn_put(E.arr_at(arr, i), v)
            R.bn_put(b, uu)
            E.setlen(cap)
            r = R.call("bn_rec_sac", buf, E.lenp, arr, b, cc, mm, nbits, int(cof))
            if not ctx.check(not r.caught, key + "|unexpected-error", {"err": r.err}):
                return
            ln = E.getlen()
            data = R.get(buf, total)
            if not ctx.check(1 <= ln <= cap and all(v.bit_length() <= ln for v in ks), key + "|length", {"len": ln, "capacity": cap}):
                return
            rows = [list(data[j * ln:(j + 1) * ln]) for j in range(mm)]
            ctx.check(all(v in (0, 1) for row in rows for v in row), key + "|digit-range", None)
            sgn = [1 - 2 * v for v in rows[0]]
            ctx.check(rows[0][ln - 1] == 0 and sum(s << i for i, s in enumerate(sgn)) == ks[0], key + "|sign-row-decode", {"row0": rows[0][:16]})
            for j in range(1, mm):
                ctx.check(sum((rows[j][i] * sgn[i]) << i for i in range(ln)) == ks[j], key + "|decode", {"row": j, "digits": rows[j][:16], "k": hx(ks[j])})
            for i, v in enumerate(ks):
                E.unchanged([(E.arr_at(arr, i), v)], key)
        finally:
            R.free(arr)
            R.free(buf)
        # a per-row capacity equal to the length is refused
        buf = R.mem(total, FILL)
        small = (nbits + cc * mm - 1) // (cc * mm) + 1
        E.setlen(small)
        arr = E.arr_new(mm)
        for i, v in enumerate(ks):
            R.bn_put(E.arr_at(arr, i), v)
        r = R.call("bn_rec_sac", buf, E.lenp, arr, b, cc, mm, nbits, int(cof))
        # a per-row capacity the recoding cannot be shorter than: refusal (documented code) or a row length within it
        if r.caught:
            ctx.check(r.err == NB, key + "|short-buffer-error-code", {"err": r.err})
        else:
            ctx.check(E.getlen() <= small, key + "|short-buffer-overrun-or-wrong", {"len": E.getlen(), "capacity": small})
        R.free(arr)
        R.free(buf)

    ops = ([rec_win] * 5 + [rec_slw] * 4 + [rec_naf] * 6 + [rec_reg] * 5 + [rec_jsf] * 4 + [rec_tnaf_mod] * 2 + [rec_tnaf] * 4 + [rec_rtnaf] * 2 +
           [rec_frb] * 2 + [rec_sac] * 3)
    N = 0 if only_curves else ctx.n(1500 if E.w8 else 3000, 60000)
    for _ in range(N):
        E.newpoison()
        guard(ctx, rng.choice(ops))
    # synthetic lattice bases: orders of every interesting length modulo the digit size, independent of the curves built
    fpbits = R.K["RLC_FP_DIGS"] * W
    for bits in (61, 63, 64, 65, 127, 128, 190, 191, 192, 254, 255, 256, 319, 320, 383, 384):
        if bits > fpbits:
            continue
        for rep in range(2):
            cu = synth_curve(bits, rep)
            for _ in range(ctx.n(15 if E.w8 else 40, 600)):
                E.newpoison()
                guard(ctx, lambda: rec_glv(cu))
    # curve-bound recodings on every endomorphism / pairing curve of this build: one activation per curve
    found = []
    for name, ident in R.ep_param_ids():
        cu = curve(name, ident)
        if cu is None:
            continue
        found.append(name)
        if cu["endom"]:
            for _ in range(ctx.n(60 if E.w8 else 150, 4000)):
                E.newpoison()
                guard(ctx, lambda: rec_glv(cu))
        if cu["pairf"]:
            for _ in range(ctx.n(40 if E.w8 else 100, 3000)):
                E.newpoison()
                guard(ctx, lambda: rec_frb(cu))
    ctx.note("curves_with_endomorphism_or_pairing_" + ctx.cfg, found)


def run_glv(E):
    run_rec(E, only_curves=True)


# =============================================================================================== part "fatal"
def run_fatal(E):
    """directed cases that abort or never return on the unchanged tree; each class has its own key and the worker is
    sacrificial (the harness restarts it with the key skipped)"""
    ctx, R, rng, W, B, CAP, K = E.ctx, E.R, E.rng, E.W, E.B, E.CAP, E.K
    a, b, c, d, e, f, m, t0, t1, t2 = E.pool

    def case(key, desc, body, budget=10):
        def one():
            if not ctx.begin(key, desc, budget=budget):
                return
            body(key)
        guard(ctx, one)

    if ctx.cfg == "asan256k":
        # Paillier CRT decryption on a build whose bn_mxp is bn_mxp_basic: bn_mxp(t, a, b, t) inside bn_mxp_crt
        def paillier(key):
            p, q = nt.rand_prime(rng, 64), nt.rand_prime(rng, 64)
            n = p * q
            msg = rng.randrange(n)
            rr = rng.randrange(2, n)
            base = (1 + msg * n) * pow(rr, n, n * n) % (n * n)
            S = R.S
            S.vf_crt_new.restype = ctypes.c_void_p
            S.vf_crt_field.restype = ctypes.c_void_p
            S.vf_crt_field.argtypes = [ctypes.c_void_p, ctypes.c_int]
            S.vf_deref.restype = ctypes.c_void_p
            S.vf_deref.argtypes = [ctypes.c_void_p]
            crt = S.vf_crt_new()
            hp = pow((pow(n + 1, p - 1, p * p) - 1) // p, -1, p)
            hq = pow((pow(n + 1, q - 1, q * q) - 1) // q, -1, q)
            for i, v in enumerate([n, p, q, hp, hq, pow(q, -1, p)]):
                R.bn_put(S.vf_crt_field(crt, i), v)
            R.bn_put(a, base)
            R.bn_put(b, p - 1)
            R.bn_put(c, q - 1)
            E.junk(d)
            r = R.call("bn_mxp_crt", d, a, b, c, S.vf_deref(crt), 1)
            if ctx.check(not r.caught, key + "|unexpected-error", {"err": r.err}):
                E.out_bn(d, msg, key)
        for _ in range(3):
            case("bn_mxp_crt|%s|mod-n^2|paillier" % R.target("bn_mxp"), ["64-bit primes"], paillier, budget=5)
        return

    # "d ... can be NULL" (relic_bn.h) for every extended gcd
    def dnull(fn):
        def body(key):
            R.bn_put(a, 240)
            R.bn_put(b, 46)
            E.junk(c, e)
            r = R.call(fn, c, 0, e, a, b) if fn != "bn_gcd_ext_dig" else R.call(fn, c, 0, e, a, 46)
            if ctx.check(not r.caught, key + "|unexpected-error", {"err": r.err}):
                ctx.check(R.bn_val(c) == 2 and (2 - R.bn_val(e) * 46) % 240 == 0, key + "|value", {"c": hx(R.bn_val(c) or 0), "e": hx(R.bn_val(e) or 0)})
        return body
    for fn in ("bn_gcd_ext_basic", "bn_gcd_ext_lehme", "bn_gcd_ext_binar", "bn_gcd_ext_dig"):
        case("%s|d-null" % fn, [fn, "a=240 b=46 d=NULL"], dnull(fn))

    # the length check of the tau-adic recodings looks at bits(k) + 1 although the recoding of a short k has about
    # 2*bits(k) digits: a buffer of exactly the checked size
    def tnaf_short(fn, k, w):
        def body(key):
            R.bn_put(a, k)
            cap = k.bit_length() + 1
            buf = R.mem(cap, 0x55)
            E.setlen(cap)
            r = R.call(fn, buf, E.lenp, a, 1, 163, w)
            ln = E.getlen()
            ctx.check(r.caught or ln <= cap, key + "|length", {"len": ln, "cap": cap})
            R.free(buf)
        return body
    for k, w in ((7, 4), (1000, 4), (0xFFFF, 5)):
        case("bn_rec_tnaf|len=bits+1|k-short", [hx(k), w], tnaf_short("bn_rec_tnaf", k, w))
    for k, w in ((0x7FF, 4), (0xFFFF, 5)):
        case("bn_rec_rtnaf|len=bits+1|k-short", [hx(k), w], tnaf_short("bn_rec_rtnaf", k, w))

    # bn_mxp_basic(c, a, b, m) with c == m (the pattern bn_mxp_crt uses): the modulus is overwritten before use
    def mxp_alias_m(key):
        mm = (1 << 127) - 1
        R.bn_put(a, 3)
        R.bn_put(b, 65537)
        R.bn_put(m, mm)
        r = R.call("bn_mxp_basic", m, a, b, m)
        if ctx.check(not r.caught, key + "|unexpected-error", {"err": r.err}):
            E.out_bn(m, pow(3, 65537, mm), key)
    case("bn_mxp_basic|alias3-modulus", ["3^65537 mod 2^127-1, c == m"], mxp_alias_m, budget=5)

    # bn_mxp_crt reduces m1 - m2 modulo p by adding p until the value is non-negative: q >> p never finishes
    def crt_unbalanced(key):
        p, q = 65537, (1 << 127) - 1
        n = p * q
        x, base = 0x123456789ABCDEF, 0xFEDCBA987654321
        S = R.S
        S.vf_crt_new.restype = ctypes.c_void_p
        S.vf_crt_field.restype = ctypes.c_void_p
        S.vf_crt_field.argtypes = [ctypes.c_void_p, ctypes.c_int]
        S.vf_deref.restype = ctypes.c_void_p
        S.vf_deref.argtypes = [ctypes.c_void_p]
        crt = S.vf_crt_new()
        for i, v in enumerate([n, p, q, x % (p - 1), x % (q - 1), pow(q, -1, p)]):
            R.bn_put(S.vf_crt_field(crt, i), v)
        R.bn_put(a, base)
        R.bn_put(b, x % (p - 1))
        R.bn_put(c, x % (q - 1))
        E.junk(d)
        r = R.call("bn_mxp_crt", d, a, b, c, S.vf_deref(crt), 0)
        if ctx.check(not r.caught, key + "|unexpected-error", {"err": r.err}):
            E.out_bn(d, pow(base, x, n), key)
    case("bn_mxp_crt|q>>p", ["p=65537", "q=2^127-1"], crt_unbalanced, budget=5)

    # bn_gen_prime_factor(a, b, 8, 12): when the 8-bit prime drawn is 131 no u in [8, 16) gives a 12-bit a*u + 1
    def starved(seed):
        def body(key):
            instantiate_from(R, seed)
            E.junk(a, b)
            r = R.call("bn_gen_prime_factor", a, b, 8, 12)
            ctx.check(r.caught or r.i == K["RLC_ERR"], key + "|returned", {"a": hx(R.bn_val(a) or 0), "b": hx(R.bn_val(b) or 0), "ret": r.i})
        return body
    if True:
        for i in range(4000):
            seed = b"C09 starved bn_gen_prime_factor %04d" % i
            if first_prime_from_seed(R, seed, 8, a) == 131 and factor_candidates(131, 8, 12) == 0:
                case("bn_gen_prime_factor|no-candidate-multiplier", [8, 12, seed.hex(), "a = 131"], starved(seed), budget=5)
                break

    def alive(key):
        R.bn_put(a, 91)
        R.bn_put(b, 35)
        r = R.call("bn_gcd_basic", c, a, b)
        ctx.check(not r.caught and R.bn_val(c) == 7, key + "|value", None)
    case("bn_gcd_basic|after-fatal-cases", [91, 35], alive)


def run(ctx, part):
    R = RT(ctx.cfg)
    R.strict_chain = True
    E = Env(ctx, R)
    ctx.note("digit_bits", str(R.DIG))
    ctx.note("capacity_digits", str(R.BN_SIZE))
    ctx.note("dispatch", {k: R.target(k) for k in ("bn_mul", "bn_sqr", "bn_mxp", "bn_gcd", "bn_gcd_ext", "bn_gen_prime", "bn_mod_pre", "bn_mod_monty")})
    # the library generator is deterministic (-DSEED=): reseed it from the case generator so that prime generation and
    # the Solovay-Strassen witnesses vary with VERIF_SEED and shard
    sd = R.put(ctx.rng.getrandbits(256).to_bytes(32, "big"))
    R.call("rand_seed", sd, 32)
    R.free(sd)
    globals()["run_" + part](E)
    ctx.note("functions_exercised", sorted(R.fn_seen))
    ctx.note("error_codes_seen", {str(k): v for k, v in R.err_codes.items()})


SCOPE = ("bn_evl bn_factor bn_gcd_basic bn_gcd_binar bn_gcd_dig bn_gcd_ext_basic bn_gcd_ext_binar bn_gcd_ext_dig bn_gcd_ext_lehme "
         "bn_gcd_ext_mid bn_gcd_lehme bn_gen_prime_basic bn_gen_prime_factor bn_gen_prime_safep bn_gen_prime_stron bn_is_factor "
         "bn_is_prime bn_is_prime_basic bn_is_prime_rabin bn_is_prime_solov bn_lag bn_lcm bn_mod_2b bn_mod_barrt bn_mod_basic bn_mod_inv "
         "bn_mod_inv_sim bn_mod_monty_back bn_mod_monty_basic bn_mod_monty_comba bn_mod_monty_conv bn_mod_pmers bn_mod_pre_barrt "
         "bn_mod_pre_monty bn_mod_pre_pmers bn_mxp_basic bn_mxp_crt bn_mxp_dig bn_mxp_monty bn_mxp_sim bn_mxp_sim_few bn_mxp_sim_lot "
         "bn_mxp_slide bn_rec_frb bn_rec_glv bn_rec_jsf bn_rec_naf bn_rec_reg bn_rec_rtnaf bn_rec_sac bn_rec_slw bn_rec_tnaf "
         "bn_rec_tnaf_get bn_rec_tnaf_mod bn_rec_win bn_smb_jac bn_smb_leg bn_srt").split()


def finish(cov):
    seen = set(cov.get("functions_exercised", []))
    cov["functions_in_scope"] = len(SCOPE)
    cov["functions_in_scope_exercised"] = len([f for f in SCOPE if f in seen])
    cov["functions_uncovered"] = [f for f in SCOPE if f not in seen]
