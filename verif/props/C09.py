"""C09 - modular and number-theoretic integer functions and scalar recodings are correct.

Oracles: Python pow / math.gcd / math.isqrt / own Jacobi symbol / BPSW-style primality (verif/model/nt.py); every
recoding is decoded by the model and must give back the input integer with the digit set, sparsity and length its
header promises; output buffers are exact-size malloc blocks (ASan red zones directly behind the announced length).
"""
import ctypes
import math

from ..rt import RT, MonitorViolation
from ..ctx import hx
from ..model import nt

LEVEL = "exploration"
RULE = ("operands from structured digit patterns (0, 1, B-1, B/2, single bit, runs, random) of 0..capacity digits, both "
        "signs, operands below / equal to / above the modulus, moduli odd / even / 2^k-c / with extreme digits; Lehmer "
        "inputs (Fibonacci neighbours, equal leading digits, huge quotients); hostile composites proven composite by "
        "the model (Carmichael, Chernick, psi_k strong pseudoprimes, a constructed strong pseudoprime to 2,3,5, p^2, "
        "p(2p-1), close primes); recodings for every width 2..8 on structured scalars with exact-size buffers and "
        "too-short buffers; a case is non-trivial when an operand is non-zero; distinct = distinct (key, inputs)")
ASSUMPTIONS = ["Python integers, pow, math.gcd, math.isqrt are the reference for Z and Z/m",
               "verif/model/nt.py: Jacobi symbol, BPSW + 40 random Miller-Rabin bases decide primality (self-tested)",
               "bn_mod* return the non-negative residue for a positive modulus (floor convention of bn_div, DESIGN 8)",
               "Montgomery radix R = 2^(digit bits * used digits of m); bn_mod_monty_* are defined for 0 <= a < m*R",
               "bn_rec_jsf stores the second row at offset max(bits(k), bits(l)) + 1 (layout used by every caller)",
               "bn_rec_sac: *len is the per-row capacity on input and the row stride on output, row 0 holds sign bits "
               "(0 = +1, 1 = -1), k[0] odd, all k[i] >= 0 (usage in ep2_mul_reg_gls)",
               "bn_rec_reg is regular (all digits odd) only for odd k; bits(k) <= n is its domain",
               "tau-adic digits are decoded with the alpha_u = beta_u + gamma_u*tau table of bn_rec_tnaf_get after that "
               "table has been validated by alpha_u = u (mod tau^w) through tau -> t_w",
               "GLV: lambda is the root of x^2+x+1 mod n with [lambda]G = (beta*x_G, y_G), found with the model curve"]


def parts(tier):
    q = tier == "quick"
    out = []
    for cfg, k in (("asan256", 1.0), ("asan256w8", 1.0), ("asan256k", 1.0)):
        out.append(dict(part="mod", cfg=cfg, shards=3 if q else 6))
        out.append(dict(part="num", cfg=cfg, shards=2 if q else 6))
        out.append(dict(part="prime", cfg=cfg, shards=2 if q else 4))
        out.append(dict(part="rec", cfg=cfg, shards=2 if q else 6))
    out.append(dict(part="fatal", cfg="asan256", shards=2))
    return out


def sg(x):
    return "neg" if x < 0 else ("zero" if x == 0 else "pos")


class Env(object):
    """per-worker state: runtime, generators, object pool, common verdict helpers"""

    def __init__(self, ctx, R):
        self.ctx = ctx
        self.R = R
        self.rng = ctx.rng
        self.W = R.DIG
        self.B = 1 << R.DIG
        self.CAP = R.BN_SIZE
        self.w8 = R.DIG == 8
        self.K = R.K
        self.pool = [R.bn_new() for _ in range(10)]
        self.lenp = R.mem(8, 0)
        self.monty = R.target("bn_mod_pre") == "bn_mod_pre_monty"

    # ------------------------------------------------------------ generators
    def pat(self):
        rng, B, W = self.rng, self.B, self.W
        c = rng.randrange(10)
        if c == 0:
            return 0
        if c == 1:
            return B - 1
        if c == 2:
            return 1 << rng.randrange(W)
        if c == 3:
            return B >> 1
        if c == 4:
            return (B >> 1) + rng.choice([-1, 1])
        if c == 5:
            return 1
        if c == 6:
            return B - 2
        return rng.randrange(B)

    def mag(self, nd):
        """magnitude with exactly nd digits worth of structure (may have leading zero digits)"""
        rng = self.rng
        v = 0
        mode = rng.randrange(6)
        for i in range(nd):
            if mode == 0:
                d = self.B - 1
            elif mode == 1:
                d = 0 if i else self.pat()
            elif mode in (2, 3):
                d = rng.randrange(self.B)
            else:
                d = self.pat()
            v = (v << self.W) | d
        if mode == 1 and nd:
            v |= self.pat() << (self.W * (nd - 1))
        return v

    def ndig(self, maxd):
        rng = self.rng
        return rng.choice([1, 1, 2, 2, 3, 4, rng.randrange(1, maxd + 1), rng.randrange(1, maxd + 1), maxd])

    def operand(self, maxd, signed=True, zero_ok=True):
        rng = self.rng
        nd = self.ndig(maxd)
        if zero_ok and rng.random() < 0.04:
            nd = 0
        v = self.mag(nd)
        if rng.random() < 0.1:
            v = rng.choice([0, 1, 2, 3, self.B - 1, self.B, self.B + 1]) if zero_ok else rng.choice([1, 2, 3, self.B - 1, self.B, self.B + 1])
        if not zero_ok and v == 0:
            v = 1
        if signed and rng.random() < 0.3:
            v = -v
        return v

    def modulus(self, maxd, kind=None):
        """positive modulus >= 2 (unless kind says otherwise)"""
        rng, W, B = self.rng, self.W, self.B
        nd = self.ndig(maxd)
        kind = kind or rng.choice(["odd", "odd", "odd", "rand", "even", "topmax", "lowzero", "pm", "small", "top1"])
        if kind == "small":
            return rng.choice([2, 3, 4, 5, 7, 8, 9, 15, 16, 255, 256, 257, B - 1, B + 1]) if rng.random() < 0.7 else max(2, self.pat())
        m = self.mag(nd) | (1 << (W * (nd - 1)))
        if kind == "odd":
            m |= 1
        elif kind == "even":
            m &= ~1
        elif kind == "topmax":
            m |= (B - 1) << (W * (nd - 1))
            m |= rng.randrange(2)
        elif kind == "lowzero" and nd > 1:
            z = rng.randrange(1, nd)
            m = (m >> (W * z)) << (W * z)
            if rng.random() < 0.7:
                m |= 1
        elif kind == "pm":
            k = rng.randrange(2, W * nd + 1)
            m = (1 << k) + rng.choice([-1, 1]) * rng.choice([1, 3, 5, 17, 19, 189, 255])
        elif kind == "top1":
            m = (1 << (W * (nd - 1))) | (self.mag(nd - 1) if nd > 1 else 1)
        return max(2, m)

    def odd_modulus(self, maxd):
        m = self.modulus(maxd, self.rng.choice(["odd", "odd", "topmax", "lowzero", "pm", "small", "top1"]))
        m |= 1
        return m if m > 2 else 3

    # -------------------------------------------------------------- verdicts
    def out_bn(self, p, exp, key, what="value"):
        ctx, R = self.ctx, self.R
        v, used, sign, normal = R.bn_get(p)
        ok = ctx.check(v == exp, key + "|" + what, {"got": hx(v) if v is not None else None, "exp": hx(exp)})
        ctx.check(normal, key + "|normal-form", {"used": used, "sign": sign, "got": hx(v) if v is not None else None})
        return ok

    def unchanged(self, pairs, key, outs=()):
        ctx, R = self.ctx, self.R
        for p, val in pairs:
            if p in outs:
                continue
            vv = R.bn_get(p)
            ctx.check(vv[0] == val and vv[3], key + "|input-modified", {"was": hx(val), "now": repr(vv)})

    def junk(self, *ps):
        """overwrite outputs with a poisoned non-trivial value"""
        for p in ps:
            self.R.bn_put(p, self.rng.getrandbits(70) | 1)

    def newpoison(self):
        self.R.poison = self.rng.randrange(1, 256)

    # contiguous bn_st arrays (ALLOC=AUTO ABI of bn_t *)
    def arr_new(self, n):
        R = self.R
        p = R.mem(max(1, n) * R.bn_sz, R.poison)
        for i in range(n):
            r = R.call("bn_make", p + i * R.bn_sz, R.BN_SIZE)
            if r.caught:
                raise RuntimeError("bn_make failed")
        return p

    def arr_at(self, p, i):
        return p + i * self.R.bn_sz

    def setlen(self, v):
        self.R.wr_sz(self.lenp, v)
        return self.lenp

    def getlen(self):
        return self.R.rd_sz(self.lenp)


def s8(b):
    return b - 256 if b > 127 else b


def guard(ctx, fn):
    """run one case body; monitor violations of the trampoline become failures of the current case"""
    try:
        fn()
    except MonitorViolation as e:
        ctx.fail((ctx.cur_key or "?") + "|" + e.kind, e.detail)
    finally:
        ctx.end()


# =============================================================================================== part "mod"
def run_mod(E):
    ctx, R, rng, W, B, CAP, K = E.ctx, E.R, E.rng, E.W, E.B, E.CAP, E.K
    a, b, c, d, e, m, u, t0, t1, t2 = E.pool
    MAXM = 40 if E.w8 else 16            # modulus digits
    MXPM = 20 if E.w8 else 16
    NV = K["ERR_NO_VALID"]

    def nd(v):
        return max(1, (abs(v).bit_length() + W - 1) // W)

    # ------------------------------------------------------------------ bn_mod_2b
    def mod_2b():
        x = E.operand(CAP - 2)
        if x > 0 and rng.random() < 0.75:
            x = -x
        s = rng.choice([0, 1, W - 1, W, W + 1, 2 * W, rng.randrange(0, 3 * W), rng.randrange(0, (CAP - 2) * W),
                        abs(x).bit_length(), abs(x).bit_length() + 1, max(0, abs(x).bit_length() - 1)])
        exp = x % (1 << s)
        cls = sg(x)
        if x < 0:
            cls += "|exact" if exp == 0 else "|inexact"
        alias = rng.randrange(2)
        if not ctx.begin("bn_mod_2b|%s|alias%d" % (cls, alias), [hx(x), s], nontrivial=bool(x)):
            return
        R.bn_put(a, x)
        E.junk(c)
        out = a if alias else c
        r = R.call("bn_mod_2b", out, a, s)
        if ctx.check(not r.caught, ctx.cur_key + "|unexpected-error", {"err": r.err}):
            E.out_bn(out, exp, ctx.cur_key)
            E.unchanged([(a, x)], ctx.cur_key, (out,))

    # ------------------------------------------------------------------ bn_mod_basic
    def mod_basic():
        x = E.operand(CAP - 3)
        mm = E.operand(MAXM, zero_ok=False) if rng.random() < 0.5 else E.modulus(MAXM) * rng.choice([1, 1, 1, -1])
        if rng.random() < 0.15:
            x = mm * E.operand(3) + rng.choice([0, 0, 1, -1])
        if rng.random() < 0.03:
            mm = 0
        if abs(x).bit_length() > (CAP - 3) * W:
            x >>= 3 * W
        if mm == 0:
            if not ctx.begin("bn_mod_basic|modulus-zero", [hx(x)]):
                return
            R.bn_put(a, x)
            R.bn_put(m, 0)
            E.junk(c)
            r = R.call("bn_mod_basic", c, a, m)
            ctx.check(r.caught, ctx.cur_key + "|accepted", None)
            return
        exp = x % mm
        alias = rng.randrange(2)
        if not ctx.begin("bn_mod_basic|%s,%s|%s|alias%d" % (sg(x), sg(mm), "rem0" if exp == 0 else "rem", alias), [hx(x), hx(mm)], nontrivial=bool(x)):
            return
        R.bn_put(a, x)
        R.bn_put(m, mm)
        E.junk(c)
        out = a if alias else c
        r = R.call("bn_mod_basic", out, a, m)
        if ctx.check(not r.caught, ctx.cur_key + "|unexpected-error", {"err": r.err}):
            E.out_bn(out, exp, ctx.cur_key)
            E.unchanged([(a, x), (m, mm)], ctx.cur_key, (out,))

    # operand to reduce modulo mm: classes below / equal / multiple / above / long
    def reducible(mm, maxfactor_digits, signed=True):
        k = nd(mm)
        c_ = rng.randrange(10)
        if c_ == 0:
            x = rng.randrange(mm)
        elif c_ == 1:
            x = mm * rng.choice([1, 1, 2, 3, rng.randrange(1, B)])
        elif c_ == 2:
            x = mm + rng.choice([-1, 1])
        elif c_ == 3:
            x = mm * mm - rng.choice([0, 1, 2]) if 2 * k <= maxfactor_digits + k else mm
        elif c_ == 4:
            x = (1 << (2 * k * W)) - 1 - rng.randrange(3)
        elif c_ == 5:
            x = rng.choice([0, 1, 2])
        elif c_ == 6:
            x = E.mag(rng.randrange(1, 2 * k + 1))
        else:
            x = E.mag(2 * k)
        if signed and rng.random() < 0.3:
            x = -x
        return x

    # ------------------------------------------------------------------ Barrett
    def barrt():
        mm = E.modulus(MAXM)
        if rng.random() < 0.03:
            mm = rng.choice([0, -mm])
        if mm <= 0:
            if not ctx.begin("bn_mod_barrt|modulus-not-positive", [hx(mm)]):
                return
            R.bn_put(m, mm)
            E.junk(u, c)
            r = R.call("bn_mod_pre_barrt", u, m)
            ctx.check(r.caught, "bn_mod_pre_barrt|modulus-not-positive|accepted", None)
            R.bn_put(a, 12345)
            R.bn_put(u, 1)
            r = R.call("bn_mod_barrt", c, a, m, u)
            ctx.check(r.caught, ctx.cur_key + "|accepted", None)
            return
        k = nd(mm)
        x = reducible(mm, CAP)
        if rng.random() < 0.08 and 2 * k + 3 < CAP - 3:
            x = E.mag(2 * k + rng.randrange(1, 4)) * rng.choice([1, -1])      # longer than 2k digits: documented fallback
        if abs(x).bit_length() > (CAP - 3) * W:
            x >>= 3 * W
        exp = x % mm
        rel = "lt" if abs(x) < mm else ("long" if nd(x) > 2 * k else "ge")
        cls = "%s|%s|%s" % (sg(x), rel, "mult" if exp == 0 and x else "rem")
        alias = rng.randrange(2)
        if not ctx.begin("bn_mod_barrt|%s|alias%d" % (cls, alias), [hx(x), hx(mm)], nontrivial=bool(x)):
            return
        R.bn_put(a, x)
        R.bn_put(m, mm)
        E.junk(u, c)
        r = R.call("bn_mod_pre_barrt", u, m)
        if not ctx.check(not r.caught, "bn_mod_pre_barrt|pos|unexpected-error", {"err": r.err, "m": hx(mm)}):
            return
        uu = R.bn_val(u)
        out = a if alias else c
        r = R.call("bn_mod_barrt", out, a, m, u)
        if ctx.check(not r.caught, ctx.cur_key + "|unexpected-error", {"err": r.err}):
            E.out_bn(out, exp, ctx.cur_key)
            E.unchanged([(a, x), (m, mm), (u, uu)], ctx.cur_key, (out,))

    # ------------------------------------------------------------------ Montgomery
    def monty():
        mm = E.odd_modulus(MAXM)
        bad = rng.random() < 0.04
        if bad:
            mm = rng.choice([mm + 1, -mm, 0])
            if not ctx.begin("bn_mod_monty|modulus-even-or-negative", [hx(mm)]):
                return
            R.bn_put(m, mm)
            R.bn_put(a, 5)
            R.bn_put(u, 1)
            E.junk(c)
            for fn, args in (("bn_mod_pre_monty", (u, m)), ("bn_mod_monty_conv", (c, a, m)), ("bn_mod_monty_back", (c, a, m)),
                             ("bn_mod_monty_basic", (c, a, m, u)), ("bn_mod_monty_comba", (c, a, m, u))):
                r = R.call(fn, *args)
                ctx.check(r.caught and r.err == NV, fn + "|modulus-even-or-negative|accepted", {"caught": r.caught, "err": r.err, "m": hx(mm)})
            return
        k = nd(mm)
        Rr = 1 << (k * W)
        Rinv = pow(Rr, -1, mm)
        op = rng.choice(["conv", "back", "basic", "comba", "basic", "comba", "roundtrip", "mulred"])
        R.bn_put(m, mm)
        E.junk(u)
        r = R.call("bn_mod_pre_monty", u, m)
        uu = R.bn_val(u)
        if op == "conv":
            x = reducible(mm, CAP)
            if abs(x).bit_length() > (CAP - 3 - k) * W:
                x %= mm
            if not ctx.begin("bn_mod_monty_conv|%s|%s" % (sg(x), "lt" if abs(x) < mm else "ge"), [hx(x), hx(mm)], nontrivial=bool(x)):
                return
            ctx.check(not r.caught and uu is not None and 0 <= uu < B and (uu * mm + 1) % B == 0, "bn_mod_pre_monty|odd|value", {"u": hx(uu or 0), "m": hx(mm)})
            R.bn_put(a, x)
            E.junk(c)
            alias = rng.randrange(2)
            out = a if alias else c
            r = R.call("bn_mod_monty_conv", out, a, m)
            if ctx.check(not r.caught, ctx.cur_key + "|unexpected-error", {"err": r.err}):
                E.out_bn(out, x * Rr % mm, ctx.cur_key)
                E.unchanged([(a, x), (m, mm)], ctx.cur_key, (out,))
            return
        if op in ("back", "basic", "comba"):
            fn = {"back": "bn_mod_monty_back", "basic": "bn_mod_monty_basic", "comba": "bn_mod_monty_comba"}[op]
            c_ = rng.randrange(8)
            lim = mm * Rr
            if c_ == 0:
                x = rng.randrange(mm)
            elif c_ == 1:
                x = lim - 1 - rng.randrange(3)
            elif c_ == 2:
                x = mm * rng.randrange(0, Rr)
            elif c_ == 3:
                x = rng.choice([0, 1, mm - 1, mm, mm + 1, Rr - 1, Rr, Rr + 1])
            elif c_ == 4:
                x = (mm - 1) * (mm - 1)
            elif c_ == 5:
                x = E.mag(rng.randrange(1, 2 * k + 1))
            else:
                x = rng.randrange(lim)
            x %= lim
            if op == "back" and rng.random() < 0.6:
                x %= mm
            cls = "lt-m" if x < mm else ("lt-mR" if nd(x) < 2 * k else "full")
            if not ctx.begin("%s|%s" % (fn, cls), [hx(x), hx(mm)], nontrivial=bool(x)):
                return
            R.bn_put(a, x)
            E.junk(c)
            alias = rng.randrange(2)
            out = a if alias else c
            r = R.call(fn, out, a, m) if op == "back" else R.call(fn, out, a, m, u)
            if ctx.check(not r.caught, ctx.cur_key + "|unexpected-error", {"err": r.err}):
                E.out_bn(out, x * Rinv % mm, ctx.cur_key)
                E.unchanged([(a, x), (m, mm), (u, uu)], ctx.cur_key, (out,))
            return
        if op == "roundtrip":
            x = reducible(mm, CAP)
            if abs(x).bit_length() > (CAP - 3 - k) * W:
                x %= mm
            if not ctx.begin("bn_mod_monty|roundtrip|%s" % sg(x), [hx(x), hx(mm)], nontrivial=bool(x)):
                return
            R.bn_put(a, x)
            E.junk(c, d)
            r1 = R.call("bn_mod_monty_conv", c, a, m)
            r2 = R.call("bn_mod_monty_back", d, c, m)
            if ctx.check(not r1.caught and not r2.caught, ctx.cur_key + "|unexpected-error", None):
                E.out_bn(d, x % mm, ctx.cur_key)
            return
        # product of two Montgomery images reduced = image of the product
        x, y = rng.randrange(mm), rng.randrange(mm)
        fn = rng.choice(["bn_mod_monty_basic", "bn_mod_monty_comba"])
        if not ctx.begin("%s|product-of-images" % fn, [hx(x), hx(y), hx(mm)]):
            return
        xi, yi = x * Rr % mm, y * Rr % mm
        R.bn_put(a, xi * yi)
        E.junk(c)
        r = R.call(fn, c, a, m, u)
        if ctx.check(not r.caught, ctx.cur_key + "|unexpected-error", {"err": r.err}):
            E.out_bn(c, x * y * Rr % mm, ctx.cur_key)

    # ------------------------------------------------------------------ pseudo-Mersenne
    def pmers():
        kb = rng.choice([2, 3, 8, W - 1, W, W + 1, 2 * W, 127, 128, 130, 255, 256, 257, rng.randrange(2, MAXM * W)])
        kb = min(kb, MAXM * W)
        cc = rng.choice([1, 1, 3, 5, 19, 189, 255, rng.randrange(1, 1 << max(1, min(kb // 2, 62)))])
        mm = (1 << kb) - cc
        if mm < 2 or mm.bit_length() != kb:
            mm = (1 << kb) - 1
        if mm < 2:
            mm = 3
        kb = mm.bit_length()
        x = reducible(mm, CAP)
        if abs(x).bit_length() > (CAP - 4) * W // 2:
            x >>= abs(x).bit_length() - (CAP - 4) * W // 2
        exp = x % mm
        cls = "%s|%s|%s" % (sg(x), "lt" if abs(x) < mm else "ge", "mult" if exp == 0 and x else "rem")
        alias = rng.randrange(2)
        if not ctx.begin("bn_mod_pmers|%s|alias%d" % (cls, alias), [hx(x), hx(mm)], nontrivial=bool(x)):
            return
        R.bn_put(a, x)
        R.bn_put(m, mm)
        E.junk(u, c)
        r = R.call("bn_mod_pre_pmers", u, m)
        uu = R.bn_val(u)
        ctx.check(not r.caught and uu == (1 << kb) - mm, "bn_mod_pre_pmers|value", {"u": hx(uu or 0), "m": hx(mm)})
        out = a if alias else c
        r = R.call("bn_mod_pmers", out, a, m, u)
        if ctx.check(not r.caught, ctx.cur_key + "|unexpected-error", {"err": r.err}):
            E.out_bn(out, exp, ctx.cur_key)
            E.unchanged([(a, x), (m, mm), (u, uu)], ctx.cur_key, (out,))

    # ------------------------------------------------------------------ inverse
    def coprime_to(mm, signed=True):
        for _ in range(50):
            x = E.operand(nd(mm) + 2, signed=signed, zero_ok=False)
            if rng.random() < 0.3:
                x %= mm
            if x and math.gcd(x, mm) == 1:
                return x
        return 1

    def inv():
        mm = E.modulus(MAXM)
        if rng.random() < 0.75:
            x = coprime_to(mm)
        else:
            x = E.operand(nd(mm) + 1)
        g = math.gcd(x, mm)
        par = "odd" if mm & 1 else "even"
        if g != 1:
            if not ctx.begin("bn_mod_inv|non-invertible|%s" % par, [hx(x), hx(mm)]):
                return
            R.bn_put(a, x)
            R.bn_put(m, mm)
            E.junk(c)
            r = R.call("bn_mod_inv", c, a, m)
            ctx.check(r.caught, ctx.cur_key + "|accepted", {"got": hx(R.bn_val(c) or 0)})
            return
        rel = "lt" if abs(x) < mm else "ge"
        alias = rng.randrange(2)
        if not ctx.begin("bn_mod_inv|%s|%s|%s|alias%d" % (sg(x), rel, par, alias), [hx(x), hx(mm)]):
            return
        R.bn_put(a, x)
        R.bn_put(m, mm)
        E.junk(c)
        out = a if alias else c
        r = R.call("bn_mod_inv", out, a, m)
        if ctx.check(not r.caught, ctx.cur_key + "|unexpected-error", {"err": r.err}):
            E.out_bn(out, pow(x, -1, mm), ctx.cur_key)
            E.unchanged([(a, x), (m, mm)], ctx.cur_key, (out,))

    def inv_sim():
        mm = E.modulus(MAXM // 2)
        n = rng.choice([1, 2, 3, 5, 8])
        xs = [coprime_to(mm, signed=False) % mm or 1 for _ in range(n)]
        bad = rng.random() < 0.1
        if bad:
            g = next((q for q in nt.SMALL_PRIMES[:30] if mm % q == 0), None)
            if g is None or g >= mm:
                bad = False
            else:
                xs[rng.randrange(n)] = g
        if any(math.gcd(x, mm) != 1 for x in xs):
            bad = True
        if not ctx.begin("bn_mod_inv_sim|%s|n%s" % ("non-invertible" if bad else "ok", "1" if n == 1 else ">1"), [[hx(x) for x in xs], hx(mm)]):
            return
        pa, pc = E.arr_new(n), E.arr_new(n)
        try:
            for i, x in enumerate(xs):
                R.bn_put(E.arr_at(pa, i), x)
                R.bn_put(E.arr_at(pc, i), rng.getrandbits(66))
            R.bn_put(m, mm)
            r = R.call("bn_mod_inv_sim", pc, pa, m, n)
            if bad:
                ctx.check(r.caught, ctx.cur_key + "|accepted", None)
            elif ctx.check(not r.caught, ctx.cur_key + "|unexpected-error", {"err": r.err}):
                for i, x in enumerate(xs):
                    E.out_bn(E.arr_at(pc, i), pow(x, -1, mm), ctx.cur_key)
                    E.unchanged([(E.arr_at(pa, i), x)], ctx.cur_key)
        finally:
            R.free(pa)
            R.free(pc)

    # ------------------------------------------------------------------ exponentiation
    def exponent(mm):
        c_ = rng.randrange(12)
        k = nd(mm)
        if c_ == 0:
            return 0
        if c_ == 1:
            return rng.choice([1, 2, 3])
        if c_ == 2:
            return -rng.choice([1, 2, 3, E.mag(rng.randrange(1, k + 1)) or 1])
        if c_ == 3:
            return E.mag(k + rng.randrange(1, max(2, k // 2 + 1))) or 1      # longer than the modulus
        if c_ == 4:
            return (1 << rng.randrange(1, k * W)) - rng.randrange(2)
        if c_ == 5:
            return mm - 1
        return E.mag(rng.randrange(1, k + 1)) or 1

    def ecls(ev):
        return "e0" if ev == 0 else ("eneg" if ev < 0 else ("e1" if ev == 1 else "e"))

    def mxp_verdict(key, out, x, ev, mm, r, ins):
        """common verdict of a^e mod m"""
        if mm > 1 and ev < 0 and math.gcd(x, mm) != 1:
            ctx.check(r.caught, key + "|accepted-non-invertible", {"got": hx(R.bn_val(out) or 0)})
            return
        if r.caught:
            # even moduli are rejected by the Montgomery configuration (DESIGN 11): accepted as an error
            ctx.check(mm % 2 == 0 and E.monty, key + "|unexpected-error", {"err": r.err})
            return
        E.out_bn(out, pow(x, ev, mm), key)
        E.unchanged(ins, key, (out,))

    def mxp():
        fn = rng.choice(["bn_mxp_basic", "bn_mxp_slide", "bn_mxp_monty", "bn_mxp"])
        mm = E.modulus(MXPM) if rng.random() < 0.8 else rng.choice([1, 2, 3, 4])
        x = E.operand(min(nd(mm) + 2, CAP // 2 - 1))
        if rng.random() < 0.5:
            x %= mm
        ev = exponent(mm)
        if E.w8 and abs(ev).bit_length() > 200:
            ev >>= abs(ev).bit_length() - 200
        mc = "m1" if mm == 1 else ("odd" if mm & 1 else "even")
        alias = rng.randrange(3)
        key = "%s|%s|%s|%s|alias%d" % (fn, sg(x), ecls(ev), mc, alias)
        if not ctx.begin(key, [hx(x), hx(ev), hx(mm)], nontrivial=bool(x)):
            return
        R.bn_put(a, x)
        R.bn_put(b, ev)
        R.bn_put(m, mm)
        E.junk(c)
        out = (c, a, b)[alias]
        r = R.call(fn, out, a, b, m)
        mxp_verdict(key, out, x, ev, mm, r, [(a, x), (b, ev), (m, mm)])

    def mxp_dig():
        mm = E.modulus(MXPM) if rng.random() < 0.85 else rng.choice([1, 2, 3])
        x = E.operand(min(nd(mm) + 2, CAP // 2 - 1))
        ev = rng.choice([0, 1, 2, 3, B - 1, B >> 1, rng.randrange(B), rng.randrange(B)])
        mc = "m1" if mm == 1 else ("odd" if mm & 1 else "even")
        key = "bn_mxp_dig|%s|%s|%s" % (sg(x), ecls(ev), mc)
        if not ctx.begin(key, [hx(x), hx(ev), hx(mm)], nontrivial=bool(x)):
            return
        R.bn_put(a, x)
        R.bn_put(m, mm)
        E.junk(c)
        alias = rng.randrange(2)
        out = a if alias else c
        r = R.call("bn_mxp_dig", out, a, ev, m)
        mxp_verdict(key, out, x, ev, mm, r, [(a, x), (m, mm)])

    def mxp_sim():
        fn = rng.choice(["bn_mxp_sim", "bn_mxp_sim_few", "bn_mxp_sim_few", "bn_mxp_sim_lot", "bn_mxp_sim_lot"])
        mm = E.modulus(MXPM // 2)
        if rng.random() < 0.05:
            mm = 1
        n = 2 if fn == "bn_mxp_sim" else (rng.choice([0, 1, 2, 3, 5, 8, 9]) if fn == "bn_mxp_sim_few" else rng.choice([0, 1, 2, 7, 8, 9, 10, 16, 17]))
        if E.w8 and n > 9:
            n = 9
        neg = rng.random() < 0.06
        xs, es = [], []
        for i in range(n):
            xs.append(E.operand(nd(mm) + 1) if rng.random() < 0.3 else rng.randrange(mm))
            ev = rng.choice([0, 1, 2, E.mag(rng.randrange(1, nd(mm) + 1)), E.mag(1), rng.getrandbits(rng.choice([1, 8, 64, 100]))])
            if E.w8:
                ev &= (1 << 96) - 1
            es.append(ev)
        if neg and n:
            i = rng.randrange(n)
            es[i] = -(es[i] or 1)
            xs[i] = coprime_to(mm)
        exp = 1 % mm
        ok = True
        for x, ev in zip(xs, es):
            if ev < 0 and math.gcd(x, mm) != 1:
                ok = False
            else:
                exp = exp * pow(x, ev, mm) % mm
        ncls = "n0" if n == 0 else ("n1" if n == 1 else ("n>8" if n > 8 else "n2-8"))
        mc = "m1" if mm == 1 else ("odd" if mm & 1 else "even")
        key = "%s|%s|%s|%s" % (fn, ncls, "eneg" if neg and n else "e", mc)
        if not ctx.begin(key, [[hx(x) for x in xs], [hx(v) for v in es], hx(mm)], nontrivial=n > 0):
            return
        R.bn_put(m, mm)
        E.junk(c)
        if fn == "bn_mxp_sim":
            R.bn_put(a, xs[0])
            R.bn_put(b, es[0])
            R.bn_put(d, xs[1])
            R.bn_put(e, es[1])
            r = R.call(fn, c, a, b, d, e, m)
        else:
            pa, pb = E.arr_new(n), E.arr_new(n)
            for i in range(n):
                R.bn_put(E.arr_at(pa, i), xs[i])
                R.bn_put(E.arr_at(pb, i), es[i])
            r = R.call(fn, c, pa, pb, m, n)
            for i in range(n):
                E.unchanged([(E.arr_at(pa, i), xs[i]), (E.arr_at(pb, i), es[i])], key)
            R.free(pa)
            R.free(pb)
        if fn == "bn_mxp_sim_few" and n > 8 and mm != 1:
            ctx.check(r.caught, key + "|accepted", None)        # documented: up to 8 integers
            return
        if not ok:
            ctx.check(r.caught, key + "|accepted-non-invertible", None)
            return
        if r.caught:
            ctx.check(mm % 2 == 0 and E.monty, key + "|unexpected-error", {"err": r.err})
            return
        E.out_bn(c, exp, key)

    # ------------------------------------------------------------------ CRT exponentiation
    S = R.S
    S.vf_crt_new.restype = ctypes.c_void_p
    S.vf_crt_field.restype = ctypes.c_void_p
    S.vf_crt_field.argtypes = [ctypes.c_void_p, ctypes.c_int]
    S.vf_deref.restype = ctypes.c_void_p
    S.vf_deref.argtypes = [ctypes.c_void_p]
    crt = S.vf_crt_new()
    crtf = [S.vf_crt_field(crt, i) for i in range(6)]      # n p q dp dq qi
    crt_arg = S.vf_deref(crt)
    prime_cache = []

    def two_primes():
        bits = rng.choice([16, 32, 48, 64] if E.w8 else [16, 32, 64, 65, 128, 192, 256])
        if len(prime_cache) < 12 or rng.random() < 0.2:
            prime_cache.append(nt.rand_prime(rng, bits))
            prime_cache.append(nt.rand_prime(rng, bits + rng.choice([0, 0, 1, 7])))
        while True:
            p, q = rng.sample(prime_cache, 2)
            if p != q and p > 2 and q > 2:
                return p, q

    def mxp_crt():
        p, q = two_primes()
        n = p * q
        sqr = rng.random() < 0.4
        if not sqr:
            x = rng.choice([0, 1, 2, n - 1, rng.randrange(n * n), rng.randrange(n)])
            base = rng.choice([0, 1, n - 1, rng.randrange(n), rng.randrange(n), p, q * 3 % n])
            exp = pow(base, x, n)
            vals = [n, p, q, x % (p - 1), x % (q - 1), pow(q, -1, p)]
            eb, ec = x % (p - 1), x % (q - 1)
            key = "bn_mxp_crt|mod-n|%s" % ("base-shares-factor" if math.gcd(base, n) != 1 else "unit")
        else:
            g = n + 1
            msg = rng.choice([0, 1, 2, n - 1, rng.randrange(n)])
            rr = rng.randrange(1, n)
            while math.gcd(rr, n) != 1:
                rr = rng.randrange(1, n)
            base = (1 + msg * n) * pow(rr, n, n * n) % (n * n)
            hp = pow((pow(g, p - 1, p * p) - 1) // p, -1, p)
            hq = pow((pow(g, q - 1, q * q) - 1) // q, -1, q)
            vals = [n, p, q, hp, hq, pow(q, -1, p)]
            eb, ec = p - 1, q - 1
            exp = msg
            key = "bn_mxp_crt|mod-n^2|paillier"
        if not ctx.begin(key, [hx(base), hx(eb), hx(ec), hx(p), hx(q), int(sqr)]):
            return
        for ptr, v in zip(crtf, vals):
            R.bn_put(ptr, v)
        R.bn_put(a, base)
        R.bn_put(b, eb)
        R.bn_put(c, ec)
        E.junk(d)
        r = R.call("bn_mxp_crt", d, a, b, c, crt_arg, int(sqr))
        if ctx.check(not r.caught, key + "|unexpected-error", {"err": r.err}):
            E.out_bn(d, exp, key)
            E.unchanged([(a, base), (b, eb), (c, ec)] + list(zip(crtf, vals)), key)

    ops = ([mod_2b] * 3 + [mod_basic] * 3 + [barrt] * 5 + [monty] * 8 + [pmers] * 4 + [inv] * 4 + [inv_sim] + [mxp] * 7 + [mxp_dig] * 2 +
           [mxp_sim] * 3 + [mxp_crt])
    N = ctx.n(1500 if E.w8 else 3200, 60000)
    for _ in range(N):
        E.newpoison()
        guard(ctx, rng.choice(ops))


def run(ctx, part):
    R = RT(ctx.cfg)
    R.strict_chain = True
    E = Env(ctx, R)
    ctx.note("digit_bits", str(R.DIG))
    ctx.note("capacity_digits", str(R.BN_SIZE))
    ctx.note("dispatch", {k: R.target(k) for k in ("bn_mul", "bn_sqr", "bn_mxp", "bn_gcd", "bn_gcd_ext", "bn_gen_prime", "bn_mod_pre", "bn_mod_monty")})
    # the library generator is deterministic (-DSEED=): reseed it from the case generator so that prime generation and
    # the Solovay-Strassen witnesses vary with VERIF_SEED and shard
    sd = R.put(ctx.rng.getrandbits(256).to_bytes(32, "big"))
    R.call("rand_seed", sd, 32)
    R.free(sd)
    globals()["run_" + part](E)
    ctx.note("functions_exercised", sorted(R.fn_seen))
    ctx.note("error_codes_seen", {str(k): v for k, v in R.err_codes.items()})
