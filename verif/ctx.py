"""Per-worker check context: journal, counters, failures, samples, per-case watchdog."""
import hashlib
import json
import os
import random
import signal
import time
import traceback

HASH_CAP = 250000


class Skip(Exception):
    pass


class Ctx(object):
    def __init__(self, prop, part, cfg, tier, seed, shard, nshards, outdir, skip=(), only=None, skip_patterns=()):
        self.prop = prop
        self.part = part
        self.cfg = cfg
        self.tier = tier
        self.seed = seed
        self.shard = shard
        self.nshards = nshards
        self.outdir = outdir
        self.skip = set(skip)
        self.skip_patterns = list(skip_patterns)
        self._pat_cache = {}
        self.only = only
        h = hashlib.sha256(("%s|%s|%s|%d|%d" % (prop, part, cfg, seed, shard)).encode()).digest()
        self.rng = random.Random(int.from_bytes(h[:8], "big"))
        self.tag = ("%s.%s.%s.%d" % (prop, part, cfg, shard)).replace(":", "_")
        self.jfd = os.open(os.path.join(outdir, self.tag + ".journal"),
                           os.O_WRONLY | os.O_CREAT | os.O_TRUNC, 0o644)
        self.evaluations = 0
        self.cases = 0
        self.keys = {}
        self.failures = {}
        self.hashes = set()
        self.samples = []
        self.sample_keys = set()
        self.info = {}
        self.skipped = {}
        self.cur_key = None
        self.cur_desc = None
        self.default_budget = 120 if tier == "quick" else 300
        self.t0 = time.time()
        self.case_index = 0
        self.quick = (tier == "quick")
        self.sample_every = 0
        self.sample_phase = 0

    # scale(n_quick, n_thorough)
    def n(self, q, t=None):
        if self.tier == "quick":
            v = q
        else:
            v = t if t is not None else q * 20
        s = os.environ.get("VF_SCALE")
        if s:
            v = max(1, int(v * float(s)))
        return v

    def mine(self, i):
        """round-robin ownership of directed case number i"""
        return (i % self.nshards) == self.shard

    def begin(self, key, desc=None, nontrivial=True, budget=None):
        """Announce a case before touching the library.  False => skip it."""
        self.case_index += 1
        if self.sample_every and key in self.keys and (self.case_index % self.sample_every) != self.sample_phase:
            return False    # sampler mode (C08): first case of every class, then every k-th case
        if key in self.skip:
            self.skipped[key] = self.skipped.get(key, 0) + 1
            return False
        if self.skip_patterns:
            hit = self._pat_cache.get(key)
            if hit is None:
                import fnmatch
                hit = any(fnmatch.fnmatchcase(key, p) for p in self.skip_patterns)
                self._pat_cache[key] = hit
            if hit:
                self.info.setdefault("classes_not_sampled_known_fatal_elsewhere", {})
                d = self.info["classes_not_sampled_known_fatal_elsewhere"]
                d[key] = d.get(key, 0) + 1
                return False
        if self.only is not None and key != self.only:
            return False
        self.cur_key = key
        self.cur_desc = desc
        rec = json.dumps({"key": key, "i": self.case_index, "desc": desc}, default=_enc).encode()
        os.pwrite(self.jfd, rec, 0)
        os.ftruncate(self.jfd, len(rec))
        signal.setitimer(signal.ITIMER_REAL, budget or self.default_budget)
        self.cases += 1
        self.keys[key] = self.keys.get(key, 0) + 1
        if nontrivial and len(self.hashes) < HASH_CAP:
            self.hashes.add(hash((key, repr(desc))) & 0xFFFFFFFFFFFFFFFF)
        if key not in self.sample_keys and len(self.samples) < 12 and desc is not None:
            self.sample_keys.add(key)
            self.samples.append({"key": key, "desc": _short(desc)})
        return True

    def end(self):
        signal.setitimer(signal.ITIMER_REAL, 0)

    def ok(self, n=1):
        self.evaluations += n

    def fail(self, key, detail=None):
        """A monitor/oracle disagreement on the current case."""
        f = self.failures.get(key)
        if f is None:
            self.failures[key] = {"count": 1, "case_key": self.cur_key, "desc": _short(self.cur_desc, 4000),
                                  "detail": _short(detail, 4000), "i": self.case_index,
                                  "shard": self.shard, "part": self.part, "cfg": self.cfg}
        else:
            f["count"] += 1

    def check(self, cond, key=None, detail=None):
        self.evaluations += 1
        if not cond:
            self.fail(key or self.cur_key, detail)
        return cond

    def note(self, k, v):
        if isinstance(v, dict) and isinstance(self.info.get(k), dict):
            self.info[k].update(v)
        elif isinstance(v, list) and isinstance(self.info.get(k), list):
            self.info[k] += [x for x in v if x not in self.info[k]]
        else:
            self.info[k] = v

    def add(self, k, n=1):
        self.info[k] = self.info.get(k, 0) + n

    def result(self, done, error=None):
        return {"tag": self.tag, "prop": self.prop, "part": self.part, "cfg": self.cfg,
                "shard": self.shard, "nshards": self.nshards, "done": done, "error": error,
                "evaluations": self.evaluations, "cases": self.cases, "keys": self.keys,
                "failures": self.failures, "hashes": sorted(self.hashes), "samples": self.samples,
                "info": self.info, "skipped": self.skipped, "wall_s": time.time() - self.t0}

    def write(self, done, error=None):
        signal.setitimer(signal.ITIMER_REAL, 0)
        tmp = os.path.join(self.outdir, self.tag + ".result.tmp")
        with open(tmp, "w") as fh:
            json.dump(self.result(done, error), fh, default=_enc)
        os.replace(tmp, os.path.join(self.outdir, self.tag + ".result"))


def _enc(o):
    if isinstance(o, (bytes, bytearray)):
        return "hex:" + bytes(o).hex()
    if isinstance(o, set):
        return sorted(o)
    return repr(o)


def _short(d, lim=600):
    if d is None:
        return None
    try:
        s = json.dumps(d, default=_enc)
    except Exception:
        s = repr(d)
    if len(s) > lim:
        return s[:lim] + "...(%d chars)" % len(s)
    try:
        return json.loads(s)
    except Exception:
        return s


def hx(v):
    """compact hex of a python int for descriptions"""
    return ("-" if v < 0 else "") + hex(abs(v))
