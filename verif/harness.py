"""Parent process of a check: builds, positive controls, sharded workers with restart after a
sanitizer report, known-findings matching, evidence, exit code."""
import fnmatch
import glob
import hashlib
import importlib
import json
import os
import re
import shutil
import subprocess
import sys
import threading
import time

from . import build

VERIF = build.VERIF
EVID = os.path.join(VERIF, "evidence") if not (build.ALT or build.COV or build.XFLAGS) else os.path.join(build.WORK, "evidence")
REPLAY = os.path.join(VERIF, "replay") if not (build.ALT or build.COV or build.XFLAGS) else os.path.join(build.WORK, "replay")
KNOWN = os.path.join(VERIF, "known_findings.jsonl")
NPROC = int(os.environ.get("VF_JOBS", "16"))
PY = "/usr/bin/python3"
MAX_RESTARTS = 20


def load_known():
    out = []
    if os.path.exists(KNOWN):
        for ln in open(KNOWN):
            ln = ln.strip()
            if ln and not ln.startswith("#"):
                out.append(json.loads(ln))
    return out


def match_known(known, prop, key):
    for k in known:
        if k.get("property") == prop and k.get("status") == "known" and fnmatch.fnmatchcase(key, k["key"]):
            return k
    return None


class _Tail(threading.Thread):
    """keeps the last bytes a worker wrote to stderr (the library prints every raised error there, so the
    whole stream can be hundreds of MB in a thorough run; UBSan writes its report there too)"""

    def __init__(self, pipe, keep=65536):
        threading.Thread.__init__(self, daemon=True)
        self.pipe = pipe
        self.keep = keep
        self.buf = b""

    def run(self):
        while True:
            chunk = self.pipe.read(65536)
            if not chunk:
                break
            self.buf = (self.buf + chunk)[-self.keep:]


def san_summary(outdir, tag, extra=""):
    """-> (kind, text) from the sanitizer log files (and the stderr tail) of a dead worker"""
    txt = extra
    for f in sorted(glob.glob(os.path.join(outdir, tag + ".san.*"))):
        try:
            txt += open(f, errors="replace").read()
        except OSError:
            pass
    kind = None
    m = re.search(r"ERROR: AddressSanitizer: ([A-Za-z0-9_-]+)", txt)
    if m:
        kind = "asan:" + m.group(1)
    else:
        m = re.search(r"runtime error: ([^\n]*)", txt)
        if m:
            msg = m.group(1)
            msg = re.sub(r"0x[0-9a-f]+|-?\d+", "N", msg)
            msg = re.sub(r"'[^']*'", "T", msg)
            kind = "ubsan:" + re.sub(r"[^A-Za-z]+", "-", msg).strip("-")[:60]
    # top frames inside /repo
    frames = re.findall(r"#\d+ 0x[0-9a-f]+ in (\w+) (/[^\s:]+/src/[^\s:]+):(\d+)", txt)
    where = ["%s@%s:%s" % (f, os.path.basename(p), l) for f, p, l in frames[:4]]
    return kind, where, txt[-6000:]


class Shard(object):
    def __init__(self, prop, part, cfg, shard, nshards, tier, seed, outdir, timeout, only=None):
        self.spec = dict(prop=prop, part=part, cfg=cfg, shard=shard, nshards=nshards, tier=tier,
                         seed=seed, outdir=outdir, skip=[], only=only)
        self.tag = ("%s.%s.%s.%d" % (prop, part, cfg, shard)).replace(":", "_")
        self.timeout = timeout
        self.crashes = []      # list of dicts
        self.result = None
        self.state = "pending"
        self.restarts = 0
        self.hang_retry = {}
        self.error = None

    def run(self):
        outdir = self.spec["outdir"]
        while True:
            for f in glob.glob(os.path.join(outdir, self.tag + ".san.*")):
                os.unlink(f)
            env = build.san_env(self.spec["cfg"])
            logp = os.path.join(outdir, self.tag + ".san")
            for v in ("ASAN_OPTIONS", "UBSAN_OPTIONS", "TSAN_OPTIONS"):
                if v in env:
                    env[v] += ":log_path=" + logp
            env["PYTHONPATH"] = VERIF
            rf = os.path.join(outdir, self.tag + ".result")
            if os.path.exists(rf):
                os.unlink(rf)
            p = subprocess.Popen([PY, "-m", "verif.worker", json.dumps(self.spec)], env=env, cwd=VERIF,
                                 stdout=subprocess.DEVNULL, stderr=subprocess.PIPE)
            tail = _Tail(p.stderr)
            tail.start()
            try:
                rc = p.wait(timeout=self.timeout)
            except subprocess.TimeoutExpired:
                p.kill()
                p.wait()
                rc = "watchdog"
            tail.join(10)
            errtail = tail.buf.decode(errors="replace")
            if os.environ.get("VF_KEEP"):
                with open(os.path.join(outdir, self.tag + ".stderr"), "w") as fh:
                    fh.write(errtail)
            res = None
            if os.path.exists(rf):
                try:
                    res = json.load(open(rf))
                except Exception:
                    res = None
            if rc == 0 and res and res.get("done"):
                self.result = res
                self.state = "done"
                return
            if rc == "watchdog":
                self.state = "inconclusive"
                self.error = "worker watchdog (%ds) fired" % self.timeout
                self.result = res
                return
            if rc == 3:
                self.state = "inconclusive"
                self.error = "harness exception:\n" + str((res or {}).get("error"))
                self.result = res
                return
            # the process died: attribute to the journaled case
            jf = os.path.join(outdir, self.tag + ".journal")
            try:
                j = json.load(open(jf))
            except Exception:
                j = None
            if j is None:
                self.state = "inconclusive"
                self.error = "worker died (rc=%s) before any case was journaled\n%s" % (rc, errtail[-2000:])
                return
            kind, where, txt = san_summary(outdir, self.tag, errtail[-20000:])
            if kind is None:
                kind = "hang" if rc == -14 else "signal%s" % (-rc if isinstance(rc, int) else rc)
            ck = j["key"]
            if kind == "hang" and self.hang_retry.get(ck, 0) < 1:
                # re-run once before reporting a hang
                self.hang_retry[ck] = 1
                self.restarts += 1
                continue
            self.crashes.append({"key": ck + "|crash:" + kind, "case_key": ck, "kind": kind, "where": where,
                                 "desc": j.get("desc"), "i": j.get("i"), "report": txt,
                                 "shard": self.spec["shard"], "part": self.spec["part"],
                                 "cfg": self.spec["cfg"]})
            self.spec["skip"] = sorted(set(self.spec["skip"]) | {ck})
            self.restarts += 1
            if self.spec.get("only") is not None:
                self.state = "done"
                self.result = res
                return
            if self.restarts > MAX_RESTARTS:
                self.state = "inconclusive"
                self.error = "more than %d restarts" % MAX_RESTARTS
                return


def positive_controls(cfg, outdir):
    """The sanitizers of this build must be alive: both self tests have to die with a report."""
    env = build.san_env(cfg)
    env["PYTHONPATH"] = VERIF
    res = {}
    code = ("import sys\nfrom verif import rt\nR=rt.RT(%r)\n"
            "getattr(R.S, sys.argv[1])(int(sys.argv[2]))\nprint('SURVIVED')\n") % cfg
    for name, fn, arg, pat in (("asan", "vf_selftest_overflow", 8, "AddressSanitizer"),
                               ("ubsan", "vf_selftest_shift", 64, "runtime error")):
        p = subprocess.run([PY, "-c", code, fn, str(arg)], env=env, cwd=VERIF, stdout=subprocess.PIPE,
                           stderr=subprocess.PIPE, timeout=120)
        out = p.stdout.decode(errors="replace") + p.stderr.decode(errors="replace")
        res[name] = (pat in out) and ("SURVIVED" not in out) and p.returncode != 0
    # negative control: in-bounds access must survive
    p = subprocess.run([PY, "-c", code, "vf_selftest_overflow", "7"], env=env, cwd=VERIF,
                       stdout=subprocess.PIPE, stderr=subprocess.PIPE, timeout=120)
    res["clean"] = (p.returncode == 0 and b"SURVIVED" in p.stdout)
    return res


def run_check(prop, tier, seed, only_parts=None, replay=None):
    t0 = time.time()
    mod = importlib.import_module("verif.props." + prop)
    outdir = os.path.join(build.WORK, "run", "%s.%s.%d" % (prop, tier, os.getpid()))
    shutil.rmtree(outdir, ignore_errors=True)
    os.makedirs(outdir)
    os.makedirs(EVID, exist_ok=True)
    os.makedirs(REPLAY, exist_ok=True)
    parts = mod.parts(tier)
    if only_parts:
        parts = [p for p in parts if p["part"] in only_parts]
    if replay:
        parts = [p for p in parts if p["part"] == replay["part"] and p["cfg"] == replay["cfg"]]
    cfgs = []
    for p in parts:
        if p["cfg"] not in cfgs:
            cfgs.append(p["cfg"])
    # builds (in parallel; each uses ninja -j16 but they are short)
    berr = {}

    def _b(c):
        try:
            build.ensure(c)
        except Exception as e:  # noqa
            berr[c] = str(e)
    th = [threading.Thread(target=_b, args=(c,)) for c in cfgs]
    # limit to 4 concurrent builds
    for i in range(0, len(th), 4):
        for t in th[i:i + 4]:
            t.start()
        for t in th[i:i + 4]:
            t.join()
    if berr:
        for c, e in berr.items():
            print("BUILD FAILED for configuration %s:\n%s" % (c, e))
        print("INCONCLUSIVE property=%s (build failure)" % prop)
        return 2
    t_build = time.time() - t0
    controls = {}
    if not replay:
        for c in cfgs:
            if build.CONFIGS[c].get("san", "asan") == "asan":
                controls[c] = positive_controls(c, outdir)
                break  # one sanitizer build per run is enough to show the toolchain is alive
        for c, r in controls.items():
            if not all(r.values()):
                print("INCONCLUSIVE property=%s positive controls failed on %s: %r" % (prop, c, r))
                return 2
    shards = []
    for p in parts:
        n = p.get("shards", 1)
        if replay:
            shards.append(Shard(prop, p["part"], p["cfg"], replay["shard"], replay["nshards"], tier, seed, outdir,
                                p.get("timeout", 1800 if tier == "quick" else 6 * 3600), only=replay["only"]))
            continue
        for s in range(n):
            sh = Shard(prop, p["part"], p["cfg"], s, n, tier, seed, outdir,
                       p.get("timeout", 1800 if tier == "quick" else 6 * 3600))
            if p["part"].startswith("sampler:"):
                # classes that are known FATAL findings of the property whose generator is sampled are reported by
                # that property's own check; here they would only cost a worker restart each
                src = p["part"].split(":")[1]
                sh.spec["skip_patterns"] = sorted(set(k["key"].split("|crash:")[0] for k in load_known()
                                                      if k.get("property") == src and k.get("status") == "known"
                                                      and "|crash:" in k.get("key", "")))
            shards.append(sh)
    sem = threading.Semaphore(NPROC)

    def _r(sh):
        with sem:
            sh.run()
    th = [threading.Thread(target=_r, args=(sh,)) for sh in shards]
    for t in th:
        t.start()
    for t in th:
        t.join()
    # ---- aggregate
    known = load_known()
    evaluations = 0
    cases = 0
    keys = {}
    hashes = set()
    samples = []
    info = {}
    failures = {}     # key -> dict
    inconclusive = []
    restarts = 0
    skipped = {}
    for sh in shards:
        restarts += sh.restarts
        if sh.state != "done":
            inconclusive.append((sh.tag, sh.error))
        r = sh.result
        if r:
            evaluations += r.get("evaluations", 0)
            cases += r.get("cases", 0)
            for k, v in r.get("keys", {}).items():
                keys[k] = keys.get(k, 0) + v
            hashes.update(r.get("hashes", ()))
            for s in r.get("samples", ()):
                if len(samples) < 16 and s["key"] not in [x["key"] for x in samples]:
                    s = dict(s)
                    s["cfg"] = sh.spec["cfg"]
                    samples.append(s)
            for k, v in r.get("info", {}).items():
                if isinstance(v, (int, float)) and not isinstance(v, bool):
                    info[k] = info.get(k, 0) + v
                elif isinstance(v, list):
                    cur = info.setdefault(k, [])
                    for x in v:
                        if x not in cur:
                            cur.append(x)
                elif isinstance(v, dict):
                    cur = info.setdefault(k, {})
                    for kk, vv in v.items():
                        if isinstance(vv, (int, float)) and not isinstance(vv, bool):
                            cur[kk] = cur.get(kk, 0) + vv
                        else:
                            cur[kk] = vv
                else:
                    info[k] = v
            for k, v in r.get("skipped", {}).items():
                skipped[k] = skipped.get(k, 0) + v
            for k, f in r.get("failures", {}).items():
                g = failures.get(k)
                if g is None:
                    failures[k] = dict(f)
                else:
                    g["count"] += f["count"]
        for c in sh.crashes:
            g = failures.get(c["key"])
            if g is None:
                failures[c["key"]] = {"count": 1, "case_key": c["case_key"], "desc": c["desc"],
                                      "detail": {"sanitizer": c["kind"], "where": c["where"],
                                                 "report_tail": c["report"][-2500:]},
                                      "i": c["i"], "shard": c["shard"], "part": c["part"], "cfg": c["cfg"]}
            else:
                g["count"] += 1
    nviol = 0
    lines = []
    known_hit = {}
    for k in sorted(failures):
        f = failures[k]
        kf = match_known(known, prop, k)
        if kf is None and str(f.get("part", "")).startswith("sampler:"):
            # cross-property sampler: the case was generated by another property's module; a finding listed
            # for that property (same key) is the same finding here
            kf = match_known(known, f["part"].split(":")[1], k)
        if kf is not None:
            known_hit.setdefault(kf["key"], [kf, 0])[1] += f["count"]
            continue
        nviol += 1
        wid = hashlib.sha256((prop + "|" + k).encode()).hexdigest()[:12]
        path = os.path.join(REPLAY, "%s-%s.json" % (prop, wid))
        nsh = [p.get("shards", 1) for p in parts if p["part"] == f["part"] and p["cfg"] == f["cfg"]]
        with open(path, "w") as fh:
            json.dump({"property": prop, "key": k, "tier": tier, "seed": seed, "part": f["part"], "cfg": f["cfg"],
                       "shard": f["shard"], "nshards": (replay or {}).get("nshards") or (nsh[0] if nsh else 1),
                       "only": f["case_key"], "count": f["count"], "desc": f["desc"], "detail": f["detail"]},
                      fh, indent=1, default=repr)
        lines.append("VIOLATION property=%s replay=%s" % (prop, path))
        lines.append("  key=%s count=%d cfg=%s" % (k, f["count"], f["cfg"]))
        lines.append("  case=%s" % json.dumps(f["desc"], default=repr)[:600])
        lines.append("  detail=%s" % json.dumps(f["detail"], default=repr)[:1200])
    for kk, (kf, cnt) in sorted(known_hit.items()):
        lines.append("KNOWN-FINDING: property=%s %s [key=%s, %d occurrences this run]" % (prop, kf["what"], kk, cnt))
    wall = time.time() - t0
    rule = getattr(mod, "RULE", "cases are generated by the property module; a case is non-trivial when the "
                   "module marks it so (non-degenerate operands) and distinct when the hash of (key, inputs) differs")
    rule += " [distinct count is a lower bound: the hash set is capped at 250000 per worker]"
    cov = {"evaluations": int(evaluations), "distinct_nontrivial": int(len(hashes)), "rule": rule,
           "samples": samples, "cases_executed": int(cases), "case_classes": keys,
           "configurations": cfgs, "shards": len(shards), "worker_restarts_after_report": restarts,
           "sanitizer_positive_controls": controls, "build_s": round(t_build, 1),
           "known_findings_observed": {k: v[1] for k, v in known_hit.items()},
           "skipped_after_report": skipped, "tree_hash": build.tree_hash()[:16]}
    cov.update(info)
    if hasattr(mod, "finish"):
        try:
            mod.finish(cov)
        except Exception as e:  # noqa
            cov["finish_error"] = repr(e)
    ev = {"property_id": prop, "tier": tier, "seed": int(seed), "level": getattr(mod, "LEVEL", "exploration"),
          "coverage": cov, "assumptions": getattr(mod, "ASSUMPTIONS", []), "wall_s": round(wall, 2),
          "violations": nviol}
    if inconclusive:
        ev["coverage"]["inconclusive"] = [{"shard": t, "why": (e or "")[:2000]} for t, e in inconclusive]
    if not replay:
        with open(os.path.join(EVID, prop + ".json"), "w") as fh:
            json.dump(ev, fh, indent=1, default=repr)
    for ln in lines:
        print(ln)
    print("[%s %s seed=%d] cases=%d evaluations=%d distinct=%d classes=%d violations=%d known=%d restarts=%d wall=%.1fs"
          % (prop, tier, seed, cases, evaluations, len(hashes), len(keys), nviol, len(known_hit), restarts, wall))
    if not os.environ.get("VF_KEEP"):
        shutil.rmtree(outdir, ignore_errors=True)
    if nviol:
        return 1
    if inconclusive:
        for t, e in inconclusive:
            print("INCONCLUSIVE shard=%s: %s" % (t, e))
        return 2
    if evaluations == 0:
        print("INCONCLUSIVE: nothing was observed")
        return 2
    return 0


def main(argv):
    import argparse
    ap = argparse.ArgumentParser(prog="vf")
    sub = ap.add_subparsers(dest="cmd")
    c = sub.add_parser("check")
    c.add_argument("prop")
    c.add_argument("--tier", default=os.environ.get("VERIF_TIER", "quick"))
    c.add_argument("--part", action="append")
    r = sub.add_parser("replay")
    r.add_argument("path")
    b = sub.add_parser("build")
    b.add_argument("cfg", nargs="+")
    sub.add_parser("setup")
    a = ap.parse_args(argv)
    seed = int(os.environ.get("VERIF_SEED", "1") or "1")
    if a.cmd == "check":
        return run_check(a.prop, a.tier, seed, only_parts=a.part)
    if a.cmd == "replay":
        w = json.load(open(a.path))
        print("replaying %s key=%s" % (w["property"], w["key"]))
        print("recorded case: %s" % json.dumps(w.get("desc"))[:2000])
        print("recorded detail: %s" % json.dumps(w.get("detail"))[:3000])
        return run_check(w["property"], w["tier"], w["seed"], replay=w)
    if a.cmd == "build":
        for cfg in a.cfg:
            build.ensure(cfg, quiet=False)
        return 0
    if a.cmd == "setup":
        for cfg in ("asan256",):
            build.ensure(cfg, quiet=False)
        return 0
    ap.print_help()
    return 2


if __name__ == "__main__":
    sys.exit(main(sys.argv[1:]))
