"""Build configurations of /repo (always from the current working tree) + the shim.

Every configuration lives in /verif/.work/build/<cfg>.  A content stamp (sha-256 over the
sources of /repo that take part in the build, the flag string and the shim sources) decides
reuse; any content change removes the directory and rebuilds from scratch.  Builds are
serialised per configuration with flock so that checks can be started concurrently.
"""
import fcntl
import hashlib
import os
import shutil
import subprocess
import sys
import time

VERIF = os.path.dirname(os.path.dirname(os.path.abspath(__file__)))
REPO = os.path.abspath(os.environ.get("VF_REPO", "/repo"))
WORK = os.path.join(VERIF, ".work")
ALT = REPO != "/repo"
if ALT:
    # scratch trees (mutation validation) get their own build + evidence area
    WORK = os.path.join(VERIF, ".work", "alt-" + hashlib.sha256(REPO.encode()).hexdigest()[:10])
COV = bool(os.environ.get("VF_COV")) and not ALT
if COV:
    # reach evidence: the same workloads against builds that additionally carry gcov counters (tools/coverage.py)
    WORK = os.path.join(VERIF, ".work", "cov")
BUILD_ROOT = os.path.join(WORK, "build")
SHIM_DIR = os.path.join(VERIF, "shim")

GUARD = "RELIC_VERIF"

# -ftrivial-auto-var-init=pattern: automatic variables (and VLAs) start as 0xFE.. instead of whatever the stack
# held, so a result computed from a never-written local disagrees with the reference model (C08 "never-written
# storage"; the ASan allocator already fills fresh heap blocks with 0xBE)
SAN_GATE = ("-O1 -g -fno-omit-frame-pointer -fsanitize=address,undefined "
            "-fno-sanitize-recover=undefined -ftrivial-auto-var-init=pattern -D%s" % GUARD)
SAN_RECOVER = ("-O1 -g -fno-omit-frame-pointer -fsanitize=address,undefined "
               "-fsanitize-recover=address,undefined -D%s" % GUARD)
if COV:
    SAN_GATE += " --coverage"
XFLAGS = os.environ.get("VF_XFLAGS", "")
if XFLAGS and not (ALT or COV):
    # experiments with additional instrumentation flags get their own build + evidence area
    WORK = os.path.join(VERIF, ".work", "x-" + hashlib.sha256(XFLAGS.encode()).hexdigest()[:8])
    BUILD_ROOT = os.path.join(WORK, "build")
    SAN_GATE += " " + XFLAGS
TSAN = "-O1 -g -fno-omit-frame-pointer -fsanitize=thread -D%s" % GUARD
TRACE = ("-O2 -funroll-loops -fomit-frame-pointer -finstrument-functions "
         "-fsanitize-coverage=trace-pc -D%s" % GUARD)
PLAIN = "-O1 -g -fno-omit-frame-pointer -D%s" % GUARD

COMMON = ["-DTESTS=0", "-DBENCH=0", "-DDOCUM=off", "-DSEED=", "-DSHLIB=on", "-DSTLIB=off"]

# name -> dict(cmake=[...], cflags=..., via="env"|"define", shim_flags=...)
CONFIGS = {
    "asan256": dict(cmake=[], cflags=SAN_GATE),
    "asan256r": dict(cmake=[], cflags=SAN_RECOVER),
    "asan255": dict(cmake=["-DFP_PRIME=255"], cflags=SAN_GATE),
    # extended twisted Edwards coordinates as the default system (ED_ADD == EXTND): C17
    "asan255e": dict(cmake=["-DFP_PRIME=255", "-DED_METHD=EXTND;LWNAF;COMBS;INTER"], cflags=SAN_GATE),
    "asan381": dict(cmake=["-DFP_PRIME=381"], cflags=SAN_GATE),
    "asan256w8": dict(cmake=["-DWSIZE=8", "-DARCH="], cflags=SAN_GATE),
    "asan256k": dict(cmake=["-DBN_KARAT=2", "-DFP_KARAT=1",
                            "-DBN_METHD=BASIC;BASIC;BARRT;BASIC;LEHME;BASIC",
                            "-DFP_METHD=BASIC;BASIC;BASIC;MONTY;MONTY;BASIC;BASIC"],
                     cflags=SAN_GATE),
    "dyn256": dict(cmake=["-DALLOC=DYNAMIC"],
                   cflags=SAN_GATE + " -Dmalloc=vf_fi_malloc -Dcalloc=vf_fi_calloc "
                                     "-Drealloc=vf_fi_realloc -Dposix_memalign=vf_fi_posix_memalign",
                   fi=True),
    "tsan256": dict(cmake=["-DMULTI=PTHREAD"], cflags=TSAN, san="thread"),
    "trace256": dict(cmake=[], cflags=TRACE, via="define", san="trace"),
    "trace255": dict(cmake=["-DFP_PRIME=255"], cflags=TRACE, via="define", san="trace"),
    "trace381": dict(cmake=["-DFP_PRIME=381"], cflags=TRACE, via="define", san="trace"),
    # other window widths of the (regular) recodings: the width is a documented build option in [2, 6]
    "trace256w2": dict(cmake=["-DRLC_WIDTH=2"], cflags=TRACE, via="define", san="trace"),
    "trace256w6": dict(cmake=["-DRLC_WIDTH=6"], cflags=TRACE, via="define", san="trace"),
    "trace255w3": dict(cmake=["-DFP_PRIME=255", "-DRLC_WIDTH=3"], cflags=TRACE, via="define", san="trace"),
    "asan256ppb": dict(cmake=["-DPP_METHD=BASIC;OATEP"], cflags=SAN_GATE),      # non-lazy Miller-loop variants
    "asan256x": dict(cmake=["-DFPX_METHD=BASIC;BASIC;BASIC", "-DPP_METHD=BASIC;OATEP", "-DEP_METHD=BASIC;LWNAF;COMBS;INTER;SSWUM",
                            "-DEB_METHD=BASIC;LWNAF;COMBS;INTER", "-DFB_METHD=BASIC;QUICK;QUICK;QUICK;QUICK;QUICK;BASIC;SLIDE;QUICK"],
                     cflags=SAN_GATE),   # alternative dispatch of the extension/pairing/curve layers
    # other build-time defaults of the hash-to-curve map (EP_MAP): the named entry points must not depend on it
    "asan256mb": dict(cmake=["-DEP_METHD=PROJC;LWNAF;COMBS;INTER;BASIC"], cflags=SAN_GATE),
    "asan256ms": dict(cmake=["-DEP_METHD=PROJC;LWNAF;COMBS;INTER;SWIFT"], cflags=SAN_GATE),
    "rsa-pkcs1": dict(cmake=["-DCP_RSAPD=PKCS1"], cflags=SAN_GATE),
    "rsa-basic": dict(cmake=["-DCP_RSAPD=BASIC"], cflags=SAN_GATE),
    "plain256": dict(cmake=[], cflags=PLAIN, san="none"),
    "asan638": dict(cmake=["-DFP_PRIME=638"], cflags=SAN_GATE),
    "asan446": dict(cmake=["-DFP_PRIME=446"], cflags=SAN_GATE),
    "asan382": dict(cmake=["-DFP_PRIME=382"], cflags=SAN_GATE),
    "asan377": dict(cmake=["-DFP_PRIME=377"], cflags=SAN_GATE),
    "asan315": dict(cmake=["-DFP_PRIME=315"], cflags=SAN_GATE),
    "asan509": dict(cmake=["-DFP_PRIME=509"], cflags=SAN_GATE),
    "asan224": dict(cmake=["-DFP_PRIME=224"], cflags=SAN_GATE),
    "asan384": dict(cmake=["-DFP_PRIME=384"], cflags=SAN_GATE),
    "asan521": dict(cmake=["-DFP_PRIME=521"], cflags=SAN_GATE),
    "asan256b233": dict(cmake=["-DFB_POLYN=233"], cflags=SAN_GATE),
    "asan256b163": dict(cmake=["-DFB_POLYN=163"], cflags=SAN_GATE),
}


def _hash_tree():
    h = hashlib.sha256()
    roots = ["src", "include", "cmake", "CMakeLists.txt", "preset"]
    for r in roots:
        p = os.path.join(REPO, r)
        if os.path.isfile(p):
            files = [p]
        else:
            files = []
            for d, dn, fn in os.walk(p):
                dn.sort()
                for f in sorted(fn):
                    files.append(os.path.join(d, f))
        for f in files:
            h.update(os.path.relpath(f, REPO).encode())
            h.update(b"\0")
            try:
                with open(f, "rb") as fh:
                    h.update(hashlib.sha256(fh.read()).digest())
            except OSError:
                h.update(b"?")
    return h


def _hash_shim():
    h = hashlib.sha256()
    for f in sorted(os.listdir(SHIM_DIR)):
        if f.startswith("vf_x_"):
            continue    # extras are built separately (see _ensure_extras)
        with open(os.path.join(SHIM_DIR, f), "rb") as fh:
            h.update(f.encode() + b"\0" + fh.read())
    with open(os.path.abspath(__file__), "rb") as fh:
        h.update(fh.read())
    return h.hexdigest()


_tree_hash_cache = None


def tree_hash():
    global _tree_hash_cache
    if _tree_hash_cache is None:
        _tree_hash_cache = _hash_tree().hexdigest()
    return _tree_hash_cache


def stamp_for(cfg):
    c = CONFIGS[cfg]
    s = tree_hash() + "|" + " ".join(c["cmake"]) + "|" + c["cflags"] + "|" + _hash_shim()
    return hashlib.sha256(s.encode()).hexdigest()


def builddir(cfg):
    return os.path.join(BUILD_ROOT, cfg)


def _run(cmd, env=None, cwd=None, log=None):
    p = subprocess.run(cmd, env=env, cwd=cwd, stdout=subprocess.PIPE, stderr=subprocess.STDOUT)
    if log:
        with open(log, "ab") as fh:
            fh.write(("$ " + " ".join(cmd) + "\n").encode() + p.stdout)
    return p.returncode, p.stdout.decode(errors="replace")


def libpaths(cfg):
    d = builddir(cfg)
    return dict(relic=os.path.join(d, "lib", "librelic.so"),
                shim=os.path.join(d, "libvfshim.so"),
                trace=os.path.join(d, "libvftrace.so"),
                replay=os.path.join(d, "vf_replay"),
                inc=os.path.join(d, "include"))


def ensure(cfg, quiet=True):
    """Build cfg if its stamp is stale.  Returns the build directory.  Raises on failure."""
    if cfg not in CONFIGS:
        raise KeyError("unknown configuration " + cfg)
    os.makedirs(BUILD_ROOT, exist_ok=True)
    d = builddir(cfg)
    lockf = open(os.path.join(BUILD_ROOT, cfg + ".lock"), "w")
    fcntl.flock(lockf, fcntl.LOCK_EX)
    try:
        want = stamp_for(cfg)
        sf = os.path.join(d, "vf.stamp")
        if os.path.exists(sf) and open(sf).read().strip() == want:
            _ensure_extras(cfg)
            return d
        t0 = time.time()
        # build into a scratch directory and swap it in, so that checks still running from the old
        # build directory (libraries already mapped) are not disturbed by a rebuild
        final = d
        d = final + ".new"
        if COV:
            d = final          # gcov data files are written to the compile-time object paths: build in place
            shutil.rmtree(final + ".new", ignore_errors=True)
        shutil.rmtree(d, ignore_errors=True)
        os.makedirs(d)
        log = os.path.join(d, "vf_build.log")
        c = CONFIGS[cfg]
        env = dict(os.environ)
        env.pop("CFLAGS", None)
        cm = ["cmake", "-G", "Ninja", "-S", REPO, "-B", d] + COMMON + c["cmake"]
        if c.get("via") == "define":
            cm.append("-DCFLAGS=" + c["cflags"])
        else:
            env["CFLAGS"] = c["cflags"]
        rc, out = _run(cm, env=env, log=log)
        if rc != 0:
            raise RuntimeError("cmake configure failed for %s:\n%s" % (cfg, out[-3000:]))
        rc, out = _run(["cmake", "--build", d, "-j", "16"], env=env, log=log)
        if rc != 0:
            raise RuntimeError("build failed for %s:\n%s" % (cfg, out[-3000:]))
        _build_shim(cfg, log, d)
        with open(os.path.join(d, "vf.stamp"), "w") as fh:
            fh.write(want)
        _ensure_extras(cfg, d)
        old = final + ".old-%d" % os.getpid()
        if os.path.exists(final) and d != final:
            os.rename(final, old)
        if d != final:
            os.rename(d, final)
        shutil.rmtree(old, ignore_errors=True)
        d = final
        if not quiet:
            print("[build] %s built in %.1fs" % (cfg, time.time() - t0), file=sys.stderr)
        return d
    finally:
        fcntl.flock(lockf, fcntl.LOCK_UN)
        lockf.close()


def _gen_tables(d):
    """Generate vf_macros.inc (dispatch macros to stringify) and vf_enums.inc from the headers."""
    import re
    incdir = os.path.join(REPO, "include")
    names = {}
    enums = []
    for f in sorted(os.listdir(incdir)):
        if not (f.startswith("relic") and f.endswith(".h")):
            continue
        txt = open(os.path.join(incdir, f), errors="replace").read()
        for m in re.finditer(r"^[ \t]*#[ \t]*define[ \t]+([a-z][a-z0-9_]*)\(([^)]*)\)", txt, re.M):
            name, params = m.group(1), m.group(2)
            if "..." in params:
                names.setdefault(name, set()).add(-1)
                continue
            n = 0 if not params.strip() else len(params.split(","))
            names.setdefault(name, set()).add(n)
        if f in ("relic_ep.h", "relic_fp.h", "relic_fb.h", "relic_eb.h", "relic_ed.h", "relic_err.h",
                 "relic_epx.h", "relic_pc.h", "relic_md.h", "relic_bc.h"):
            nocom = re.sub(r"/\*.*?\*/", "", txt, flags=re.S)
            nocom = re.sub(r"//[^\n]*", "", nocom)
            for m in re.finditer(r"\benum\s*\w*\s*\{([^}]*)\}", nocom):
                for item in m.group(1).split(","):
                    item = item.strip()
                    if not item:
                        continue
                    nm = item.split("=")[0].strip()
                    if re.match(r"^[A-Za-z_][A-Za-z0-9_]*$", nm):
                        enums.append((f, nm))
    with open(os.path.join(d, "vf_macros.inc"), "w") as fh:
        for name in sorted(names):
            ar = names[name]
            if len(ar) != 1 or -1 in ar:
                continue
            n = next(iter(ar))
            args = ",".join("a%d" % i for i in range(n))
            fh.write('{"%s", VF_STR(%s(%s))},\n' % (name, name, args))
    with open(os.path.join(d, "vf_enums.inc"), "w") as fh:
        guards = {"relic_ep.h": "WITH_EP", "relic_fp.h": "WITH_FP", "relic_fb.h": "WITH_FB",
                  "relic_eb.h": "WITH_EB", "relic_ed.h": "WITH_ED", "relic_epx.h": "WITH_EPX",
                  "relic_pc.h": "WITH_PC", "relic_md.h": "WITH_MD", "relic_bc.h": "WITH_BC"}
        seen = set()
        for f, nm in enums:
            if nm in seen:
                continue
            seen.add(nm)
            g = guards.get(f)
            if g:
                fh.write("#ifdef %s\n" % g)
            fh.write('{"%s:%s", (int)%s},\n' % (f, nm, nm))
            if g:
                fh.write("#endif\n")


def _build_shim(cfg, log, d=None):
    c = CONFIGS[cfg]
    d = d or builddir(cfg)
    _gen_tables(d)
    san = c.get("san", "asan")
    inc = ["-I" + d, "-I" + os.path.join(d, "include"), "-I" + os.path.join(REPO, "include"),
           "-I" + os.path.join(REPO, "include", "low"), "-I" + os.path.join(REPO, "src")]
    if san == "asan":
        fl = c["cflags"].split()
        # shim is compiled with the same sanitizers, without the malloc renames
        fl = [f for f in fl if not f.startswith(("-Dmalloc", "-Dcalloc", "-Drealloc", "-Dposix_memalign", "-Dfree"))]
    elif san == "thread":
        fl = TSAN.split()
    elif san == "trace":
        fl = ["-O1", "-g", "-D" + GUARD]
    else:
        fl = ["-O1", "-g", "-D" + GUARD]
    srcs = [os.path.join(SHIM_DIR, "vf_shim.c"), os.path.join(SHIM_DIR, "vf_errprog.c")]
    if c.get("fi"):
        fl = fl + ["-DVF_FI=1"]
    cmdfi = ["gcc", "-std=gnu11", "-w", "-O1", "-g", "-fPIC", "-shared", os.path.join(SHIM_DIR, "vf_fi.c"),
             "-o", os.path.join(d, "libvffi.so")]
    rc, out = _run(cmdfi, log=log)
    if rc != 0:
        raise RuntimeError("fi build failed:\n" + out[-3000:])
    cmd = ["gcc", "-std=gnu11", "-w", "-fPIC", "-shared"] + fl + inc + srcs + \
          ["-L" + os.path.join(d, "lib"), "-lrelic", "-Wl,-rpath,$ORIGIN/lib",
           "-lpthread", "-o", os.path.join(d, "libvfshim.so")]
    rc, out = _run(cmd, log=log)
    if rc != 0:
        raise RuntimeError("shim build failed for %s:\n%s" % (cfg, out[-4000:]))
    if san == "thread":
        cmd = ["gcc", "-std=gnu11", "-w"] + TSAN.split() + inc + [os.path.join(SHIM_DIR, "vf_thr.c")] + \
              ["-L" + os.path.join(d, "lib"), "-lrelic", "-Wl,-rpath,$ORIGIN/lib", "-lpthread",
               "-o", os.path.join(d, "vf_thr")]
        rc, out = _run(cmd, log=log)
        if rc != 0:
            raise RuntimeError("thread runner build failed:\n" + out[-4000:])
    if san == "trace":
        cmd = ["gcc", "-std=gnu11", "-w", "-O2", "-fPIC", "-shared",
               os.path.join(SHIM_DIR, "vf_trace.c"), "-o", os.path.join(d, "libvftrace.so")]
        rc, out = _run(cmd, log=log)
        if rc != 0:
            raise RuntimeError("trace recorder build failed:\n" + out[-3000:])


def _shim_flags(cfg):
    c = CONFIGS[cfg]
    san = c.get("san", "asan")
    if san == "asan":
        fl = [f for f in c["cflags"].split() if not f.startswith(("-Dmalloc", "-Dcalloc", "-Drealloc", "-Dposix_memalign", "-Dfree"))]
    elif san == "thread":
        fl = TSAN.split()
    else:
        fl = ["-O1", "-g", "-D" + GUARD]
    return fl


def _ensure_extras(cfg, d=None):
    """Each shim/vf_x_<name>.c becomes its own libvfx_<name>.so; a failing extra only affects its user."""
    d = d or builddir(cfg)
    inc = ["-I" + d, "-I" + os.path.join(d, "include"), "-I" + os.path.join(REPO, "include"),
           "-I" + os.path.join(REPO, "include", "low"), "-I" + os.path.join(REPO, "src")]
    for f in sorted(os.listdir(SHIM_DIR)):
        if not (f.startswith("vf_x_") and f.endswith(".c")):
            continue
        name = f[5:-2]
        src = os.path.join(SHIM_DIR, f)
        h = hashlib.sha256(open(src, "rb").read() + open(os.path.join(d, "vf.stamp"), "rb").read()).hexdigest()
        st = os.path.join(d, "vfx_%s.stamp" % name)
        out = os.path.join(d, "libvfx_%s.so" % name)
        if os.path.exists(st) and open(st).read().strip() == h and os.path.exists(out):
            continue
        cmd = ["gcc", "-std=gnu11", "-w", "-fPIC", "-shared"] + _shim_flags(cfg) + inc + [src] + \
              ["-L" + os.path.join(d, "lib"), "-lrelic", "-Wl,-rpath,$ORIGIN/lib", "-lpthread", "-o", out]
        rc, o = _run(cmd, log=os.path.join(d, "vf_build.log"))
        if rc != 0:
            if os.path.exists(out):
                os.unlink(out)
            with open(os.path.join(d, "vfx_%s.err" % name), "w") as fh:
                fh.write(o)
            print("[build] extra shim %s failed to compile for %s (see %s)" % (f, cfg, os.path.join(d, "vfx_%s.err" % name)),
                  file=sys.stderr)
            continue
        with open(st, "w") as fh:
            fh.write(h)


def extra_libs(cfg):
    d = builddir(cfg)
    return sorted(os.path.join(d, f) for f in os.listdir(d) if f.startswith("libvfx_") and f.endswith(".so"))


def san_env(cfg, extra=None):
    """Environment for a worker process that loads cfg's library through ctypes."""
    c = CONFIGS[cfg]
    san = c.get("san", "asan")
    env = dict(os.environ)
    env["PYTHONHASHSEED"] = "0"
    env.pop("LD_PRELOAD", None)
    gccfile = lambda n: subprocess.run(["gcc", "-print-file-name=" + n], stdout=subprocess.PIPE,
                                       text=True).stdout.strip()
    if san == "asan":
        env["LD_PRELOAD"] = gccfile("libasan.so") + ":" + gccfile("libubsan.so")
        env["ASAN_OPTIONS"] = ("detect_leaks=0:abort_on_error=1:halt_on_error=1:"
                               "detect_stack_use_after_return=0:allocator_may_return_null=1:"
                               "handle_segv=1:print_summary=1:malloc_context_size=8")
        env["UBSAN_OPTIONS"] = "print_stacktrace=1:halt_on_error=1:abort_on_error=1"
        if "recover" in c["cflags"] and "-fsanitize-recover=address" in c["cflags"]:
            env["ASAN_OPTIONS"] = "detect_leaks=0:halt_on_error=0:allocator_may_return_null=1"
            env["UBSAN_OPTIONS"] = "print_stacktrace=0:halt_on_error=0"
    elif san == "thread":
        env["LD_PRELOAD"] = gccfile("libtsan.so")
        env["TSAN_OPTIONS"] = "halt_on_error=0:second_deadlock_stack=1:report_signal_unsafe=0"
    elif san == "trace":
        env["LD_PRELOAD"] = libpaths(cfg)["trace"]
    if c.get("fi"):
        env["LD_PRELOAD"] = env.get("LD_PRELOAD", "") + ":" + os.path.join(builddir(cfg), "libvffi.so")
    if extra:
        env.update(extra)
    return env


if __name__ == "__main__":
    for cfg in sys.argv[1:]:
        ensure(cfg, quiet=False)
        print(cfg, "ok", builddir(cfg))
