"""Reference decoders / encoders for C07 (wire formats of integers, field elements and curve points).

Everything here is written from the format description, not from the library's routines:

  integers      big-endian magnitude (bn_*_bin), little-endian digit vectors (bn_*_raw), positional
                notation with the alphabet 0-9 A-Z a-z + / (bn_*_str)
  Fp            exactly ceil(bits(p)/8) bytes big-endian, value < p
  Fp^k unpacked the k coefficients in memory (tower nesting) order, each as Fp
  points        1 byte 0x00 = neutral element;  0x04 || u || v = both coordinates;
                0x02 | bit || u = first coordinate and one bit of the second (SEC 1 layout).
                (u, v) = (x, y) for Weierstrass and binary curves, (y, x) for Edwards curves.

The compression bit is the one the library's ENCODER emits (derived from ep_pck, ep2_pck, eb_pck, ed_pck,
fp2_pck and written down here - it is *not* SEC 1's for prime curves):

  ep,  ordinary curve        bit = least significant bit of the *internal representation* of y, i.e. of
                             y * R mod p with R the Montgomery radix (R = 1 when the field is not in
                             Montgomery form)                                     [ep_pck: fp_get_bit(p->y, 0)]
  ep,  pairing-friendly      bit = 1 iff y > (p - 1) / 2                           [ep_pck, IETF pairing draft]
  ep2                        bit = sign(y1) if y1 != 0 else sign(y0), sign(t) = 1 iff t > (p - 1) / 2, y = y0 + y1 u
                             [the rule ep2_upk documents (IETF pairing draft); ep2_pck looks at y1 only, which is the
                             same bit except for points with y1 = 0 - those are a directed class of the check]
  eb                         bit = least significant bit of y / x                  [eb_pck, X9.62]
  ed                         bit = least significant bit of the internal representation of x   [ed_pck]
  fp2 (norm-1 elements)      a0 || one byte holding the least significant bit of the internal representation of a1

A decoder returns None (reject) unless the string is the *canonical* encoding of a valid object, because the
property demands that re-encoding an accepted string reproduces it.
"""
from .curves import sqrt_mod

ALPHABET = "0123456789ABCDEFGHIJKLMNOPQRSTUVWXYZabcdefghijklmnopqrstuvwxyz+/"


# ----------------------------------------------------------------------------------------- integers
def int_to_str(v, radix):
    """positional notation, '-' prefix for negatives, '0' for zero"""
    if v == 0:
        return "0"
    s = []
    m = -v if v < 0 else v
    while m:
        m, d = divmod(m, radix)
        s.append(ALPHABET[d])
    if v < 0:
        s.append("-")
    return "".join(reversed(s))


def str_prefix_value(s, radix, fold_case=None):
    """value of the longest prefix of s (bytes) that is a number in positional notation (optional '-', digits of the
    alphabet below radix; parsing stops at a NUL or any other byte) -> (value, number of bytes consumed, negative).
    fold_case: lower-case letters count as their upper-case digit (the library does this for radix < 36)."""
    if fold_case is None:
        fold_case = radix < 36
    j = 0
    neg = False
    if len(s) and s[0:1] == b"-":
        neg = True
        j = 1
    v = 0
    while j < len(s):
        c = s[j]
        if c == 0:
            break
        ch = chr(c)
        if fold_case and "a" <= ch <= "z":
            ch = ch.upper()
        d = ALPHABET.find(ch) if c < 128 else -1
        if d < 0 or d >= radix:
            break
        v = v * radix + d
        j += 1
    return (-v if neg else v), j, neg


# ------------------------------------------------------------------------------------------- fields
class PrimeCoord(object):
    """Fp as a coordinate field: ints, nbytes big-endian"""

    def __init__(self, p, nbytes):
        self.p = p
        self.nbytes = nbytes

    def dec(self, b):
        v = int.from_bytes(b, "big")
        return v if v < self.p else None

    def enc(self, v):
        return (v % self.p).to_bytes(self.nbytes, "big")


def fp2_sqrt(a, p, beta):
    """a square root of a = (a0, a1) in Fp[u]/(u^2 - beta) or None"""
    a0, a1 = a[0] % p, a[1] % p
    if a1 == 0:
        s = sqrt_mod(a0, p)
        if s is not None:
            return (s, 0)
        s = sqrt_mod(a0 * pow(beta, -1, p) % p, p)      # a0 / beta is a square exactly when a0 is not
        return None if s is None else (0, s)
    n = (a0 * a0 - beta * a1 * a1) % p
    s = sqrt_mod(n, p)
    if s is None:
        return None
    inv2 = (p + 1) // 2
    for t in ((a0 + s) * inv2 % p, (a0 - s) * inv2 % p):
        x0 = sqrt_mod(t, p)
        if x0 is not None and x0 != 0:
            x1 = a1 * pow(2 * x0, -1, p) % p
            if (x0 * x0 + beta * x1 * x1 - a0) % p == 0 and (2 * x0 * x1 - a1) % p == 0:
                return (x0, x1)
    return None


class Fp2Coord(object):
    """Fp2 = Fp[u]/(u^2 - beta): tuples (a0, a1), encoded a0 || a1"""

    def __init__(self, p, nbytes, beta):
        self.p = p
        self.beta = beta % p
        self.nbytes = 2 * nbytes
        self.nb = nbytes

    def dec(self, b):
        a0 = int.from_bytes(b[:self.nb], "big")
        a1 = int.from_bytes(b[self.nb:], "big")
        return (a0, a1) if a0 < self.p and a1 < self.p else None

    def enc(self, v):
        return (v[0] % self.p).to_bytes(self.nb, "big") + (v[1] % self.p).to_bytes(self.nb, "big")

    def add(self, a, b):
        return ((a[0] + b[0]) % self.p, (a[1] + b[1]) % self.p)

    def sub(self, a, b):
        return ((a[0] - b[0]) % self.p, (a[1] - b[1]) % self.p)

    def neg(self, a):
        return (-a[0] % self.p, -a[1] % self.p)

    def mul(self, a, b):
        p = self.p
        return ((a[0] * b[0] + self.beta * a[1] * b[1]) % p, (a[0] * b[1] + a[1] * b[0]) % p)

    def inv(self, a):
        p = self.p
        n = pow((a[0] * a[0] - self.beta * a[1] * a[1]) % p, -1, p)
        return (a[0] * n % p, -a[1] * n % p)

    def sqrt(self, a):
        return fp2_sqrt(a, self.p, self.beta)

    def is_zero(self, a):
        return a[0] % self.p == 0 and a[1] % self.p == 0

    def eq(self, a, b):
        return (a[0] - b[0]) % self.p == 0 and (a[1] - b[1]) % self.p == 0

    def small(self, k):
        return (k % self.p, 0)

    zero = (0, 0)
    one = (1, 0)


class GF2m(object):
    """GF(2)[z]/(f) with polynomials as Python ints; written for speed without being clever"""

    def __init__(self, f):
        self.f = f
        self.m = f.bit_length() - 1
        self.low = f ^ (1 << self.m)
        self.mask = (1 << self.m) - 1
        self.nbytes = (self.m + 7) // 8

    def red(self, a):
        m, low, mask = self.m, self.low, self.mask
        while a >> m:
            h = a >> m
            a &= mask
            t = low
            sh = 0
            while t:                    # a ^= h * low  (low is sparse)
                if t & 1:
                    a ^= h << sh
                t >>= 1
                sh += 1
        return a

    def mul(self, a, b):
        r = 0
        while b:
            lsb = b & -b
            r ^= a << (lsb.bit_length() - 1)
            b ^= lsb
        return self.red(r)

    def sqr(self, a):
        return self.red(int(bin(a)[2:], 4)) if a else 0

    def inv(self, a):
        """extended Euclid on polynomials; a != 0"""
        a = self.red(a)
        if a == 0:
            raise ZeroDivisionError
        u, v = a, self.f
        g1, g2 = 1, 0
        while u != 1:
            j = u.bit_length() - v.bit_length()
            if j < 0:
                u, v = v, u
                g1, g2 = g2, g1
                j = -j
            u ^= v << j
            g1 ^= g2 << j
        return self.red(g1)

    def trace(self, a):
        t = a
        x = a
        for _ in range(self.m - 1):
            x = self.sqr(x)
            t ^= x
        return t & 1

    def solve(self, c):
        """a solution z of z^2 + z = c or None (exists iff Tr(c) = 0); m odd: half-trace"""
        if self.m % 2 == 0:
            raise NotImplementedError
        h = c
        x = c
        for _ in range((self.m - 1) // 2):
            x = self.sqr(self.sqr(x))
            h ^= x
        return h if (self.sqr(h) ^ h) == self.red(c) else None

    def dec(self, b):
        v = int.from_bytes(b, "big")
        return v if v >> self.m == 0 else None

    def enc(self, v):
        return v.to_bytes(self.nbytes, "big")


def fp2_pow(F, a, e):
    r = F.one
    while e:
        if e & 1:
            r = F.mul(r, a)
        a = F.mul(a, a)
        e >>= 1
    return r


def fp2_cbrt(F, d, rng):
    """a cube root of d in Fp2 (F an Fp2Coord) or None"""
    if F.is_zero(d):
        return F.zero
    N = F.p * F.p - 1
    if not F.eq(fp2_pow(F, d, N // 3), F.one):
        return None
    k, m = 0, N
    while m % 3 == 0:
        m //= 3
        k += 1
    e = pow(3, -1, m)
    x0 = fp2_pow(F, d, e)
    w = F.mul(F.mul(F.mul(x0, x0), x0), F.inv(d))        # x0^3 / d, in the 3-Sylow subgroup
    if F.eq(w, F.one):
        return x0
    # generator of the 3-Sylow subgroup, then s with s^3 = w by exhaustive search (3^k is small)
    while True:
        h = (rng.randrange(F.p), rng.randrange(F.p))
        if F.is_zero(h):
            continue
        g = fp2_pow(F, h, m)
        if not F.eq(fp2_pow(F, g, 3 ** (k - 1)), F.one):
            break
    s = F.one
    for _ in range(3 ** k):
        if F.eq(F.mul(F.mul(s, s), s), w):
            return F.mul(x0, F.inv(s))
        s = F.mul(s, g)
    return None


def cubic_roots(a, b, p):
    """roots in Fp of x^3 + a x + b (p > 3 prime): gcd(x^p - x, f) then split the linear factors by trying"""
    # polynomials as coefficient lists, lowest degree first, modulo f = x^3 + a x + b
    def mulmod(u, v):
        r = [0] * 5
        for i, ui in enumerate(u):
            if ui:
                for j, vj in enumerate(v):
                    r[i + j] = (r[i + j] + ui * vj) % p
        # x^3 = -a x - b ; x^4 = -a x^2 - b x
        r[2] = (r[2] - a * r[4]) % p
        r[1] = (r[1] - b * r[4]) % p
        r[1] = (r[1] - a * r[3]) % p
        r[0] = (r[0] - b * r[3]) % p
        return r[:3]

    def powx(e):
        res = [1, 0, 0]
        base = [0, 1, 0]
        while e:
            if e & 1:
                res = mulmod(res, base)
            base = mulmod(base, base)
            e >>= 1
        return res

    def trim(u):
        u = list(u)
        while u and u[-1] % p == 0:
            u.pop()
        return u

    def pmod(u, v):
        u = trim(u)
        v = trim(v)
        while len(u) >= len(v) and u:
            c = u[-1] * pow(v[-1], -1, p) % p
            sh = len(u) - len(v)
            for i, vi in enumerate(v):
                u[i + sh] = (u[i + sh] - c * vi) % p
            u = trim(u)
        return u

    def gcd(u, v):
        u, v = trim(u), trim(v)
        while v:
            u, v = v, pmod(u, v)
        return u

    xp = powx(p)
    g = gcd([b % p, a % p, 0, 1], trim([xp[0], (xp[1] - 1) % p, xp[2]]))
    if len(g) <= 1:
        return []
    roots = []
    # g is a product of distinct linear factors; degree <= 3: peel them off with random shifts (Cantor-Zassenhaus)
    import random
    rng = random.Random(p & 0xFFFF)
    work = [g]
    while work:
        h = work.pop()
        h = trim(h)
        if len(h) == 2:
            roots.append(-h[0] * pow(h[1], -1, p) % p)
            continue
        while True:
            s = rng.randrange(p)
            # (x + s)^((p-1)/2) - 1 mod h
            def mulh(u, v):
                r = [0] * (len(u) + len(v) - 1)
                for i, ui in enumerate(u):
                    for j, vj in enumerate(v):
                        r[i + j] = (r[i + j] + ui * vj) % p
                return pmod(r, h) or [0]
            res, base, e = [1], [s, 1], (p - 1) // 2
            while e:
                if e & 1:
                    res = mulh(res, base)
                base = mulh(base, base)
                e >>= 1
            res = list(res) + [0] * (3 - len(res))
            res[0] = (res[0] - 1) % p
            d = gcd(h, res)
            if 1 < len(d) < len(h):
                work.append(d)
                # h / d
                q = []
                u = list(h)
                while len(u) >= len(d):
                    c = u[-1] * pow(d[-1], -1, p) % p
                    q.append(c)
                    sh = len(u) - len(d)
                    for i, di in enumerate(d):
                        u[i + sh] = (u[i + sh] - c * di) % p
                    u.pop()
                work.append(list(reversed(q)))
                break
    return sorted(set(roots))


# ------------------------------------------------------------------------------------------- curves
class WeierCodec(object):
    """y^2 = x^3 + a x + b over a coordinate field F (PrimeCoord with ints, or Fp2Coord with tuples)"""
    kind = "weierstrass"

    def __init__(self, F, a, b, bit, ext=False):
        self.F = F
        self.a = a
        self.b = b
        self.bit = bit          # bit(y) -> 0/1, the encoder's compression bit
        self.ext = ext

    def rhs(self, x):
        F = self.F
        if self.ext:
            return F.add(F.add(F.mul(F.mul(x, x), x), F.mul(self.a, x)), self.b)
        return (x * x * x + self.a * x + self.b) % F.p

    def on_curve(self, x, y):
        F = self.F
        if self.ext:
            return F.eq(F.mul(y, y), self.rhs(x))
        return (y * y - self.rhs(x)) % F.p == 0

    def neg_v(self, x, y):
        return self.F.neg(y) if self.ext else -y % self.F.p

    def solve(self, x, bit):
        """the y with compression bit `bit`, None when there is none (no root, or both roots carry the other bit)"""
        r = self.rhs(x)
        y = self.F.sqrt(r) if self.ext else sqrt_mod(r, self.F.p)
        if y is None:
            return None
        if self.bit(y) == bit:
            return y
        y = self.neg_v(x, y)
        return y if self.bit(y) == bit else None

    def is_neutral(self, x, y):
        return False


class BinaryCodec(object):
    """y^2 + x y = x^3 + a x^2 + b over GF(2^m)"""
    kind = "binary"

    def __init__(self, F, a, b):
        self.F = F
        self.a = a
        self.b = b

    def on_curve(self, x, y):
        F = self.F
        x2 = F.sqr(x)
        return F.sqr(y) ^ F.mul(x, y) == F.mul(x2, x) ^ F.mul(self.a, x2) ^ self.b

    def bit(self, x, y):
        if x == 0:
            return 0
        return self.F.mul(y, self.F.inv(x)) & 1

    def neg_v(self, x, y):
        return x ^ y

    def add(self, P, Q):
        """affine group law (None = neutral element)"""
        F = self.F
        if P is None:
            return Q
        if Q is None:
            return P
        x1, y1 = P
        x2, y2 = Q
        if x1 == x2:
            if y1 != y2 or x1 == 0:
                return None                       # Q = -P, or doubling the point of order two
            lam = x1 ^ F.mul(y1, F.inv(x1))
            x3 = F.sqr(lam) ^ lam ^ self.a
            return (x3, F.sqr(x1) ^ F.mul(lam ^ 1, x3))
        lam = F.mul(y1 ^ y2, F.inv(x1 ^ x2))
        x3 = F.sqr(lam) ^ lam ^ x1 ^ x2 ^ self.a
        return (x3, F.mul(lam, x1 ^ x3) ^ x3 ^ y1)

    def sqrt(self, c):
        for _ in range(self.F.m - 1):
            c = self.F.sqr(c)
        return c

    def solve(self, x, bit):
        F = self.F
        if x == 0:
            # the point of order two (0, sqrt(b)); X9.62: the compression bit of this point is 0
            return self.sqrt(self.b) if bit == 0 else None
        x2 = F.sqr(x)
        c = F.mul(F.mul(x2, x) ^ F.mul(self.a, x2) ^ self.b, F.inv(x2))
        z = F.solve(c)
        if z is None:
            return None
        if (z & 1) != bit:
            z ^= 1
        return F.mul(z, x)

    def is_neutral(self, x, y):
        return False


class EdwardsCodec(object):
    """a x^2 + y^2 = 1 + d x^2 y^2 over Fp; first wire coordinate u = y, second v = x; neutral element (0, 1)"""
    kind = "edwards"

    def __init__(self, F, a, d, bit):
        self.F = F
        self.a = a
        self.d = d
        self.bit = bit            # bit(x)

    def on_curve(self, u, v):
        p = self.F.p
        y, x = u, v
        return (self.a * x * x + y * y - 1 - self.d * x * x * y * y) % p == 0

    def neg_v(self, u, v):
        return -v % self.F.p

    def add(self, P, Q):
        """complete addition law on wire pairs (u, v) = (y, x); None = neutral element (0, 1)"""
        p = self.F.p
        y1, x1 = P if P is not None else (1, 0)
        y2, x2 = Q if Q is not None else (1, 0)
        t = self.d * x1 * x2 * y1 * y2 % p
        x3 = (x1 * y2 + y1 * x2) * pow(1 + t, -1, p) % p
        y3 = (y1 * y2 - self.a * x1 * x2) * pow(1 - t, -1, p) % p
        return None if (x3 == 0 and y3 == 1) else (y3, x3)

    def solve(self, u, bit):
        p = self.F.p
        y = u
        den = (self.d * y * y - self.a) % p
        if den == 0:
            return None
        x = sqrt_mod((y * y - 1) * pow(den, -1, p) % p, p)
        if x is None:
            return None
        if self.bit(x) == bit:
            return x
        x = -x % p
        return x if self.bit(x) == bit else None

    def is_neutral(self, u, v):
        return v % self.F.p == 0 and u % self.F.p == 1


def scalar_mul(C, k, P):
    """double-and-add with a codec curve's add()"""
    R = None
    Q = P
    while k:
        if k & 1:
            R = C.add(R, Q)
        Q = C.add(Q, Q)
        k >>= 1
    return R


class PointCodec(object):
    """tag / length layer shared by ep, ep2, eb, ed"""

    def __init__(self, curve):
        self.C = curve
        self.F = curve.F
        self.n = curve.F.nbytes
        self.len_inf = 1
        self.len_pack = 1 + self.n
        self.len_full = 1 + 2 * self.n

    def bit_of(self, u, v):
        C = self.C
        return C.bit(u, v) if C.kind == "binary" else C.bit(v)

    def encode(self, P, pack):
        """P = None (neutral) or (u, v)"""
        if P is None:
            return b"\x00"
        u, v = P
        if pack:
            return bytes([2 | self.bit_of(u, v)]) + self.F.enc(u)
        return b"\x04" + self.F.enc(u) + self.F.enc(v)

    def decode(self, bs):
        """-> ('inf',) | ('pt', u, v) | None"""
        return self.decode_why(bs)[0]

    def decode_why(self, bs):
        """-> (decoded or None, reason): reason is 'ok' or why the string is not a canonical encoding:
        len, tag, range (coordinate not a reduced field element), no-point (no point with these coordinates),
        noncanonical-sign (the only point above u carries the other compression bit, i.e. second coordinate 0),
        neutral-as-point (coordinates of the neutral element, whose only encoding is the single byte 0)"""
        n = len(bs)
        F, C = self.F, self.C
        if n == 1:
            return (("inf",), "ok") if bs[0] == 0 else (None, "tag")
        if n == self.len_pack:
            if bs[0] not in (2, 3):
                return None, "tag"
            u = F.dec(bs[1:])
            if u is None:
                return None, "range"
            v = C.solve(u, bs[0] & 1)
            if v is None:
                return None, ("noncanonical-sign" if C.solve(u, (bs[0] & 1) ^ 1) is not None else "no-point")
            if C.is_neutral(u, v):
                return None, "neutral-as-point"
            return ("pt", u, v), "ok"
        if n == self.len_full:
            if bs[0] != 4:
                return None, "tag"
            u = F.dec(bs[1:1 + self.n])
            v = F.dec(bs[1 + self.n:])
            if u is None or v is None:
                return None, "range"
            if not C.on_curve(u, v):
                return None, "no-point"
            if C.is_neutral(u, v):
                return None, "neutral-as-point"
            return ("pt", u, v), "ok"
        return None, "len"


# --------------------------------------------------------------------------------------- self tests
def selftest():
    import random
    rng = random.Random(7)
    # Fp2 square roots, p = 3 mod 4 (beta = -1) and p = 1 mod 4 (beta = a non-residue)
    for p, beta in ((2 ** 127 - 1, -1), (2 ** 255 - 19, 2), (1000003, -1), (1000033, 5)):
        F = Fp2Coord(p, (p.bit_length() + 7) // 8, beta)
        assert pow(beta % p, (p - 1) // 2, p) == p - 1
        for _ in range(30):
            x = (rng.randrange(p), rng.choice([0, rng.randrange(p)]))
            s = F.sqrt(F.mul(x, x))
            assert s is not None and F.eq(F.mul(s, s), F.mul(x, x))
        nonsq = 0
        for _ in range(30):
            x = (rng.randrange(p), rng.randrange(p))
            s = F.sqrt(x)
            if s is None:
                nonsq += 1
            else:
                assert F.eq(F.mul(s, s), x)
        assert 3 <= nonsq <= 27
    F = Fp2Coord(1000003, 3, -1)
    for _ in range(10):
        x = (rng.randrange(F.p), rng.randrange(F.p))
        c = fp2_cbrt(F, F.mul(F.mul(x, x), x), rng)
        assert c is not None and F.eq(F.mul(F.mul(c, c), c), F.mul(F.mul(x, x), x))
    # GF(2^283), NIST polynomial: inverse, squaring, quadratic solver, B-283 generator on curve
    f = (1 << 283) | (1 << 12) | (1 << 7) | (1 << 5) | 1
    G = GF2m(f)
    for _ in range(10):
        x = rng.getrandbits(283) | 1
        assert G.mul(x, G.inv(x)) == 1 and G.sqr(x) == G.mul(x, x)
        c = G.sqr(x) ^ x
        z = G.solve(c)
        assert z is not None and z in (x, x ^ 1) and G.trace(c) == 0
    assert G.inv(1) == 1
    b283 = 0x27B680AC8B8596DA5A4AF8A19A0303FCA97FD7645309FA2A581485AF6263E313B79A2F5
    gx = 0x5F939258DB7DD90E1934F8C70B0DFEC2EED25B8557EAC9C80E2E198F8CDBECD86B12053
    gy = 0x3676854FE24141CB98FE6D4B20D02B4516FF702350EDDB0826779C813F0DF45BE8112F4
    B = BinaryCodec(G, 1, b283)
    assert B.on_curve(gx, gy) and B.solve(gx, B.bit(gx, gy)) == gy
    n283 = 0x3FFFFFFFFFFFFFFFFFFFFFFFFFFFFFFFFFFEF90399660FC938A90165B042A7CEFADB307
    P5 = scalar_mul(B, 5, (gx, gy))
    assert B.on_curve(*P5) and B.add(scalar_mul(B, 2, (gx, gy)), scalar_mul(B, 3, (gx, gy))) == P5
    assert scalar_mul(B, n283, (gx, gy)) is None and B.on_curve(0, B.sqrt(b283))
    # Ed25519 (RFC 8032): base point, group law, order
    p = 2 ** 255 - 19
    d = -121665 * pow(121666, -1, p) % p
    Ed = EdwardsCodec(PrimeCoord(p, 32), p - 1, d, lambda x: x & 1)
    by = 4 * pow(5, -1, p) % p
    bx = Ed.solve(by, 0)
    assert bx == 15112221349535400772501151409588531511454012693041857206046113283949847762202
    assert Ed.on_curve(by, bx) and scalar_mul(Ed, 2 ** 252 + 27742317777372353535851937790883648493, (by, bx)) is None
    assert Ed.on_curve(*scalar_mul(Ed, 12345, (by, bx)))
    # cubic roots
    p = 2 ** 255 - 19
    for r in ([5, 7, p - 12], [11]):
        if len(r) == 3:
            a = (r[0] * r[1] + r[0] * r[2] + r[1] * r[2]) % p
            b = -(r[0] * r[1] * r[2]) % p
            assert cubic_roots(a, b, p) == sorted(x % p for x in r)
    # P-256: generator decodes from its SEC 1 uncompressed form
    p = 0xFFFFFFFF00000001000000000000000000000000FFFFFFFFFFFFFFFFFFFFFFFF
    b = 0x5AC635D8AA3A93E7B3EBBD55769886BC651D06B0CC53B0F63BCE3C3E27D2604B
    gx = 0x6B17D1F2E12C4247F8BCE6E563A440F277037D812DEB33A0F4A13945D898C296
    gy = 0x4FE342E2FE1A7F9B8EE7EB4A7C0F9E162BCE33576B315ECECBB6406837BF51F5
    pc = PointCodec(WeierCodec(PrimeCoord(p, 32), p - 3, b, lambda y: y & 1))
    e = pc.encode((gx, gy), 0)
    assert pc.decode(e) == ("pt", gx, gy) and pc.decode(pc.encode((gx, gy), 1)) == ("pt", gx, gy)
    assert pc.decode(e[:-1] + bytes([e[-1] ^ 1])) is None and pc.decode(b"\x00") == ("inf",) and pc.decode(b"\x01") is None
    assert int_to_str(-255, 16) == "-FF" and int_to_str(0, 7) == "0" and int_to_str(63, 64) == "/"
    assert str_prefix_value(b"-ff\x00zz", 16) == (-255, 3, True) and str_prefix_value(b"12a", 10)[:2] == (12, 2)
    return True


selftest()
