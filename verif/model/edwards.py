"""Twisted Edwards curve a x^2 + y^2 = 1 + d x^2 y^2 over GF(p) on Python ints.

The reference is the affine addition law (complete when a is a square and d is not).  Points are
tuples (x, y); the neutral element is (0, 1).  Scalar multiplication uses the same law written
with a common denominator (plain homogenisation of the affine formula, one inversion at the end);
`selftest()` checks it against the affine law."""
from .curves import sqrt_mod


class EdCurve(object):
    def __init__(self, p, a, d, n=None, h=None):
        self.p, self.a, self.d, self.n, self.h = p, a % p, d % p, n, h
        self.O = (0, 1)

    # ------------------------------------------------------------------ predicates
    def on_curve(self, P):
        x, y = P
        p = self.p
        return (self.a * x * x + y * y - 1 - self.d * x * x * y * y) % p == 0

    def complete(self):
        """the addition law has no exceptional pairs iff a is a square and d is a non-square"""
        p = self.p
        return pow(self.a, (p - 1) // 2, p) == 1 and pow(self.d, (p - 1) // 2, p) == p - 1

    # ------------------------------------------------------------------ affine law
    def add(self, P, Q):
        p = self.p
        x1, y1 = P
        x2, y2 = Q
        t = self.d * x1 * x2 * y1 * y2 % p
        return ((x1 * y2 + x2 * y1) * pow(1 + t, -1, p) % p, (y1 * y2 - self.a * x1 * x2) * pow(1 - t, -1, p) % p)

    def neg(self, P):
        return ((-P[0]) % self.p, P[1])

    def dbl(self, P):
        return self.add(P, P)

    def sub(self, P, Q):
        return self.add(P, self.neg(Q))

    def mul_affine(self, k, P):
        if k < 0:
            k, P = -k, self.neg(P)
        R = self.O
        while k:
            if k & 1:
                R = self.add(R, P)
            k >>= 1
            if k:
                P = self.add(P, P)
        return R

    # ------------------------------------------------------------------ the same law over a common denominator
    def _padd(self, P, Q):
        """(X1:Y1:Z1) + (X2:Y2:Z2): numerators and denominators of the affine formula multiplied out"""
        p = self.p
        X1, Y1, Z1 = P
        X2, Y2, Z2 = Q
        zz = Z1 * Z2 % p
        zz2 = zz * zz % p
        t = self.d * X1 * X2 % p * Y1 * Y2 % p          # d x1 x2 y1 y2 * (Z1 Z2)^2
        nx = (X1 * Y2 + X2 * Y1) % p                    # * Z1 Z2
        ny = (Y1 * Y2 - self.a * X1 * X2) % p           # * Z1 Z2
        dx = (zz2 + t) % p                              # (1 + t) * (Z1 Z2)^2
        dy = (zz2 - t) % p
        # x3 = nx / (zz) / (dx / zz2) = nx * zz / dx ; y3 = ny * zz / dy
        return (nx * zz % p * dy % p, ny * zz % p * dx % p, dx * dy % p)

    def mul(self, k, P):
        if k < 0:
            k, P = -k, self.neg(P)
        p = self.p
        R = (0, 1, 1)
        Q = (P[0], P[1], 1)
        while k:
            if k & 1:
                R = self._padd(R, Q)
            k >>= 1
            if k:
                Q = self._padd(Q, Q)
        zi = pow(R[2], -1, p)
        return (R[0] * zi % p, R[1] * zi % p)

    def eq(self, P, Q):
        return P[0] % self.p == Q[0] % self.p and P[1] % self.p == Q[1] % self.p

    # ------------------------------------------------------------------ construction of points
    def lift_y(self, y):
        """the points (x, y), (-x, y) with ordinate y, or []"""
        p = self.p
        u = (y * y - 1) % p
        v = (self.d * y * y - self.a) % p
        if v == 0:
            return []
        x2 = u * pow(v, -1, p) % p
        x = sqrt_mod(x2, p)
        if x is None:
            return []
        return [(x, y)] if x == 0 else [(x, y), (p - x, y)]

    def order2(self):
        return (0, self.p - 1)

    def order4(self):
        """(x, 0) with a x^2 = 1"""
        x = sqrt_mod(pow(self.a, -1, self.p), self.p)
        return None if x is None else (x, 0)

    def small_order_generator(self, h, rng):
        """a point of exact order h (h a power of two dividing the cofactor): [n]P for random P"""
        for _ in range(2000):
            pts = self.lift_y(rng.randrange(self.p))
            if not pts:
                continue
            T = self.mul(self.n, pts[0])
            if self.mul(h // 2, T) != self.O and self.mul(h, T) == self.O:
                return T
        raise ArithmeticError("no point of order %d found" % h)

    # ------------------------------------------------------------------ compression (sign of x, y)
    def compress(self, P):
        return (P[0] & 1, P[1])

    def decompress(self, bit, y):
        for Q in self.lift_y(y):
            if Q[0] & 1 == bit:
                return Q
        return None

    def selftest(self, G, rng):
        if not self.on_curve(G):
            return False
        for _ in range(4):
            k = rng.getrandbits(40)
            if self.mul(k, G) != self.mul_affine(k, G):
                return False
        k = rng.getrandbits(self.p.bit_length())
        A = self.mul(k, G)
        B = self.mul(k + 1, G)
        return self.on_curve(A) and self.add(A, G) == B
