"""Generic towers of binomial extensions F[t]/(t^d - nr), d in {2, 3}, over any model field.

Elements of an extension are tuples of d base-field elements (nested tuples for towers).  Schoolbook
polynomial arithmetic modulo t^d = nr, inversion through the norm to the base field – no lazy
reduction, no Karatsuba, no sparse forms, no cyclotomic tricks: nothing in common with the library.

The memory layout of the library's fpN_t (ALLOC=AUTO) is the flattened nesting order, so
`flatten`/`unflatten` convert between a model element and the list of N residues read by RT.fpx_get.
"""
from .curves import Fp


class Ext(object):
    def __init__(self, base, d, nr):
        """nr: element of base with t^d = nr"""
        assert d in (2, 3)
        self.base = base
        self.d = d
        self.nr = nr
        self.deg = d * getattr(base, "deg", 1)          # degree over the prime field
        self.zero = tuple(base.zero for _ in range(d))
        self.one = (base.one,) + tuple(base.zero for _ in range(d - 1))
        self.p = base.p
        self.card = getattr(base, "card", base.p) ** d    # field cardinality

    def small(self, k):
        return (self.base.small(k),) + tuple(self.base.zero for _ in range(self.d - 1))

    def embed(self, b):
        """base element -> extension element"""
        return (b,) + tuple(self.base.zero for _ in range(self.d - 1))

    def gen(self):
        """the adjoined element t"""
        return (self.base.zero, self.base.one) + tuple(self.base.zero for _ in range(self.d - 2))

    def add(self, a, b):
        B = self.base
        return tuple(B.add(x, y) for x, y in zip(a, b))

    def sub(self, a, b):
        B = self.base
        return tuple(B.sub(x, y) for x, y in zip(a, b))

    def neg(self, a):
        B = self.base
        return tuple(B.neg(x) for x in a)

    def is_zero(self, a):
        return all(self.base.is_zero(x) for x in a)

    def eq(self, a, b):
        return all(self.base.eq(x, y) for x, y in zip(a, b))

    def mul(self, a, b):
        B, d = self.base, self.d
        acc = [B.zero] * (2 * d - 1)
        for i in range(d):
            if B.is_zero(a[i]):
                continue
            for j in range(d):
                acc[i + j] = B.add(acc[i + j], B.mul(a[i], b[j]))
        for k in range(2 * d - 2, d - 1, -1):
            acc[k - d] = B.add(acc[k - d], B.mul(acc[k], self.nr))
        return tuple(acc[:d])

    def sqr(self, a):
        return self.mul(a, a)

    def mul_base(self, a, s):
        B = self.base
        return tuple(B.mul(x, s) for x in a)

    def inv(self, a):
        B = self.base
        if self.d == 2:
            a0, a1 = a
            n = B.sub(B.mul(a0, a0), B.mul(self.nr, B.mul(a1, a1)))
            ni = B.inv(n)
            return (B.mul(a0, ni), B.neg(B.mul(a1, ni)))
        a0, a1, a2 = a
        nr = self.nr
        c0 = B.sub(B.mul(a0, a0), B.mul(nr, B.mul(a1, a2)))
        c1 = B.sub(B.mul(nr, B.mul(a2, a2)), B.mul(a0, a1))
        c2 = B.sub(B.mul(a1, a1), B.mul(a0, a2))
        n = B.add(B.mul(a0, c0), B.mul(nr, B.add(B.mul(a2, c1), B.mul(a1, c2))))
        ni = B.inv(n)
        return (B.mul(c0, ni), B.mul(c1, ni), B.mul(c2, ni))

    def pow(self, a, e):
        if e < 0:
            return self.pow(self.inv(a), -e)
        r = self.one
        x = a
        while e:
            if e & 1:
                r = self.mul(r, x)
            x = self.mul(x, x)
            e >>= 1
        return r

    def frob(self, a, i=1):
        """a -> a^(p^i) by plain exponentiation (slow, independent)"""
        return self.pow(a, self.p ** i)

    def is_sqr(self, a):
        if self.is_zero(a):
            return True
        return self.eq(self.pow(a, (self.card - 1) // 2), self.one)

    # ------------------------------------------------------------ flat layout
    def flatten(self, a):
        out = []
        for x in a:
            if isinstance(self.base, Ext):
                out.extend(self.base.flatten(x))
            else:
                out.append(x)
        return out

    def unflatten(self, flat):
        if isinstance(self.base, Ext):
            n = self.base.deg
            return tuple(self.base.unflatten(flat[i * n:(i + 1) * n]) for i in range(self.d))
        return tuple(flat[:self.d])

    def rand(self, rng):
        if isinstance(self.base, Ext):
            return tuple(self.base.rand(rng) for _ in range(self.d))
        return tuple(rng.randrange(self.p) for _ in range(self.d))


class PrimeField(Fp):
    deg = 1

    def __init__(self, p):
        Fp.__init__(self, p)
        self.card = p

    def pow(self, a, e):
        return pow(a, e, self.p)

    def sqr(self, a):
        return a * a % self.p

    def is_sqr(self, a):
        return a % self.p == 0 or pow(a, (self.p - 1) // 2, self.p) == 1

    def rand(self, rng):
        return rng.randrange(self.p)

    def flatten(self, a):
        return [a]

    def unflatten(self, flat):
        return flat[0]
