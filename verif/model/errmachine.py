"""Semantics of try / throw / catch / finally programs (C19), mirroring shim/vf_errprog.c events.

The model is the statement of the property made executable: a condition thrown inside a protected
block transfers control to the nearest enclosing handler; the finaliser of every exited block runs
exactly once (before the handler, which is the order the macros document and test_err relies on);
the handler chain is restored; the sticky code reads as error until fetched.  It knows nothing about
setjmp, the global `caught` flag or the sts_t chain.
"""
OK, ERR = 0, 1
ERR_CAUGHT = 1
ERR_NO_VALID = 6


class Thrown(Exception):
    def __init__(self, code):
        Exception.__init__(self)
        self.code = code


class Machine(object):
    def __init__(self, prog):
        self.prog = prog
        self.pc = 0
        self.ev = []
        self.depth = 0
        self.frames = []
        self.last = None       # None | "ERR" (the context's own error record) | ("F", id)
        self.code = OK

    # --- parsing helpers (same prefix encoding as the C interpreter)
    def skip_actions(self, n):
        for _ in range(n):
            a = self.prog[self.pc]
            self.pc += 1
            if a == 1:
                self.pc += 1
            elif a in (2, 5):
                self.skip_block()

    def skip_block(self):
        self.pc += 1
        for _ in range(3):
            n = self.prog[self.pc]
            self.pc += 1
            self.skip_actions(n)

    # --- semantics
    def throw(self, code):
        """returns normally when control is NOT transferred"""
        self.code = ERR
        if self.depth > 0:
            fr = self.frames[-1]
            if fr["slot"] and code != ERR_CAUGHT:
                fr["e"] = code
            raise Thrown(code)
        if self.last is None:
            self.last = "ERR"

    def lib_style(self):
        # TRY { direct throw ERR_NO_VALID } CATCH_ANY { THROW(ERR_CAUGHT) } FINALLY { }
        saved = self.last
        self.last = ("F", -1)
        self.frames.append({"slot": False, "e": 0})
        self.depth += 1
        try:
            self.throw(ERR_NO_VALID)
        except Thrown:
            pass
        self.depth -= 1
        self.frames.pop()
        self.last = saved
        self.throw(ERR_CAUGHT)

    def actions(self, n):
        for _ in range(n):
            a = self.prog[self.pc]
            self.pc += 1
            if a == 0:
                self.ev.append((1, 0, 0))
            elif a == 1:
                c = self.prog[self.pc]
                self.pc += 1
                self.ev.append((2, c, 0))
                self.throw(c)
                self.ev.append((3, 0, 0))
            elif a in (2, 5):
                self.block()
            elif a == 3:
                self.ev.append((4, 0, 0))
                self.throw(ERR_NO_VALID)
                self.ev.append((5, 0, 0))
            elif a == 4:
                self.ev.append((6, 0, 0))
                self.throw(ERR_CAUGHT)
                self.ev.append((7, 0, 0))
            elif a == 6:
                self.ev.append((14, 0, 0))
                self.lib_style()
                self.ev.append((15, 0, 0))
            elif a == 7:
                self.ev.append((16, 1, 0))
            elif a == 8:
                self.ev.append((17, self.code, 0))
                self.code = OK

    def block(self):
        bid = self.pc
        kind = self.prog[self.pc]
        self.pc += 1
        body = self.pc
        nb = self.prog[self.pc]
        self.pc += 1
        self.skip_actions(nb)
        cb = self.pc
        nc = self.prog[self.pc]
        self.pc += 1
        self.skip_actions(nc)
        fb = self.pc
        nf = self.prog[self.pc]
        self.pc += 1
        self.skip_actions(nf)
        end = self.pc
        self.ev.append((8, bid, 0))
        fr = {"slot": kind in (1, 3), "e": 0}
        last_before = self.last
        self.last = ("F", bid)
        self.frames.append(fr)
        self.depth += 1
        d0 = self.depth
        caught = False
        try:
            self.pc = body + 1
            self.actions(nb)
        except Thrown:
            caught = True
        self.depth = d0 - 1
        del self.frames[d0 - 1:]
        self.last = last_before
        if kind >= 2:
            self.ev.append((10, bid, 0))
            self.pc = fb + 1
            self.actions(nf)
        if caught:
            self.ev.append((9, bid, fr["e"] if fr["slot"] else -1))
            self.pc = cb + 1
            self.actions(nc)
        self.pc = end
        self.ev.append((11, bid, 1 if self.last == last_before else 0))

    def run(self):
        top = self.prog[self.pc]
        self.pc += 1
        try:
            self.actions(top)
        except Thrown:
            self.ev.append((99, 0, 0))   # cannot happen: depth 0 never transfers
        self.ev.append((12, self.code, OK))
        self.ev.append((13, 1 if self.last is None else 0, 0))
        return self.ev


def predict(prog):
    return Machine(list(prog)).run()


# ----------------------------------------------------------------- generators
ATOMS = [(0,), (1, 6), (1, 3), (4,), (3,), (6,), (7,), (8,)]


def enc_actions(acts):
    out = [len(acts)]
    for a in acts:
        if a[0] in (2, 5):
            out.append(a[0])
            out += enc_block(a[1])
        else:
            out += list(a)
    return out


def enc_block(b):
    kind, body, cb, fb = b
    return [kind] + enc_actions(body) + enc_actions(cb) + enc_actions(fb if kind >= 2 else [])


def rand_actions(rng, depth, maxn=3):
    acts = []
    for _ in range(rng.randrange(0, maxn + 1)):
        c = rng.random()
        if c < 0.18:
            acts.append((0,))
        elif c < 0.40:
            acts.append((1, rng.choice([2, 3, 6, 7, 9])))
        elif c < 0.47:
            acts.append((3,))
        elif c < 0.55:
            acts.append((4,))
        elif c < 0.62:
            acts.append((6,))
        elif c < 0.66:
            acts.append((7,))
        elif c < 0.70:
            acts.append((8,))
        elif depth > 0:
            acts.append((rng.choice([2, 5]), rand_block(rng, depth - 1)))
        else:
            acts.append((0,))
    return acts


def rand_block(rng, depth):
    kind = rng.randrange(4)
    return (kind, rand_actions(rng, depth), rand_actions(rng, depth), rand_actions(rng, depth) if kind >= 2 else [])


def rand_program(rng, depth=3):
    top = rand_actions(rng, depth, maxn=2)
    if not any(a[0] in (2, 5) for a in top):
        top.insert(rng.randrange(len(top) + 1), (2, rand_block(rng, depth - 1)))
    return enc_actions(top)


def enum_single_blocks(atoms=((0,), (1, 6), (4,), (6,)), maxlen=2):
    """every single block (4 kinds) whose three segments are lists of <= maxlen atoms"""
    import itertools
    lists = [[]]
    for n in range(1, maxlen + 1):
        lists += [list(t) for t in itertools.product(atoms, repeat=n)]
    for kind in range(4):
        for body in lists:
            for cb in lists:
                for fb in (lists if kind >= 2 else [[]]):
                    yield (kind, body, cb, fb)


def enum_nested(atoms=((0,), (1, 6), (4,), (6,))):
    """outer block x position (body/handler/finaliser) x inner block, segments of <= 1 atom"""
    import itertools
    lists = [[]] + [[a] for a in atoms]
    inner = [(k, b, c, f) for k in range(4) for b in lists for c in lists for f in (lists if k >= 2 else [[]])]
    for ok in range(4):
        for pos in range(3 if ok >= 2 else 2):
            for via in (2, 5):
                for ib in inner:
                    for pre in lists:
                        for post in lists:
                            seg = pre + [(via, ib)] + post
                            segs = [[], [], []]
                            segs[pos] = seg
                            # the other segments: one representative each so that the handler is reachable
                            if pos != 0:
                                segs[0] = [(1, 6)]
                            yield (ok, segs[0], segs[1], segs[2])


def enum_outside(atoms=((1, 6), (8,), (6,), (4,), (3,)), maxlen=4):
    """sequences of actions executed while NO protected block is active: at top level, and inside the handler
    / finaliser of an outermost block (histories of the sticky code and of the parked error record)"""
    import itertools
    for n in range(1, maxlen + 1):
        for seq in itertools.product(atoms, repeat=n):
            yield list(seq), None
    for n in range(1, maxlen):
        for seq in itertools.product(atoms, repeat=n):
            for kind in (1, 3):
                yield [(2, (kind, [(1, 6)], list(seq), []))], "handler"
            yield [(2, (3, [(1, 6)], [], list(seq)))], "finaliser"
            yield [(1, 6), (2, (2, [], [], list(seq)))], "finaliser-after-outside-throw"
