"""Measured extension towers: the defining polynomials are read off the library's own basis elements.

`measure(R)` raises the adjoined element of every built fpN type to its extension degree with the library's
own multiplication, checks that the result lies in the base field of that level, compares it with the
non-residue the library reports for that level, checks *in the model* that it really is a non-residue
(so that the quotient ring is the field the type denotes) and builds the `model.tower` object for it.
Shared by C10 (towers) and C04 (target group of the pairing).  Nothing here computes a value the
checks compare against: the models do (verif/model/tower.py).
"""
from .tower import Ext, PrimeField

# degree -> (degree of the base type, extension degree), as declared in relic_fpx.h
# (fp4_t = fp2_t[2], fp6_t = fp2_t[3], fp8_t = fp4_t[2], fp9_t = fp3_t[3], fp12_t = fp6_t[2], fp16_t = fp8_t[2],
#  fp18_t = fp9_t[2], fp24_t = fp8_t[3], fp48_t = fp24_t[2], fp54_t = fp18_t[3])
TOWERS = {2: (1, 2), 3: (1, 3), 4: (2, 2), 6: (2, 3), 8: (4, 2), 9: (3, 3), 12: (6, 2), 16: (8, 2),
          18: (9, 2), 24: (8, 3), 48: (24, 2), 54: (18, 3)}
ORDER = [2, 3, 4, 6, 8, 9, 12, 16, 18, 24, 48, 54]


def is_nonresidue(F, nr, e):
    """nr is not an e-th power in the field F (e prime): e | #F* and nr^((#F-1)/e) != 1"""
    if F.is_zero(nr):
        return False
    if (F.card - 1) % e:
        return False          # every element is an e-th power
    return not F.eq(F.pow(nr, (F.card - 1) // e), F.one)


class Measured(object):
    def __init__(self):
        self.F = {}           # degree -> model field
        self.nr = {}          # degree -> measured non-residue (element of the base model)
        self.problems = []    # [(degree, what, detail)]  measurement disagreements (violations)
        self.absent = {}      # degree -> reason the tower does not exist / is not built
        self.reported = {}


def _pow_lib(R, d, flat, e, mulname):
    a = R.fpx_new(d, flat)
    c = R.fpx_new(d, flat)
    ok = True
    for _ in range(e - 1):
        r = R.call(mulname, c, c, a)
        ok = ok and not r.caught
    got, canon = R.fpx_get(c, d)
    R.free(a)
    R.free(c)
    return got, canon, ok


def measure(R, degrees=None, limit=None):
    """-> Measured.  R must have an active prime (R.fp_setup() done)."""
    import ctypes
    M = Measured()
    p = R.p
    F1 = PrimeField(p)
    M.F[1] = F1
    L = R.L
    qnr = ctypes.c_int(L.fp_prime_get_qnr()).value
    cnr = ctypes.c_int(L.fp_prime_get_cnr()).value
    qnr2 = ctypes.c_int(L.fp2_field_get_qnr()).value if R.has("fp2_field_get_qnr") else None
    cnr3 = ctypes.c_int(L.fp3_field_get_cnr()).value if R.has("fp3_field_get_cnr") else None
    M.reported = dict(fp_prime_get_qnr=qnr, fp_prime_get_cnr=cnr, fp2_field_get_qnr=qnr2,
                      fp3_field_get_cnr=cnr3, p_mod_8=p % 8, p_mod_18=p % 18)
    for d in ORDER:
        if degrees is not None and d not in degrees:
            continue
        if limit is not None and d > limit:
            continue
        bd, e = TOWERS[d]
        mul = "fp%d_mul" % d
        if not R.has(mul):
            M.absent[d] = "not built"
            continue
        if bd not in M.F:
            M.absent[d] = "base fp%d absent" % bd
            continue
        if d == 2 and qnr == 0:
            M.absent[d] = "library reports no quadratic non-residue"
            continue
        if d == 3 and cnr == 0:
            M.absent[d] = "library reports no cubic non-residue (p != 1 mod 3)"
            continue
        B = M.F[bd]
        # the adjoined element t of this level is the flat unit vector at index bd
        t = [0] * d
        t[bd] = 1
        got, canon, ok = _pow_lib(R, d, t, e, mul)
        if not ok:
            M.absent[d] = "library multiplication raised an error on the basis element"
            M.problems.append((d, "error", "fp%d_mul(t, t) raised an error" % d))
            continue
        if any(got[bd:]):
            M.problems.append((d, "not-in-base", "t^%d = %r has components outside the base field" % (e, got)))
            M.absent[d] = "t^%d is not in the base field" % e
            continue
        nr = B.unflatten(got[:bd]) if bd > 1 else got[0]
        # --- what the library reports for this level
        if d == 2:
            exp = qnr % p
            src = "fp_prime_get_qnr"
        elif d == 3:
            exp = cnr % p
            src = "fp_prime_get_cnr"
        elif bd == 2:
            # documented rule of fp2_mul_nor: u when p = 1, 5 mod 8; 1 + u when p = 3 mod 8 and the reported
            # integer part is 1; (fp2_field_get_qnr() + u) otherwise
            if p % 8 in (1, 5):
                exp = (0, 1)
            else:
                exp = (qnr2 % p, 1)
            src = "u + fp2_field_get_qnr (rule of fp2_mul_nor)"
        elif bd == 3:
            if p % 18 in (1, 7) and cnr3:
                exp = (cnr3 % p, 1, 0)
            else:
                exp = (0, 1, 0)
            src = "u + fp3_field_get_cnr (rule of fp3_mul_nor)"
        else:
            exp = B.gen()
            src = "adjoined element of fp%d" % bd
        if (nr != exp):
            M.problems.append((d, "reported", "t^%d = %r but %s gives %r" % (e, nr, src, exp)))
        # the library's own multiply-by-non-residue must agree as well (operational report)
        chk = {2: None, 3: None}.get(d, ("fp%d_mul_nor" % bd) if bd in (2, 3) else ("fp%d_mul_art" % bd))
        if chk and R.has(chk):
            one = [1] + [0] * (bd - 1)
            a = R.fpx_new(bd, one)
            c = R.fpx_new(bd)
            R.call(chk, c, a)
            g2, _ = R.fpx_get(c, bd)
            R.free(a)
            R.free(c)
            if g2 != got[:bd]:
                M.problems.append((d, "mul-nor", "t^%d = %r but %s(1) = %r" % (e, got[:bd], chk, g2)))
        M.nr[d] = nr
        if not is_nonresidue(B, nr, e):
            M.absent[d] = "t^%d is an %s in fp%d for this prime: the quotient ring is not a field" % (
                e, "square" if e == 2 else "cube", bd)
            continue
        M.F[d] = Ext(B, e, nr)
    return M


def cyc_exponents(p):
    """exponents of the 'conversion to cyclotomic' maps as the headers document them (degree -> integer)"""
    return {2: p - 1,
            8: p ** 4 - 1,
            12: (p ** 6 - 1) * (p ** 2 + 1),
            16: p ** 8 - 1,
            18: (p ** 9 - 1) * (p ** 3 + 1),
            24: (p ** 12 - 1) * (p ** 4 + 1),
            48: (p ** 24 - 1) * (p ** 8 + 1),
            54: (p ** 27 - 1) * (p ** 9 + 1)}
