"""Protocol-layer runtime shared by C05 / C06: RT plus the layouts exported by shim/vf_x_c05.c, object
helpers for the pairing groups, key structs, size_t cells, and byte-level reference models of the
encodings the protocols use (MGF1, KDF2, OAEP, PSS, PKCS#1 v1.5, compressed points, FIPS 186-4
ECDSA verification).  Nothing here calls a cp_* routine."""
import ctypes
import hashlib
import hmac as _hmac

from ..rt import RT, MonitorViolation
from .curves import Fp, WCurve, sqrt_mod

HL = 32


def H(b):
    return hashlib.sha256(bytes(b)).digest()


def mgf1(seed, n):
    o, c = b"", 0
    while len(o) < n:
        o += H(seed + c.to_bytes(4, "big"))
        c += 1
    return o[:n]


def kdf2(z, n):
    o, c = b"", 1
    while len(o) < n:
        o += H(z + c.to_bytes(4, "big"))
        c += 1
    return o[:n]


def hmac256(key, msg):
    return _hmac.new(bytes(key), bytes(msg), hashlib.sha256).digest()


def xor(a, b):
    return bytes(x ^ y for x, y in zip(a, b))


# ----------------------------------------------------------------------------- RSA encodings
def oaep_encode(m, k, seed, lhash=None, sep=1, first=0):
    """EME-OAEP (SHA-256, empty label); knobs produce crafted (invalid) paddings"""
    lh = H(b"") if lhash is None else lhash
    ps = bytes(k - len(m) - 2 * HL - 2)
    db = lh + ps + bytes([sep]) + m
    mdb = xor(db, mgf1(seed, k - HL - 1))
    ms = xor(seed, mgf1(mdb, HL))
    return bytes([first]) + ms + mdb


def oaep_decode(em, k):
    """-> plaintext bytes or None (RFC 8017 7.1.2 step 3)"""
    if len(em) != k or k < 2 * HL + 2:
        return None
    y, ms, mdb = em[0], em[1:1 + HL], em[1 + HL:]
    seed = xor(ms, mgf1(mdb, HL))
    db = xor(mdb, mgf1(seed, k - HL - 1))
    ok = (y == 0) and db[:HL] == H(b"")
    i = HL
    while i < len(db) and db[i] == 0:
        i += 1
    if i >= len(db) or db[i] != 1:
        return None
    return db[i + 1:] if ok else None


def pss_encode(mhash, embits, salt=b"", trailer=0xBC, sep=1, clear_top=True):
    emlen = (embits + 7) // 8
    h = H(bytes(8) + mhash + salt)
    ps = bytes(emlen - len(salt) - HL - 2)
    db = ps + bytes([sep]) + salt
    mdb = bytearray(xor(db, mgf1(h, emlen - HL - 1)))
    if clear_top and 8 * emlen - embits:
        mdb[0] &= 0xFF >> (8 * emlen - embits)
    return bytes(mdb) + h + bytes([trailer])


def pss_verify(mhash, em, embits, slen=0):
    """EMSA-PSS-VERIFY (RFC 8017 9.1.2) with SHA-256/MGF1 and a fixed salt length"""
    emlen = (embits + 7) // 8
    if len(em) != emlen or emlen < HL + slen + 2 or em[-1] != 0xBC:
        return False
    mdb, h = em[:emlen - HL - 1], em[emlen - HL - 1:-1]
    zb = 8 * emlen - embits
    if zb and (mdb[0] >> (8 - zb)):
        return False
    db = bytearray(xor(mdb, mgf1(h, emlen - HL - 1)))
    if zb:
        db[0] &= 0xFF >> zb
    if any(db[:emlen - HL - slen - 2]) or db[emlen - HL - slen - 2] != 1:
        return False
    salt = bytes(db[len(db) - slen:]) if slen else b""
    return H(bytes(8) + mhash + salt) == h


SHA256_DI = bytes([0x30, 0x31, 0x30, 0x0d, 0x06, 0x09, 0x60, 0x86, 0x48, 0x01, 0x65, 0x03,
                   0x04, 0x02, 0x01, 0x05, 0x00, 0x04, 0x20])


def pkcs1_sig_encode(mhash, k, digestinfo=True):
    t = (SHA256_DI if digestinfo else b"") + mhash
    return b"\x00\x01" + b"\xff" * (k - 3 - len(t)) + b"\x00" + t


def pkcs1_enc_decode(em, k):
    """EME-PKCS1-v1_5 decoding -> message or None"""
    if len(em) != k or k < 11 or em[0] != 0 or em[1] != 2:
        return None
    i = 2
    while i < k and em[i] != 0:
        i += 1
    if i >= k or i < 10:
        return None
    return em[i + 1:]


# ------------------------------------------------------------------------------ ECDSA (FIPS 186-4)
def bits2int(hb, n):
    """leftmost min(len, bits(n)) bits of the digest as an integer"""
    nb = n.bit_length()
    if 8 * len(hb) > nb:
        ln = (nb + 7) // 8
        return int.from_bytes(hb[:ln], "big") >> (8 * ln - nb)
    return int.from_bytes(hb, "big")


def ecdsa_verify(E, G, n, r, s, digest, Q, lin=None):
    """Q is None (identity) or an (x, y) pair that need not be on the curve; lin(k1, P1, k2, P2) optionally
    replaces the affine double-and-add by the (cross-checked) Jacobian one"""
    if not (1 <= r < n and 1 <= s < n):
        return False
    if Q is None or not E.on_curve(Q):
        return False
    if E.h == 1:
        pass
    elif E.mul(n, Q) is not None:
        return False
    e = bits2int(digest, n)
    w = pow(s, -1, n)
    if lin is not None:
        X = lin(e * w % n, G, r * w % n, Q)
    else:
        X = E.add(E.mul(e * w % n, G), E.mul(r * w % n, Q))
    return X is not None and X[0] % n == r


class FastCurve(object):
    """Jacobian double-and-add and Shamir's trick over Python integers: a second, faster reference for
    k1 P1 + k2 P2 (an affine inversion per step made the plain model the bottleneck).  Cross-checked against
    the affine WCurve model at start-up (selftest) - plain textbook formulas, no recoding, no tables."""

    def __init__(self, p, a, b):
        self.p, self.a, self.b = p, a, b

    def dbl(self, P):
        if P is None:
            return None
        X, Y, Z = P
        p = self.p
        if Y == 0:
            return None
        YY = Y * Y % p
        S = 4 * X * YY % p
        ZZ = Z * Z % p
        M = (3 * X * X + self.a * ZZ * ZZ) % p
        X3 = (M * M - 2 * S) % p
        Y3 = (M * (S - X3) - 8 * YY * YY) % p
        Z3 = 2 * Y * Z % p
        return (X3, Y3, Z3)

    def add_aff(self, P, Q):
        """Jacobian P + affine Q"""
        if Q is None:
            return P
        if P is None:
            return (Q[0], Q[1], 1)
        X1, Y1, Z1 = P
        p = self.p
        ZZ = Z1 * Z1 % p
        U2 = Q[0] * ZZ % p
        S2 = Q[1] * ZZ * Z1 % p
        Hh = (U2 - X1) % p
        r = (S2 - Y1) % p
        if Hh == 0:
            if r == 0:
                return self.dbl(P)
            return None
        HH = Hh * Hh % p
        HHH = HH * Hh % p
        V = X1 * HH % p
        X3 = (r * r - HHH - 2 * V) % p
        Y3 = (r * (V - X3) - Y1 * HHH) % p
        Z3 = Z1 * Hh % p
        return (X3, Y3, Z3)

    def aff(self, P):
        if P is None:
            return None
        X, Y, Z = P
        p = self.p
        if Z % p == 0:
            return None
        zi = pow(Z, -1, p)
        z2 = zi * zi % p
        return (X * z2 % p, Y * z2 * zi % p)

    def neg(self, Q):
        return None if Q is None else (Q[0], -Q[1] % self.p)

    def lin(self, k1, P1, k2=0, P2=None):
        """k1 P1 + k2 P2 for affine points (None = identity), any integers k"""
        if k1 < 0:
            k1, P1 = -k1, self.neg(P1)
        if k2 < 0:
            k2, P2 = -k2, self.neg(P2)
        if P1 is None:
            k1 = 0
        if P2 is None:
            k2 = 0
        S = None
        if k1 and k2:
            S = self.aff(self.add_aff((P1[0], P1[1], 1), P2))
        tab = {(1, 0): P1, (0, 1): P2, (1, 1): S}
        R = None
        for i in range(max(k1.bit_length(), k2.bit_length()) - 1, -1, -1):
            R = self.dbl(R)
            t = ((k1 >> i) & 1, (k2 >> i) & 1)
            if t != (0, 0):
                R = self.add_aff(R, tab[t])
        return self.aff(R)

    def mul(self, k, P):
        return self.lin(k, P)


class PX(RT):
    """RT + protocol-layer helpers"""

    def __init__(self, cfg):
        RT.__init__(self, cfg)
        S = self.S
        self.has_x = True
        try:
            S.vf_c05_const_name.restype = ctypes.c_char_p
            S.vf_c05_const_val.restype = ctypes.c_longlong
        except AttributeError:
            self.has_x = False
            raise RuntimeError("shim/vf_x_c05.c was not built for %s (see vfx_c05.err in the build directory)" % cfg)
        i = 0
        while True:
            n = S.vf_c05_const_name(i)
            if n is None:
                break
            self.K[n.decode()] = S.vf_c05_const_val(i)
            i += 1
        for f in ("vf_rsa_new", "vf_crt_new", "vf_bdpe_new", "vf_shpe_new", "vf_sokaka_new", "vf_bgn_new",
                  "vf_c05_mt_new"):
            try:
                getattr(S, f).restype = ctypes.c_void_p
            except AttributeError:
                pass
        for f in ("vf_rsa_field", "vf_crt_field", "vf_bdpe_field", "vf_shpe_field"):
            fn = getattr(S, f)
            fn.restype = ctypes.c_void_p
            fn.argtypes = [ctypes.c_void_p, ctypes.c_int]
        K = self.K
        self.OK, self.ERR = K["RLC_OK"], K["RLC_ERR"]
        self.EQ = K["RLC_EQ"]
        self.MD = K["RLC_MD_LEN"]
        self.sha256_is_md = (K["MD_MAP"] == K["SH256"])
        self.g1_sz = K.get("sizeof_g1_t")
        self.g2_sz = K.get("sizeof_g2_t")
        self.gt_sz = K.get("sizeof_gt_t")
        self.ep_sz = K["sizeof_ep_st"]
        self.curve = None
        self.EC = None

    # ---------------------------------------------------------------- plain memory
    def cell(self, v=0):
        p = self.mem(8, 0)
        self.wr_sz(p, v)
        return p

    def bytes_in(self, b):
        """exact-size block holding b (1 byte block for the empty string)"""
        return self.put(b)

    def snap(self, p, n):
        return ctypes.string_at(p, n)

    def restore(self, p, b):
        ctypes.memmove(p, b, len(b))

    def cstr(self, s):
        return self.put(s.encode() + b"\0")

    def ptr_array(self, ptrs):
        p = self.mem(8 * max(1, len(ptrs)), 0)
        for i, q in enumerate(ptrs):
            ctypes.c_size_t.from_address(p + 8 * i).value = q
        return p

    def dig_array(self, vals):
        p = self.mem(self.DB * max(1, len(vals)), 0)
        for i, v in enumerate(vals):
            ctypes.memmove(p + self.DB * i, int(v).to_bytes(self.DB, "little"), self.DB)
        return p

    def bn_array(self, n):
        """contiguous array of n bn_st (ALLOC=AUTO layout of `bn_t *`)"""
        p = self.mem(self.bn_sz * max(1, n), self.poison)
        for i in range(n):
            self.call("bn_make", p + i * self.bn_sz, self.BN_SIZE)
            self.bn_put(p + i * self.bn_sz, 0)
        return p

    def new(self, kind):
        if kind == "bn":
            return self.bn_put(self.bn_new(), 0)
        if kind in ("ec", "g1"):
            p = self.mem(self.ep_sz, self.poison)
            self.call("ep_set_infty", p)
            return p
        if kind == "g2":
            p = self.mem(self.g2_sz, self.poison)
            self.call("ep2_set_infty", p)
            return p
        if kind == "gt":
            p = self.mem(self.gt_sz, self.poison)
            self.call("fp12_zero", p)
            return p
        raise KeyError(kind)

    def size_of(self, kind):
        return {"bn": self.bn_sz, "ec": self.ep_sz, "g1": self.ep_sz, "g2": self.g2_sz, "gt": self.gt_sz}[kind]

    def arr(self, kind, n):
        sz = self.size_of(kind)
        if kind == "bn":
            return self.bn_array(n)
        p = self.mem(sz * max(1, n), self.poison)
        init = {"ec": "ep_set_infty", "g1": "ep_set_infty", "g2": "ep2_set_infty", "gt": "fp12_zero"}[kind]
        for i in range(n):
            self.call(init, p + i * sz)
        return p

    # ------------------------------------------------------------------- curves
    def set_curve(self, cid, pairing=False):
        """activate a prime curve (and its sextic twist for pairing work); -> parameter dict"""
        if pairing:
            name = [k for k, v in self.EH["relic_ep.h"].items() if v == cid][0]
            self.pairing_set(name)      # G1 + the right twist type + fp_setup (shared helper of rt.py)
        else:
            r = self.call("ep_param_set", cid)
            if r.caught:
                raise RuntimeError("ep_param_set(%d) failed" % cid)
        pr = self.ep_params()
        self.curve = pr
        self.EC = WCurve(Fp(pr["p"]), pr["a"], pr["b"], pr["n"], pr["h"])
        self.G = (pr["gx"], pr["gy"])
        self.n = pr["n"]
        self.FCv = FastCurve(pr["p"], pr["a"], pr["b"])
        self._selftest_fast()
        self.FC = self.K["RLC_FC_BYTES"]
        return pr

    def _selftest_fast(self):
        import random
        rng = random.Random(self.n & 0xFFFF)
        E, F, G, n = self.EC, self.FCv, self.G, self.n
        P = E.mul(rng.randrange(2, n), G)
        for k1, k2 in ((0, 0), (1, 0), (0, 1), (1, 1), (2, n - 2), (n, 5), (n - 1, 1), (rng.randrange(n), rng.randrange(n)),
                       (-3, 7), (rng.getrandbits(300), -rng.getrandbits(280))):
            if not E.eq(F.lin(k1, G, k2, P), E.add(E.mul(k1, G), E.mul(k2, P))):
                raise RuntimeError("fast curve model disagrees with the affine model")
        if not E.eq(F.lin(3, G, 3, E.neg(G)), None) or not E.eq(F.lin(2, G, 1, G), E.mul(3, G)):
            raise RuntimeError("fast curve model: exceptional cases")

    def pt(self, P):
        """library ep point -> model point (None = identity); coordinates need not satisfy the equation"""
        x, y, z, coord, _ = self.ep_get(P)
        if z == 0:
            return None
        if coord == self.K["BASIC"] or z == 1:
            return (x, y)
        if coord == self.K["PROJC"]:
            return self.EC.from_homog(x, y, z)
        return self.EC.from_jacob(x, y, z)

    def pt_put(self, P, Q):
        if Q is None:
            self.call("ep_set_infty", P)
        else:
            self.ep_put(P, Q[0], Q[1], 1)
        return P

    def enc(self, Q):
        """compressed encoding as written by ep_write_bin(.., pack = 1).  The tag bit is an implementation
        constant of the library (judged by C07, not here): y > (p-1)/2 on pairing-friendly curves, otherwise
        bit 0 of the *internal* (Montgomery) representation of y."""
        if Q is None:
            return b"\x00"
        p = self.curve["p"]
        if self.curve["pairf"]:
            b = 1 if Q[1] % p > (p >> 1) else 0
        else:
            b = (Q[1] * self.mont % p) & 1
        return bytes([2 | b]) + (Q[0] % p).to_bytes(self.FC, "big")

    # ep2 (flat: x0 x1 y0 y1 z0 z1 coord)
    def ep2_get(self, Q):
        K, f = self.K, self.fp_sz
        ox, oy, oz = K["off_ep2_st_x"], K["off_ep2_st_y"], K["off_ep2_st_z"]
        g = lambda o: (self.fp_get(Q + o)[0], self.fp_get(Q + o + f)[0])
        return g(ox), g(oy), g(oz), self.rd_int(Q + K["off_ep2_st_coord"])

    def ep2_put(self, Q, x, y, z=(1, 0)):
        K, f = self.K, self.fp_sz
        for o, v in ((K["off_ep2_st_x"], x), (K["off_ep2_st_y"], y), (K["off_ep2_st_z"], z)):
            self.fp_put(Q + o, v[0])
            self.fp_put(Q + o + f, v[1])
        self.wr_int(Q + K["off_ep2_st_coord"], K["BASIC"])
        return Q

    # --------------------------------------------------------------- key structs
    def rsa_new(self):
        return self.S.vf_rsa_new()

    def rsa_get(self, k):
        names = ("d", "e", "n", "p", "q", "dp", "dq", "qi")
        return {nm: self.bn_val(self.S.vf_rsa_field(k, i)) for i, nm in enumerate(names)}

    def crt_get(self, k):
        names = ("n", "p", "q", "dp", "dq", "qi")
        return {nm: self.bn_val(self.S.vf_crt_field(k, i)) for i, nm in enumerate(names)}
