"""Model of the second pairing group: the sextic twist E'(Fp2) of a BN / BLS12 curve, built only from
what the library *reports* (p, quadratic non-residue, b, b', generator, r, #E(Fp)) and checked by the
model itself; plus the raw ep2_st object layer on top of verif.rt.RT.

Nothing here mirrors a library algorithm: points are affine tuples over tower.Ext, scalar
multiplication is plain double-and-add (curves.WCurve.mul), the group order of the twist is derived
from the trace of Frobenius (CM discriminant 3) and confirmed on random points, square roots in Fp2
are verified by squaring.
"""
import ctypes
import math

from .curves import WCurve, sqrt_mod
from .tower import Ext, PrimeField


# ----------------------------------------------------------------------------- Fp2 helpers
class Fp2(Ext):
    """Ext(PrimeField(p), 2, nr) with the arithmetic written out on Python integers (several times faster than
    the generic loops, same element representation); checked against the generic code at construction."""

    def __init__(self, base, nr):
        Ext.__init__(self, base, 2, nr % base.p)
        self._p = base.p
        self._nr = nr % base.p
        import random
        rng = random.Random(self._p & 0xFFFF)
        G = Ext(base, 2, nr % base.p)
        for _ in range(6):
            a, b = G.rand(rng), G.rand(rng)
            assert self.mul(a, b) == G.mul(a, b) and self.add(a, b) == G.add(a, b) and self.sub(a, b) == G.sub(a, b)
            assert self.inv(a) == G.inv(a) and self.neg(a) == G.neg(a) and self.sqr(a) == G.mul(a, a)

    def add(self, a, b):
        p = self._p
        return ((a[0] + b[0]) % p, (a[1] + b[1]) % p)

    def sub(self, a, b):
        p = self._p
        return ((a[0] - b[0]) % p, (a[1] - b[1]) % p)

    def neg(self, a):
        p = self._p
        return (-a[0] % p, -a[1] % p)

    def mul(self, a, b):
        p = self._p
        a0, a1 = a
        b0, b1 = b
        return ((a0 * b0 + self._nr * a1 * b1) % p, (a0 * b1 + a1 * b0) % p)

    def sqr(self, a):
        p = self._p
        a0, a1 = a
        return ((a0 * a0 + self._nr * a1 * a1) % p, 2 * a0 * a1 % p)

    def inv(self, a):
        p = self._p
        a0, a1 = a
        ni = pow((a0 * a0 - self._nr * a1 * a1) % p, -1, p)
        return (a0 * ni % p, -a1 * ni % p)

    def is_zero(self, a):
        p = self._p
        return a[0] % p == 0 and a[1] % p == 0

    def eq(self, a, b):
        p = self._p
        return (a[0] - b[0]) % p == 0 and (a[1] - b[1]) % p == 0


def fp2_sqrt(F2, a):
    """a square root of a in Fp2 = Fp[u]/(u^2 - nr), or None (complex method; the result is verified)"""
    F = F2.base
    p = F.p
    a0, a1 = a[0] % p, a[1] % p
    if a1 == 0:
        s = sqrt_mod(a0, p)
        if s is not None:
            r = (s, 0)
        else:
            # a0 is a non-residue: a0 / nr is a residue, sqrt = u * sqrt(a0 / nr)
            s = sqrt_mod(a0 * pow(F2.nr, -1, p) % p, p)
            if s is None:
                return None
            r = (0, s)
        return r if F2.eq(F2.mul(r, r), (a0, a1)) else None
    n = (a0 * a0 - F2.nr * a1 * a1) % p          # norm
    s = sqrt_mod(n, p)
    if s is None:
        return None
    inv2 = pow(2, -1, p)
    for sg in (s, -s):
        d = (a0 + sg) * inv2 % p
        x0 = sqrt_mod(d, p)
        if x0 is None or x0 == 0:
            continue
        x1 = a1 * pow(2 * x0, -1, p) % p
        r = (x0, x1)
        if F2.eq(F2.mul(r, r), (a0, a1)):
            return r
    return None


def small_primes(bound):
    sv = bytearray([1]) * (bound + 1)
    sv[0:2] = b"\0\0"
    for i in range(2, int(bound ** 0.5) + 1):
        if sv[i]:
            sv[i * i::i] = bytearray(len(sv[i * i::i]))
    return [i for i in range(2, bound + 1) if sv[i]]


_PR = {}


def small_factors(n, bound=1 << 18):
    """prime factors of n below bound, by trial division -> list of (prime, exponent)"""
    if bound not in _PR:
        _PR[bound] = small_primes(bound)
    out = []
    for q in _PR[bound]:
        if n % q == 0:
            e = 0
            while n % q == 0:
                n //= q
                e += 1
            out.append((q, e))
        if n == 1:
            break
    return out


# ----------------------------------------------------------------------------- the two curves
class PairingModel(object):
    """E(Fp): y^2 = x^3 + b with #E = n*h reported by the library; E'(Fp2): y^2 = x^3 + b2, the twist
    that carries G2.  All derived quantities are checked by the model (asserts = model self-test)."""

    def __init__(self, p, qnr, b, n, h, G1, b2, G2, xi=None, rng=None):
        import random
        rng = rng or random.Random(p & 0xFFFFFFFF)
        self.p = p
        self.r = n
        self.h1 = h
        self.F = PrimeField(p)
        self.F2 = Fp2(self.F, qnr % p)
        assert pow(qnr % p, (p - 1) // 2, p) == p - 1, "reported quadratic non-residue is a residue"
        self.E1 = WCurve(self.F, 0, b % p, n, h)
        self.E2 = WCurve(self.F2, self.F2.zero, tuple(b2), n)
        self.b = b % p
        self.b2 = tuple(b2)
        self.G1 = G1
        self.G2 = G2
        self.xi = xi
        assert self.E1.on_curve(G1) and self.E1.mul(n, G1) is None, "G1 generator"
        assert self.E2.on_curve(G2) and self.E2.mul(n, G2) is None, "G2 generator"
        # trace of Frobenius over Fp from the reported group order, Hasse checked
        self.N1 = n * h
        t = p + 1 - self.N1
        assert t * t <= 4 * p, "Hasse bound violated by the reported order/cofactor"
        self.t = t
        for _ in range(2):
            P = self.rand_point1(rng)
            assert self.E1.mul(self.N1, P) is None, "reported #E(Fp) does not annihilate a random point"
        # orders of the sextic twists over Fp2 (j = 0, D = -3): p^2 + 1 - tau, tau in {+-t2, (+-t2 +- 3 f2)/2}
        t2 = t * t - 2 * p
        d = 4 * p * p - t2 * t2
        assert d % 3 == 0
        f2 = math.isqrt(d // 3)
        assert 3 * f2 * f2 == d, "CM discriminant is not -3"
        taus = {t2, -t2}
        for s1 in (1, -1):
            for s2 in (1, -1):
                v = s1 * t2 + s2 * 3 * f2
                if v % 2 == 0:
                    taus.add(v // 2)
        cands = [p * p + 1 - tau for tau in taus]
        pts = [self.rand_point2(rng) for _ in range(2)]
        good = [N for N in cands if N % n == 0 and all(self.E2.mul(N, P) is None for P in pts)]
        assert len(good) == 1, "cannot determine the order of the twist (%d candidates)" % len(good)
        self.N2 = good[0]
        self.h2 = self.N2 // n
        assert self.h2 % n != 0
        self.lam = p % n          # eigenvalue of the untwist-Frobenius-twist endomorphism on G2
        # twist type from the defining constants: D-type b' = b / xi, M-type b' = b * xi
        self.twist = None
        if xi is not None:
            F2 = self.F2
            if F2.eq(F2.mul(self.b2, tuple(xi)), F2.embed(self.b)):
                self.twist = "D"
            elif F2.eq(F2.mul(F2.embed(self.b), tuple(xi)), self.b2):
                self.twist = "M"
        self._sf1 = None
        self._sf2 = None

    # ---- points
    def rand_point1(self, rng):
        """uniform-ish random point of E(Fp) (any order)"""
        p = self.p
        while True:
            x = rng.randrange(p)
            y = sqrt_mod((x * x * x + self.b) % p, p)
            if y is None:
                continue
            if rng.getrandbits(1):
                y = -y % p
            return (x, y)

    def rand_point2(self, rng):
        """random point of E'(Fp2) (any order: a member of G2 only with probability 1/h2)"""
        F2 = self.F2
        while True:
            x = F2.rand(rng)
            rhs = F2.add(F2.mul(F2.mul(x, x), x), self.b2)
            y = fp2_sqrt(F2, rhs)
            if y is None:
                continue
            if rng.getrandbits(1):
                y = F2.neg(y)
            return (x, y)

    def rand_g2(self, rng):
        return self.E2.mul(rng.randrange(1, self.r), self.G2)

    def rand_g1(self, rng):
        return self.E1.mul(rng.randrange(1, self.r), self.G1)

    def in_g2(self, P):
        return P is not None and self.E2.on_curve(P) and self.E2.mul(self.r, P) is None

    def in_g1(self, P):
        return P is not None and self.E1.on_curve(P) and self.E1.mul(self.r, P) is None

    def small1(self):
        if self._sf1 is None:
            self._sf1 = small_factors(self.h1)
        return self._sf1

    def small2(self):
        if self._sf2 is None:
            self._sf2 = small_factors(self.h2)
        return self._sf2

    def point_of_order(self, which, ell, rng):
        """a point of exact prime order ell (ell a prime factor of the cofactor), or None"""
        E, N, rp = (self.E1, self.N1, self.rand_point1) if which == 1 else (self.E2, self.N2, self.rand_point2)
        m = N
        while m % ell == 0:
            m //= ell
        for _ in range(8):
            P = E.mul(m, rp(rng))          # in the ell-Sylow subgroup
            if P is None:
                continue
            while True:
                Q = E.mul(ell, P)
                if Q is None:
                    return P
                P = Q
        return None


class Base(object):
    """a model point with cached doublings: [k]P is the sum of the cached [2^i]P over the set bits of k
    (plain affine additions).  `order`, when given, must be a number the model has verified to
    annihilate P; scalars are then reduced modulo it first."""

    def __init__(self, E, P, order=None):
        self.E = E
        self.P = P
        self.order = order
        self.d = [P]

    def mul(self, k):
        if self.P is None:
            return None
        if self.order:
            k %= self.order
        neg = k < 0
        k = abs(k)
        E, d = self.E, self.d
        while len(d) < k.bit_length():
            d.append(E.add(d[-1], d[-1]))
        acc = None
        i = 0
        while k:
            if k & 1:
                acc = E.add(acc, d[i])
            k >>= 1
            i += 1
        return E.neg(acc) if neg else acc


# ----------------------------------------------------------------------------- runtime side
class X(object):
    """constants of shim/vf_x_C11.c"""

    def __init__(self, R):
        self.K = {}
        try:
            fn, fv = R.S.vf_x_c11_name, R.S.vf_x_c11_val
        except AttributeError:
            return
        fn.restype = ctypes.c_char_p
        fv.restype = ctypes.c_longlong
        i = 0
        while True:
            n = fn(i)
            if n is None:
                break
            self.K[n.decode()] = fv(i)
            i += 1


class Ep2(object):
    """raw ep2_st objects (ALLOC=AUTO): fp2 x, fp2 y, fp2 z, int coord"""

    def __init__(self, R):
        K = R.K
        self.R = R
        self.sz = K["sizeof_ep2_st"]
        self.ox, self.oy, self.oz, self.oc = (K["off_ep2_st_x"], K["off_ep2_st_y"], K["off_ep2_st_z"],
                                               K["off_ep2_st_coord"])
        self.BASIC, self.PROJC, self.JACOB = K["BASIC"], K["PROJC"], K["JACOB"]

    def new(self, n=1):
        return self.R.mem(self.sz * n, self.R.poison)

    def at(self, base, i):
        return base + i * self.sz

    def put_raw(self, P, x, y, z, coord):
        R = self.R
        R.fpx_put(P + self.ox, x)
        R.fpx_put(P + self.oy, y)
        R.fpx_put(P + self.oz, z)
        R.wr_int(P + self.oc, coord)
        return P

    def get_raw(self, P):
        """-> (x, y, z, coord, canonical)"""
        R = self.R
        x, cx = R.fpx_get(P + self.ox, 2)
        y, cy = R.fpx_get(P + self.oy, 2)
        z, cz = R.fpx_get(P + self.oz, 2)
        return tuple(x), tuple(y), tuple(z), R.rd_int(P + self.oc), (cx and cy and cz)

    def poison(self, P, n=1):
        ctypes.memset(P, self.R.poison, self.sz * n)

    def put(self, P, pt, F2, coord=None, z=None, inf="lib"):
        """write the affine model point pt (None = identity) in the coordinate system coord with the
        projective factor z (an Fp2 element, != 0)"""
        coord = self.BASIC if coord is None else coord
        if pt is None:
            if inf == "lib" or coord == self.BASIC:
                return self.put_raw(P, (0, 0), (0, 0), (0, 0), self.BASIC)
            t = z if z is not None else (1, 0)
            if coord == self.PROJC:          # (0 : Y : 0)
                return self.put_raw(P, (0, 0), t, (0, 0), coord)
            t2 = F2.mul(t, t)                # Jacobian (t^2 : t^3 : 0)
            return self.put_raw(P, t2, F2.mul(t2, t), (0, 0), coord)
        x, y = pt
        if coord == self.BASIC:
            return self.put_raw(P, x, y, (1, 0), coord)
        if z is None:
            z = (1, 0)
        if coord == self.PROJC:
            return self.put_raw(P, F2.mul(x, z), F2.mul(y, z), z, coord)
        z2 = F2.mul(z, z)
        return self.put_raw(P, F2.mul(x, z2), F2.mul(y, F2.mul(z2, z)), z, coord)

    def get(self, P, F2):
        """-> (affine model point or None, coord, canonical, z) ; raises ValueError on an unknown tag"""
        x, y, z, c, can = self.get_raw(P)
        if F2.is_zero(z):
            return None, c, can, z
        if c == self.BASIC:
            return (x, y), c, can, z
        zi = F2.inv(z)
        if c == self.PROJC:
            return (F2.mul(x, zi), F2.mul(y, zi)), c, can, z
        if c == self.JACOB:
            z2 = F2.mul(zi, zi)
            return (F2.mul(x, z2), F2.mul(y, F2.mul(z2, zi))), c, can, z
        raise ValueError("coord tag %r" % c)


def activate(R, name, X_=None):
    """Select the pairing-friendly curve `name` together with its twist (R.pairing_set) and return the
    PairingModel built from what the library then reports.  The twist type used by R.pairing_set is
    cross-checked against the one the *model* derives from b, b' and xi (D: b' = b/xi, M: b' = b*xi)."""
    L = R.L
    xk = (X_ or X(R)).K
    MT, DT = xk.get("RLC_EP_MTYPE", 2), xk.get("RLC_EP_DTYPE", 1)
    R.pairing_set(name)
    P = R.ep_params()
    L.ep2_curve_get_b.restype = ctypes.c_void_p
    L.ep2_curve_get_a.restype = ctypes.c_void_p
    a2 = tuple(R.fpx_get(L.ep2_curve_get_a(), 2)[0])
    b2 = tuple(R.fpx_get(L.ep2_curve_get_b(), 2)[0])
    if P["a"] != 0 or a2 != (0, 0):
        raise RuntimeError("model supports j = 0 curves only")
    e = Ep2(R)
    g = e.new()
    R.call("ep2_curve_get_gen", g)
    gx, gy, gz, gc, _ = e.get_raw(g)
    R.free(g)
    # xi measured: v^3 in Fp6 = Fp2[v]/(v^3 - xi)
    v = R.fpx_new(6, [0, 0, 1, 0, 0, 0])
    c = R.fpx_new(6)
    R.call("fp6_sqr", c, v)
    R.call("fp6_mul", c, c, v)
    xi = tuple(R.fpx_get(c, 6)[0][:2])
    R.free(v)
    R.free(c)
    qnr = L.fp_prime_get_qnr()
    M = PairingModel(P["p"], qnr, P["b"], P["n"], P["h"], (P["gx"], P["gy"]), b2, (gx, gy), xi=xi)
    if M.twist is None:
        raise RuntimeError("twist constants of %s match neither b/xi nor b*xi" % name)
    if {"D": DT, "M": MT}[M.twist] != L.ep2_curve_is_twist():
        raise RuntimeError("twist type configured for %s (%d) is not the one the model derives (%s)"
                           % (name, L.ep2_curve_is_twist(), M.twist))
    M.name = name
    M.pairf = L.ep_curve_is_pairf()
    n2 = R.bn_new()
    R.call("ep2_curve_get_ord", n2)
    M.lib_r2 = R.bn_val(n2)
    R.call("ep2_curve_get_cof", n2)
    M.lib_h2 = R.bn_val(n2)
    R.call("fp_prime_get_par", n2)
    M.par = R.bn_val(n2)
    R.bn_free(n2)
    return M
