"""Hash-to-curve constructions evaluated on Python integers (oracle of C13).

Nothing here calls the library.  Each function is the *documented* construction written out:
RFC 9380 expand_message_xmd, the simplified SWU map (RFC 9380 6.6.2) with an optional rational
isogeny, the Shallue-van de Woestijne map (RFC 9380 6.6.1), SwiftEC's x-only candidates as the
source comments of relic_ep_map.c give them, try-and-increment, Elligator 2 for curve25519 with
the birational map to edwards25519 (RFC 9380 6.7.1, 6.8.1, appendix D.1).

Implementation constants of RELIC that are not mathematics (written down once, from the source):
  * domain separation tag: "RELIC" followed by a NUL byte (sizeof) in ep_map_sswum / ep_map_swift,
    "RELIC" without it (strlen) in ep_map_basic, ep2_map_* and ed_map;
  * bytes per field element L = (FP_PRIME + security_level + 7) // 8;
  * sgn0(x) = x mod 2 of the canonical representative, applied as sgn0(y) = sgn0(t);
  * the non-square of the maps: smallest positive integer satisfying the conditions stated in
    ep_curve_set_map (find_u_sswu / find_u_svdw below), or the value of the parameter set when an
    isogeny is used.
"""
import hashlib

from .curves import sqrt_mod

DST_NUL = b"RELIC\0"
DST = b"RELIC"


def xmd(msg, dst, n, alg="sha256"):
    """RFC 9380 5.3.1 expand_message_xmd"""
    h = hashlib.new(alg)
    b_in_bytes, s_in_bytes = h.digest_size, h.block_size
    ell = -(-n // b_in_bytes)
    if ell > 255 or n > 65535 or len(dst) > 255:
        raise ValueError("xmd: length out of range")
    dst_prime = dst + bytes([len(dst)])
    b0 = hashlib.new(alg, bytes(s_in_bytes) + msg + n.to_bytes(2, "big") + b"\0" + dst_prime).digest()
    b = [hashlib.new(alg, b0 + b"\1" + dst_prime).digest()]
    for i in range(2, ell + 1):
        b.append(hashlib.new(alg, bytes(x ^ y for x, y in zip(b0, b[-1])) + bytes([i]) + dst_prime).digest())
    return b"".join(b)[:n]


def is_sqr(v, p):
    v %= p
    return v == 0 or pow(v, (p - 1) // 2, p) == 1


def inv0(v, p):
    v %= p
    return 0 if v == 0 else pow(v, -1, p)


class PrimeMaps(object):
    """maps to y^2 = x^3 + a x + b over F_p"""

    def __init__(self, p, a, b):
        self.p, self.a, self.b = p, a % p, b % p

    def g(self, x, a=None, b=None):
        a = self.a if a is None else a
        b = self.b if b is None else b
        return (x * x * x + a * x + b) % self.p

    # ---------------------------------------------------------------- non-squares
    def find_u_sswu(self):
        """smallest u >= 1: u non-square and g(b / (u a)) square (ep_curve_set_map, SSWU branch)"""
        p, a, b = self.p, self.a, self.b
        u = 0
        while True:
            u += 1
            if is_sqr(u, p):
                continue
            if is_sqr(self.g(b * pow(u * a, -1, p) % p), p):
                return u

    def find_u_svdw(self):
        """smallest u >= 1 with -g(u) (3u^2 + 4a) a non-zero square (ep_curve_set_map, SvdW branch)"""
        p, a = self.p, self.a
        u = 0
        while True:
            u += 1
            c = (-self.g(u) * (3 * u * u + 4 * a)) % p
            if c != 0 and is_sqr(c, p):
                return u

    # ---------------------------------------------------------------- simplified SWU
    def sswu(self, t, Z, A=None, B=None):
        """RFC 9380 6.6.2 on y^2 = x^3 + A x + B (defaults: the curve itself); returns (x, y) with sgn0(y) = sgn0(t)"""
        p = self.p
        A = self.a if A is None else A % p
        B = self.b if B is None else B % p
        t %= p
        tv1 = inv0(Z * Z * pow(t, 4, p) + Z * t * t, p)
        x1 = (-B * pow(A, -1, p)) % p * (1 + tv1) % p
        if tv1 == 0:
            x1 = B * pow(Z * A, -1, p) % p
        gx1 = self.g(x1, A, B)
        x2 = Z * t * t % p * x1 % p
        gx2 = self.g(x2, A, B)
        if is_sqr(gx1, p):
            x, y = x1, sqrt_mod(gx1, p)
        else:
            x, y = x2, sqrt_mod(gx2, p)
        if y is None:
            raise ArithmeticError("sswu: neither candidate is a square (Z is not a valid non-square)")
        if (y & 1) != (t & 1):
            y = -y % p
        return x, y

    def sswu_exceptional(self, Z):
        """field elements t with Z^2 t^4 + Z t^2 = 0"""
        p = self.p
        out = [0]
        s = sqrt_mod(-pow(Z, -1, p) % p, p)
        if s is not None:
            out += [s, -s % p]
        return out

    # ---------------------------------------------------------------- isogeny
    @staticmethod
    def horner(coeffs, x, p):
        acc = 0
        for c in reversed(coeffs):
            acc = (acc * x + c) % p
        return acc

    def iso_map(self, P, iso):
        """(x', y') on the isogenous curve -> point of the curve; iso = dict(xn, xd, yn, yd) coefficient lists,
        lowest degree first.  A vanishing denominator maps to the identity (None)."""
        p = self.p
        x, y = P
        xn = self.horner(iso["xn"], x, p)
        xd = self.horner(iso["xd"], x, p)
        yn = self.horner(iso["yn"], x, p)
        yd = self.horner(iso["yd"], x, p)
        if xd == 0 or yd == 0:
            return None
        return (xn * pow(xd, -1, p) % p, y * yn % p * pow(yd, -1, p) % p)

    # ---------------------------------------------------------------- Shallue - van de Woestijne
    def svdw_consts(self, Z):
        p, a = self.p, self.a
        gz = self.g(Z)
        h = (3 * Z * Z + 4 * a) % p
        c3 = sqrt_mod(-gz * h % p, p)
        if c3 is None or c3 == 0:
            raise ArithmeticError("svdw: -g(Z)(3Z^2+4A) is not a non-zero square")
        if c3 & 1:
            c3 = p - c3
        return dict(c1=gz, c2=(-Z * pow(2, -1, p)) % p, c3=c3, c4=(-4 * gz * pow(h, -1, p)) % p)

    def svdw(self, t, Z, c=None):
        """RFC 9380 6.6.1; returns (x, y) with sgn0(y) = sgn0(t)"""
        p = self.p
        c = c or self.svdw_consts(Z)
        t %= p
        tv1 = t * t % p * c["c1"] % p
        tv2 = (1 + tv1) % p
        tv1 = (1 - tv1) % p
        tv3 = inv0(tv1 * tv2, p)
        tv4 = t * tv1 % p * tv3 % p * c["c3"] % p
        x1 = (c["c2"] - tv4) % p
        x2 = (c["c2"] + tv4) % p
        x3 = (Z + c["c4"] * pow(tv2 * tv2 % p * tv3 % p, 2, p)) % p
        for x in (x1, x2, x3):
            gx = self.g(x)
            if is_sqr(gx, p):
                break
        y = sqrt_mod(gx, p)
        if y is None:
            raise ArithmeticError("svdw: no candidate is a square")
        if (y & 1) != (t & 1):
            y = -y % p
        return x, y

    def svdw_exceptional(self, Z):
        """t with (1 + t^2 g(Z)) (1 - t^2 g(Z)) = 0, and 0"""
        p = self.p
        gi = pow(self.g(Z), -1, p)
        out = [0]
        for v in (gi, -gi % p):
            s = sqrt_mod(v, p)
            if s is not None:
                out += [s, -s % p]
        return out

    # ---------------------------------------------------------------- SwiftEC (a = 0, b != 0)
    def swift(self, t1, t2, s, tau):
        """x-candidates of relic_ep_map.c:ep_map_swift_impl ("the SwiftEC case per se", a = 0), tau = sqrt(-3).
        Returns (x, y), or 'exceptional' when the common denominator vanishes."""
        p, b = self.p, self.b
        t1 %= p
        t2 %= p
        h0 = pow(t1, 3, p)
        h1 = t2 * t2 % p
        h2 = (h0 + b - h1) % p
        h3 = (2 * h1 + h2) % p
        h6 = t1 * tau % p
        h7 = h2 * h6 % p
        h8 = 2 * h6 * t2 % p
        n1 = h8 * (h7 - t1 * h3) % p
        n2 = pow(2 * h3, 2, p)
        d1 = 2 * h3 * h8 % p
        if d1 == 0:
            return "exceptional"
        w = pow(d1, -1, p)
        x1 = n1 * w % p
        x2 = -(t1 + x1) % p
        x3 = (pow(n2 * w, 2, p) + t1) % p
        x, gx = x1, self.g(x1)
        if is_sqr(self.g(x2), p):
            x, gx = x2, self.g(x2)
        if is_sqr(self.g(x3), p):
            x, gx = x3, self.g(x3)
        y = sqrt_mod(gx, p)
        if y is None:
            return "no-square"
        # the library negates y when is_even(y) xor s: afterwards y is odd iff s == 0 (y != 0)
        if ((y & 1) == 0) != bool(s):
            y = -y % p
        return x, y

    # ---------------------------------------------------------------- try and increment
    def tai(self, x):
        """first x' = x, x+1, ... with g(x') a non-zero square; returns (x', {y, -y})"""
        p = self.p
        x %= p
        while True:
            gx = self.g(x)
            if gx != 0 and is_sqr(gx, p):
                y = sqrt_mod(gx, p)
                return x, y
            x = (x + 1) % p


# ------------------------------------------------------------------------------------ edwards25519
class Ed25519Model(object):
    """twisted Edwards curve -x^2 + y^2 = 1 + d x^2 y^2 over 2^255 - 19 (standard constants, not read from the library)"""
    p = 2 ** 255 - 19
    d = (-121665 * pow(121666, -1, 2 ** 255 - 19)) % (2 ** 255 - 19)
    r = 2 ** 252 + 27742317777372353535851937790883648493
    J = 486662

    def on_curve(self, P):
        p = self.p
        x, y = P
        return (-x * x + y * y - 1 - self.d * x * x % p * y * y) % p == 0

    def add(self, P, Q):
        p, d = self.p, self.d
        x1, y1 = P
        x2, y2 = Q
        t = d * x1 * x2 % p * y1 * y2 % p
        x3 = (x1 * y2 + x2 * y1) * pow(1 + t, -1, p) % p
        y3 = (y1 * y2 + x1 * x2) * pow(1 - t, -1, p) % p
        return (x3, y3)

    def mul(self, k, P):
        R = (0, 1)
        Q = P
        while k:
            if k & 1:
                R = self.add(R, Q)
            Q = self.add(Q, Q)
            k >>= 1
        return R

    def ell2_curve25519(self, u):
        """RFC 9380 6.7.1 for curve25519 (J = 486662, K = 1, Z = 2): Montgomery point (s, t)"""
        p, J = self.p, self.J
        u %= p
        x1 = (-J * inv0(1 + 2 * u * u, p)) % p
        if x1 == 0:
            x1 = -J % p
        gx1 = (x1 * x1 * x1 + J * x1 * x1 + x1) % p
        x2 = (-x1 - J) % p
        gx2 = (x2 * x2 * x2 + J * x2 * x2 + x2) % p
        if is_sqr(gx1, p):
            x, y = x1, sqrt_mod(gx1, p)
            if (y & 1) != 1:
                y = -y % p
        else:
            x, y = x2, sqrt_mod(gx2, p)
            if (y & 1) != 0:
                y = -y % p
        return x, y

    def mont_to_edw(self, s, t):
        """RFC 9380 appendix D.1: (v, w) = (sqrt(-486664) s / t, (s - 1) / (s + 1)), exceptional cases -> (0, 1)"""
        p = self.p
        c = sqrt_mod(-486664 % p, p)
        if c & 1:
            c = p - c
        if t == 0 or (s + 1) % p == 0:
            return (0, 1)
        return (c * s % p * pow(t, -1, p) % p, (s - 1) * pow(s + 1, -1, p) % p)

    def hash_to_curve(self, msg, dst, L):
        ub = xmd(msg, dst, 2 * L)
        Q = (0, 1)
        for i in range(2):
            u = int.from_bytes(ub[i * L:(i + 1) * L], "big") % self.p
            Q = self.add(Q, self.mont_to_edw(*self.ell2_curve25519(u)))
        return self.mul(8, Q)


# ------------------------------------------------------------------------------------ GF(2^m) (on-curve test only)
def clmul(a, b):
    r = 0
    while b:
        if b & 1:
            r ^= a
        a <<= 1
        b >>= 1
    return r


def gf2_red(v, f):
    m = f.bit_length() - 1
    while v.bit_length() > m:
        v ^= f << (v.bit_length() - 1 - m)
    return v


def bin_on_curve(x, y, a, b, f):
    """y^2 + x y = x^3 + a x^2 + b over GF(2)[z]/f"""
    mul = lambda u, v: gf2_red(clmul(u, v), f)
    x2 = mul(x, x)
    return (mul(y, y) ^ mul(x, y)) == (mul(x2, x) ^ mul(a, x2) ^ b)


# ------------------------------------------------------------------------------------ maps over Fp2
class Fp2Maps(object):
    """SSWU / SvdW / try-and-increment over F = Fp[u]/(u^2 - beta) (a model/tower.py Ext of degree 2) onto
    y^2 = x^3 + a x + b, with RFC 9380's sgn0 for extension fields.  Elements are pairs of ints."""

    def __init__(self, F2, a, b):
        self.F = F2
        self.p = F2.p
        self.beta = F2.nr
        self.a, self.b = a, b

    # field helpers -----------------------------------------------------------------
    def norm(self, x):
        p = self.p
        return (x[0] * x[0] - self.beta * x[1] * x[1]) % p

    def is_sqr(self, x):
        """x is a square in Fp2 iff its norm is a square in Fp"""
        return is_sqr(self.norm(x), self.p)

    def sqrt(self, x):
        """a square root in Fp2 or None"""
        p, F = self.p, self.F
        a0, a1 = x[0] % p, x[1] % p
        if a1 == 0:
            s = sqrt_mod(a0, p)
            if s is not None:
                return (s, 0)
            s = sqrt_mod(a0 * pow(self.beta, -1, p) % p, p)
            return None if s is None else (0, s)
        n = sqrt_mod(self.norm(x), p)
        if n is None:
            return None
        i2 = pow(2, -1, p)
        for cand in ((a0 + n) * i2 % p, (a0 - n) * i2 % p):
            x0 = sqrt_mod(cand, p)
            if x0 is not None and x0 != 0:
                r = (x0, a1 * pow(2 * x0, -1, p) % p)
                if F.eq(F.mul(r, r), (a0, a1)):
                    return r
        return None

    @staticmethod
    def sgn0(x):
        s0, z0, s1 = x[0] & 1, int(x[0] == 0), x[1] & 1
        return s0 | (z0 & s1)

    def inv0(self, x):
        return self.F.zero if self.F.is_zero(x) else self.F.inv(x)

    def conj(self, x):
        return (x[0] % self.p, -x[1] % self.p)

    def g(self, x, a=None, b=None):
        F = self.F
        a = self.a if a is None else a
        b = self.b if b is None else b
        return F.add(F.add(F.mul(F.mul(x, x), x), F.mul(a, x)), b)

    def fix_sign(self, y, t):
        return self.F.neg(y) if self.sgn0(y) != self.sgn0(t) else y

    # maps --------------------------------------------------------------------------
    def sswu(self, t, Z, A=None, B=None):
        F = self.F
        A = self.a if A is None else A
        B = self.b if B is None else B
        zt2 = F.mul(Z, F.mul(t, t))
        tv1 = self.inv0(F.add(F.mul(zt2, zt2), zt2))
        mba = F.neg(F.mul(B, F.inv(A)))
        if F.is_zero(tv1):
            x1 = F.mul(B, F.inv(F.mul(Z, A)))
        else:
            x1 = F.mul(mba, F.add(F.one, tv1))
        gx1 = self.g(x1, A, B)
        if self.is_sqr(gx1):
            x, y = x1, self.sqrt(gx1)
        else:
            x = F.mul(zt2, x1)
            y = self.sqrt(self.g(x, A, B))
        if y is None:
            raise ArithmeticError("sswu over Fp2: no square candidate")
        return x, self.fix_sign(y, t)

    def horner(self, coeffs, x):
        F = self.F
        acc = F.zero
        for c in reversed(coeffs):
            acc = F.add(F.mul(acc, x), c)
        return acc

    def iso_map(self, P, iso):
        F = self.F
        x, y = P
        xd, yd = self.horner(iso["xd"], x), self.horner(iso["yd"], x)
        if F.is_zero(xd) or F.is_zero(yd):
            return None
        return (F.mul(self.horner(iso["xn"], x), F.inv(xd)), F.mul(F.mul(y, self.horner(iso["yn"], x)), F.inv(yd)))

    def svdw_consts(self, Z):
        F = self.F
        gz = self.g(Z)
        h = F.add(F.mul(F.small(3), F.mul(Z, Z)), F.mul(F.small(4), self.a))
        c3 = self.sqrt(F.neg(F.mul(gz, h)))
        if c3 is None or F.is_zero(c3):
            raise ArithmeticError("svdw over Fp2: -g(Z)(3Z^2+4A) is not a non-zero square")
        if self.sgn0(c3):
            c3 = F.neg(c3)
        return dict(c1=gz, c2=F.neg(F.mul(Z, F.inv(F.small(2)))), c3=c3,
                    c4=F.neg(F.mul(F.small(4), F.mul(gz, F.inv(h)))))

    def svdw(self, t, Z, c):
        F = self.F
        tv1 = F.mul(F.mul(t, t), c["c1"])
        tv2 = F.add(F.one, tv1)
        tv1 = F.sub(F.one, tv1)
        tv3 = self.inv0(F.mul(tv1, tv2))
        tv4 = F.mul(F.mul(F.mul(t, tv1), tv3), c["c3"])
        x1 = F.sub(c["c2"], tv4)
        x2 = F.add(c["c2"], tv4)
        w = F.mul(F.mul(tv2, tv2), tv3)
        x3 = F.add(Z, F.mul(c["c4"], F.mul(w, w)))
        for x in (x1, x2, x3):
            gx = self.g(x)
            if self.is_sqr(gx):
                break
        y = self.sqrt(gx)
        if y is None:
            raise ArithmeticError("svdw over Fp2: no square candidate")
        return x, self.fix_sign(y, t)

    def tai(self, x0):
        """x = (x0, 0), (x0 + 1, 0), ... until g(x) is a non-zero square (ep2_map_basic)"""
        F = self.F
        x = (x0 % self.p, 0)
        while True:
            gx = self.g(x)
            if not F.is_zero(gx) and self.is_sqr(gx):
                return x, self.sqrt(gx)
            x = ((x[0] + 1) % self.p, 0)
