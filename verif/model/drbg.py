"""Reference model of Hash_DRBG (NIST SP 800-90A Rev. 1, section 10.1.1) for SHA-256, written from the standard.

seedlen = 440 bits (55 bytes), outlen = 256 bits, no prediction resistance, no additional input, no
personalisation string: the seed handed to instantiate() is entropy_input || nonce as one string, the data handed
to reseed() is the entropy input.  The internal state (V, C, reseed_counter) is exposed so that a monitor can
compare it with the working state of an implementation after every call.

  Hash_df(input, n)      temp = Hash(counter_8 || n_bits_32 || input) for counter = 1, 2, ...; leftmost n bytes
  Instantiate(seed)      V = Hash_df(seed, seedlen); C = Hash_df(0x00 || V, seedlen); reseed_counter = 1
  Reseed(data)           V = Hash_df(0x01 || V || data, seedlen); C = Hash_df(0x00 || V, seedlen); reseed_counter = 1
  Hashgen(n, V)          data = V; W = W || Hash(data); data = (data + 1) mod 2^seedlen; leftmost n bytes
  Generate(n)            out = Hashgen(n, V); H = Hash(0x03 || V); V = (V + H + C + reseed_counter) mod 2^seedlen;
                         reseed_counter += 1
max_number_of_bits_per_request = 2^19 (65536 bytes).
"""
import hashlib

SEEDLEN = 55
OUTLEN = 32
MAX_REQUEST = 1 << 16
MOD = 1 << (8 * SEEDLEN)

_sha = hashlib.sha256


def hash_df(data, n):
    out = b""
    c = 1
    bits = (8 * n).to_bytes(4, "big")
    while len(out) < n:
        out += _sha(bytes([c]) + bits + data).digest()
        c += 1
    return out[:n]


class TooLarge(Exception):
    pass


class HashDRBG(object):
    def __init__(self, seed=None):
        self.V = 0          # integers; big-endian byte strings through .Vb / .Cb
        self.C = 0
        self.counter = 0
        self.seeded = False
        if seed is not None:
            self.instantiate(seed)

    @property
    def Vb(self):
        return self.V.to_bytes(SEEDLEN, "big")

    @property
    def Cb(self):
        return self.C.to_bytes(SEEDLEN, "big")

    def instantiate(self, seed):
        v = hash_df(bytes(seed), SEEDLEN)
        self.V = int.from_bytes(v, "big")
        self.C = int.from_bytes(hash_df(b"\x00" + v, SEEDLEN), "big")
        self.counter = 1
        self.seeded = True

    def reseed(self, data):
        v = hash_df(b"\x01" + self.Vb + bytes(data), SEEDLEN)
        self.V = int.from_bytes(v, "big")
        self.C = int.from_bytes(hash_df(b"\x00" + v, SEEDLEN), "big")
        self.counter = 1

    def set_state(self, V, C, counter):
        """adopt a state given as byte strings / integer (used to re-synchronise after a recorded deviation)"""
        self.V = int.from_bytes(V, "big") if not isinstance(V, int) else V
        self.C = int.from_bytes(C, "big") if not isinstance(C, int) else C
        self.counter = counter
        self.seeded = True

    def hashgen(self, n):
        if n <= 0:
            return b""
        m = (n + OUTLEN - 1) // OUTLEN
        d = self.V
        if m == 1:
            return _sha(d.to_bytes(SEEDLEN, "big")).digest()[:n]
        parts = []
        for _ in range(m):
            parts.append(_sha(d.to_bytes(SEEDLEN, "big")).digest())
            d += 1
            if d == MOD:
                d = 0
        return b"".join(parts)[:n]

    def step_terms(self):
        """-> (H as int, V + C mod 2^440 without H, carry of the 32-byte H addition, low byte before the counter)
        diagnostic decomposition of the state update, used to classify carry patterns"""
        H = int.from_bytes(_sha(b"\x03" + self.Vb).digest(), "big")
        vc = (self.V + self.C) % MOD
        low = (vc & ((1 << 256) - 1)) + H
        carry = low >> 256
        vhc = (vc + H) % MOD
        return H, vc, carry, vhc

    def generate(self, n):
        if n > MAX_REQUEST:
            raise TooLarge()
        out = self.hashgen(n)
        H = int.from_bytes(_sha(b"\x03" + self.Vb).digest(), "big")
        self.V = (self.V + H + self.C + self.counter) % MOD
        self.counter += 1
        return out


def selftest():
    """structure checks that need no external vector (the CAVS vectors of /repo/test/test_rand.c are compared by C15)"""
    d = HashDRBG(bytes(range(63)))
    a = d.generate(64)
    e = HashDRBG(bytes(range(63)))
    b = e.generate(31) + e.generate(33)
    # different request split gives a different stream after the first request but the same first block prefix
    assert a[:31] == b[:31] and d.counter == 2 and e.counter == 3
    assert len(hash_df(b"x", 55)) == 55 and hash_df(b"x", 55)[:32] == _sha(b"\x01" + (440).to_bytes(4, "big") + b"x").digest()
    return True
