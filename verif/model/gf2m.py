"""GF(2^m) = GF(2)[z]/(f) on Python ints (bit i = coefficient of z^i) and affine binary curves.

Independent of the library's algorithms: carry-less multiplication by a 4-bit table of the
longer operand, squaring by base-4 re-reading of the binary digits, reduction by folding the
high part with the sparse low part of f, inversion by the polynomial extended Euclid algorithm.
(A bit-serial version of this model made the design probe run for half an hour; this one
does ~10^5 multiplications per second.)

Curves are y^2 + xy = x^3 + a x^2 + b; points are None (identity) or (x, y)."""


def clmul(a, b):
    """carry-less product of two non-negative ints"""
    if a.bit_length() < b.bit_length():
        a, b = b, a
    if not b:
        return 0
    a2 = a << 1
    a4 = a << 2
    a8 = a << 3
    t = (0, a, a2, a2 ^ a, a4, a4 ^ a, a4 ^ a2, a4 ^ a2 ^ a,
         a8, a8 ^ a, a8 ^ a2, a8 ^ a2 ^ a, a8 ^ a4, a8 ^ a4 ^ a, a8 ^ a4 ^ a2, a8 ^ a4 ^ a2 ^ a)
    r = 0
    for c in "%x" % b:
        r = (r << 4) ^ t[int(c, 16)]
    return r


def poly_deg(a):
    return a.bit_length() - 1


def poly_mod(a, f):
    df = f.bit_length()
    while a.bit_length() >= df:
        a ^= f << (a.bit_length() - df)
    return a


def poly_mulmod(a, b, f):
    return poly_mod(clmul(a, b), f)


def poly_gcd(a, b):
    while b:
        a, b = b, poly_mod(a, b)
    return a


def is_irreducible(f):
    """Rabin's test over GF(2): z^(2^m) == z mod f and gcd(z^(2^(m/q)) - z, f) == 1 for the primes q | m"""
    m = poly_deg(f)
    if m < 1:
        return False
    qs, n, d = [], m, 2
    while d * d <= n:
        if n % d == 0:
            qs.append(d)
            while n % d == 0:
                n //= d
        d += 1
    if n > 1:
        qs.append(n)
    F = GF2m(f, check=False)

    def frob(k):
        t = 2
        for _ in range(k):
            t = F.sqr(t)
        return t
    if m == 1:
        return True
    if frob(m) != poly_mod(2, f):
        return False
    for q in qs:
        if poly_gcd(frob(m // q) ^ 2, f) != 1:
            return False
    return True


class GF2m(object):
    def __init__(self, f, check=True):
        self.f = f
        self.m = f.bit_length() - 1
        self.mask = (1 << self.m) - 1
        low = f ^ (1 << self.m)
        self.lowbits = [i for i in range(low.bit_length()) if (low >> i) & 1]
        self.zero = 0
        self.one = 1
        self._tmask = None
        if check and not is_irreducible(f):
            raise ValueError("polynomial is not irreducible")

    # -- ring operations
    def red(self, x):
        m, mask, lb = self.m, self.mask, self.lowbits
        while x >> m:
            h = x >> m
            x &= mask
            for i in lb:
                x ^= h << i
        return x

    def add(self, a, b):
        return a ^ b

    sub = add

    def neg(self, a):
        return a

    def mul(self, a, b):
        return self.red(clmul(a, b))

    def sqr(self, a):
        return self.red(int(bin(a)[2:], 4)) if a else 0

    def inv(self, a):
        if a == 0:
            raise ZeroDivisionError("inverse of 0 in GF(2^m)")
        u, v, g1, g2 = a, self.f, 1, 0
        while u != 1:
            j = u.bit_length() - v.bit_length()
            if j < 0:
                u, v, g1, g2 = v, u, g2, g1
                j = -j
            u ^= v << j
            g1 ^= g2 << j
        return self.red(g1)

    def pow(self, a, e):
        if e < 0:
            a = self.inv(a)
            e = -e
        r = 1
        while e:
            if e & 1:
                r = self.mul(r, a)
            e >>= 1
            if e:
                a = self.sqr(a)
        return r

    def itr(self, a, k):
        """a^(2^k), k may be negative (iterated square root)"""
        k %= self.m
        for _ in range(k):
            a = self.sqr(a)
        return a

    def sqrt(self, a):
        return self.itr(a, self.m - 1)

    # -- trace / quadratic equations
    def trace_mask(self):
        """bit i = Tr(z^i).  Tr(c) = Tr(c^2), so only odd exponents are computed by the definition."""
        if self._tmask is None:
            m = self.m
            t = [0] * m
            for i in range(m):
                if i == 0:
                    t[0] = m & 1
                elif i % 2 == 0:
                    t[i] = t[i // 2]
                else:
                    c = 1 << i
                    acc = c
                    for _ in range(m - 1):
                        c = self.sqr(c)
                        acc ^= c
                    if acc not in (0, 1):
                        raise ArithmeticError("trace outside GF(2)")
                    t[i] = acc
            self._tmask = sum(b << i for i, b in enumerate(t))
        return self._tmask

    def trace(self, a):
        return bin(a & self.trace_mask()).count("1") & 1

    def trace_def(self, a):
        """trace by the definition (sum of the conjugates)"""
        acc = c = a
        for _ in range(self.m - 1):
            c = self.sqr(c)
            acc ^= c
        return acc

    def half_trace(self, a):
        """m odd: H(a) = sum a^(4^i), i = 0..(m-1)/2; H^2 + H = a + Tr(a)"""
        if self.m % 2 == 0:
            raise ValueError("half trace needs odd m")
        h = a
        for _ in range((self.m - 1) // 2):
            h = self.sqr(self.sqr(h)) ^ a
        return h

    def solve(self, a):
        """a root of z^2 + z = a or None"""
        if self.trace(a):
            return None
        z = self.half_trace(a)      # odd m only (every field the library offers for curves)
        if self.sqr(z) ^ z != a:
            raise ArithmeticError("quadratic solver failed")
        return z

    def eq(self, a, b):
        return a == b

    def is_zero(self, a):
        return a == 0

    def small(self, k):
        return k & 1


class GF2m2(object):
    """quadratic extension GF(2^m)[s]/(s^2 + s + 1), m odd; elements are pairs (a0, a1) = a0 + a1 s"""

    def __init__(self, F):
        if F.m % 2 == 0:
            raise ValueError("s^2+s+1 is reducible over GF(2^m) for even m")
        self.F = F

    def add(self, a, b):
        return (a[0] ^ b[0], a[1] ^ b[1])

    def mul(self, a, b):
        F = self.F
        a0b0 = F.mul(a[0], b[0])
        a1b1 = F.mul(a[1], b[1])
        cross = F.mul(a[0], b[1]) ^ F.mul(a[1], b[0])
        # s^2 = s + 1
        return (a0b0 ^ a1b1, cross ^ a1b1)

    def sqr(self, a):
        return self.mul(a, a)

    def inv(self, a):
        F = self.F
        # conjugate of a0 + a1 s is a0 + a1 (s + 1); norm = a0^2 + a0 a1 + a1^2
        n = F.sqr(a[0]) ^ F.mul(a[0], a[1]) ^ F.sqr(a[1])
        ni = F.inv(n)
        return (F.mul(a[0] ^ a[1], ni), F.mul(a[1], ni))

    def trace(self, a):
        """absolute trace GF(2^2m) -> GF(2): Tr_m(a + a^(2^m)) = Tr_m(a1)"""
        return self.F.trace(a[1])


class BinCurve(object):
    """y^2 + xy = x^3 + a x^2 + b over GF2m F"""

    def __init__(self, F, a, b, n=None, h=None):
        if b == 0:
            raise ValueError("singular curve")
        self.F, self.a, self.b, self.n, self.h = F, a, b, n, h
        self._tab = {}

    def on_curve(self, P):
        if P is None:
            return True
        F = self.F
        x, y = P
        x2 = F.sqr(x)
        return F.sqr(y) ^ F.mul(x, y) == F.mul(x2, x) ^ F.mul(self.a, x2) ^ self.b

    def neg(self, P):
        return None if P is None else (P[0], P[0] ^ P[1])

    def add(self, P, Q):
        if P is None:
            return Q
        if Q is None:
            return P
        F = self.F
        x1, y1 = P
        x2, y2 = Q
        if x1 == x2:
            if y1 != y2 or x1 == 0:
                # Q = -P (for x = 0 the point is its own negative: order two)
                return None
            lam = x1 ^ F.mul(y1, F.inv(x1))
            x3 = F.sqr(lam) ^ lam ^ self.a
            y3 = F.sqr(x1) ^ F.mul(lam ^ 1, x3)
            return (x3, y3)
        lam = F.mul(y1 ^ y2, F.inv(x1 ^ x2))
        x3 = F.sqr(lam) ^ lam ^ x1 ^ x2 ^ self.a
        y3 = F.mul(lam, x1 ^ x3) ^ x3 ^ y1
        return (x3, y3)

    def dbl(self, P):
        return self.add(P, P)

    def sub(self, P, Q):
        return self.add(P, self.neg(Q))

    def mul(self, k, P):
        if k < 0:
            k, P = -k, self.neg(P)
        R = None
        while k:
            if k & 1:
                R = self.add(R, P)
            k >>= 1
            if k:
                P = self.add(P, P)
        return R

    def eq(self, P, Q):
        return P == Q

    def frob(self, P):
        return None if P is None else (self.F.sqr(P[0]), self.F.sqr(P[1]))

    def order2(self):
        """the unique point of order two: (0, sqrt(b))"""
        return (0, self.F.sqrt(self.b))

    def lift_x(self, x):
        """the two points with abscissa x != 0 (or [])"""
        F = self.F
        if x == 0:
            return [self.order2()]
        xi2 = F.sqr(F.inv(x))
        z = F.solve(x ^ self.a ^ F.mul(self.b, xi2))
        if z is None:
            return []
        y = F.mul(z, x)
        return [(x, y), (x, y ^ x)]

    def halves(self, P):
        """all Q with 2Q = P (0 or 2 points for P != O; for P = O: O and the point of order two)"""
        if P is None:
            return [None, self.order2()]
        F = self.F
        x, y = P
        out = []
        lam = F.solve(x ^ self.a)
        if lam is None:
            return out
        for l in (lam, lam ^ 1):
            # x_P = l^2 + l + a ;  y_P = u^2 + (l + 1) x_P  =>  u^2 = y_P + (l + 1) x_P
            u = F.sqrt(y ^ F.mul(l ^ 1, x))
            if u == 0:
                continue
            v = F.mul(u, l ^ u)     # l = u + v/u
            Q = (u, v)
            if self.on_curve(Q) and self.dbl(Q) == P:
                out.append(Q)
        return out

    # fixed-base arithmetic for a chosen generator: 4-bit windows, no doublings at evaluation time
    def fixed_base(self, G, bits):
        key = (G, bits)
        tab = self._tab.get(key)
        if tab is None:
            tab = []
            B = G
            for _ in range((bits + 3) // 4):
                row = [None, B]
                for j in range(2, 16):
                    row.append(self.add(row[j - 1], B))
                tab.append(row)
                B = self.add(row[15], B)
            self._tab[key] = tab
        return tab

    def mul_fixed(self, k, G, bits):
        """[k]G for 0 <= k < 2^bits via the window table of G"""
        if k < 0 or k.bit_length() > bits:
            raise ValueError("scalar outside the table")
        tab = self.fixed_base(G, bits)
        R = None
        i = 0
        while k:
            d = k & 15
            if d:
                R = self.add(R, tab[i][d])
            k >>= 4
            i += 1
        return R

    # Lopez-Dahab projective (x = X/Z, y = Y/Z^2) -> affine
    def from_ld(self, X, Y, Z):
        F = self.F
        if Z == 0:
            return None
        zi = F.inv(Z)
        return (F.mul(X, zi), F.mul(Y, F.sqr(zi)))

    # lambda representation (x, lambda = x + y/x) -> affine
    def from_lambda(self, x, lam):
        return (x, self.F.mul(x, x ^ lam))
