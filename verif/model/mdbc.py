"""Reference models for C14: HMAC (RFC 2104), KDF2 / MGF1 (IEEE 1363, PKCS#1), expand_message_xmd
(RFC 9380 section 5.3.1) on top of hashlib, and AES (FIPS 197) with CBC / PKCS#7 (SP 800-38A, RFC 5652).

SHA-2 and BLAKE2s themselves come from hashlib (OpenSSL / CPython's own blake2) - the trusted base.
Everything else is written out from the standards; nothing is transcribed from the library.  The AES
model is validated at import time on the FIPS 197 appendix B / C vectors and the SP 800-38A F.2 CBC
vectors, the XMD model on two RFC 9380 appendix K.1 vectors, HMAC against the stdlib hmac module.
"""
import hashlib

HASHES = {
    # name -> (hashlib constructor, digest bytes, block bytes, bytes of the Merkle-Damgard length field or 0)
    "sh224": (lambda m=b"": hashlib.sha224(m), 28, 64, 8),
    "sh256": (lambda m=b"": hashlib.sha256(m), 32, 64, 8),
    "sh384": (lambda m=b"": hashlib.sha384(m), 48, 128, 16),
    "sh512": (lambda m=b"": hashlib.sha512(m), 64, 128, 16),
    "b2s160": (lambda m=b"": hashlib.blake2s(m, digest_size=20), 20, 64, 0),
    "b2s256": (lambda m=b"": hashlib.blake2s(m, digest_size=32), 32, 64, 0),
}


def H(name, m):
    return HASHES[name][0](bytes(m)).digest()


def hmac_model(name, key, msg):
    """RFC 2104 written out (not the hmac module)"""
    _, dl, bs, _ = HASHES[name]
    if len(key) > bs:
        key = H(name, key)
    key = key + bytes(bs - len(key))
    inner = H(name, bytes(b ^ 0x36 for b in key) + msg)
    return H(name, bytes(b ^ 0x5C for b in key) + inner)


def counter_kdf(name, z, length, start):
    """T = Hash(Z || I2OSP(counter, 4)) for counter = start, start+1, ...; leading `length` bytes.
    start = 1: KDF2 (IEEE 1363a / ISO 18033-2); start = 0: MGF1 (PKCS#1 v2.1 B.2.1) = KDF1."""
    out = b""
    c = start
    while len(out) < length:
        out += H(name, z + c.to_bytes(4, "big"))
        c += 1
    return out[:length]


def kdf2(name, z, length):
    return counter_kdf(name, z, length, 1)


def mgf1(name, z, length):
    return counter_kdf(name, z, length, 0)


class XmdReject(Exception):
    pass


def xmd(name, msg, dst, length, oversize="hash"):
    """expand_message_xmd of RFC 9380, 5.3.1.  Raises XmdReject where the RFC says abort
    (ell > 255, len_in_bytes > 65535).  DSTs longer than 255 bytes are replaced by
    H("H2C-OVERSIZE-DST-" || DST) as in 5.3.3 (oversize='hash') or rejected (oversize='reject')."""
    _, dl, bs, _ = HASHES[name]
    ell = (length + dl - 1) // dl
    if ell > 255 or length > 65535:
        raise XmdReject("ell")
    if len(dst) > 255:
        if oversize != "hash":
            raise XmdReject("dst")
        dst = H(name, b"H2C-OVERSIZE-DST-" + dst)
    dst_prime = dst + bytes([len(dst)])
    b0 = H(name, bytes(bs) + msg + length.to_bytes(2, "big") + b"\x00" + dst_prime)
    if ell == 0:
        return b""
    b = [H(name, b0 + b"\x01" + dst_prime)]
    for i in range(2, ell + 1):
        b.append(H(name, bytes(x ^ y for x, y in zip(b0, b[-1])) + bytes([i]) + dst_prime))
    return b"".join(b)[:length]


# ------------------------------------------------------------------------------------------- AES
def _xtime(a):
    a <<= 1
    return (a ^ 0x11B) & 0xFF if a & 0x100 else a


def _gmul(a, b):
    r = 0
    while b:
        if b & 1:
            r ^= a
        a = _xtime(a)
        b >>= 1
    return r


def _make_sbox():
    # multiplicative inverse in GF(2^8) mod x^8+x^4+x^3+x+1 followed by the affine map of FIPS 197 5.1.1
    inv = [0] * 256
    for a in range(1, 256):
        if inv[a]:
            continue
        for b in range(1, 256):
            if _gmul(a, b) == 1:
                inv[a] = b
                inv[b] = a
                break
    sbox = [0] * 256
    for a in range(256):
        x = inv[a]
        y = 0
        for i in range(8):
            bit = ((x >> i) ^ (x >> ((i + 4) % 8)) ^ (x >> ((i + 5) % 8)) ^ (x >> ((i + 6) % 8)) ^
                   (x >> ((i + 7) % 8)) ^ (0x63 >> i)) & 1
            y |= bit << i
        sbox[a] = y
    return sbox


SBOX = _make_sbox()
INV_SBOX = [0] * 256
for _i, _v in enumerate(SBOX):
    INV_SBOX[_v] = _i
_M2 = [_gmul(a, 2) for a in range(256)]
_M3 = [_gmul(a, 3) for a in range(256)]
_M9 = [_gmul(a, 9) for a in range(256)]
_M11 = [_gmul(a, 11) for a in range(256)]
_M13 = [_gmul(a, 13) for a in range(256)]
_M14 = [_gmul(a, 14) for a in range(256)]
# state is a flat list of 16 bytes in input order: index = 4*column + row
_SHIFT = [(4 * ((c + r) % 4) + r) for c in range(4) for r in range(4)]       # ShiftRows: s'[r,c] = s[r,c+r]
_ISHIFT = [(4 * ((c - r) % 4) + r) for c in range(4) for r in range(4)]      # InvShiftRows


def key_expansion(key):
    """FIPS 197 5.2 -> list of Nr+1 round keys (16-byte lists)"""
    if len(key) not in (16, 24, 32):
        raise ValueError("AES key length")
    nk = len(key) // 4
    nr = nk + 6
    w = [list(key[4 * i:4 * i + 4]) for i in range(nk)]
    rcon = 1
    for i in range(nk, 4 * (nr + 1)):
        t = list(w[i - 1])
        if i % nk == 0:
            t = t[1:] + t[:1]
            t = [SBOX[b] for b in t]
            t[0] ^= rcon
            rcon = _xtime(rcon)
        elif nk > 6 and i % nk == 4:
            t = [SBOX[b] for b in t]
        w.append([a ^ b for a, b in zip(w[i - nk], t)])
    return [w[4 * r][:] + w[4 * r + 1] + w[4 * r + 2] + w[4 * r + 3] for r in range(nr + 1)]


def encrypt_block(rk, blk):
    s = [a ^ b for a, b in zip(blk, rk[0])]
    nr = len(rk) - 1
    for r in range(1, nr + 1):
        s = [SBOX[s[j]] for j in _SHIFT]          # SubBytes + ShiftRows
        if r != nr:
            n = []
            for c in range(0, 16, 4):
                a0, a1, a2, a3 = s[c], s[c + 1], s[c + 2], s[c + 3]
                n += [_M2[a0] ^ _M3[a1] ^ a2 ^ a3, a0 ^ _M2[a1] ^ _M3[a2] ^ a3,
                      a0 ^ a1 ^ _M2[a2] ^ _M3[a3], _M3[a0] ^ a1 ^ a2 ^ _M2[a3]]
            s = n
        k = rk[r]
        s = [a ^ b for a, b in zip(s, k)]
    return bytes(s)


def decrypt_block(rk, blk):
    """InvCipher of FIPS 197 5.3 (straightforward form, encryption key schedule)"""
    nr = len(rk) - 1
    s = [a ^ b for a, b in zip(blk, rk[nr])]
    for r in range(nr - 1, -1, -1):
        s = [INV_SBOX[s[j]] for j in _ISHIFT]     # InvShiftRows + InvSubBytes
        k = rk[r]
        s = [a ^ b for a, b in zip(s, k)]
        if r != 0:
            n = []
            for c in range(0, 16, 4):
                a0, a1, a2, a3 = s[c], s[c + 1], s[c + 2], s[c + 3]
                n += [_M14[a0] ^ _M11[a1] ^ _M13[a2] ^ _M9[a3], _M9[a0] ^ _M14[a1] ^ _M11[a2] ^ _M13[a3],
                      _M13[a0] ^ _M9[a1] ^ _M14[a2] ^ _M11[a3], _M11[a0] ^ _M13[a1] ^ _M9[a2] ^ _M14[a3]]
            s = n
    return bytes(s)


def _xor(a, b):
    return bytes(x ^ y for x, y in zip(a, b))


def cbc_encrypt_raw(rk, iv, data):
    out = []
    prev = iv
    for i in range(0, len(data), 16):
        prev = encrypt_block(rk, _xor(data[i:i + 16], prev))
        out.append(prev)
    return b"".join(out)


def cbc_decrypt_raw(rk, iv, data):
    out = []
    prev = iv
    for i in range(0, len(data), 16):
        blk = data[i:i + 16]
        out.append(_xor(decrypt_block(rk, blk), prev))
        prev = blk
    return b"".join(out)


def pkcs7_pad(pt):
    n = 16 - len(pt) % 16
    return pt + bytes([n]) * n


def pkcs7_unpad(padded):
    """-> plaintext or None when the padding is invalid (RFC 5652 6.3, block size 16)"""
    if len(padded) == 0 or len(padded) % 16:
        return None
    n = padded[-1]
    if n < 1 or n > 16:
        return None
    if padded[-n:] != bytes([n]) * n:
        return None
    return padded[:-n]


def cbc_pkcs7_encrypt(key, iv, pt):
    return cbc_encrypt_raw(key_expansion(key), iv, pkcs7_pad(pt))


def cbc_pkcs7_decrypt(key, iv, ct):
    """-> plaintext or None (wrong length / invalid padding)"""
    if len(ct) == 0 or len(ct) % 16:
        return None
    return pkcs7_unpad(cbc_decrypt_raw(key_expansion(key), iv, ct))


# ------------------------------------------------------------------------- known-answer self tests
def selftest():
    fh = bytes.fromhex
    # FIPS 197 5.1.1 / figure 7 spot values of the S-box
    assert SBOX[0x00] == 0x63 and SBOX[0x53] == 0xED and SBOX[0xFF] == 0x16 and SBOX[0x01] == 0x7C
    # appendix B
    rk = key_expansion(fh("2b7e151628aed2a6abf7158809cf4f3c"))
    assert bytes(rk[10]) == fh("d014f9a8c9ee2589e13f0cc8b6630ca6")
    assert encrypt_block(rk, fh("3243f6a8885a308d313198a2e0370734")) == fh("3925841d02dc09fbdc118597196a0b32")
    # appendix C.1 - C.3
    pt = fh("00112233445566778899aabbccddeeff")
    for kl, ct in ((16, "69c4e0d86a7b0430d8cdb78070b4c55a"), (24, "dda97ca4864cdfe06eaf70a0ec0d7191"),
                   (32, "8ea2b7ca516745bfeafc49904b496089")):
        rk = key_expansion(bytes(range(kl)))
        assert encrypt_block(rk, pt) == fh(ct)
        assert decrypt_block(rk, fh(ct)) == pt
    # SP 800-38A F.2.1 - F.2.6 (CBC, no padding)
    iv = bytes(range(16))
    p4 = fh("6bc1bee22e409f96e93d7e117393172a" "ae2d8a571e03ac9c9eb76fac45af8e51"
            "30c81c46a35ce411e5fbc1191a0a52ef" "f69f2445df4f9b17ad2b417be66c3710")
    for key, ct in (("2b7e151628aed2a6abf7158809cf4f3c",
                     "7649abac8119b246cee98e9b12e9197d" "5086cb9b507219ee95db113a917678b2"
                     "73bed6b8e3c1743b7116e69e22229516" "3ff1caa1681fac09120eca307586e1a7"),
                    ("8e73b0f7da0e6452c810f32b809079e562f8ead2522c6b7b",
                     "4f021db243bc633d7178183a9fa071e8" "b4d9ada9ad7dedf4e5e738763f69145a"
                     "571b242012fb7ae07fa9baac3df102e0" "08b0e27988598881d920a9e64f5615cd"),
                    ("603deb1015ca71be2b73aef0857d77811f352c073b6108d72d9810a30914dff4",
                     "f58c4c04d6e5f1ba779eabfb5f7bfbd6" "9cfc4e967edb808d679f777bc6702c7d"
                     "39f23369a9d9bacfa530e26304231461" "b2eb05e2c39be9fcda6c19078c6a9d1b")):
        rk = key_expansion(fh(key))
        assert cbc_encrypt_raw(rk, iv, p4) == fh(ct)
        assert cbc_decrypt_raw(rk, iv, fh(ct)) == p4
    # PKCS#7
    assert pkcs7_pad(b"") == bytes([16]) * 16 and pkcs7_unpad(bytes([16]) * 16) == b""
    assert pkcs7_unpad(b"A" * 15 + b"\x01") == b"A" * 15 and pkcs7_unpad(b"A" * 15 + b"\x00") is None
    assert pkcs7_unpad(b"A" * 15 + b"\x11") is None and pkcs7_unpad(b"A" * 13 + b"\x03\x02\x03") is None
    # RFC 9380 K.1 (expand_message_xmd, SHA-256)
    dst = b"QUUX-V01-CS02-with-expander-SHA256-128"
    assert xmd("sh256", b"", dst, 0x20) == fh("68a985b87eb6b46952128911f2a4412bbc302a9d759667f87f7a21d803f07235")
    assert xmd("sh256", b"abc", dst, 0x20) == fh("d8ccab23b5985ccea865c6c97b6e5b8350e794e603b4b97902f53a8a0d605615")
    # HMAC written out == stdlib hmac; RFC 4231 test case 2
    import hmac as _h
    for kl in (0, 1, 63, 64, 65, 127, 128, 129, 200):
        k = bytes((7 * i + kl) & 0xFF for i in range(kl))
        for nm, alg in (("sh224", "sha224"), ("sh256", "sha256"), ("sh384", "sha384"), ("sh512", "sha512")):
            assert hmac_model(nm, k, b"what do ya want") == _h.new(k, b"what do ya want", alg).digest()
    assert hmac_model("sh256", b"Jefe", b"what do ya want for nothing?") == \
        fh("5bdcc146bf60754e6a042426089575c75a003f089d2739839dec58b964ec3843")
    # MGF1 (SHA-256) published example: mgf1("bar", 50)
    assert mgf1("sh256", b"bar", 50) == fh("382576a7841021cc28fc4c0948753fb8312090cea942ea4c4e735d10dc724b15"
                                           "5f9f6069f289d61daca0cb814502ef04eae1")
    return True


selftest()
