"""Affine short-Weierstrass arithmetic over any model field with +,-,*,inverse (ints mod p by default).

Points are None (identity) or tuples (x, y).  No projective coordinates, no recoding, no
precomputation: deliberately nothing in common with the library's algorithms."""


class Fp(object):
    def __init__(self, p):
        self.p = p
        self.zero = 0
        self.one = 1

    def add(self, a, b):
        return (a + b) % self.p

    def sub(self, a, b):
        return (a - b) % self.p

    def mul(self, a, b):
        return a * b % self.p

    def neg(self, a):
        return -a % self.p

    def inv(self, a):
        return pow(a, -1, self.p)

    def is_zero(self, a):
        return a % self.p == 0

    def eq(self, a, b):
        return (a - b) % self.p == 0

    def small(self, k):
        return k % self.p


class WCurve(object):
    """y^2 = x^3 + a x + b over field F (an object with the Fp interface above)"""

    def __init__(self, F, a, b, n=None, h=1):
        self.F = F
        self.a = a
        self.b = b
        self.n = n
        self.h = h

    def on_curve(self, P):
        if P is None:
            return True
        F = self.F
        x, y = P
        return F.eq(F.mul(y, y), F.add(F.add(F.mul(F.mul(x, x), x), F.mul(self.a, x)), self.b))

    def neg(self, P):
        if P is None:
            return None
        return (P[0], self.F.neg(P[1]))

    def add(self, P, Q):
        F = self.F
        if P is None:
            return Q
        if Q is None:
            return P
        x1, y1 = P
        x2, y2 = Q
        if F.eq(x1, x2):
            if F.eq(y1, y2) and not F.is_zero(y1):
                num = F.add(F.mul(F.small(3), F.mul(x1, x1)), self.a)
                lam = F.mul(num, F.inv(F.mul(F.small(2), y1)))
            else:
                return None
        else:
            lam = F.mul(F.sub(y2, y1), F.inv(F.sub(x2, x1)))
        x3 = F.sub(F.sub(F.mul(lam, lam), x1), x2)
        y3 = F.sub(F.mul(lam, F.sub(x1, x3)), y1)
        return (x3, y3)

    def dbl(self, P):
        return self.add(P, P)

    def sub(self, P, Q):
        return self.add(P, self.neg(Q))

    def mul(self, k, P):
        if k < 0:
            return self.mul(-k, self.neg(P))
        R = None
        Q = P
        while k:
            if k & 1:
                R = self.add(R, Q)
            Q = self.add(Q, Q)
            k >>= 1
        return R

    def eq(self, P, Q):
        if P is None or Q is None:
            return P is None and Q is None
        return self.F.eq(P[0], Q[0]) and self.F.eq(P[1], Q[1])

    # conversions from the library's projective systems
    def from_homog(self, x, y, z):
        """(X:Y:Z) with x = X/Z, y = Y/Z"""
        F = self.F
        if F.is_zero(z):
            return None
        zi = F.inv(z)
        return (F.mul(x, zi), F.mul(y, zi))

    def from_jacob(self, x, y, z):
        """(X:Y:Z) with x = X/Z^2, y = Y/Z^3"""
        F = self.F
        if F.is_zero(z):
            return None
        zi = F.inv(z)
        zi2 = F.mul(zi, zi)
        return (F.mul(x, zi2), F.mul(y, F.mul(zi2, zi)))


def sqrt_mod(a, p):
    """a square root of a mod p (p odd prime) or None; Tonelli-Shanks"""
    a %= p
    if a == 0:
        return 0
    if pow(a, (p - 1) // 2, p) != 1:
        return None
    if p % 4 == 3:
        return pow(a, (p + 1) // 4, p)
    q, s = p - 1, 0
    while q % 2 == 0:
        q //= 2
        s += 1
    z = 2
    while pow(z, (p - 1) // 2, p) != p - 1:
        z += 1
    m, c, t, r = s, pow(z, q, p), pow(a, q, p), pow(a, (q + 1) // 2, p)
    while t != 1:
        i, t2 = 0, t
        while t2 != 1:
            t2 = t2 * t2 % p
            i += 1
        b = pow(c, 1 << (m - i - 1), p)
        m, c = i, b * b % p
        t, r = t * c % p, r * b % p
    return r


def is_probable_prime(n, rounds=24):
    import random
    if n < 2:
        return False
    for q in (2, 3, 5, 7, 11, 13, 17, 19, 23, 29, 31, 37):
        if n % q == 0:
            return n == q
    d, s = n - 1, 0
    while d % 2 == 0:
        d //= 2
        s += 1
    rng = random.Random(n & 0xFFFFFFFF)
    for a in [2, 3, 5, 7, 11, 13, 17, 19, 23, 29, 31, 37] + [rng.randrange(2, n - 1) for _ in range(rounds)]:
        x = pow(a, d, n)
        if x in (1, n - 1):
            continue
        for _ in range(s - 1):
            x = x * x % n
            if x == n - 1:
                break
        else:
            return False
    return True
