"""Number-theoretic reference models for C09 (pure Python integers; nothing transcribed from the library).

  jacobi(a, n)                     Jacobi symbol by the binary reciprocity algorithm
  is_spsp(n, a)                    strong probable prime test to base a (Miller-Rabin round)
  is_prime(n, rng)                 BPSW-style: trial division, MR base 2, strong Lucas (Selfridge A), + MR to 40 random bases
  COMPOSITES                       hostile composites, each proven composite and (where claimed) pseudoprime at import time
  Z[tau] arithmetic                tau^2 - mu*tau + 2 = 0 (Koblitz curves): pairs (a, b) = a + b*tau
  factor_small(n)                  trial division + Pollard rho (for structure evidence on small generated primes)
"""
import math
import random

SMALL_PRIMES = [2, 3] + [q for q in range(5, 4000, 2) if all(q % d for d in range(3, int(q ** .5) + 1, 2))]
_SP_SET = set(SMALL_PRIMES)


def jacobi(a, n):
    """(a|n) for odd n > 0"""
    if n <= 0 or n % 2 == 0:
        raise ValueError("jacobi: n must be odd and positive")
    a %= n
    r = 1
    while a:
        while a % 2 == 0:
            a //= 2
            if n % 8 in (3, 5):
                r = -r
        a, n = n, a
        if a % 4 == 3 and n % 4 == 3:
            r = -r
        a %= n
    return r if n == 1 else 0


def is_spsp(n, a):
    """n odd > 2: is n a strong probable prime to base a"""
    d = n - 1
    s = 0
    while d % 2 == 0:
        d //= 2
        s += 1
    x = pow(a, d, n)
    if x == 1 or x == n - 1:
        return True
    for _ in range(s - 1):
        x = x * x % n
        if x == n - 1:
            return True
    return False


def _lucas_strong(n):
    """strong Lucas probable prime test with Selfridge's method A parameters; n odd, not a perfect square"""
    D = 5
    while True:
        g = math.gcd(abs(D), n)
        if 1 < g < n:
            return False
        if jacobi(D, n) == -1:
            break
        D = -D - 2 if D > 0 else -D + 2
    P, Q = 1, (1 - D) // 4
    d = n + 1
    s = 0
    while d % 2 == 0:
        d //= 2
        s += 1
    # compute U_d, V_d, Q^d by the binary method
    U, V, Qk = 1, P, Q % n
    inv2 = (n + 1) // 2
    for bit in bin(d)[3:]:
        U = U * V % n
        V = (V * V - 2 * Qk) % n
        Qk = Qk * Qk % n
        if bit == "1":
            U, V = (P * U + V) * inv2 % n, (D * U + P * V) * inv2 % n
            Qk = Qk * Q % n
    if U == 0 or V == 0:
        return True
    for _ in range(s - 1):
        V = (V * V - 2 * Qk) % n
        Qk = Qk * Qk % n
        if V == 0:
            return True
    return False


_default_rng = random.Random(0xC09)


def is_prime(n, rng=None, rounds=40):
    """the oracle for primality (deterministic trial division below 4000^2, BPSW + random-base Miller-Rabin above)"""
    if n < 2:
        return False
    if n in _SP_SET:
        return True
    for q in SMALL_PRIMES:
        if n % q == 0:
            return False
    if n < SMALL_PRIMES[-1] ** 2:
        return True
    if not is_spsp(n, 2):
        return False
    r = math.isqrt(n)
    if r * r == n:
        return False
    if not _lucas_strong(n):
        return False
    rng = rng or _default_rng
    for _ in range(rounds):
        if not is_spsp(n, rng.randrange(2, n - 1)):
            return False
    return True


def next_prime(n, rng=None):
    n = max(n, 2)
    while not is_prime(n, rng):
        n += 1
    return n


def rand_prime(rng, bits):
    if bits < 2:
        raise ValueError
    while True:
        p = rng.getrandbits(bits) | (1 << (bits - 1)) | (1 if bits > 2 else 0)
        if bits == 2:
            p = rng.choice([2, 3])
        if is_prime(p, rng):
            return p


# --------------------------------------------------------------------------- hostile composites
# psi_k: smallest strong pseudoprime to the first k prime bases (Pomerance-Selfridge-Wagstaff, Jaeschke, Jiang-Deng,
# Sorenson-Webster); the last two are the 12- and 13-base values.
PSI = [
    (2047, 1), (1373653, 2), (25326001, 3), (3215031751, 4), (2152302898747, 5), (3474749660383, 6),
    (341550071728321, 7), (3825123056546413051, 9), (318665857834031151167461, 12), (3317044064679887385961981, 13),
]
FIRST_PRIMES = SMALL_PRIMES[:60]

# n = p * (5p - 4), both prime, constructed (offline search, probes of C09) so that n is a strong pseudoprime to the
# bases 2, 3 and 5: p = 19 or 79 mod 120 makes the Jacobi symbols of 2, 3, 5 agree modulo both factors and both
# p - 1 and 5p - 5 are twice an odd number; 2, 3, 5 are fifth-power residues modulo 5p - 4.  863 bits.
SPSP235_P = [
    0x3f0617a5669db0b4fd41e34acb38ff35d1ef08310b27ac3892f288b5884deab99a0076acd35a9db1a1fbf187f4d97dd9c3994001fd5f,
]


def _witnessed_composite(n):
    """a proof of compositeness that does not rely on is_prime(): some prime base < 400 is a Miller-Rabin witness"""
    return any(not is_spsp(n, a) for a in SMALL_PRIMES[:78] if a % n)


def build_composites():
    """-> list of (n, tag); every entry is verified here: composite, and pseudoprime to what its tag claims"""
    out = []
    for n in (561, 1105, 1729, 2465, 2821, 6601, 8911, 10585, 15841, 29341, 41041, 46657, 52633, 62745, 63973, 75361):
        # Carmichael: composite, a^(n-1) = 1 for every a coprime to n (Korselt: squarefree and p-1 | n-1)
        f = factor_small(n)
        assert len(f) >= 3 and all(e == 1 and (n - 1) % (p - 1) == 0 for p, e in f.items()), n
        out.append((n, "carmichael"))
    k = 1
    cnt = 0
    while cnt < 12:
        a, b, c = 6 * k + 1, 12 * k + 1, 18 * k + 1
        if is_prime(a) and is_prime(b) and is_prime(c):
            n = a * b * c
            assert all((n - 1) % (p - 1) == 0 for p in (a, b, c))
            out.append((n, "chernick"))
            cnt += 1
        k += 1
    # larger Chernick numbers (factors of 60..170 bits)
    rng = random.Random(0xC0)
    for bits in (40, 64, 100, 170):
        k = rng.getrandbits(bits) | (1 << (bits - 1))
        while not (is_prime(6 * k + 1, rng) and is_prime(12 * k + 1, rng) and is_prime(18 * k + 1, rng)):
            k += 1
        out.append(((6 * k + 1) * (12 * k + 1) * (18 * k + 1), "chernick-large"))
    for n, kb in PSI:
        assert all(is_spsp(n, a) for a in FIRST_PRIMES[:kb]), ("not a strong pseudoprime", n, kb)
        assert _witnessed_composite(n), ("no witness", n)
        assert not is_prime(n)
        out.append((n, "spsp-first-%d-primes" % kb))
    for p in SPSP235_P:
        q = 5 * p - 4
        n = p * q
        assert is_prime(p) and is_prime(q) and all(is_spsp(n, a) for a in (2, 3, 5)) and not is_spsp(n, 7)
        assert not is_prime(n)
        out.append((n, "spsp-2-3-5-constructed"))
    for p in (3, 5, 7, 251, 257, 65537, (1 << 31) - 1, (1 << 61) - 1, (1 << 89) - 1, (1 << 127) - 1, 4093082899):
        assert is_prime(p)
        out.append((p * p, "prime-square"))
    for bits in (8, 16, 31, 32, 33, 64, 100, 128, 200):
        for _ in range(3):
            p = rand_prime(rng, bits)
            if is_prime(2 * p - 1, rng):
                pass
            out.append((p * (2 * p - 1), "p(2p-1)" if is_prime(2 * p - 1, rng) else "p(2p-1)-second-factor-composite"))
            q = next_prime(p + 2, rng)
            out.append((p * q, "close-primes"))
    # p(2p-1) with both prime (Fermat/strong pseudoprime-prone shape), found by search
    for bits in (16, 32, 48, 64, 96):
        while True:
            p = rand_prime(rng, bits)
            if is_prime(2 * p - 1, rng):
                out.append((p * (2 * p - 1), "p(2p-1)-both-prime"))
                break
    for n, tag in out:
        assert n > 3 and not is_prime(n), (n, tag)
    return out


# --------------------------------------------------------------------------- small factoring
def _rho(n, rng):
    if n % 2 == 0:
        return 2
    while True:
        c = rng.randrange(1, n)
        x = y = rng.randrange(0, n)
        d = 1
        while d == 1:
            x = (x * x + c) % n
            y = (y * y + c) % n
            y = (y * y + c) % n
            d = math.gcd(abs(x - y), n)
        if d != n:
            return d


def factor_small(n, rng=None, limit_bits=80):
    """-> {prime: exponent}; intended for n up to ~80 bits"""
    rng = rng or random.Random(n)
    f = {}
    for q in SMALL_PRIMES[:200]:
        while n % q == 0:
            f[q] = f.get(q, 0) + 1
            n //= q
    stack = [n] if n > 1 else []
    while stack:
        m = stack.pop()
        if m == 1:
            continue
        if is_prime(m):
            f[m] = f.get(m, 0) + 1
            continue
        d = _rho(m, rng)
        stack.append(d)
        stack.append(m // d)
    return f


# --------------------------------------------------------------------------- Z[tau], tau^2 = mu*tau - 2
def tau_mul(x, y, mu):
    a, b = x
    c, d = y
    return (a * c - 2 * b * d, a * d + b * c + mu * b * d)


def tau_conj(x, mu):
    a, b = x
    return (a + mu * b, -b)


def tau_norm(x, mu):
    a, b = x
    return a * a + mu * a * b + 2 * b * b


def tau_eval(digits, mu, step=1):
    """sum digits[i] * tau^(i*step), digits are pairs (elements of Z[tau]); Horner from the top"""
    acc = (0, 0)
    tp = (1, 0)
    for _ in range(step):
        tp = tau_mul(tp, (0, 1), mu)
    for d in reversed(digits):
        acc = tau_mul(acc, tp, mu)
        acc = (acc[0] + d[0], acc[1] + d[1])
    return acc


def tau_delta(m, mu):
    """(tau^m - 1) / (tau - 1) = sum_{i<m} tau^i"""
    acc = (0, 0)
    t = (1, 0)
    for _ in range(m):
        acc = (acc[0] + t[0], acc[1] + t[1])
        t = tau_mul(t, (0, 1), mu)
    return acc


def tau_divides(d, x, mu):
    """does d divide x in Z[tau]"""
    N = tau_norm(d, mu)
    y = tau_mul(x, tau_conj(d, mu), mu)
    return y[0] % N == 0 and y[1] % N == 0


def selftest():
    assert jacobi(1001, 9907) == -1 and jacobi(19, 45) == 1 and jacobi(8, 21) == -1 and jacobi(5, 21) == 1
    assert [n for n in range(2, 60) if is_prime(n)] == [2, 3, 5, 7, 11, 13, 17, 19, 23, 29, 31, 37, 41, 43, 47, 53, 59]
    assert is_prime((1 << 127) - 1) and is_prime((1 << 521) - 1) and not is_prime((1 << 127) - 3)
    assert is_prime(2 ** 255 - 19) and not is_prime((2 ** 255 - 19) * (2 ** 127 - 1))
    # Lucas must reject the base-2 strong pseudoprimes (BPSW has no known counterexample)
    for n in (2047, 3277, 4033, 4681, 8321, 1373653, 25326001, 3215031751):
        assert is_spsp(n, 2) and not _lucas_strong(n), n
    for mu in (1, -1):
        t = (0, 1)
        t2 = tau_mul(t, t, mu)
        assert t2 == (-2, mu)                       # tau^2 = mu*tau - 2
        assert tau_norm(t, mu) == 2
        d = tau_delta(5, mu)
        t5 = tau_eval([(0, 0)] * 5 + [(1, 0)], mu)   # tau^5
        assert tau_mul(d, (-1, 1), mu) == (t5[0] - 1, t5[1])
        assert tau_divides(d, tau_mul(d, (7, -3), mu), mu) and not tau_divides(d, (1, 0), mu)
    assert factor_small(561) == {3: 1, 11: 1, 17: 1} and factor_small((2 ** 31 - 1) * 65537 ** 2) == {2 ** 31 - 1: 1, 65537: 2}
    return True
