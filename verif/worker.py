"""Worker process: runs one shard of one part of one property against one build, in process."""
import importlib
import json
import os
import sys
import traceback


def main():
    spec = json.loads(sys.argv[1])
    sys.setrecursionlimit(10000)
    from . import ctx as ctxmod
    c = ctxmod.Ctx(spec["prop"], spec["part"], spec["cfg"], spec["tier"], spec["seed"], spec["shard"],
                   spec["nshards"], spec["outdir"], skip=spec.get("skip", ()), only=spec.get("only"),
                   skip_patterns=spec.get("skip_patterns", ()))
    c.write(False, "started")
    try:
        mod = importlib.import_module("verif.props." + spec["prop"])
        mod.run(c, spec["part"])
        c.write(True)
    except BaseException:
        c.write(False, traceback.format_exc())
        os._exit(3)
    sys.stdout.flush()
    if os.environ.get("VF_COV"):
        import ctypes
        ctypes.CDLL(None).exit(0)      # run the gcov destructors of the instrumented library
    os._exit(0)


if __name__ == "__main__":
    main()
