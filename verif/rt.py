"""ctypes runtime: the freshly built library, in process, under the sanitizers.

Everything the library can see lives in exact-size libc malloc blocks (ASan allocator),
never in CPython's own heap.  One generic trampoline (vf_try in the shim) reaches every
entry point; dispatch macros are resolved through their expansion text in this build.
"""
import ctypes
import os
import re

from . import build

M64 = (1 << 64) - 1


class CallResult(object):
    __slots__ = ("r", "caught", "err", "chain_in", "chain_out", "code")

    def __init__(self, r, caught, err, chain_in, chain_out, code):
        self.r = r
        self.caught = caught
        self.err = err
        self.chain_in = chain_in
        self.chain_out = chain_out
        self.code = code

    @property
    def i(self):
        """return value as a C int"""
        v = self.r & 0xFFFFFFFF
        return v - (1 << 32) if v & 0x80000000 else v

    @property
    def ok(self):
        return not self.caught


class MonitorViolation(Exception):
    def __init__(self, kind, detail):
        Exception.__init__(self, kind + ": " + detail)
        self.kind = kind
        self.detail = detail


class _Libs(object):
    """attribute lookup over the core shim and every extra shim library (shim/vf_x_*.c)"""

    def __init__(self, libs):
        self._libs = libs

    def __getattr__(self, name):
        for lib in self._libs:
            try:
                return getattr(lib, name)
            except AttributeError:
                pass
        raise AttributeError(name)


class RT(object):
    def __init__(self, cfg, init=True):
        self.cfg = cfg
        lp = build.libpaths(cfg)
        self.L = ctypes.CDLL(lp["relic"], mode=ctypes.RTLD_GLOBAL)
        core = ctypes.CDLL(lp["shim"], mode=ctypes.RTLD_GLOBAL)
        self.S = _Libs([core] + [ctypes.CDLL(p, mode=ctypes.RTLD_GLOBAL) for p in build.extra_libs(cfg)])
        self.libc = ctypes.CDLL(None)
        self.libc.malloc.restype = ctypes.c_void_p
        self.libc.malloc.argtypes = [ctypes.c_size_t]
        self.libc.calloc.restype = ctypes.c_void_p
        self.libc.calloc.argtypes = [ctypes.c_size_t, ctypes.c_size_t]
        self.libc.free.argtypes = [ctypes.c_void_p]
        self.libc.free.restype = None
        S = self.S
        S.vf_try.restype = ctypes.c_size_t
        S.vf_try.argtypes = [ctypes.c_void_p, ctypes.c_int, ctypes.c_void_p, ctypes.c_void_p]
        S.vf_raw.restype = ctypes.c_size_t
        S.vf_raw.argtypes = [ctypes.c_void_p, ctypes.c_int, ctypes.c_void_p]
        S.vf_const_name.restype = ctypes.c_char_p
        S.vf_const_val.restype = ctypes.c_longlong
        S.vf_macro_name.restype = ctypes.c_char_p
        S.vf_macro_exp.restype = ctypes.c_char_p
        S.vf_enum_name.restype = ctypes.c_char_p
        S.vf_core_get.restype = ctypes.c_void_p
        S.vf_ctx_last.restype = ctypes.c_void_p
        self.K = {}
        i = 0
        while True:
            n = S.vf_const_name(i)
            if n is None:
                break
            self.K[n.decode()] = S.vf_const_val(i)
            i += 1
        self.macros = {}
        i = 0
        while True:
            n = S.vf_macro_name(i)
            if n is None:
                break
            self.macros[n.decode()] = S.vf_macro_exp(i).decode()
            i += 1
        self.E = {}
        self.EH = {}
        i = 0
        while True:
            n = S.vf_enum_name(i)
            if n is None:
                break
            hdr, nm = n.decode().split(":", 1)
            self.E[nm] = S.vf_enum_val(i)
            self.EH.setdefault(hdr, {})[nm] = S.vf_enum_val(i)
            i += 1
        self._a = (ctypes.c_size_t * 18)()
        self._out = (ctypes.c_int * 5)()
        self._pa = ctypes.addressof(self._a)
        self._pout = ctypes.addressof(self._out)
        self._resolved = {}
        self.calls = 0
        self.fn_seen = {}
        self.err_codes = {}
        self.strict_chain = True
        K = self.K
        self.DIG = K["RLC_DIG"]
        self.DB = self.DIG // 8
        self.B = 1 << self.DIG
        self.BN_SIZE = K["RLC_BN_SIZE"]
        self.BN_BITS = K["RLC_BN_BITS"]
        self.dyn = bool(K["ALLOC_DYNAMIC"])
        self.bn_sz = K["sizeof_bn_st"]
        self.bn_off_alloc = K["off_bn_st_alloc"]
        self.bn_off_used = K["off_bn_st_used"]
        self.bn_off_sign = K["off_bn_st_sign"]
        self.bn_off_dp = K["off_bn_st_dp"]
        self.poison = 0xA5
        if init:
            if self.L.core_init() != 0:
                raise RuntimeError("core_init failed")
            self.ctx = S.vf_core_get()

    # ------------------------------------------------------------------ symbols
    _simple = re.compile(r"^\s*([A-Za-z_]\w*)\s*\(\s*((?:a\d+\s*(?:,\s*a\d+\s*)*)?)\)\s*$")

    def resolve(self, name):
        """-> (address, perm or None); perm maps callee arg i -> caller arg index."""
        r = self._resolved.get(name)
        if r is not None:
            return r
        target, perm = name, None
        seen = set()
        while target in self.macros and target not in seen:
            seen.add(target)
            exp = self.macros[target]
            m = self._simple.match(exp)
            if not m:
                break
            t2 = m.group(1)
            idx = [int(x.strip()[1:]) for x in m.group(2).split(",")] if m.group(2).strip() else []
            if t2 == target:
                break
            if perm is None:
                perm = idx
            else:
                perm = [perm[j] for j in idx]
            target = t2
        try:
            fn = ctypes.cast(getattr(self.L, target), ctypes.c_void_p).value
        except AttributeError:
            try:
                fn = ctypes.cast(getattr(self.S, target), ctypes.c_void_p).value
            except AttributeError:
                fn = None
        if perm is not None and perm == list(range(len(perm))):
            perm = None
        r = (fn, perm, target)
        self._resolved[name] = r
        return r

    def has(self, name):
        return self.resolve(name)[0] is not None

    def target(self, name):
        return self.resolve(name)[2]

    # -------------------------------------------------------------------- calls
    def call(self, name, *args):
        fn, perm, target = self.resolve(name)
        if fn is None:
            raise KeyError("symbol not built: " + name)
        if perm is not None:
            args = [args[j] for j in perm]
        n = len(args)
        if n > 18:
            raise ValueError("arity %d unsupported" % n)
        a = self._a
        for i in range(n):
            a[i] = int(args[i]) & M64
        r = self.S.vf_try(fn, n, self._pa, self._pout)
        self.calls += 1
        o = self._out
        res = CallResult(r, o[0], o[1], o[2], o[3], o[4])
        self.fn_seen[target] = self.fn_seen.get(target, 0) + 1
        if o[0]:
            self.err_codes[o[1]] = self.err_codes.get(o[1], 0) + 1
        # sticky code reset (equivalent of the caller fetching it)
        if o[4]:
            ctypes.c_int.from_address(self.ctx + self.K["off_ctx_t_code"]).value = 0
        if self.strict_chain:
            if not o[2]:
                raise MonitorViolation("handler-chain", "%s returned with a foreign innermost handler" % target)
            if not o[3]:
                raise MonitorViolation("handler-chain", "%s: handler chain not restored after the block" % target)
            if o[0] and o[4] != self.K["RLC_ERR"]:
                raise MonitorViolation("sticky-code", "%s: handler entered but code=%d" % (target, o[4]))
        return res

    def raw(self, name, *args):
        fn, perm, target = self.resolve(name)
        if fn is None:
            raise KeyError("symbol not built: " + name)
        n = len(args)
        a = self._a
        for i in range(n):
            a[i] = int(args[i]) & M64
        return self.S.vf_raw(fn, n, self._pa)

    # ------------------------------------------------------------------- memory
    def mem(self, n, fill=None):
        p = self.libc.malloc(n if n > 0 else 1)
        if fill is not None and n > 0:
            ctypes.memset(p, fill, n)
        return p

    def put(self, b):
        p = self.libc.malloc(len(b) if len(b) > 0 else 1)
        if len(b):
            ctypes.memmove(p, bytes(b), len(b))
        return p

    def get(self, p, n):
        return ctypes.string_at(p, n) if n > 0 else b""

    def free(self, p):
        self.libc.free(p)

    def rd_int(self, addr):
        return ctypes.c_int.from_address(addr).value

    def wr_int(self, addr, v):
        ctypes.c_int.from_address(addr).value = v

    def rd_sz(self, addr):
        return ctypes.c_size_t.from_address(addr).value

    def wr_sz(self, addr, v):
        ctypes.c_size_t.from_address(addr).value = v

    # ----------------------------------------------------------------------- bn
    def bn_new(self, digits=None):
        """Exact-size bn_st block, initialised by the library's own bn_make."""
        p = self.mem(self.bn_sz, self.poison)
        if self.dyn:
            ctypes.memset(p, 0, self.bn_sz)
        r = self.call("bn_make", p, self.BN_SIZE if digits is None else digits)
        if r.caught:
            raise RuntimeError("bn_make failed")
        return p

    def bn_free(self, p):
        if self.dyn:
            self.call("bn_clean", p)
        self.free(p)

    def bn_dp(self, p):
        if self.dyn:
            return ctypes.c_void_p.from_address(p + self.bn_off_dp).value
        return p + self.bn_off_dp

    def bn_put(self, p, v, poison=None, used=None):
        """Write value v raw (sign-magnitude, normal form unless 'used' forces more digits)."""
        mag = -v if v < 0 else v
        nd = (mag.bit_length() + self.DIG - 1) // self.DIG
        if nd == 0:
            nd = 1
        if used is not None and used > nd:
            nd = used
        alloc = self.rd_sz(p + self.bn_off_alloc)
        if nd > alloc:
            raise ValueError("value does not fit the object")
        self.wr_sz(p + self.bn_off_used, nd)
        self.wr_int(p + self.bn_off_sign, 1 if v < 0 else 0)
        pz = self.poison if poison is None else poison
        raw = mag.to_bytes(nd * self.DB, "little") + bytes([pz]) * ((alloc - nd) * self.DB)
        ctypes.memmove(self.bn_dp(p), raw, alloc * self.DB)
        return p

    def bn_set_sign(self, p, neg):
        self.wr_int(p + self.bn_off_sign, 1 if neg else 0)

    def bn_get(self, p):
        """-> (value or None, used, sign, normal_form_ok)"""
        used = self.rd_sz(p + self.bn_off_used)
        sign = self.rd_int(p + self.bn_off_sign)
        alloc = self.rd_sz(p + self.bn_off_alloc)
        if used < 1 or used > alloc or alloc > 4 * self.BN_SIZE + 64:
            return None, used, sign, False
        raw = ctypes.string_at(self.bn_dp(p), used * self.DB)
        mag = int.from_bytes(raw, "little")
        top = int.from_bytes(raw[-self.DB:], "little")
        normal = (top != 0 or used == 1) and not (mag == 0 and sign != 0) and sign in (0, 1)
        return (-mag if sign == 1 else mag), used, sign, normal

    def bn_val(self, p):
        return self.bn_get(p)[0]

    def bn(self, v):
        return self.bn_put(self.bn_new(), v)

    # ----------------------------------------------------------------- contexts
    def ctx_field(self, name):
        return self.ctx + self.K["off_ctx_t_" + name]

    def err_get_code(self):
        return self.L.err_get_code()

    # ----------------------------------------------------------------------- fp
    def fp_setup(self):
        """(Re)read the active prime field; call after every ep_param_set/fp_param_set."""
        K = self.K
        self.FP_DIGS = K["RLC_FP_DIGS"]
        self.FP_BYTES = K["RLC_FP_BYTES"]
        self.fp_sz = K["sizeof_fp_st"]
        self.L.fp_prime_get.restype = ctypes.c_void_p
        n = self.FP_DIGS * self.DB
        self.p = int.from_bytes(ctypes.string_at(self.L.fp_prime_get(), n), "little")
        t = self.mem(self.fp_sz, 0)
        self.call("fp_set_dig", t, 1)
        one = int.from_bytes(ctypes.string_at(t, n), "little")
        self.free(t)
        self.mont = one            # Montgomery radix R mod p (1 when the representation is plain)
        self.mont_inv = pow(one, -1, self.p)
        return self.p

    def fp_new(self, x=None):
        a = self.mem(self.fp_sz, self.poison)
        if x is not None:
            self.fp_put(a, x)
        return a

    def fp_put(self, a, x):
        """write residue x (reduced mod p) in the library's internal representation"""
        n = self.FP_DIGS * self.DB
        ctypes.memmove(a, ((x % self.p) * self.mont % self.p).to_bytes(n, "little"), n)
        return a

    def fp_put_raw(self, a, raw):
        n = self.FP_DIGS * self.DB
        ctypes.memmove(a, raw.to_bytes(n, "little"), n)
        return a

    def fp_raw(self, a):
        return int.from_bytes(ctypes.string_at(a, self.FP_DIGS * self.DB), "little")

    def fp_get(self, a):
        """-> (residue, canonical) ; canonical == raw digits < p"""
        raw = self.fp_raw(a)
        return raw * self.mont_inv % self.p, raw < self.p

    # extension-field elements are flat arrays of fp_st (ALLOC=AUTO)
    def fpx_new(self, deg, coeffs=None):
        a = self.mem(self.fp_sz * deg, self.poison)
        if coeffs is not None:
            self.fpx_put(a, coeffs)
        return a

    def fpx_put(self, a, coeffs):
        for i, x in enumerate(coeffs):
            self.fp_put(a + i * self.fp_sz, x)
        return a

    def fpx_get(self, a, deg):
        """-> (list of residues, all canonical)"""
        out, canon = [], True
        for i in range(deg):
            v, c = self.fp_get(a + i * self.fp_sz)
            out.append(v)
            canon = canon and c
        return out, canon

    # ----------------------------------------------------------------------- ep
    def ep_new(self):
        return self.mem(self.K["sizeof_ep_st"], self.poison)

    def ep_put(self, P, x, y, z=1, coord=None):
        """raw write of (x, y, z, coord); residues are converted to the internal representation"""
        K = self.K
        self.fp_put(P + K["off_ep_st_x"], x)
        self.fp_put(P + K["off_ep_st_y"], y)
        self.fp_put(P + K["off_ep_st_z"], z)
        self.wr_int(P + K["off_ep_st_coord"], K["BASIC"] if coord is None else coord)
        return P

    def ep_get(self, P):
        """-> (x, y, z, coord, canonical)"""
        K = self.K
        x, cx = self.fp_get(P + K["off_ep_st_x"])
        y, cy = self.fp_get(P + K["off_ep_st_y"])
        z, cz = self.fp_get(P + K["off_ep_st_z"])
        return x, y, z, self.rd_int(P + K["off_ep_st_coord"]), (cx and cy and cz)

    def ep_params(self):
        """parameters of the active prime curve as Python integers (read through the getters)"""
        L = self.L
        for f in ("ep_curve_get_a", "ep_curve_get_b", "ep_curve_get_beta"):
            getattr(L, f).restype = ctypes.c_void_p
        self.fp_setup()
        a = self.fp_get(L.ep_curve_get_a())[0]
        b = self.fp_get(L.ep_curve_get_b())[0]
        g = self.ep_new()
        self.call("ep_curve_get_gen", g)
        gx, gy, gz, _, _ = self.ep_get(g)
        self.free(g)
        n = self.bn_new()
        h = self.bn_new()
        self.call("ep_curve_get_ord", n)
        self.call("ep_curve_get_cof", h)
        r = dict(p=self.p, a=a, b=b, gx=gx, gy=gy, n=self.bn_val(n), h=self.bn_val(h),
                 endom=bool(L.ep_curve_is_endom()), pairf=int(L.ep_curve_is_pairf()),
                 super=bool(L.ep_curve_is_super()), ctmap=bool(L.ep_curve_is_ctmap()),
                 id=L.ep_param_get())
        self.bn_free(n)
        self.bn_free(h)
        return r

    def ep_param_ids(self):
        """identifiers of relic_ep.h accepted by ep_param_set() in this build: [(name, id)]"""
        out = []
        for nm, v in self.EH.get("relic_ep.h", {}).items():
            if nm.startswith("EP_"):
                continue
            r = self.call("ep_param_set", v)
            if not r.caught and self.L.ep_param_get() == v:
                out.append((nm, v))
        return out

    # ------------------------------------------------------------ pairing curves
    # ep_param_set(id) configures only G1.  The twist (G2, ep2_curve_*) is configured by
    # ep2_curve_set_twist(type), which ep_param_set_any_pairf() calls for the ONE default curve of the
    # field size only (BN_P256 at 256 bits).  Types found to give a bilinear pairing (1 = D, 2 = M):
    TWIST_TYPE = {"BN_P256": 1, "SM9_P256": 2, "B12_P381": 2, "BN_P254": 1, "B12_P377": 1, "B12_P446": 2,
                  "BN_P446": 1, "BN_P382": 1, "B12_P383": 2, "B12_P455": 1, "B12_P638": 2, "BN_P638": 1}

    def pairing_set(self, name):
        """activate a k=12 pairing parameter set completely (G1, twist, GT); returns ep_params()"""
        r = self.call("ep_param_set", self.E[name])
        if r.caught or self.L.ep_param_get() != self.E[name]:
            raise KeyError("parameter set %s not accepted by this build" % name)
        self.fp_setup()
        r = self.call("ep2_curve_set_twist", self.TWIST_TYPE[name])
        if r.caught:
            raise RuntimeError("ep2_curve_set_twist failed for " + name)
        return self.ep_params()

    def pairing_names(self):
        return [n for n, _ in self.ep_param_ids() if n in self.TWIST_TYPE]
