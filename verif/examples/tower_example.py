# run: LD_PRELOAD=$(gcc -print-file-name=libasan.so):$(gcc -print-file-name=libubsan.so) ASAN_OPTIONS=detect_leaks=0 /usr/bin/python3 <this file>   (after ./vf build asan256)
import sys, random; sys.path.insert(0,'/verif')
from verif import rt
from verif.model.tower import *
R=rt.RT('asan256')
R.call('ep_param_set', R.E['BN_P256']); R.fp_setup()
qnr=R.L.fp_prime_get_qnr(); print('qnr',qnr)
F=PrimeField(R.p); F2=Ext(F,2,qnr%R.p)
# measure xi: v^3 in fp6
one=[0]*6; one[2]=1  # v = (0,1,0) in fp6 -> flat index 2
a=R.fpx_new(6,one); c=R.fpx_new(6)
R.call('fp6_sqr',c,a); R.call('fp6_mul',c,c,a); print('v^3',R.fpx_get(c,6))
xi=tuple(R.fpx_get(c,6)[0][:2]); F6=Ext(F2,3,xi); F12=Ext(F6,2,F6.gen())
rng=random.Random(1)
x=F12.rand(rng); y=F12.rand(rng)
A=R.fpx_new(12,F12.flatten(x)); B=R.fpx_new(12,F12.flatten(y)); C=R.fpx_new(12)
for op in ['fp12_mul','fp12_mul_basic','fp12_mul_lazyr']:
    R.call(op,C,A,B); got,can=R.fpx_get(C,12); print(op, F12.unflatten(got)==F12.mul(x,y), can)
R.call('fp12_inv',C,A); got,can=R.fpx_get(C,12); print('inv', F12.unflatten(got)==F12.inv(x))
R.call('fp12_frb',C,A,1); got,can=R.fpx_get(C,12); print('frb', F12.unflatten(got)==F12.frob(x))
