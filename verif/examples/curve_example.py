# run: LD_PRELOAD=$(gcc -print-file-name=libasan.so):$(gcc -print-file-name=libubsan.so) ASAN_OPTIONS=detect_leaks=0 /usr/bin/python3 <this file>   (after ./vf build asan256)
import sys; sys.path.insert(0,'/verif')
from verif import rt
from verif.model.curves import *
R=rt.RT('asan256')
ids=R.ep_param_ids(); print(ids)
for nm,v in ids:
    R.call('ep_param_set',v); P=R.ep_params()
    C=WCurve(Fp(P['p']),P['a'],P['b'],P['n'])
    G=(P['gx'],P['gy']); assert C.on_curve(G) and C.mul(P['n'],G) is None
    k=R.bn(123456789**5); r=R.ep_new(); g=R.ep_new(); R.call('ep_curve_get_gen',g)
    R.call('ep_mul',r,g,k); x,y,z,co,can=R.ep_get(r)
    print(nm, hex(P['p'])[:12], P['endom'],P['pairf'], C.eq((x,y), C.mul(123456789**5,G)), z, co, can)
