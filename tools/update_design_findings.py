#!/usr/bin/env python3
"""rewrites the lists of repairs and of known findings in DESIGN.md section 6.1 (between FINDINGS-BEGIN / FINDINGS-END)
from `git -C /repo log --grep ^fix:` and known_findings.jsonl"""
import json, os, re, subprocess, collections
HERE = os.path.dirname(os.path.dirname(os.path.abspath(__file__)))
E = [json.loads(l) for l in open(os.path.join(HERE, "known_findings.jsonl")) if l.strip()]
log = subprocess.check_output(["git", "-C", "/repo", "log", "--grep", "^fix:", "--format=%h %s", "--reverse"], text=True).splitlines()
esc = lambda s: s.replace("|", "\\|")
out = ["**All repairs in `/repo`** (%d `fix:` commits, oldest first; each is also a `fixed` entry of `known_findings.jsonl` with the key that "
       "reported it, which suppresses nothing):" % len(log), ""]
for l in log:
    h, s = l.split(" ", 1)
    out.append("* `%s` %s" % (h, s[5:] if s.startswith("fix: ") else s))
out += ["", "**All known findings** (%d entries; key pattern as matched by the checks, and the first words of the description — the full "
        "description with the failing input is in `known_findings.jsonl`):" % sum(1 for e in E if e.get("status", "known") != "fixed"), ""]
by = collections.defaultdict(list)
for e in E:
    if e.get("status", "known") != "fixed":
        by[e["property"]].append(e)
for p in sorted(by):
    out.append("* **%s** (%d)" % (p, len(by[p])))
    for e in by[p]:
        w = " ".join(e["what"].split())
        out.append("  * `%s` — %s" % (esc(e["key"]), esc(w[:150] + ("…" if len(w) > 150 else ""))))
p = os.path.join(HERE, "DESIGN.md")
s = open(p).read()
new = "<!-- FINDINGS-BEGIN -->\n" + "\n".join(out) + "\n<!-- FINDINGS-END -->"
assert "FINDINGS-BEGIN" in s
s = re.sub(r"<!-- FINDINGS-BEGIN -->.*?<!-- FINDINGS-END -->", lambda _: new, s, flags=re.S)
open(p, "w").write(s)
print(len(log), "fixes", sum(len(v) for v in by.values()), "known")
