#!/usr/bin/env python3
"""Offline search for messages that drive the try-and-increment map deep: for each prime curve of the verified
configurations, messages whose first D candidate x-coordinates (x = xmd(msg, DST, elm) mod p, x+1, ...) all fail
(g(x) zero or a non-square).  A message needs D failures with probability 2^-D, so random testing never reaches the
iteration counts a bounded loop, a counter overflow or a stale temporary would need; the messages found here are
stored in verif/model/h2c_deep.json and replayed by C13 as the class `deep-increments` (the expected point is still
computed by the model, the table only supplies inputs).

usage: tools/deep_tai_search.py [--depth 21] [--trials 6000000] [--jobs 12]
"""
import json, os, subprocess, sys, hashlib
from multiprocessing import Pool
HERE = os.path.dirname(os.path.dirname(os.path.abspath(__file__)))
sys.path.insert(0, HERE)
from verif.model import h2c

OUT = os.path.join(HERE, "verif", "model", "h2c_deep.json")
DUMP = r'''
import json, sys
sys.path.insert(0, %r)
from verif.rt import RT
R = RT(sys.argv[1])
out = []
for nm, pid in R.ep_param_ids():
    R.call("ep_param_set", pid)
    P = R.ep_params()
    lvl = R.L.ep_param_level()
    out.append(dict(name=nm, p=P["p"], a=P["a"], b=P["b"], elm=(R.K["FP_PRIME"] + lvl + 7) // 8))
print("DUMP" + json.dumps(out))
''' % HERE


def params(cfg):
    from verif import build
    build.ensure(cfg)
    env = build.san_env(cfg)
    env["PYTHONPATH"] = HERE
    p = subprocess.run(["/usr/bin/python3", "-c", DUMP, cfg], env=env, cwd=HERE, stdout=subprocess.PIPE, stderr=subprocess.DEVNULL, text=True)
    for ln in p.stdout.splitlines():
        if ln.startswith("DUMP"):
            return json.loads(ln[4:])
    raise SystemExit("parameter dump failed for " + cfg)


def depth_of(args):
    p, a, b, elm, lo, hi, dmin = args
    found = []
    e = (p - 1) // 2
    for i in range(lo, hi):
        msg = b"deep-increments:%d" % i
        x = int.from_bytes(h2c.xmd(msg, h2c.DST, elm), "big") % p
        d = 0
        while True:
            g = (x * x * x + a * x + b) % p
            if g != 0 and pow(g, e, p) == 1:
                break
            d += 1
            x = (x + 1) % p
        if d >= dmin:
            found.append((msg.hex(), d))
    return found


def main():
    depth, trials, jobs = 21, 6000000, 12
    for i, a_ in enumerate(sys.argv):
        if a_ == "--depth":
            depth = int(sys.argv[i + 1])
        if a_ == "--trials":
            trials = int(sys.argv[i + 1])
        if a_ == "--jobs":
            jobs = int(sys.argv[i + 1])
    table = json.load(open(OUT)) if os.path.exists(OUT) else {}
    seen = set()
    for cfg in ("asan256", "asan255", "asan381"):
        for c in params(cfg):
            key = "%x:%x:%x:%d" % (c["p"], c["a"], c["b"], c["elm"])
            if key in seen:
                continue
            seen.add(key)
            have = table.get(key, {}).get("messages", [])
            if len([m for m in have if m[1] >= depth]) >= 2:
                continue
            chunk = 20000
            found = list(have)
            with Pool(jobs) as pool:
                tasks = ((c["p"], c["a"], c["b"], c["elm"], lo, lo + chunk, min(depth, 14)) for lo in range(0, trials, chunk))
                for r in pool.imap_unordered(depth_of, tasks):
                    found += [list(x) for x in r if list(x) not in found]
                    if len([m for m in found if m[1] >= depth]) >= 3:
                        pool.terminate()
                        break
            found.sort(key=lambda m: -m[1])
            table[key] = {"curve": c["name"], "cfg": cfg, "elm": c["elm"], "messages": found[:12]}
            print(c["name"], cfg, "elm", c["elm"], "depths", [m[1] for m in found[:12]], flush=True)
            json.dump(table, open(OUT, "w"), indent=1, sort_keys=True)


if __name__ == "__main__":
    main()
