#!/bin/sh
# usage: tools/soak.sh "<props>" "<seeds>" [tier]   -> one line per run: prop seed exit wall summary
cd "$(dirname "$0")/.." || exit 2
for s in $2; do for p in $1; do
  t0=$(date +%s)
  out=$(VERIF_SEED=$s ./vf check $p --tier ${3:-quick} 2>&1); rc=$?
  echo "$p seed=$s exit=$rc wall=$(( $(date +%s) - t0 ))s $(echo "$out" | grep '^\[' | tail -1 | sed 's/.*\] //')"
  echo "$out" | grep "^VIOLATION\|^INCONCLUSIVE\|^  key=" | head -6
done; done
