#!/usr/bin/env python3
"""Independent confirmation of a seeded change before it is kept: in a fresh scratch worktree of /repo
 (1) the change applies and the library builds, (2) the 19 stock tests pass with it, (3) the demonstration
 fails with the change and (4) passes without it.  Writes seeded/<id>/verify.json.
usage: tools/verify_seed.py <src-dir-with-patch.diff+demo+README.txt> <seed-id> <property> [--skip-tests]"""
import re, json, os, re, shutil, subprocess, sys, time
HERE = os.path.dirname(os.path.dirname(os.path.abspath(__file__)))
src, sid, prop = sys.argv[1], sys.argv[2], sys.argv[3]
skip_tests = "--skip-tests" in sys.argv
demo_cmake = ""
for a_ in sys.argv:
    if a_.startswith("--demo-cmake="):
        demo_cmake = " ".join("'%s'" % f for f in re.split(r";(?=-D)", a_.split("=", 1)[1]))   # several flags are separated by ';' # extra cmake flags for the build the demonstration needs (e.g. -DFP_PRIME=255)
wt = "/tmp/vs-" + sid
log = open("/tmp/vs-%s.log" % sid, "w")


def sh(cmd, cwd=None, timeout=3600):
    p = subprocess.run(cmd, shell=True, cwd=cwd, stdout=subprocess.PIPE, stderr=subprocess.STDOUT, text=True, timeout=timeout)
    log.write("$ %s\n%s\n[rc=%d]\n" % (cmd, p.stdout[-6000:], p.returncode))
    log.flush()
    return p.returncode, p.stdout


subprocess.run(["git", "-C", "/repo", "worktree", "remove", "--force", wt], stderr=subprocess.DEVNULL)
shutil.rmtree(wt, ignore_errors=True)
base = "HEAD"
for a_ in sys.argv:
    if a_.startswith("--base="):
        base = a_.split("=", 1)[1]     # a demonstration with known answers of an earlier tree is confirmed at that commit
subprocess.check_call(["git", "-C", "/repo", "worktree", "add", "-q", "--detach", wt, base])
res = {"seed": sid, "property": prop, "at_repo_commit": subprocess.check_output(["git", "-C", "/repo", "rev-parse", "--short", base], text=True).strip()}
try:
    readme = open(os.path.join(src, "README.txt")).read()
    m = None
    for ln in readme.splitlines():
        if ln.strip().lower().startswith("cmake-flags:") and not demo_cmake:
            fl = ln.split(":", 1)[1].strip().strip('"')
            if fl and fl.lower() not in ("none", "-", "(none)"):
                demo_cmake = " ".join("'%s'" % f.strip('"\'') for f in re.findall(r'"?-D[A-Za-z_]+=[^\s"]*"?', fl))
    for ln in readme.splitlines():
        if ln.strip().startswith("run:"):
            m = ln.strip()[4:].strip()
            break
    for ln in (readme.splitlines() if m is None else []):
        if ("gcc " in ln or " cc " in (" " + ln) or "clang " in ln or "demo.sh" in ln or "python3 " in ln) and "demo" in ln:
            mm = re.search(r"((?:[A-Za-z_]+=\S+\s+)*(?:gcc|cc|clang|sh|bash|python3)\s.*)$", ln.strip())
            m = mm.group(1) if mm else ln.strip()
            break
    if m is None:
        raise SystemExit("no build line in README")
    m = re.sub(r"/tmp/seed\d?-C\d+", wt, m).replace("<worktree>", wt)
    m = m.replace("$SRC", wt).replace("${SRC}", wt).replace("$B/", wt + "/_b/").replace("$B ", wt + "/_b ").replace("${B}", wt + "/_b")
    res["demo_cmd"] = m
    demo_dir = os.path.join(wt, "_demo")

    def build():
        rc, out = sh("cmake -G Ninja -S %s -B %s/_b -DSEED= > /dev/null && cmake --build %s/_b -j 8" % (wt, wt, wt))
        return rc

    def run_demo():
        if demo_cmake:
            sh("cmake -G Ninja -S %s -B %s/_b -DSEED= %s > /dev/null && cmake --build %s/_b -j 8" % (wt, wt, demo_cmake, wt))
        shutil.rmtree(demo_dir, ignore_errors=True)
        os.makedirs(demo_dir)
        for f in os.listdir(src):
            if f.startswith("demo"):
                shutil.copy(os.path.join(src, f), demo_dir)
        rc, out = sh(m, cwd=demo_dir, timeout=1800)
        return rc, out[-1500:]

    rc = subprocess.run(["git", "-C", wt, "apply", os.path.join(src, "patch.diff")]).returncode
    res["applies"] = rc == 0
    if rc == 0:
        res["builds_with_change"] = build() == 0
        if res["builds_with_change"]:
            if not skip_tests:
                rc, out = sh("ctest --test-dir %s/_b -j8 --timeout 2000" % wt)
                mm = re.search(r"(\d+)% tests passed, (\d+) tests failed out of (\d+)", out)
                res["stock_tests_with_change"] = mm.group(0) if mm else "unparsed rc=%d" % rc
                res["stock_tests_pass_with_change"] = bool(mm and mm.group(2) == "0")
            rc, tail = run_demo()
            res["demo_with_change_exit"] = rc
            res["demo_with_change_tail"] = tail[-600:]
        sh("git -C %s checkout -- ." % wt)
        if build() == 0:
            rc, tail = run_demo()
            res["demo_without_change_exit"] = rc
    res["confirmed"] = bool(res.get("applies") and res.get("builds_with_change") and res.get("demo_with_change_exit", 0) != 0
                            and res.get("demo_without_change_exit", 1) == 0 and (skip_tests or res.get("stock_tests_pass_with_change")))
finally:
    subprocess.run(["git", "-C", "/repo", "worktree", "remove", "--force", wt])
    shutil.rmtree(wt, ignore_errors=True)
d = os.path.join(HERE, "seeded", sid)
os.makedirs(d, exist_ok=True)
for f in os.listdir(src):
    if f in ("patch.diff", "README.txt") or f.startswith("demo"):
        shutil.copy(os.path.join(src, f), d)
if demo_cmake:
    res["demo_build_flags"] = demo_cmake
json.dump(res, open(os.path.join(d, "verify.json"), "w"), indent=1)
print(sid, "confirmed" if res["confirmed"] else "NOT CONFIRMED", json.dumps({k: v for k, v in res.items() if k not in ("demo_with_change_tail",)}))
