#!/bin/bash
# usage: tools/seedq_worker.sh   (start N of these; each pops jobs "<id> <prop> <src> [flags]" from /tmp/seedq/queue)
# per job: tools/verify_seed.py (independent confirmation incl. the 19 stock tests) then tools/run_seeded.py (registered quick check)
cd "$(dirname "$0")/.." || exit 2
mkdir -p /tmp/seedq; touch /tmp/seedq/queue
while true; do
  job=$( (flock 9; head -1 /tmp/seedq/queue; sed -i 1d /tmp/seedq/queue) 9>/tmp/seedq/lock )
  if [ -z "$job" ]; then sleep 20; [ -e /tmp/seedq/stop ] && exit 0; continue; fi
  set -- $job; sid=$1; prop=$2; src=$3; shift 3
  echo "$(date -u +%T) START $sid" >> /tmp/seedq/verify.log
  python3 tools/verify_seed.py "$src" "$sid" "$prop" "$@" >> /tmp/seedq/verify.log 2>&1
  python3 - "$sid" >> /tmp/seedq/verify.log <<'P'
import json,sys
try:
    v=json.load(open('/verif/seeded/%s/verify.json'%sys.argv[1])); print(sys.argv[1],'confirmed=',v.get('confirmed'),v.get('stock_tests_with_change'),'demo with/without',v.get('demo_with_change_exit'),v.get('demo_without_change_exit'))
except Exception as e: print(sys.argv[1],'no verify.json',e)
P
  python3 tools/run_seeded.py "$sid" >> /tmp/seedq/run.log 2>&1
done
