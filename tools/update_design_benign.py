#!/usr/bin/env python3
"""rewrites the table of behaviour-preserving changes in DESIGN.md (between BENIGN-TABLE-BEGIN / BENIGN-TABLE-END)
from benign/<id>/meta.json and result.json"""
import json, os, re
HERE = os.path.dirname(os.path.dirname(os.path.abspath(__file__)))
rows = ["| id | change (the property still holds) | checks run on a scratch tree with the change | outcome |", "|---|---|---|---|"]
tot = alarms = 0
for bid in sorted(os.listdir(os.path.join(HERE, "benign"))):
    d = os.path.join(HERE, "benign", bid)
    if not os.path.exists(os.path.join(d, "meta.json")):
        continue
    m = json.load(open(os.path.join(d, "meta.json")))
    r = json.load(open(os.path.join(d, "result.json"))) if os.path.exists(os.path.join(d, "result.json")) else {}
    out = []
    for c in m["checks"]:
        x = r.get(c)
        if x is None:
            out.append("%s: not run" % c)
            continue
        tot += 1
        if x["exit"] == 0 and not x["violations"]:
            out.append("%s: silent" % c)
        else:
            alarms += 1
            out.append("%s: **exit %d**, %d keys (e.g. `%s`)" % (c, x["exit"], x["violations"], (x["keys"][0].split()[0][4:] if x["keys"] else "-").replace("|", "\\|")))
    note = m.get("first_run", "")
    rows.append("| %s | %s | %s | %s |" % (bid, m["what"].replace("|", "\\|"), ", ".join(m["checks"]), "; ".join(out) + ((" — " + note) if note else "")))
p = os.path.join(HERE, "DESIGN.md")
s = open(p).read()
new = "<!-- BENIGN-TABLE-BEGIN -->\n" + "\n".join(rows) + "\n\n(%d check runs, %d not silent in the state recorded here)\n<!-- BENIGN-TABLE-END -->" % (tot, alarms)
assert "BENIGN-TABLE-BEGIN" in s
s = re.sub(r"<!-- BENIGN-TABLE-BEGIN -->.*?<!-- BENIGN-TABLE-END -->", lambda _: new, s, flags=re.S)
open(p, "w").write(s)
print(tot, "runs", alarms, "alarms")
