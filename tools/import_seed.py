#!/usr/bin/env python3
"""usage: tools/import_seed.py <srcdir> <seed-id> <property> <what> <needs> [extra verify flags...]
copies patch/demo/README into seeded/<id>/, writes meta.json and appends a job to /tmp/seedq/queue"""
import json, os, shutil, subprocess, sys
HERE = os.path.dirname(os.path.dirname(os.path.abspath(__file__)))
src, sid, prop, what, needs = sys.argv[1:6]
extra = sys.argv[6:]
d = os.path.join(HERE, "seeded", sid)
os.makedirs(d, exist_ok=True)
for f in os.listdir(src):
    if f in ("patch.diff", "README.txt") or f.startswith("demo"):
        if os.path.isfile(os.path.join(src, f)) and os.path.getsize(os.path.join(src, f)) < 400000:
            shutil.copy(os.path.join(src, f), d)
json.dump({"id": sid, "property": prop, "what": what, "needs_to_manifest": needs, "checks": [prop],
           "origin": "fresh sub-agent (later round) given only the property text, the one-line ideas of the earlier changes to avoid, and a scratch worktree",
           "ran": "tools/verify_seed.py (apply, build, 19 stock tests, demo with/without) -> verify.json; tools/run_seeded.py (registered check against a scratch worktree with the change) -> result.json"},
          open(os.path.join(d, "meta.json"), "w"), indent=1)
ok = subprocess.run(["git", "-C", "/repo", "apply", "--check", os.path.join(d, "patch.diff")]).returncode == 0
os.makedirs("/tmp/seedq", exist_ok=True)
with open("/tmp/seedq/queue", "a") as fh:
    fh.write("%s %s %s %s\n" % (sid, prop, src, " ".join(extra)))
print(sid, "imported; applies to /repo HEAD:", ok)
