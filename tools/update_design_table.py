#!/usr/bin/env python3
"""rewrites the measured-size table of DESIGN.md section 3.1 from the evidence files of the last quick run of
every property (between the markers TABLE31-BEGIN / TABLE31-END)"""
import json, os, re
HERE = os.path.dirname(os.path.dirname(os.path.abspath(__file__)))
rows = ["| prop. | configurations | cases | oracle comparisons | distinct non-trivial | input classes (keys) | wall s |",
        "|---|---|---|---|---|---|---|"]
fmt = lambda n: "{:,}".format(n).replace(",", " ")
seeds = set()
for i in range(1, 21):
    pid = "C%02d" % i
    e = json.load(open(os.path.join(HERE, "evidence", pid + ".json")))
    c = e["coverage"]
    if e["tier"] != "quick":
        raise SystemExit("%s evidence is from tier %s: run the quick checks first" % (pid, e["tier"]))
    seeds.add(e["seed"])
    cfgs = c.get("configurations")
    if isinstance(cfgs, dict):
        cfgs = list(cfgs)
    rows.append("| %s | %s | %s | %s | %s | %s | %d |" % (pid, ", ".join(cfgs or []), fmt(c.get("cases_executed", 0)), fmt(c["evaluations"]),
                fmt(c["distinct_nontrivial"]), fmt(len(c["case_classes"]) if isinstance(c.get("case_classes"), (list, dict)) else c.get("case_classes", 0)),
                round(e["wall_s"])))
p = os.path.join(HERE, "DESIGN.md")
s = open(p).read()
new = "<!-- TABLE31-BEGIN -->\n" + "\n".join(rows) + "\n\n(seed%s %s; regenerate with `tools/update_design_table.py` after a quick run of all checks)\n<!-- TABLE31-END -->" % (
    "s" if len(seeds) > 1 else "", ", ".join(map(str, sorted(seeds))))
if "TABLE31-BEGIN" in s:
    s = re.sub(r"<!-- TABLE31-BEGIN -->.*?<!-- TABLE31-END -->", lambda m: new, s, flags=re.S)
else:
    s = re.sub(r"\| prop\. \| configurations \|.*?\n\n", lambda m: new + "\n\n", s, count=1, flags=re.S)
open(p, "w").write(s)
print("\n".join(rows))
