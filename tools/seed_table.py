#!/usr/bin/env python3
"""prints the markdown table of seeded changes (DESIGN.md §7.2) from seeded/*/{meta,verify,result}.json"""
import json, os
HERE = os.path.dirname(os.path.dirname(os.path.abspath(__file__)))
rows = []
for sid in sorted(os.listdir(os.path.join(HERE, "seeded"))):
    d = os.path.join(HERE, "seeded", sid)
    if not os.path.exists(os.path.join(d, "meta.json")):
        continue
    m = json.load(open(os.path.join(d, "meta.json")))
    v = json.load(open(os.path.join(d, "verify.json"))) if os.path.exists(os.path.join(d, "verify.json")) else {}
    r = json.load(open(os.path.join(d, "result.json"))) if os.path.exists(os.path.join(d, "result.json")) else {}
    caught = []
    for prop, x in r.items():
        caught.append("%s: %s" % (prop, ("**caught** (%d keys, e.g. `%s`)" % (x["violations"], x["keys"][0].split(" count=")[0].replace("key=", "")[:70])) if x["violations"] else "missed"))
    rows.append("| %s | %s | %s | %s | %s | %s |" % (sid, m["property"], m["what"][:160].replace("|", "\\|"), m["needs_to_manifest"][:150].replace("|", "\\|"),
                "yes" if v.get("confirmed") else ("tests+demo: " + str({k: v.get(k) for k in ("stock_tests_pass_with_change", "demo_with_change_exit", "demo_without_change_exit")}) if v else "-"),
                ("not a break on the repaired tree, nothing to report — " + m["status_note"]) if m.get("status_note") else
                ("; ".join(caught) + ((" — " + m["detection_history"]) if m.get("detection_history") else ""))))
print("| id | prop. | change | needs | confirmed (builds, 19 stock tests pass, demo fails with / passes without) | registered quick check on a scratch tree with the change |")
print("|---|---|---|---|---|---|")
print("\n".join(rows))
