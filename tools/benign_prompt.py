#!/usr/bin/env python3
"""prints the prompt for a sub-agent which produces behaviour-PRESERVING changes (false-alarm test of the checks):
only the property text, its anchors and a scratch worktree are given"""
import json, sys
pid = sys.argv[1]
wt = sys.argv[2]
out = sys.argv[3]
p = [json.loads(l) for l in open('/verif/properties.jsonl') if json.loads(l)['id'] == pid][0]
files = ", ".join(p['anchors']['files'])
print(f"""You are a careful C developer working on the open-source cryptographic library RELIC (relic-toolkit/relic). You have your own scratch git worktree of the repository at {wt} (work ONLY there and under {out}; do not read or write /repo, /verif or any other directory that is not yours; you have no network).

The library is claimed to satisfy this semantic property, and an independent team has built runtime checkers for it which you cannot see:

  Title: {p['title']}
  Statement: {p['statement']}
  Quantified over: {p['quantifier']['text']}
  Code the property is anchored in: {files}

Your task: produce TWO different, independent source changes (each a small-to-medium patch to files under {wt}/src or {wt}/include, touching the anchored code or what it calls) that a maintainer could legitimately merge and under which the property STILL HOLDS for every input - but which change as much as possible of what an over-fitted checker might accidentally depend on. The study measures whether the checkers raise false alarms on correct code. Good candidates:
  - replace an algorithm by another correct one (different internal call sequence, different intermediate values, different temporaries / allocation pattern, different table sizes or window widths within what the configuration allows);
  - where the specification leaves freedom, return a different but equally valid result (e.g. another valid projective representative of the same point, the other square root where either is allowed, a different valid Bezout pair or short vector, a different but valid recoding, different unused/slack digits or padding bytes beyond the meaningful length, a different-but-documented-compatible error code for an input that must be rejected anyway);
  - refactor: rename/split/merge/inline internal (static or internal-header) helper functions, reorder independent statements, change loop directions, hoist allocations, add harmless extra validation that only rejects inputs that are invalid anyway, normalise intermediate values earlier or later;
  - performance shortcuts that are correct for ALL inputs (prove it to yourself; consider zero, sign, aliasing of arguments, the point at infinity, lengths 0 and maximal).
Do NOT change public function signatures, public struct layouts, documented results for valid inputs, or anything the property statement itself fixes (read it closely: if the statement promises e.g. a canonical result, constant-time behaviour, a specific error behaviour or bit-exact output, keep exactly that). Do not touch the test programs.
For each change taken alone:
  1. the library still compiles in the default configuration (cmake -G Ninja -S {wt} -B {wt}/_b -DSEED= && cmake --build {wt}/_b ; about 1-2 minutes) - and, if the code you touch is only compiled in another configuration named in the property (e.g. -DFP_PRIME=255 or -DFP_PRIME=381, or a non-default *_METHD), also there;
  2. every existing test program that could exercise the change still passes (run them from {wt}/_b/bin; say exactly which you ran and their result);
  3. you have convinced yourself by reasoning AND by a small differential test program of your own (old library vs new library on a few thousand inputs including corner cases, compared at the level the property speaks about) that the property still holds.

Deliver, for change k in {{1,2}}, in directory {out}/{pid}-b{{k}}/ :
  patch.diff   - `git -C {wt} diff` of that change alone against HEAD (apply-able with `git apply` on a clean tree)
  README.txt   - what the change is, why the property still holds under it (the argument), what observable-but-unspecified behaviour it changes (so that a false alarm can be triaged), which existing tests you ran (names + pass/fail) and what your differential test compared.
Leave the worktree clean (git checkout -- . ; remove your build directories when finished to save disk). Make the two changes as different from each other as possible. Finish with a short summary of both changes (<= 25 lines).""")
