#!/usr/bin/env python3
"""prompt for a later-round seeding sub-agent: the property text, its scratch worktree, and one-line ideas of the
earlier changes (to avoid repeating them).  Nothing about /verif's checks is disclosed.
usage: seed_prompt4.py <Cxx> <worktree> <outdir> <first-index>"""
import glob, json, os, subprocess, sys
pid, wt, out, k0 = sys.argv[1], sys.argv[2], sys.argv[3], int(sys.argv[4])
base = subprocess.check_output([sys.executable, os.path.join(os.path.dirname(__file__), "seed_prompt.py"), pid, wt, out], text=True)
base = base.replace("for change k in {1,2}", "for change k in {%d,%d}" % (k0, k0 + 1))
ideas = []
for m in sorted(glob.glob("/verif/seeded/%s-*/meta.json" % pid)):
    ideas.append("  - " + json.load(open(m))["what"][:230])
extra = """

Earlier rounds of this study already produced the following changes for this property; do NOT repeat them or close variants of them (pick different functions, different mechanisms, different triggers):
%s

Kinds of slip that earlier rounds explored little and that you are encouraged to consider (only where they fit this property): a change in a non-default but supported build option of the code path (the demonstration may then configure the build with the extra cmake flag, e.g. -DFP_PRIME=255 or -DFP_PRIME=381, -DALLOC=DYNAMIC, -DEP_METHD=..., -DFP_METHD=..., -DBN_METHD=..., -DWSIZE=..., as long as the DEFAULT configuration still builds and passes the tests); state carried from an earlier call into a later one (cached tables, precomputed constants, flags in the library context); behaviour that depends on what the output object contained before the call, or on the output aliasing an input; an input representation that is valid but unusual (non-normalised coordinates, leading zero digits, negative zero, maximal-length values); a helper shared by several public routines broken for only one caller's argument pattern; an off-by-one in a length/loop bound that only matters at one exact size; a missing reduction / carry / final step that matters with probability about 2^-32 or less on random inputs but can be constructed on purpose; two sites that must agree on a convention (endianness, sign, window width, table size, domain-separation tag) of which only one is changed for one parameter set.
""" % "\n".join(ideas)
print(base.rstrip() + extra)
