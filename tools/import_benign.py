#!/usr/bin/env python3
"""imports a behaviour-preserving change delivered by a sub-agent: tools/import_benign.py <srcdir> <id> <prop> "<what>" [extra checks,comma]"""
import json, os, shutil, sys
HERE = os.path.dirname(os.path.dirname(os.path.abspath(__file__)))
src, bid, prop, what = sys.argv[1:5]
checks = [prop] + (sys.argv[5].split(",") if len(sys.argv) > 5 else [])
d = os.path.join(HERE, "benign", bid)
os.makedirs(d, exist_ok=True)
shutil.copy(os.path.join(src, "patch.diff"), d)
if os.path.exists(os.path.join(src, "README.txt")):
    shutil.copy(os.path.join(src, "README.txt"), d)
json.dump({"id": bid, "property": prop, "what": what, "checks": checks,
           "origin": "fresh sub-agent given only the property text with its anchors and a scratch worktree; asked for a change "
                     "under which the property still holds (false-alarm test of the checks)",
           "expected": "every listed check exits 0 on a scratch worktree with the change (tools/run_benign.py -> result.json)"},
          open(os.path.join(d, "meta.json"), "w"), indent=1)
print("imported", bid)
