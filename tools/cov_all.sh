#!/bin/sh
# reach evidence: every registered quick workload against gcov-instrumented sanitizer builds, then the aggregate
cd "$(dirname "$0")/.." || exit 2
for p in ${1:-C01 C02 C03 C04 C05 C06 C07 C08 C09 C10 C11 C12 C13 C14 C15 C16 C17 C18 C19 C20}; do
  VF_COV=1 ./vf check $p --tier ${2:-quick} 2>&1 | grep '^\[' | tail -1
done
python3 tools/coverage.py --out design/coverage.json
