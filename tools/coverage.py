#!/usr/bin/env python3
"""Reach evidence: which lines and functions of /repo/src the registered workloads execute.

  VF_COV=1 ./vf check Cxx --tier quick     (for every property; builds carry ASan+UBSan *and* gcov counters and
                                            live under .work/cov, evidence of such runs goes to .work/cov/evidence)
  tools/coverage.py [--reset] [--out design/coverage.json]

aggregates the gcov counters of every configuration under .work/cov/build (union over configurations: a line
counts as reached if any configuration reached it; lines that are not compiled in any configuration are not
counted), and prints per directory / per file line coverage and the list of functions never entered.
It is evidence of reach and a map of blind spots, never a verdict.
"""
import glob, gzip, json, os, subprocess, sys
from concurrent.futures import ThreadPoolExecutor
HERE = os.path.dirname(os.path.dirname(os.path.abspath(__file__)))
ROOT = os.path.join(HERE, ".work", "cov", "build")
out = None
for i, a in enumerate(sys.argv):
    if a == "--out":
        out = sys.argv[i + 1]
if "--reset" in sys.argv:
    for f in glob.glob(os.path.join(ROOT, "*", "**", "*.gcda"), recursive=True):
        os.unlink(f)
    sys.exit(0)


def one(gcda):
    d = os.path.dirname(gcda)
    p = subprocess.run(["gcov", "-j", "-t", gcda], cwd=d, stdout=subprocess.PIPE, stderr=subprocess.DEVNULL)
    try:
        return json.loads(p.stdout)
    except Exception:
        return None


lines = {}     # file -> {line: count}
funcs = {}     # (file, name) -> [count, start, end]
cfgs = sorted(os.listdir(ROOT)) if os.path.isdir(ROOT) else []
gcdas = [f for f in glob.glob(os.path.join(ROOT, "*", "src", "**", "*.gcda"), recursive=True)]
with ThreadPoolExecutor(16) as ex:
    for js in ex.map(one, gcdas):
        if not js:
            continue
        for f in js.get("files", []):
            fn = f["file"]
            if "/src/" not in fn and not fn.startswith("src/"):
                continue
            rel = fn[fn.index("src/"):]
            if "/low/" in rel and "/easy/" not in rel and False:
                continue
            L = lines.setdefault(rel, {})
            for ln in f.get("lines", []):
                L[ln["line_number"]] = L.get(ln["line_number"], 0) + ln["count"]
            for fu in f.get("functions", []):
                k = (rel, fu["name"])
                e = funcs.setdefault(k, [0, fu["start_line"], fu["end_line"]])
                e[0] += fu["execution_count"]
rep = {"configurations": [c for c in cfgs if os.path.isdir(os.path.join(ROOT, c)) and not c.endswith(".lock")],
       "gcda_files": len(gcdas), "files": {}, "functions_never_entered": {}}
bydir = {}
for rel in sorted(lines):
    L = lines[rel]
    tot, hit = len(L), sum(1 for c in L.values() if c)
    rep["files"][rel] = {"lines": tot, "reached": hit}
    d = rel.split("/")[1] if rel.count("/") >= 2 else "."
    a = bydir.setdefault(d, [0, 0])
    a[0] += tot
    a[1] += hit
for (rel, name), (cnt, s, e) in sorted(funcs.items()):
    if cnt == 0:
        rep["functions_never_entered"].setdefault(rel, []).append("%s:%d-%d" % (name, s, e))
rep["by_directory"] = {d: {"lines": a[0], "reached": a[1], "pct": round(100.0 * a[1] / max(a[0], 1), 1)} for d, a in sorted(bydir.items())}
T = sum(a[0] for a in bydir.values())
H = sum(a[1] for a in bydir.values())
rep["total"] = {"lines": T, "reached": H, "pct": round(100.0 * H / max(T, 1), 1),
                "functions": len(funcs), "functions_entered": sum(1 for v in funcs.values() if v[0])}
if out:
    json.dump(rep, open(os.path.join(HERE, out), "w"), indent=1, sort_keys=True)
print("total", rep["total"])
for d, v in rep["by_directory"].items():
    print("  %-6s %6d / %6d  %5.1f%%" % (d, v["reached"], v["lines"], v["pct"]))
if "--files" in sys.argv:
    for rel, v in rep["files"].items():
        print("  %-44s %5d / %5d  %5.1f%%" % (rel, v["reached"], v["lines"], 100.0 * v["reached"] / max(v["lines"], 1)))
if "--funcs" in sys.argv:
    for rel, fl in rep["functions_never_entered"].items():
        print(rel, len(fl))
        for x in fl:
            print("    ", x)
