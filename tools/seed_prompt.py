#!/usr/bin/env python3
"""prints the prompt for a seeding sub-agent: only the property text and its scratch worktree"""
import json, sys
pid = sys.argv[1]
wt = sys.argv[2]
out = sys.argv[3]
p = [json.loads(l) for l in open('/verif/properties.jsonl') if json.loads(l)['id'] == pid][0]
print(f"""You are a careful C developer asked to play the adversary for a test-suite robustness study of the open-source cryptographic library RELIC (relic-toolkit/relic). You have your own scratch git worktree of the repository at {wt} (work ONLY there and under {out}; do not read or write /repo, /verif or any other directory that is not yours; you have no network).

The library is claimed to satisfy this semantic property:

  Title: {p['title']}
  Statement: {p['statement']}
  Quantified over: {p['quantifier']['text']}

Your task: produce TWO different, independent source changes to the library (each a small patch to files under {wt}/src or {wt}/include, the kind of slip a real maintainer could make in a refactoring or an optimisation) such that, for each change taken alone:
  1. the library still compiles (cmake -G Ninja -S {wt} -B {wt}/_b -DSEED= && cmake --build {wt}/_b ; the default configuration; use -DTESTS=1 default so the test programs are built; a build takes about 1-2 minutes);
  2. the repository's existing tests that touch the changed code still pass (run the relevant test programs from {wt}/_b/bin, e.g. test_bn, test_fp, test_ep, test_err ... — run every test program that could plausibly exercise your change, they take seconds to a few minutes each; say exactly which you ran and their result);
  3. the property above is violated — and it needs something SPECIFIC to manifest: an unusual input (corner value, particular length, sign, aliasing of arguments, particular parameter set), a multi-step sequence of operations, a particular interleaving or fault, or two cooperating sites that each look fine alone. Changes that ordinary use or random testing with a handful of uniformly random inputs would expose at once are NOT wanted; neither are changes that merely crash on every call.
For each change write a small demonstration (a C program linked against the built library, or a shell script driving it) that FAILS (non-zero exit, with a message saying what was observed vs expected) with the change applied and PASSES on the unmodified tree. Verify both directions yourself (git stash / git checkout to flip).

Deliver, for change k in {{1,2}}, in directory {out}/{pid}-k/ :
  patch.diff   — `git -C {wt} diff` of that change alone against HEAD (apply-able with `git apply` on a clean tree)
  demo.c or demo.sh (+ a one-line build/run command in README.txt) — the demonstration
  README.txt   — what the change is, which part of the property it breaks, what exactly is needed for it to manifest, which existing tests you ran (names + pass/fail), and the observed output of the demo with and without the change.
Leave the worktree clean (git checkout -- . ; remove your build directory {wt}/_b when finished to save disk). Make the two changes as different from each other as possible (different functions, different kinds of trigger). Finish with a short summary of both changes (≤ 25 lines).""")
