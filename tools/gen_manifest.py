#!/usr/bin/env python3
"""Regenerates /verif/MANIFEST.json from the table below (kept valid at all times)."""
import json, os, sys
HERE = os.path.dirname(os.path.dirname(os.path.abspath(__file__)))
props = [json.loads(l) for l in open(os.path.join(HERE, "properties.jsonl"))]

# id -> (category, text, note, technique, design_ref)
CLAIMED = {
 "C01": ("exploration",
         "Differential runtime monitoring: every bn_* integer operation is executed in-process on a fresh ASan+UBSan build "
         "(64-bit digits, 8-bit digits, Karatsuba/basic dispatch build) with structured hostile operands and every alias "
         "pattern; each result, its normal form and the immutability of inputs are compared with Python integers. "
         "Held-on-what-was-executed, not a proof.",
         "Trusts CPython integer arithmetic, gcc's ASan/UBSan, and that the three build configurations are representative "
         "of the digit widths the code is generic over.",
         "runtime differential monitor vs Python ints + ASan/UBSan, in-process ctypes driver", "DESIGN.md §3 C01"),
 "C19": ("exploration",
         "Three runtime monitors. (1) ~230k generated try/throw/catch/finally programs (all single blocks with <=2 actions per "
         "segment and all two-level nestings with <=1 action per segment exhaustively, depth-3 programs sampled) are executed "
         "inside the real RLC_* macros and every event trace (handler entered, finaliser count, chain restored, sticky code, "
         "control transfer, delivered code) is compared with an executable statement of the property. (2) Context monitor: "
         "orders of activating the selectable parameter sets and interleavings of independent contexts, behaviour compared with "
         "stateless models and with a freshly initialised library. (3) Schedules: on a MULTI=PTHREAD ThreadSanitizer build 2-16 "
         "threads with their own contexts run random programs with injected yields; TSan must be silent and every per-operation "
         "digest equal to the single-threaded run; overlapping operation pairs actually observed are reported.",
         "Trusts the event recorder compiled with the real macros, gcc TSan on the pthread build (OpenMP build not judged: libgomp "
         "is invisible to TSan), Python models of curve arithmetic for the behavioural battery.",
         "trace monitor vs executable state-machine spec + ThreadSanitizer stress + differential context monitor", "DESIGN.md §3 C19"),
 "C20": ("exploration",
         "Trace monitors on -O2 builds of the library instrumented with -finstrument-functions and -fsanitize-coverage=trace-pc. "
         "Primitives (dv_copy_sec, dv_swap_sec, dv_cmp_sec, util_cmp_sec, fp*_copy_sec): the recorded basic-block sequence must be "
         "identical for every selector bit and data pattern at every length 0..3*field digits. Regular routines (ep/ep2/ed *_mul_monty "
         "and *_mul_lwreg, eb_mul_lodah, bn_mxp_monty, fp_exp_monty, fb_exp_monty, g1/g2_mul_sec, gt_exp_sec on every parameter set of "
         "the 255/256/381-bit builds): the group-level call trace must be identical for all scalars of the full bit length in ten "
         "classes. Controls that must vary (dv_cmp, ep_mul_lwnaf, bn_mxp_slide) are run every time.",
         "Trusts that instrumentation does not change control flow at basic-block/call level; says nothing about micro-architectural timing.",
         "execution-trace monitor (trace-pc basic-block traces + group-level call traces) over secret classes", "DESIGN.md §3 C20"),
 "C08": ("fault_enumeration",
         "Sanitizer monitoring (ASan+UBSan, fatal reports) of (a) a boundary sweep: operand sizes around the configured precision, buffer "
         "lengths around every required size, counts n>=0 of the batch functions, recodings with *len around the requirement and "
         "degenerate scalars, KDF output lengths, short RSA buffers - all caller objects are exact-size heap blocks and every case runs "
         "under two slack-poison patterns; (b) allocation-failure enumeration on an ALLOC=DYNAMIC build with a countdown injector: each "
         "failure point of ~45 recorded calls is failed in turn, accepted outcomes are an error or the correct result, never a report, a "
         "leak (ASan heap statistics vs the successful run) or an unusable library; (c) a reduced pass of every other property's workload "
         "with the sanitizers as the only oracle.",
         "Red-zone sanitizers miss non-adjacent and intra-object overflows; only executed paths are judged; allocation failure is "
         "modelled as NULL returns of malloc/calloc/realloc.",
         "ASan/UBSan boundary sweep + exhaustive allocation-failure injection per recorded call + cross-property sampler", "DESIGN.md §3 C08"),
}
NOT_YET = {}

def main():
    checks = []
    na = []
    for p in props:
        pid = p["id"]
        if pid in CLAIMED:
            cat, text, note, tech, ref = CLAIMED[pid]
            checks.append({
                "property_id": pid,
                "quick_cmd": "./vf check %s --tier quick" % pid,
                "thorough_cmd": "./vf check %s --tier thorough" % pid,
                "evidence_file": "evidence/%s.json" % pid,
                "replay_cmd_template": "./vf replay {path}",
                "engine": "vf",
                "level_claimed": {"category": cat, "text": text, "design_ref": ref},
                "level_note": note,
                "technique": tech,
            })
        else:
            na.append({"property_id": pid, "reason": NOT_YET.get(pid, "check under construction in this session; not claimed until it is silent on the unchanged tree over several seeds")})
    m = {
        "version": 1,
        "setup_cmd": "./vf setup",
        "hooks": {
            "guard": "RELIC_VERIF",
            "enable": "no source hooks exist: checks build /repo's working tree into /verif/.work/build/<cfg> with sanitizer/trace flags and -DRELIC_VERIF (defined only for the shim compiled in /verif); observation is through public symbols, core_get() and compiler instrumentation",
            "baseline_off_cmd": "cmake -G Ninja -S /repo -B /repo/_build && cmake --build /repo/_build && ctest --test-dir /repo/_build -j8 --timeout 900",
            "source_commits": [],
            "add_only": True,
        },
        "engines": [{"name": "vf", "path": "vf", "serves_properties": [c["property_id"] for c in checks],
                     "kind_free_text": "in-process ctypes driver over fresh sanitizer builds of /repo + Python reference models + trace/fault/thread monitors"}],
        "checks": checks,
        "notes": "Runtime monitoring and sanitizers only. Known findings: known_findings.jsonl. Seeded changes: seeded/.",
        "not_applicable": na,
    }
    json.dump(m, open(os.path.join(HERE, "MANIFEST.json"), "w"), indent=1)
    print("claimed:", [c["property_id"] for c in checks])

if __name__ == "__main__":
    main()
