#!/usr/bin/env python3
"""Regenerates /verif/MANIFEST.json from the table below (kept valid at all times)."""
import json, os, sys
HERE = os.path.dirname(os.path.dirname(os.path.abspath(__file__)))
props = [json.loads(l) for l in open(os.path.join(HERE, "properties.jsonl"))]

# classes added after the later seeding rounds (DESIGN.md §7.1); appended to the level text
ADDENDA = {
 "C05": " Also: valid ECDSA / EC-Schnorr triples whose recomputed point has x in [n, p) (built by public-key recovery), and "
        "pre-hashed ECDSA instances with a steered recomputed point so that the submitted r is any structured neighbour of the "
        "right value.",
 "C06": " Also: structured differences (pairs that cancel under xor / sum, exchanged, inverted, rotated ...) at every "
        "compare-and-accumulate site (OAEP label hash / PS / separator, PKCS#1 v1.5, Rabin redundancy, ECIES tag and padding), "
        "and cofactor key agreement on curves with h > 1 with peer keys carrying small-order components.",
 "C07": " Also: every point and field decoder with the output object already holding the object the bytes name (or its "
        "negative / the library's own decode), on strings up to a multiple of the longest valid encoding, every tag and prefix.",
 "C08": " Also: hostile caller-chosen parameters of the configuration entry points (fp_prime_set_pairf/_pmers/_dense, "
        "*_param_set, fb_poly_set_*, rand_seed, recodings) with a monitor that compares the library context before and after "
        "each call (members not owned by the call unchanged, length members within their tables, field usable afterwards); "
        "gate builds initialise automatic variables with a pattern, so a result computed from a never-written local disagrees "
        "with the models.",
 "C13": " Also: a build whose default map is hash-and-increment, and messages that need 18-25 increments "
        "of hash-and-increment (found offline with the model; the table supplies inputs only).",
 "C14": " Also: short histories of AES calls with related keys (equal, shared 16/24-octet prefixes, last octet differing, "
        "growing lengths): no state may be carried between calls.",
 "C18": " Also: each identifier re-selected after histories of public calls that change the field / curve state without going "
        "through the selection; the installed modulus, parameters, flags, map constants and an arithmetic battery are judged.",
 "C20": " Also: groups of scalars longer than the order, k and -k of one magnitude for the curve routines, and trace builds with "
        "another window width (RLC_WIDTH=2; 3 and 6 thorough).",
}

# id -> (category, text, note, technique, design_ref)
CLAIMED = {
 "C01": ("exploration",
         "Differential runtime monitoring: every bn_* integer operation is executed in-process on a fresh ASan+UBSan build "
         "(64-bit digits, 8-bit digits, Karatsuba/basic dispatch build) with structured hostile operands and every alias "
         "pattern; each result, its normal form and the immutability of inputs are compared with Python integers. "
         "Held-on-what-was-executed, not a proof.",
         "Trusts CPython integer arithmetic, gcc's ASan/UBSan, and that the three build configurations are representative "
         "of the digit widths the code is generic over.",
         "runtime differential monitor vs Python ints + ASan/UBSan, in-process ctypes driver", "DESIGN.md §3 C01"),
 "C19": ("exploration",
         "Three runtime monitors. (1) ~230k generated try/throw/catch/finally programs (all single blocks with <=2 actions per "
         "segment and all two-level nestings with <=1 action per segment exhaustively, depth-3 programs sampled) are executed "
         "inside the real RLC_* macros and every event trace (handler entered, finaliser count, chain restored, sticky code, "
         "control transfer, delivered code) is compared with an executable statement of the property. (2) Context monitor: "
         "orders of activating the selectable parameter sets and interleavings of independent contexts, behaviour compared with "
         "stateless models and with a freshly initialised library. (3) Schedules: on a MULTI=PTHREAD ThreadSanitizer build 2-16 "
         "threads with their own contexts run random programs with injected yields; TSan must be silent and every per-operation "
         "digest equal to the single-threaded run; overlapping operation pairs actually observed are reported.",
         "Trusts the event recorder compiled with the real macros, gcc TSan on the pthread build (OpenMP build not judged: libgomp "
         "is invisible to TSan), Python models of curve arithmetic for the behavioural battery.",
         "trace monitor vs executable state-machine spec + ThreadSanitizer stress + differential context monitor", "DESIGN.md §3 C19"),
 "C20": ("exploration",
         "Trace monitors on -O2 builds of the library instrumented with -finstrument-functions and -fsanitize-coverage=trace-pc. "
         "Primitives (dv_copy_sec, dv_swap_sec, dv_cmp_sec, util_cmp_sec, fp*_copy_sec): the recorded basic-block sequence must be "
         "identical for every selector bit and data pattern at every length 0..3*field digits. Regular routines (ep/ep2/ed *_mul_monty "
         "and *_mul_lwreg, eb_mul_lodah, bn_mxp_monty, fp_exp_monty, fb_exp_monty, g1/g2_mul_sec, gt_exp_sec on every parameter set of "
         "the 255/256/381-bit builds): the group-level call trace must be identical within every group of scalars of EQUAL bit length (the full length in ten "
         "classes plus base-|x| digit classes for the GLS routines; shorter lengths incl. 1..65 bits and the lengths where k+n / k+2n change length; k = n-1, n, n+1 with keys of their own; a random subgroup point and the curve generator as base). Controls that must vary (dv_cmp, ep_mul_lwnaf, bn_mxp_slide) are run every time.",
         "Trusts that instrumentation does not change control flow at basic-block/call level; says nothing about micro-architectural timing.",
         "execution-trace monitor (trace-pc basic-block traces + group-level call traces) over secret classes", "DESIGN.md §3 C20"),
 "C08": ("fault_enumeration",
         "Sanitizer monitoring (ASan+UBSan, fatal reports) of (a) a boundary sweep: operand sizes around the configured precision, buffer "
         "lengths around every required size, counts n>=0 of the batch functions, recodings with *len around the requirement and "
         "degenerate scalars, KDF output lengths, short RSA buffers - all caller objects are exact-size heap blocks and every case runs "
         "under two slack-poison patterns; (b) allocation-failure enumeration on an ALLOC=DYNAMIC build with a countdown injector: each "
         "failure point of ~45 recorded calls is failed in turn, accepted outcomes are an error or the correct result, never a report, a "
         "leak (ASan heap statistics vs the successful run), a destroyed or changed caller object (records include objects that must be reallocated inside the call) "
         "or an unusable library; (c) a reduced pass of every other property's workload "
         "with the sanitizers as the only oracle.",
         "Red-zone sanitizers miss non-adjacent and intra-object overflows; only executed paths are judged; allocation failure is "
         "modelled as NULL returns of malloc/calloc/realloc.",
         "ASan/UBSan boundary sweep + exhaustive allocation-failure injection per recorded call + cross-property sampler", "DESIGN.md §3 C08"),
 "C02": ("exploration",
         "Differential monitor: every fp_* arithmetic entry point and every named algorithm variant (add/sub/neg/dbl/hlv, mul/sqr basic/comba/integ/karat, "
         "reductions, seven inversions + simultaneous, five Legendre symbols, three exponentiations, square/cube roots, conversions) on all primes selectable in "
         "the 256-bit (6), 255-bit and 381-bit builds and an alternative-dispatch build; results compared with Python integers mod p AND required canonical "
         "(raw digits < p, read from memory); variants must agree; roots iff Euler criterion; inv(0) errors; residues include values whose Montgomery image is "
         "0/1/all-ones/zero digits.", "Trusts CPython integers; primes of other sizes only in the thorough sweep.",
         "runtime differential monitor vs Python ints mod p + canonical-form monitor + ASan/UBSan", "DESIGN.md §3 C02"),
 "C03": ("exploration",
         "Differential monitor over an affine integer model of the curve group: group law in affine/projective/Jacobian coordinates with raw mixed-coordinate, "
         "aliased and exceptional operands; every ep_mul_*, ep_mul_pre/fix_* and ep_mul_sim_* routine against [k]P for hostile scalars (0, +-1, n-1, n, n+1, kn, "
         "negative, longer than n up to the bignum precision, GLV boundary values) on all nine curves of the 256/255/381-bit builds. Fixed verdict policy: in-range "
         "scalars must give [k]P; out-of-range scalars may raise an error but never return a wrong point.",
         "Trusts the affine integer model; multiplications run under the configured EP_ADD=PROJC only.",
         "runtime differential monitor vs affine curve model + ASan/UBSan", "DESIGN.md §3 C03"),
 "C04": ("exploration",
         "Relational monitor with independent arithmetic: [a]P and [b]Q are computed by Python curve models and written raw into the library, the library's e(P,Q) is "
         "raised to ab by a generic tower model, and e([a]P,[b]Q) must equal it; plus non-degeneracy, order r, identity slots, multi-pairing = product, all three "
         "pairing variants, on BN_P256, SM9_P256 and B12_P381 (k = 12 families only; the k = 8/16/18/24 families of the property are not reached).", "Trusts the tower/curve models (validated against the library's measured non-residues).",
         "runtime relational monitor (bilinearity with model-side exponentiation) + ASan/UBSan", "DESIGN.md §3 C04"),
 "C05": ("exploration",
         "Completeness, independent verdicts and mutation soundness for the signature schemes: honest signatures verify; ECDSA and RSA verdicts equal an independent "
         "Python implementation of FIPS 186-4 / PKCS#1 on arbitrary (r,s,Q,msg) / (sig,msg) incl. out-of-range and malformed encodings; every single-bit flip and "
         "component substitution of message/signature/key must be rejected unless the scheme's defining equation (evaluated by the harness from lower-layer "
         "primitives) holds.", "Scheme oracles use lower-layer library primitives monitored by C03/C04/C13; RSA keys are 1024 bit in the quick tier.",
         "runtime monitor: independent verifier + mutation soundness + ASan/UBSan", "DESIGN.md §3 C05"),
 "C06": ("exploration",
         "Round-trip, homomorphism, agreement and rejection monitors for the encryption / key agreement / sharing protocols, with independent Python oracles for RSA "
         "paddings, Paillier/Benaloh arithmetic, ECDH/ECMQV keys (curve + KDF models), Shamir reconstruction and PSI outputs; every byte mutation of authenticated "
         "ciphertexts must be rejected.", "Oracles use lower-layer primitives monitored elsewhere; key sizes are small in the quick tier.",
         "runtime monitor: round trips vs independent protocol models + ciphertext mutation + ASan/UBSan", "DESIGN.md §3 C06"),
 "C07": ("exploration",
         "Structure-aware decoder fuzzing against a Python decoder per format: for arbitrary byte strings library accepts iff model accepts, accepted objects are valid "
         "and re-encode to the input; for valid objects decode(encode(x)) = x, length = size_bin, short buffers raise errors without overflow; radix 2..64 strings; "
         "integers, Fp..Fp12, prime/extension/binary/Edwards curve points, G1/G2/GT on twelve parameter sets.",
         "Does not demand more than documented (no subgroup check in ep_read_bin, no cyclotomic check in gt_read_bin).",
         "runtime differential monitor vs model decoders/encoders + ASan/UBSan", "DESIGN.md §3 C07"),
 "C09": ("exploration",
         "Differential monitor for modular reduction (all algorithms), exponentiation (all, sim, CRT), inverses, gcd/extended gcd (Bezout for the given operands), lcm, "
         "symbols, roots, interpolation, primality (Carmichael numbers, strong pseudoprimes, constructed composites) and prime generation, and every recoding decoded by "
         "the model with digit-set/length/sparsity contracts, on 64-bit, 8-bit and alternative-dispatch builds.", "Trusts Python pow/gcd/isqrt and a BPSW-style model primality test.",
         "runtime differential monitor vs Python number theory + recoding decoders + ASan/UBSan", "DESIGN.md §3 C09"),
 "C10": ("exploration",
         "Differential monitor against generic schoolbook polynomial arithmetic in towers built from the library's MEASURED defining polynomials: every operation and "
         "specialised form (lazy/unreduced, sparse, cyclotomic/compressed squarings, cyclotomic exponentiation/inversion, simultaneous inversion, Frobenius powers, roots) "
         "of every built degree on BN_P256, SM9_P256, B12_P381 and the other 256-bit primes.", "Trusts the generic tower model; towers above 12 only where the prime admits them.",
         "runtime differential monitor vs generic tower model + canonical-form monitor + ASan/UBSan", "DESIGN.md §3 C10"),
 "C11": ("exploration",
         "As C03 over Fp2: ep2 group law with raw mixed-coordinate inputs, every ep2_mul*/fix/sim routine, ep2_frb = [p] on the subgroup, ep2_mul_cof annihilated by r for "
         "model-constructed points outside the subgroup, on BN_P256, SM9_P256, B12_P381.", "Trusts the Fp2 curve model; ep3/ep4/ep8 are not exercised (no curve at these sizes).",
         "runtime differential monitor vs affine twist model + ASan/UBSan", "DESIGN.md §3 C11"),
 "C12": ("exploration",
         "Membership predicates of G1/G2/GT against the model's truth on members, model-constructed non-members (random curve/twist points, small-order points, off-curve "
         "coordinates, cyclotomic-but-not-order-r elements, 0, 1, -1) and group exponentiations in plain/secure/fixed/simultaneous forms against repeated operation.",
         "Trusts curve/tower models.", "runtime differential monitor vs model membership truth + ASan/UBSan", "DESIGN.md §3 C12"),
 "C13": ("exploration",
         "Hash-to-group monitor: output on curve, non-trivial and annihilated by r (model), deterministic across calls / parameter churn / fresh contexts, and bit-for-bit "
         "equal to a Python evaluation of the documented construction (expand_message_xmd, SSWU with isogeny, SvdW, SwiftEC, try-and-increment, sign, cofactor) on all "
         "prime curves; ep2/eb maps get the first two oracles; ed_map equals an RFC 9380 edwards25519 model.", "Implementation constants (DST, L, sgn0 rule) taken from the source once.",
         "runtime differential monitor vs independent hash-to-curve model + ASan/UBSan", "DESIGN.md §3 C13"),
 "C14": ("exploration",
         "Differential monitor vs hashlib/hmac and hand-written KDF2/MGF1/XMD/AES-CBC models (self-tested on FIPS-197, SP 800-38A, RFC 9380, RFC 4231 vectors): every message "
         "length 0..300 and long ones, key lengths around the block size, every output length, every single-byte corruption of the last ciphertext block.",
         "Trusts hashlib and the self-tested models.", "runtime differential monitor vs standard implementations + ASan/UBSan", "DESIGN.md §3 C14"),
 "C15": ("exploration",
         "Lock-step history monitor: a Python Hash_DRBG (SP 800-90A, SHA-256) is advanced with the library over random histories of generate/reseed/instantiate; output bytes "
         "AND internal state (V, C, reseed counter, read from the context) must match after every call, incl. long histories across 2^8/2^15/2^16 generates; integer sampling "
         "judged as the property states it: range / bit length, determinism (repeated from the saved generator state), post-state reachable by k >= 1 generate steps, "
         "exact stream afterwards - not by a model of the current sampling algorithm.", "Model validated on the CAVS vectors embedded in test_rand.c.",
         "online trace monitor vs executable DRBG model (output + hidden state) + ASan/UBSan", "DESIGN.md §3 C15"),
 "C16": ("exploration",
         "Differential monitor vs a GF(2^m) model and an affine binary-curve model: every fb_* variant, fb2, eb group law with exceptional cases, halving, Frobenius, every eb_mul* "
         "/fix/sim routine on NIST_B283 and NIST_K283.", "Trusts the GF(2^m)/curve models; halving judged on the odd-order subgroup only.",
         "runtime differential monitor vs GF(2^m) and binary-curve models + ASan/UBSan", "DESIGN.md §3 C16"),
 "C17": ("exploration",
         "Differential monitor vs the complete twisted-Edwards affine law on Python integers (255-bit build): add/dbl/neg in affine/projective/extended coordinates for all operands "
         "incl. points of order 1,2,4,8, every ed_mul*/fix/sim routine (separate output and in place, even and odd scalars), compression round trips, ed_map in the subgroup; repeated in a build with extended "
         "coordinates as the default system, where T*Z = X*Y is required of every returned point and every multiplication result is fed back into add/sub/dbl/cmp/on_curve/write_bin.",
         "Trusts the affine Edwards model.",
         "runtime differential monitor vs affine Edwards model + ASan/UBSan", "DESIGN.md §3 C17"),
 "C18": ("exploration",
         "Exhaustive enumeration of the parameter identifiers accepted by each built configuration (fp, fb, ep, eb, ed in the 256/255/381-bit builds; more sizes thorough): "
         "each set is read through the public getters and ~20 mathematical obligations are checked in Python (primality, irreducibility, generator on curve, prime order "
         "annihilates it, Hasse bound, the cofactor-clearing maps called with separate and in-place outputs, endomorphism and lattice constants, twist type/generator/order/Frobenius constants, embedding degree, level, Montgomery and map constants).",
         "Exhaustive over identifiers, not over anything else; probabilistic primality in the model.",
         "runtime enumeration of all built parameter sets checked against mathematical obligations", "DESIGN.md §3 C18"),
}
READY = {"C%02d" % i for i in range(1, 21)}
NOT_YET = {}

def main():
    checks = []
    na = []
    for p in props:
        pid = p["id"]
        if pid in CLAIMED and pid in READY:
            cat, text, note, tech, ref = CLAIMED[pid]
            text = text + ADDENDA.get(pid, "")
            checks.append({
                "property_id": pid,
                "quick_cmd": "./vf check %s --tier quick" % pid,
                "thorough_cmd": "./vf check %s --tier thorough" % pid,
                "evidence_file": "evidence/%s.json" % pid,
                "replay_cmd_template": "./vf replay {path}",
                "engine": "vf",
                "level_claimed": {"category": cat, "text": text, "design_ref": ref},
                "level_note": note,
                "technique": tech,
            })
        else:
            na.append({"property_id": pid, "reason": NOT_YET.get(pid, "check under construction in this session; not claimed until it is silent on the unchanged tree over several seeds")})
    m = {
        "version": 1,
        "setup_cmd": "./vf setup",
        "hooks": {
            "guard": "RELIC_VERIF",
            "enable": "no source hooks exist: checks build /repo's working tree into /verif/.work/build/<cfg> with sanitizer/trace flags and -DRELIC_VERIF (defined only for the shim compiled in /verif); observation is through public symbols, core_get() and compiler instrumentation",
            "baseline_off_cmd": "cmake -G Ninja -S /repo -B /repo/_build && cmake --build /repo/_build && ctest --test-dir /repo/_build -j8 --timeout 900",
            "source_commits": [],
            "add_only": True,
        },
        "engines": [{"name": "vf", "path": "vf", "serves_properties": [c["property_id"] for c in checks],
                     "kind_free_text": "in-process ctypes driver over fresh sanitizer builds of /repo + Python reference models + trace/fault/thread monitors"}],
        "checks": checks,
        "notes": "Runtime monitoring and sanitizers only. Known findings: known_findings.jsonl. Seeded changes: seeded/.",
        "not_applicable": na,
    }
    json.dump(m, open(os.path.join(HERE, "MANIFEST.json"), "w"), indent=1)
    print("claimed:", [c["property_id"] for c in checks])

if __name__ == "__main__":
    main()
