#!/usr/bin/env python3
"""False-alarm test: applies a behaviour-preserving change (benign/<id>/patch.diff) in a scratch worktree of /repo
and runs the registered check(s) of its property against it; the expected outcome is exit 0 with no VIOLATION.

usage: tools/run_benign.py <id>... [--tier quick|thorough] [--props C01,C08]      (default: all in benign/)
"""
import json, os, subprocess, sys, shutil, time, hashlib
HERE = os.path.dirname(os.path.dirname(os.path.abspath(__file__)))
args = [a for a in sys.argv[1:] if not a.startswith("--")]
tier = "quick"
props_override = None
for i, a in enumerate(sys.argv):
    if a == "--tier":
        tier = sys.argv[i + 1]
        args.remove(tier) if tier in args else None
    if a == "--props":
        props_override = sys.argv[i + 1].split(",")
        args.remove(sys.argv[i + 1]) if sys.argv[i + 1] in args else None
ids = args or sorted(os.listdir(os.path.join(HERE, "benign")))
for bid in ids:
    d = os.path.join(HERE, "benign", bid)
    if not os.path.exists(os.path.join(d, "patch.diff")):
        continue
    meta = json.load(open(os.path.join(d, "meta.json")))
    wt = "/tmp/vf-benign-" + bid
    subprocess.run(["git", "-C", "/repo", "worktree", "remove", "--force", wt], stderr=subprocess.DEVNULL)
    shutil.rmtree(wt, ignore_errors=True)
    subprocess.check_call(["git", "-C", "/repo", "worktree", "add", "-q", "--detach", wt, "HEAD"])
    try:
        r = subprocess.run(["git", "-C", wt, "apply", os.path.join(d, "patch.diff")], stderr=subprocess.PIPE, text=True)
        if r.returncode != 0:
            print(bid, "PATCH DOES NOT APPLY:", r.stderr[:300])
            continue
        rp = os.path.join(d, "result.json")
        results = json.load(open(rp)) if os.path.exists(rp) else {}
        for prop in (props_override or meta.get("checks", [meta["property"]])):
            env = dict(os.environ, VF_REPO=wt)
            t0 = time.time()
            p = subprocess.run([os.path.join(HERE, "vf"), "check", prop, "--tier", tier], env=env, stdout=subprocess.PIPE,
                               stderr=subprocess.STDOUT, text=True)
            viol = [l for l in p.stdout.splitlines() if l.startswith("VIOLATION")]
            keys = [l.strip() for l in p.stdout.splitlines() if l.startswith("  key=")]
            summ = [l for l in p.stdout.splitlines() if l.startswith("[" + prop)]
            results[prop] = {"exit": p.returncode, "violations": len(viol), "keys": keys[:12], "wall_s": round(time.time() - t0, 1),
                             "tier": tier, "summary": summ[-1] if summ else p.stdout[-300:]}
            print(bid, prop, tier, "exit", p.returncode, "violations", len(viol), keys[:4], flush=True)
        json.dump(results, open(rp, "w"), indent=1)
    finally:
        subprocess.run(["git", "-C", "/repo", "worktree", "remove", "--force", wt])
        alt = os.path.join(HERE, ".work", "alt-" + hashlib.sha256(wt.encode()).hexdigest()[:10])
        shutil.rmtree(alt, ignore_errors=True)
