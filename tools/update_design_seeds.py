#!/usr/bin/env python3
import os, subprocess
HERE = os.path.dirname(os.path.dirname(os.path.abspath(__file__)))
t = subprocess.check_output(["python3", os.path.join(HERE, "tools", "seed_table.py")], text=True)
p = os.path.join(HERE, "DESIGN.md")
s = open(p).read()
a = s.index("<!-- SEED-TABLE-BEGIN -->") + len("<!-- SEED-TABLE-BEGIN -->")
b = s.index("<!-- SEED-TABLE-END -->")
open(p, "w").write(s[:a] + "\n" + t + s[b:])
