#!/usr/bin/env python3
"""prompt for a dev sub-agent that strengthens the registered check of a property after it missed a seeded change"""
import json, sys
sid = sys.argv[1]
m = json.load(open('/verif/seeded/%s/meta.json' % sid))
prop = m["property"]
print(f"""You are extending a runtime-monitoring verification harness for the C crypto library RELIC (/repo). The harness lives in /verif; each property Cxx has a module /verif/verif/props/Cxx.py (workload + oracle), run by `cd /verif && ./vf check {prop}` (prints VIOLATION / KNOWN-FINDING lines; exit 0 = silent). Read /verif/verif/DEV.md first (module contract, runtime helpers), then the relevant parts of /verif/verif/props/{prop}.py. The property text is in /verif/properties.jsonl (id {prop}).

The registered quick check of {prop} MISSED the following seeded breaking change (a realistic slip that compiles and passes the stock tests):
  id: {sid}
  what: {m['what']}
  needs to manifest: {m['needs_to_manifest']}
  files: /verif/seeded/{sid}/patch.diff (the change), /verif/seeded/{sid}/README.txt and demo.c (the author's demonstration).

Your task: extend /verif/verif/props/{prop}.py (and, only if really needed, a model under /verif/verif/model/ or a NEW helper file /verif/shim/vf_x_<name>.c; never edit shim/vf_shim.c, verif/harness.py, verif/build.py or other properties' modules) so that the QUICK tier reports this change, by adding the whole CLASS of inputs / histories / representations it belongs to for every routine of the module where the class makes sense (not the single failing input, and never by special-casing this patch): think about what family of similar slips a maintainer could make in sibling functions and cover those too. The oracle must stay independent of the library (compare with the Python models / defining equations, not with another library routine under test) and must demand nothing beyond the property text and the documented interface - if the unchanged tree fails a new obligation, triage it honestly: either your oracle is wrong (fix it) or it is a genuine defect of the unchanged library (then report it to me precisely, with the failing input, and make the class's key narrow; do NOT add entries to known_findings.jsonl yourself and do not loosen anything to make it quiet).

Procedure and acceptance:
  1. `cd /verif && VF_JOBS=8 ./vf check {prop}` on the unchanged tree must exit 0 with no VIOLATION line for VERIF_SEED=1, 2 and 3 (run all three at the end).
  2. `cd /verif && VF_JOBS=8 python3 tools/run_seeded.py {sid}` must print `exit 1` with violations > 0 (it builds a scratch worktree with the patch and runs the quick check against it; never apply the patch to /repo).
  3. The quick check's wall time must not grow by more than about 20% (it is printed at the end of the run: wall=...s); put the heavier variants in the thorough tier (`ctx.quick` / `ctx.n(q, t)`).
  4. Do not touch /repo. Do not commit. Other people share the machine: use VF_JOBS=8.
Finish with a short report: which classes you added to which routines (keys), what the check now prints for {sid}, the three unchanged-tree runs (exit codes, wall), and any genuine defect of the unchanged tree you came across (with input).""")
