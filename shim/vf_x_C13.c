/*
 * C13 (hashing to groups): read-only accessors for the map constants the library holds in its
 * context, compiled against the real headers so that no layout is assumed in Python.
 * The Python model derives / validates these values by their defining conditions; they are read
 * only where the parameter set, not mathematics, fixes them (non-square u of an isogeny map,
 * isogeny coefficients).
 */
#include <stddef.h>
#include "relic.h"
#include "relic_core.h"

#ifdef WITH_EP

void *vf_c13_ep_map_u(void) { return core_get()->ep_map_u; }

void *vf_c13_ep_map_c(int i) { return (i >= 0 && i < 7) ? (void *)core_get()->ep_map_c[i] : NULL; }

int vf_c13_ep_has_iso(void) {
#ifdef EP_CTMAP
	return 1;
#else
	return 0;
#endif
}

/* f: 0 a, 1 b, 2 xn[i], 3 xd[i], 4 yn[i], 5 yd[i] */
void *vf_c13_ep_iso(int f, int i) {
#ifdef EP_CTMAP
	iso_t c = ep_curve_get_iso();
	if (i < 0 || i >= RLC_EP_CTMAP_MAX) return NULL;
	switch (f) {
	case 0: return c->a;
	case 1: return c->b;
	case 2: return c->xn[i];
	case 3: return c->xd[i];
	case 4: return c->yn[i];
	case 5: return c->yd[i];
	}
#endif
	return NULL;
}

/* f: 2 deg_xn, 3 deg_xd, 4 deg_yn, 5 deg_yd */
int vf_c13_ep_iso_deg(int f) {
#ifdef EP_CTMAP
	iso_t c = ep_curve_get_iso();
	switch (f) {
	case 2: return c->deg_xn;
	case 3: return c->deg_xd;
	case 4: return c->deg_yn;
	case 5: return c->deg_yd;
	}
#endif
	return -1;
}

int vf_c13_ep_mod18(void) { return (int)core_get()->mod18; }

#endif /* WITH_EP */

#ifdef WITH_EPX

void *vf_c13_ep2_map_u(void) { return core_get()->ep2_map_u; }

void *vf_c13_ep2_map_c(int i) { return (i >= 0 && i < 4) ? (void *)core_get()->ep2_map_c[i] : NULL; }

void *vf_c13_ep2_iso(int f, int i) {
#ifdef EP_CTMAP
	iso2_t c = ep2_curve_get_iso();
	if (i < 0 || i >= RLC_EPX_CTMAP_MAX) return NULL;
	switch (f) {
	case 0: return c->a;
	case 1: return c->b;
	case 2: return c->xn[i];
	case 3: return c->xd[i];
	case 4: return c->yn[i];
	case 5: return c->yd[i];
	}
#endif
	return NULL;
}

int vf_c13_ep2_iso_deg(int f) {
#ifdef EP_CTMAP
	iso2_t c = ep2_curve_get_iso();
	switch (f) {
	case 2: return c->deg_xn;
	case 3: return c->deg_xd;
	case 4: return c->deg_yn;
	case 5: return c->deg_yd;
	}
#endif
	return -1;
}

#endif /* WITH_EPX */
