/* C18 helpers compiled against the real headers: addresses of derived constants that have no public getter
 * (hash-to-curve map constants, Frobenius constants of the twist, Edwards coefficients) and layout constants. */
#include <stddef.h>
#include "relic.h"
#include "relic_core.h"

void *vf_x18_ptr(int which, int i) {
	ctx_t *c = core_get();
	(void)i;
	switch (which) {
#ifdef WITH_EP
	case 0: return c->ep_map_u;
	case 1: return (i >= 0 && i < 7) ? c->ep_map_c[i] : NULL;
#endif
#ifdef WITH_EPX
	case 10: return c->ep2_map_u;
	case 11: return (i >= 0 && i < 4) ? c->ep2_map_c[i] : NULL;
	case 12: return (i >= 0 && i < 2) ? c->ep2_frb[i] : NULL;
#endif
#ifdef WITH_ED
	case 20: return c->ed_a;
	case 21: return c->ed_d;
#endif
	}
	return NULL;
}

struct vf_x18_c { const char *name; long long v; };
#define C(n, v) { n, (long long)(v) }
#define OFF(t, f) { "off_" #t "_" #f, (long long)offsetof(t, f) }
#define SZ(t) { "sizeof_" #t, (long long)sizeof(t) }
static const struct vf_x18_c vf_x18_consts[] = {
	C("RLC_ZERO", RLC_ZERO), C("RLC_ONE", RLC_ONE), C("RLC_TWO", RLC_TWO), C("RLC_MIN3", RLC_MIN3),
	C("RLC_TINY", RLC_TINY), C("RLC_HUGE", RLC_HUGE), C("RLC_TERMS", RLC_TERMS),
#ifdef WITH_EP
	C("RLC_EP_DTYPE", RLC_EP_DTYPE), C("RLC_EP_MTYPE", RLC_EP_MTYPE),
#ifdef EP_CTMAP
	C("EP_CTMAP", 1), SZ(iso_st), OFF(iso_st, a), OFF(iso_st, b), OFF(iso_st, deg_xn), OFF(iso_st, deg_xd),
	OFF(iso_st, deg_yn), OFF(iso_st, deg_yd), OFF(iso_st, xn), OFF(iso_st, xd), OFF(iso_st, yn), OFF(iso_st, yd),
	C("RLC_EP_CTMAP_MAX", RLC_EP_CTMAP_MAX),
#else
	C("EP_CTMAP", 0),
#endif
#endif
#if defined(WITH_EPX) && defined(EP_CTMAP)
	SZ(iso2_st), OFF(iso2_st, a), OFF(iso2_st, b), OFF(iso2_st, deg_xn), OFF(iso2_st, deg_xd),
	OFF(iso2_st, deg_yn), OFF(iso2_st, deg_yd), OFF(iso2_st, xn), OFF(iso2_st, xd), OFF(iso2_st, yn), OFF(iso2_st, yd),
	C("RLC_EPX_CTMAP_MAX", RLC_EPX_CTMAP_MAX),
#endif
#ifdef WITH_FB
	C("FB_POLYN", FB_POLYN),
#endif
	{ NULL, 0 }
};
const char *vf_x18_const_name(int i) { return vf_x18_consts[i].name; }
long long vf_x18_const_val(int i) { return vf_x18_consts[i].v; }
