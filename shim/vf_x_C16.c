/* C16 helpers compiled against the real headers: table capacities, the coordinate tag of
 * eb_hlv results, and function wrappers for dispatch macros that rt.py cannot resolve
 * (eb_add/eb_dbl expand with a trailing ';', fb_itr is variadic). */
#include <stddef.h>
#include "relic.h"

struct vf_x16_c { const char *name; long long v; };
static const struct vf_x16_c vf_x16_consts[] = {
#if defined(WITH_EB) && defined(WITH_FB)
	{ "RLC_EB_TABLE_BASIC", RLC_EB_TABLE_BASIC }, { "RLC_EB_TABLE_COMBS", RLC_EB_TABLE_COMBS },
	{ "RLC_EB_TABLE_COMBD", RLC_EB_TABLE_COMBD }, { "RLC_EB_TABLE_LWNAF", RLC_EB_TABLE_LWNAF },
	{ "EB_HALVE", HALVE }, { "RLC_ZERO", RLC_ZERO }, { "RLC_ONE", RLC_ONE }, { "RLC_TINY", RLC_TINY },
	{ "RLC_HUGE", RLC_HUGE }, { "FB_POLYN", FB_POLYN },
#endif
	{ NULL, 0 }
};
const char *vf_x16_const_name(int i) { return vf_x16_consts[i].name; }
long long vf_x16_const_val(int i) { return vf_x16_consts[i].v; }

#if defined(WITH_EB) && defined(WITH_FB)
void vf_x16_eb_add(eb_t r, const eb_t p, const eb_t q) { eb_add(r, p, q); }
void vf_x16_eb_dbl(eb_t r, const eb_t p) { eb_dbl(r, p); }
/* the documented four-argument form: table-based when FB_ITR == QUICK */
void vf_x16_fb_itr(fb_t c, const fb_t a, int b, const fb_st *t) { fb_itr(c, a, b, t); }
/* the documented three-argument form */
void vf_x16_fb_itr3(fb_t c, const fb_t a, int b) { fb_itr(c, a, b); }
#endif
