/* C17 helpers compiled against the real headers: precomputation table capacities. */
#include <stddef.h>
#include "relic.h"

struct vf_x17_c { const char *name; long long v; };
static const struct vf_x17_c vf_x17_consts[] = {
#if defined(WITH_ED)
	{ "RLC_ED_TABLE_BASIC", RLC_ED_TABLE_BASIC }, { "RLC_ED_TABLE_COMBS", RLC_ED_TABLE_COMBS },
	{ "RLC_ED_TABLE_COMBD", RLC_ED_TABLE_COMBD }, { "RLC_ED_TABLE_LWNAF", RLC_ED_TABLE_LWNAF },
#endif
	{ NULL, 0 }
};
const char *vf_x17_const_name(int i) { return vf_x17_consts[i].name; }
long long vf_x17_const_val(int i) { return vf_x17_consts[i].v; }
