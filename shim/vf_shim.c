/*
 * Verification shim, compiled against each fresh build of /repo (never into it).
 *  - vf_try: RLC_TRY trampoline around an indirect call with up to 18 word arguments
 *  - vf_const: layout/capacity constants taken from the real headers
 *  - vf_macro_*: expansion text of the dispatch macros of this configuration
 *  - self tests that must trigger ASan / UBSan (positive controls)
 */
#include <stdint.h>
#include <stddef.h>
#include <string.h>
#include <stdlib.h>
#include "relic.h"
#include "relic_core.h"

typedef uintptr_t W;

/* heap accounting around the last vf_try call (ASan allocator statistics; exact for a single thread) */
extern size_t __sanitizer_get_current_allocated_bytes(void) __attribute__((weak));
static size_t vf_heap_before, vf_heap_after;
size_t vf_heap_now(void) { return __sanitizer_get_current_allocated_bytes ? __sanitizer_get_current_allocated_bytes() : 0; }
long long vf_last_heap_delta(void) { return (long long)vf_heap_after - (long long)vf_heap_before; }


/* out[0]=handler entered, out[1]=error code seen by handler, out[2]=chain ok inside,
 * out[3]=chain restored after, out[4]=code (sticky) after the call (not consumed) */
W vf_try(void *fn, int n, W *a, int *out) {
	volatile W r = 0;
	err_t e = 0;
	volatile int inside_ok = 1;
	ctx_t *ctx = core_get();
	sts_t *before = ctx->last;
	sts_t *volatile mine = NULL;
	out[0] = out[1] = 0; out[2] = 1; out[3] = 1; out[4] = 0;
	if (n < 0 || n > 18) { out[0] = -99; return 0; }
	vf_heap_before = vf_heap_now();
	RLC_TRY {
		/* the record of this block, taken from the context (no macro-internal name is used) */
		mine = core_get()->last;
		switch (n) {
		case 0: r = ((W(*)(void))fn)(); break;
		case 1: r = ((W(*)(W))fn)(a[0]); break;
		case 2: r = ((W(*)(W,W))fn)(a[0],a[1]); break;
		case 3: r = ((W(*)(W,W,W))fn)(a[0],a[1],a[2]); break;
		case 4: r = ((W(*)(W,W,W,W))fn)(a[0],a[1],a[2],a[3]); break;
		case 5: r = ((W(*)(W,W,W,W,W))fn)(a[0],a[1],a[2],a[3],a[4]); break;
		case 6: r = ((W(*)(W,W,W,W,W,W))fn)(a[0],a[1],a[2],a[3],a[4],a[5]); break;
		case 7: r = ((W(*)(W,W,W,W,W,W,W))fn)(a[0],a[1],a[2],a[3],a[4],a[5],a[6]); break;
		case 8: r = ((W(*)(W,W,W,W,W,W,W,W))fn)(a[0],a[1],a[2],a[3],a[4],a[5],a[6],a[7]); break;
		case 9: r = ((W(*)(W,W,W,W,W,W,W,W,W))fn)(a[0],a[1],a[2],a[3],a[4],a[5],a[6],a[7],a[8]); break;
		case 10: r = ((W(*)(W,W,W,W,W,W,W,W,W,W))fn)(a[0],a[1],a[2],a[3],a[4],a[5],a[6],a[7],a[8],a[9]); break;
		case 11: r = ((W(*)(W,W,W,W,W,W,W,W,W,W,W))fn)(a[0],a[1],a[2],a[3],a[4],a[5],a[6],a[7],a[8],a[9],a[10]); break;
		case 12: r = ((W(*)(W,W,W,W,W,W,W,W,W,W,W,W))fn)(a[0],a[1],a[2],a[3],a[4],a[5],a[6],a[7],a[8],a[9],a[10],a[11]); break;
		case 13: r = ((W(*)(W,W,W,W,W,W,W,W,W,W,W,W,W))fn)(a[0],a[1],a[2],a[3],a[4],a[5],a[6],a[7],a[8],a[9],a[10],a[11],a[12]); break;
		case 14: r = ((W(*)(W,W,W,W,W,W,W,W,W,W,W,W,W,W))fn)(a[0],a[1],a[2],a[3],a[4],a[5],a[6],a[7],a[8],a[9],a[10],a[11],a[12],a[13]); break;
		case 15: r = ((W(*)(W,W,W,W,W,W,W,W,W,W,W,W,W,W,W))fn)(a[0],a[1],a[2],a[3],a[4],a[5],a[6],a[7],a[8],a[9],a[10],a[11],a[12],a[13],a[14]); break;
		case 16: r = ((W(*)(W,W,W,W,W,W,W,W,W,W,W,W,W,W,W,W))fn)(a[0],a[1],a[2],a[3],a[4],a[5],a[6],a[7],a[8],a[9],a[10],a[11],a[12],a[13],a[14],a[15]); break;
		case 17: r = ((W(*)(W,W,W,W,W,W,W,W,W,W,W,W,W,W,W,W,W))fn)(a[0],a[1],a[2],a[3],a[4],a[5],a[6],a[7],a[8],a[9],a[10],a[11],a[12],a[13],a[14],a[15],a[16]); break;
		case 18: r = ((W(*)(W,W,W,W,W,W,W,W,W,W,W,W,W,W,W,W,W,W))fn)(a[0],a[1],a[2],a[3],a[4],a[5],a[6],a[7],a[8],a[9],a[10],a[11],a[12],a[13],a[14],a[15],a[16],a[17]); break;
		}
		/* the callee has returned normally: the innermost frame must be ours again */
		inside_ok = (core_get()->last == mine && mine != before && mine != NULL);
	} RLC_CATCH(e) {
		out[0] = 1;
		out[1] = (int)e;
	}
	vf_heap_after = vf_heap_now();
	out[2] = inside_ok;
	out[3] = (core_get()->last == before);
	out[4] = core_get()->code;
	return r;
}

/* Same call without any protected block (documented fallback: callee continues). */
W vf_raw(void *fn, int n, W *a) {
	switch (n) {
	case 0: return ((W(*)(void))fn)();
	case 1: return ((W(*)(W))fn)(a[0]);
	case 2: return ((W(*)(W,W))fn)(a[0],a[1]);
	case 3: return ((W(*)(W,W,W))fn)(a[0],a[1],a[2]);
	case 4: return ((W(*)(W,W,W,W))fn)(a[0],a[1],a[2],a[3]);
	case 5: return ((W(*)(W,W,W,W,W))fn)(a[0],a[1],a[2],a[3],a[4]);
	case 6: return ((W(*)(W,W,W,W,W,W))fn)(a[0],a[1],a[2],a[3],a[4],a[5]);
	}
	return 0;
}

/* ------------------------------------------------------------------ constants */
struct vf_c { const char *name; long long v; };
#define C(n, v) { n, (long long)(v) }
#define SZ(t) { "sizeof_" #t, (long long)sizeof(t) }
#define OFF(t, f) { "off_" #t "_" #f, (long long)offsetof(t, f) }
static const struct vf_c consts[] = {
	C("RLC_DIG", RLC_DIG), C("RLC_BN_SIZE", RLC_BN_SIZE), C("RLC_BN_DIGS", RLC_BN_DIGS),
	C("RLC_BN_BITS", RLC_BN_BITS), C("RLC_POS", RLC_POS), C("RLC_NEG", RLC_NEG),
	C("RLC_OK", RLC_OK), C("RLC_ERR", RLC_ERR), C("RLC_LT", RLC_LT), C("RLC_EQ", RLC_EQ),
	C("RLC_GT", RLC_GT), C("RLC_NE", RLC_NE), C("RLC_DV_DIGS", RLC_DV_DIGS),
	C("RLC_MD_LEN", RLC_MD_LEN), C("RLC_RAND_SIZE", RLC_RAND_SIZE), C("RLC_TERMS", RLC_TERMS),
	C("ERR_MAX", ERR_MAX), C("ERR_NO_MEMORY", ERR_NO_MEMORY), C("ERR_NO_PRECI", ERR_NO_PRECI),
	C("ERR_NO_VALID", ERR_NO_VALID), C("ERR_NO_BUFFER", ERR_NO_BUFFER), C("ERR_CAUGHT", ERR_CAUGHT),
	C("ERR_NO_READ", ERR_NO_READ), C("ERR_NO_CONFIG", ERR_NO_CONFIG),
#if ALLOC == DYNAMIC
	C("ALLOC_DYNAMIC", 1),
#else
	C("ALLOC_DYNAMIC", 0),
#endif
#if MULTI == PTHREAD
	C("MULTI_PTHREAD", 1),
#else
	C("MULTI_PTHREAD", 0),
#endif
	SZ(bn_st), OFF(bn_st, alloc), OFF(bn_st, used), OFF(bn_st, sign), OFF(bn_st, dp),
	SZ(dig_t), SZ(ctx_t), SZ(crt_st),
	OFF(ctx_t, code), OFF(ctx_t, last), OFF(ctx_t, caught), OFF(ctx_t, number), OFF(ctx_t, error),
#if RAND != CALL
	OFF(ctx_t, rand), OFF(ctx_t, seeded), OFF(ctx_t, counter),
#endif
#ifdef WITH_FP
	C("RLC_FP_DIGS", RLC_FP_DIGS), C("RLC_FP_BYTES", RLC_FP_BYTES), C("RLC_FP_BITS", RLC_FP_BITS),
	C("FP_PRIME", FP_PRIME), SZ(fp_st), SZ(fp2_t), SZ(fp3_t), SZ(fp4_t), SZ(fp6_t), SZ(fp8_t),
	SZ(fp9_t), SZ(fp12_t), SZ(fp16_t), SZ(fp18_t), SZ(fp24_t), SZ(fp48_t), SZ(fp54_t),
	SZ(dv_t), SZ(dv2_t),
#endif
#ifdef WITH_EP
	SZ(ep_st), OFF(ep_st, x), OFF(ep_st, y), OFF(ep_st, z), OFF(ep_st, coord),
	C("RLC_EP_TABLE", RLC_EP_TABLE), C("RLC_EP_TABLE_BASIC", RLC_EP_TABLE_BASIC),
	C("RLC_EP_TABLE_COMBS", RLC_EP_TABLE_COMBS), C("RLC_EP_TABLE_COMBD", RLC_EP_TABLE_COMBD),
	C("RLC_EP_TABLE_LWNAF", RLC_EP_TABLE_LWNAF), C("RLC_EP_TABLE_MAX", RLC_EP_TABLE_MAX),
	C("RLC_EP_CTMAP_MAX", RLC_EP_CTMAP_MAX),
	C("RLC_WIDTH", RLC_WIDTH), C("RLC_DEPTH", RLC_DEPTH),
	C("BASIC", BASIC), C("PROJC", PROJC), C("JACOB", JACOB), C("EXTND", EXTND),
#endif
#ifdef WITH_EPX
	SZ(ep2_st), OFF(ep2_st, x), OFF(ep2_st, y), OFF(ep2_st, z), OFF(ep2_st, coord),
	SZ(ep3_st), OFF(ep3_st, coord), SZ(ep4_st), OFF(ep4_st, coord), SZ(ep8_st), OFF(ep8_st, coord),
#endif
#ifdef WITH_FB
	C("RLC_FB_DIGS", RLC_FB_DIGS), C("RLC_FB_BYTES", RLC_FB_BYTES), C("RLC_FB_BITS", RLC_FB_BITS),
	SZ(fb_st), SZ(fb2_t), C("RLC_FB_TABLE", RLC_FB_TABLE), C("RLC_FB_TABLE_MAX", RLC_FB_TABLE_MAX),
#endif
#ifdef WITH_EB
	SZ(eb_st), OFF(eb_st, x), OFF(eb_st, y), OFF(eb_st, z), OFF(eb_st, coord),
	C("RLC_EB_TABLE", RLC_EB_TABLE), C("RLC_EB_TABLE_MAX", RLC_EB_TABLE_MAX),
#endif
#ifdef WITH_ED
	SZ(ed_st), OFF(ed_st, x), OFF(ed_st, y), OFF(ed_st, z), OFF(ed_st, t), OFF(ed_st, coord),
	C("RLC_ED_TABLE", RLC_ED_TABLE), C("RLC_ED_TABLE_MAX", RLC_ED_TABLE_MAX),
#endif
#ifdef WITH_PC
	SZ(g1_t), SZ(g2_t), SZ(gt_t),
#endif
#ifdef WITH_CP
	SZ(rsa_t), SZ(bdpe_st), SZ(shpe_st), SZ(sokaka_st), SZ(bgn_st),
#endif
	C("BN_PRECI", BN_PRECI),
	{ NULL, 0 }
};

const char *vf_const_name(int i) { return consts[i].name; }
long long vf_const_val(int i) { return consts[i].v; }

/* ------------------------------------------------------------ macro expansions */
#define VF_STR_(x) #x
#define VF_STR(x) VF_STR_(x)
struct vf_m { const char *name; const char *exp; };
static const struct vf_m macros[] = {
#include "vf_macros.inc"
	{ NULL, NULL }
};
const char *vf_macro_name(int i) { return macros[i].name; }
const char *vf_macro_exp(int i) { return macros[i].exp; }

/* ------------------------------------------------------------------ enum tables */
struct vf_e { const char *name; int v; };
static const struct vf_e enums[] = {
#include "vf_enums.inc"
	{ NULL, 0 }
};
const char *vf_enum_name(int i) { return enums[i].name; }
int vf_enum_val(int i) { return enums[i].v; }

/* ------------------------------------------------------------ positive controls */
volatile int vf_sink;
static void *(*volatile vf_alloc)(size_t) = malloc;
int vf_selftest_overflow(int n) {
	volatile unsigned char *p = (unsigned char *)vf_alloc(8);
	p[n] = 1;               /* n == 8: one past the block */
	vf_sink = p[0];
	free((void *)p);
	return 0;
}
int vf_selftest_shift(int n) {
	volatile uint64_t one = 1;
	vf_sink = (int)(one << n);  /* n == 64: invalid shift */
	return 0;
}

/* ------------------------------------------------------------ context accessors */
void *vf_core_get(void) { return core_get(); }
void *vf_ctx_last(void) { return core_get()->last; }
int vf_ctx_caught(void) { return core_get()->caught; }
int vf_ctx_code(void) { return core_get()->code; }

/* Construct / destroy objects through the real macros (ALLOC-independent).
 * For ALLOC=AUTO xx_new on a caller block is bn_make(); we expose both. */
void vf_bn_init_at(bn_st *a, size_t digits) {
#if ALLOC == AUTO
	bn_make(a, digits);
#else
	bn_make(a, digits);
#endif
}

#ifdef WITH_CP
void *vf_rsa_new(void) { rsa_t *r = (rsa_t *)malloc(sizeof(rsa_t)); rsa_null(*r); rsa_new(*r); return r; }
void *vf_rsa_field(void *r, int i) {
	rsa_t *k = (rsa_t *)r;
	switch (i) {
	case 0: return (*k)->d; case 1: return (*k)->e; case 2: return (*k)->crt->n;
	case 3: return (*k)->crt->p; case 4: return (*k)->crt->q; case 5: return (*k)->crt->dp;
	case 6: return (*k)->crt->dq; case 7: return (*k)->crt->qi;
	}
	return 0;
}
/* rabin_t and phpe_t are crt_t */
void *vf_crt_new(void) { crt_t *r = (crt_t *)malloc(sizeof(crt_t)); crt_null(*r); crt_new(*r); return r; }
void *vf_crt_field(void *r, int i) {
	crt_t *k = (crt_t *)r;
	switch (i) { case 0: return (*k)->n; case 1: return (*k)->p; case 2: return (*k)->q;
	case 3: return (*k)->dp; case 4: return (*k)->dq; case 5: return (*k)->qi; }
	return 0;
}
void *vf_bdpe_new(void) { bdpe_t *r = (bdpe_t *)malloc(sizeof(bdpe_t)); bdpe_null(*r); bdpe_new(*r); return r; }
void *vf_bdpe_field(void *r, int i) {
	bdpe_t *k = (bdpe_t *)r;
	switch (i) { case 0: return (*k)->n; case 1: return (*k)->y; case 2: return (*k)->p;
	case 3: return (*k)->q; case 4: return &((*k)->t); }
	return 0;
}
void *vf_shpe_new(void) { shpe_t *r = (shpe_t *)malloc(sizeof(shpe_t)); shpe_null(*r); shpe_new(*r); return r; }
void *vf_shpe_field(void *r, int i) {
	shpe_t *k = (shpe_t *)r;
	switch (i) { case 0: return (*k)->a; case 1: return (*k)->b; case 2: return (*k)->g;
	case 3: return (*k)->gn; case 4: return (*k)->crt->n; case 5: return (*k)->crt->p; case 6: return (*k)->crt->q; }
	return 0;
}
void *vf_sokaka_new(void) { sokaka_t *r = (sokaka_t *)malloc(sizeof(sokaka_t)); sokaka_null(*r); sokaka_new(*r); return r; }
void *vf_bgn_new(void) { bgn_t *r = (bgn_t *)malloc(sizeof(bgn_t)); bgn_null(*r); bgn_new(*r); return r; }
/* In both ALLOC modes the value to pass as an xxx_t argument: */
void *vf_deref(void *r) {
#if ALLOC == AUTO
	return r;
#else
	return *(void **)r;
#endif
}
#endif
