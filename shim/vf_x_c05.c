/*
 * Extra shim for C05 / C06 (protocol layer): layouts of the protocol structs and constants of the
 * protocol configuration, constructor for arrays of multiplication triples.
 * Compiled against each fresh build as libvfx_c05.so; never part of /repo.
 */
#include <stdint.h>
#include <stddef.h>
#include <string.h>
#include <stdlib.h>
#include "relic.h"
#include "relic_core.h"

struct vfc5 { const char *name; long long v; };
#define C(n, v) { n, (long long)(v) }
#define SZ(t) { "sizeof_" #t, (long long)sizeof(t) }
#define OFF(t, f) { "off_" #t "_" #f, (long long)offsetof(t, f) }
static const struct vfc5 c5[] = {
	C("RLC_EP_DTYPE", RLC_EP_DTYPE), C("RLC_EP_MTYPE", RLC_EP_MTYPE),
	C("RLC_FC_BYTES", RLC_FC_BYTES), C("RLC_PC_BYTES", RLC_PC_BYTES),
#ifdef WITH_CP
	SZ(ers_st), OFF(ers_st, h), OFF(ers_st, pk), OFF(ers_st, c), OFF(ers_st, r),
	SZ(smlers_st), OFF(smlers_st, sig), OFF(smlers_st, tau), OFF(smlers_st, c), OFF(smlers_st, r),
	SZ(etrs_st), OFF(etrs_st, y), OFF(etrs_st, h), OFF(etrs_st, pk), OFF(etrs_st, c), OFF(etrs_st, r),
	SZ(crt_st), OFF(crt_st, n), OFF(crt_st, p), OFF(crt_st, q), OFF(crt_st, dp), OFF(crt_st, dq), OFF(crt_st, qi),
	OFF(sokaka_st, s1), OFF(sokaka_st, s2),
	OFF(bgn_st, x), OFF(bgn_st, y), OFF(bgn_st, z), OFF(bgn_st, gx), OFF(bgn_st, gy), OFF(bgn_st, gz),
	OFF(bgn_st, hx), OFF(bgn_st, hy), OFF(bgn_st, hz),
#endif
#ifdef WITH_MPC
	SZ(mt_st), OFF(mt_st, a), OFF(mt_st, b), OFF(mt_st, b1), OFF(mt_st, c), OFF(mt_st, c1),
	SZ(pt_st), OFF(pt_st, a), OFF(pt_st, b), OFF(pt_st, c),
#endif
#if defined(CP_CRT)
	C("CP_CRT", 1),
#else
	C("CP_CRT", 0),
#endif
	C("CP_RSAPD", CP_RSAPD), C("CP_RSAPD_BASIC", BASIC), C("CP_RSAPD_PKCS1", PKCS1), C("CP_RSAPD_PKCS2", PKCS2),
	C("MD_MAP", MD_MAP), C("SH256", SH256),
	{ NULL, 0 }
};
const char *vf_c05_const_name(int i) { return c5[i].name; }
long long vf_c05_const_val(int i) { return c5[i].v; }

/* arrays of multiplication triples (mt_t[n], ALLOC=AUTO layout) with initialised integers */
#ifdef WITH_MPC
void *vf_c05_mt_new(int n) {
	mt_st *t = (mt_st *)calloc(n, sizeof(mt_st));
	for (int i = 0; i < n; i++) {
		bn_make(t[i].a, RLC_BN_SIZE);
		bn_make(t[i].b, RLC_BN_SIZE);
		bn_make(t[i].c, RLC_BN_SIZE);
	}
	return t;
}
#endif
