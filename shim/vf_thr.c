/*
 * C19 (schedules): native runner for the MULTI=PTHREAD + ThreadSanitizer build.
 * usage: vf_thr <threads> <seed> <ops-per-thread>
 * Every thread owns a context (core_init in the thread), selects its own parameter set and executes a
 * deterministic per-thread program with random yields/sleeps at call boundaries.  Afterwards the same
 * programs are executed one after another on the main thread; every per-operation digest must be equal.
 * Each operation is bracketed by ticks of one global atomic counter so that overlapping operation
 * pairs of different threads can be reported (what the monitor actually observed).
 * Output: one JSON line.
 */
#define _GNU_SOURCE
#include <pthread.h>
#include <sched.h>
#include <stdint.h>
#include <stdio.h>
#include <stdlib.h>
#include <string.h>
#include <unistd.h>
#include "relic.h"

#define MAXT 16
#define MAXOPS 256
#define NOPK 10

static const char *opname[NOPK] = {"bn_mxp", "fp_inv", "ep_mul_lwnaf", "ep_mul_gen", "ep_map", "pc_map",
	"rand_bytes", "try_catch", "md_map", "ep_mul_sim"};

typedef struct {
	int tid, nops, param, concurrent;
	uint64_t seed;
	uint64_t dig[MAXOPS];
	int kind[MAXOPS];
	long t0[MAXOPS], t1[MAXOPS];
	int leaks;
	char leakmsg[128];
	int failed;
} job_t;

static long vf_clock;
static int nparams, params[64];

static uint64_t rnd(uint64_t *s) {
	uint64_t x = *s;
	x ^= x << 13; x ^= x >> 7; x ^= x << 17;
	*s = x;
	return x * 0x2545F4914F6CDD1DULL;
}

static uint64_t fnv(uint64_t h, const uint8_t *p, size_t n) {
	for (size_t i = 0; i < n; i++) { h ^= p[i]; h *= 0x100000001b3ULL; }
	return h;
}

static void fill(uint8_t *b, size_t n, uint64_t *s) {
	for (size_t i = 0; i < n; i++) b[i] = (uint8_t)(rnd(s) >> 32);
}

static uint64_t do_op(job_t *j, int kind, uint64_t *s) {
	uint8_t buf[1024], in[96];
	uint64_t h = 0xcbf29ce484222325ULL;
	bn_t a, b, m;
	ep_t p, q;
	fp_t x, y;
	volatile int caught = 0;
	bn_null(a); bn_null(b); bn_null(m); ep_null(p); ep_null(q); fp_null(x); fp_null(y);
	RLC_TRY {
		bn_new(a); bn_new(b); bn_new(m); ep_new(p); ep_new(q); fp_new(x); fp_new(y);
		switch (kind) {
		case 0:
			fill(in, 96, s);
			bn_read_bin(a, in, 32); bn_read_bin(b, in + 32, 32); bn_read_bin(m, in + 64, 32);
			bn_set_bit(m, 0, 1);
			bn_mxp(a, a, b, m);
			bn_write_bin(buf, 32, a);
			h = fnv(h, buf, 32);
			break;
		case 1:
			fill(in, 32, s);
			bn_read_bin(a, in, 32);
			bn_mod_basic(a, a, &(core_get()->prime));
			if (bn_is_zero(a)) bn_set_dig(a, 2);
			fp_prime_conv(x, a);
			fp_inv(y, x);
			fp_mul(y, y, x);
			fp_add(y, y, x);
			fp_write_bin(buf, RLC_FP_BYTES, y);
			h = fnv(h, buf, RLC_FP_BYTES);
			break;
		case 2:
			fill(in, 32, s);
			bn_read_bin(a, in, 32);
			ep_curve_get_gen(p);
			ep_mul_lwnaf(q, p, a);
			ep_write_bin(buf, 2 * RLC_FP_BYTES + 1, q, 0);
			h = fnv(h, buf, 2 * RLC_FP_BYTES + 1);
			break;
		case 3:
			fill(in, 32, s);
			bn_read_bin(a, in, 32);
			ep_mul_gen(q, a);
			ep_write_bin(buf, 2 * RLC_FP_BYTES + 1, q, 0);
			h = fnv(h, buf, 2 * RLC_FP_BYTES + 1);
			break;
		case 4:
			fill(in, 40, s);
			ep_map(q, in, 40);
			ep_write_bin(buf, 2 * RLC_FP_BYTES + 1, q, 0);
			h = fnv(h, buf, 2 * RLC_FP_BYTES + 1);
			break;
		case 5:
			if (ep_curve_is_pairf()) {
				g1_t g; g2_t g2; gt_t e;
				g1_null(g); g2_null(g2); gt_null(e);
				g1_new(g); g2_new(g2); gt_new(e);
				fill(in, 32, s);
				bn_read_bin(a, in, 32);
				g1_mul_gen(g, a);
				g2_get_gen(g2);
				pc_map(e, g, g2);
				int l = gt_size_bin(e, 0);
				gt_write_bin(buf, l, e, 0);
				h = fnv(h, buf, l);
				g1_free(g); g2_free(g2); gt_free(e);
			} else {
				fill(in, 8, s);
				h = fnv(h, in, 8);
			}
			break;
		case 6:
			rand_bytes(buf, 48);
			h = fnv(h, buf, 48);
			break;
		case 7: {
			/* error inside a protected block: the sticky code and the handler chain are per context */
			RLC_TRY {
				bn_zero(b);
				bn_set_dig(a, 9);
				bn_div(a, a, b);
			} RLC_CATCH_ANY {
				caught = 1;
			}
			int c1 = err_get_code(), c2 = err_get_code();
			buf[0] = (uint8_t)caught; buf[1] = (uint8_t)c1; buf[2] = (uint8_t)c2;
			h = fnv(h, buf, 3);
			if (!caught || c1 != RLC_ERR || c2 != RLC_OK) {
				j->leaks++;
				snprintf(j->leakmsg, sizeof(j->leakmsg), "try/catch: caught=%d code1=%d code2=%d", caught, c1, c2);
			}
			break;
		}
		case 8:
			fill(in, 77, s);
			md_map(buf, in, 77);
			h = fnv(h, buf, RLC_MD_LEN);
			break;
		case 9:
			fill(in, 64, s);
			bn_read_bin(a, in, 32); bn_read_bin(b, in + 32, 32);
			ep_curve_get_gen(p);
			ep_dbl(q, p);
			ep_norm(q, q);
			ep_mul_sim(q, p, a, q, b);
			ep_write_bin(buf, 2 * RLC_FP_BYTES + 1, q, 0);
			h = fnv(h, buf, 2 * RLC_FP_BYTES + 1);
			break;
		}
		if (ep_param_get() != j->param) {
			j->leaks++;
			snprintf(j->leakmsg, sizeof(j->leakmsg), "parameter selection changed: %d != %d", ep_param_get(), j->param);
		}
	} RLC_CATCH_ANY {
		j->failed++;
	} RLC_FINALLY {
		bn_free(a); bn_free(b); bn_free(m); ep_free(p); ep_free(q); fp_free(x); fp_free(y);
	}
	return h;
}

static void run_job(job_t *j) {
	uint64_t s = j->seed | 1;
	if (core_init() != RLC_OK) { j->failed = 1000; return; }
	ep_param_set(j->param);
	for (int i = 0; i < j->nops; i++) {
		int kind = (int)(rnd(&s) % NOPK);
		if (kind == 5 && (rnd(&s) & 3)) kind = 2;   /* pairings are slow under TSan */
		uint64_t yield = rnd(&s);
		if (j->concurrent) {
			if ((yield & 7) == 0) sched_yield();
			else if ((yield & 7) == 1) usleep((useconds_t)((yield >> 8) % 300));
		}
		j->kind[i] = kind;
		j->t0[i] = __atomic_add_fetch(&vf_clock, 1, __ATOMIC_SEQ_CST);
		j->dig[i] = do_op(j, kind, &s);
		j->t1[i] = __atomic_add_fetch(&vf_clock, 1, __ATOMIC_SEQ_CST);
	}
	core_clean();
}

static void *thr(void *arg) { run_job((job_t *)arg); return NULL; }

/* positive control: an unsynchronised shared counter that ThreadSanitizer must report */
static volatile long vf_racy;
static void *racer(void *arg) { for (int i = 0; i < 20000; i++) vf_racy = vf_racy + 1; return arg; }

int main(int argc, char **argv) {
	if (argc > 1 && strcmp(argv[1], "selftest-race") == 0) {
		pthread_t a, b;
		pthread_create(&a, NULL, racer, NULL);
		pthread_create(&b, NULL, racer, NULL);
		pthread_join(a, NULL);
		pthread_join(b, NULL);
		printf("{\"selftest\":%ld}\n", vf_racy);
		return 0;
	}
	int T = argc > 1 ? atoi(argv[1]) : 4;
	uint64_t seed = argc > 2 ? strtoull(argv[2], NULL, 10) : 1;
	int nops = argc > 3 ? atoi(argv[3]) : 40;
	static job_t con[MAXT], seq[MAXT];
	pthread_t th[MAXT];
	if (T > MAXT) T = MAXT;
	if (nops > MAXOPS) nops = MAXOPS;
	/* which identifiers does this build accept?  (main thread context) */
	if (core_init() != RLC_OK) { printf("{\"error\":\"core_init\"}\n"); return 2; }
	for (int id = 1; id < 80 && nparams < 64; id++) {
		int ok = 0;
		RLC_TRY { ep_param_set(id); ok = (ep_param_get() == id); } RLC_CATCH_ANY { ok = 0; }
		err_get_code();
		if (ok) params[nparams++] = id;
	}
	core_clean();
	if (nparams == 0) { printf("{\"error\":\"no parameters\"}\n"); return 2; }
	uint64_t s = seed * 0x9E3779B97F4A7C15ULL + 1;
	for (int t = 0; t < T; t++) {
		memset(&con[t], 0, sizeof(job_t));
		con[t].tid = t; con[t].nops = nops; con[t].seed = rnd(&s);
		con[t].param = params[rnd(&s) % nparams];
		con[t].concurrent = 1;
		seq[t] = con[t];
		seq[t].concurrent = 0;
	}
	for (int t = 0; t < T; t++) pthread_create(&th[t], NULL, thr, &con[t]);
	for (int t = 0; t < T; t++) pthread_join(th[t], NULL);
	/* reference: the same programs, one after another, on one thread */
	for (int t = 0; t < T; t++) run_job(&seq[t]);
	int mism = 0, leaks = 0, failed = 0, total = 0;
	char first[256] = "", firstleak[200] = "";
	for (int t = 0; t < T; t++) {
		leaks += con[t].leaks + seq[t].leaks;
		failed += con[t].failed + seq[t].failed;
		if ((con[t].leaks || seq[t].leaks) && !firstleak[0])
			snprintf(firstleak, sizeof(firstleak), "thread %d: %s%s", t, con[t].leakmsg, seq[t].leakmsg);
		for (int i = 0; i < nops; i++) {
			total++;
			if (con[t].dig[i] != seq[t].dig[i] || con[t].kind[i] != seq[t].kind[i]) {
				if (!mism) snprintf(first, sizeof(first), "thread %d op %d (%s) param %d: %016llx vs %016llx", t, i,
					opname[con[t].kind[i]], con[t].param, (unsigned long long)con[t].dig[i], (unsigned long long)seq[t].dig[i]);
				mism++;
			}
		}
	}
	/* overlapping pairs of operations of different threads */
	static int ov[NOPK][NOPK];
	long npairs = 0;
	for (int t = 0; t < T; t++) for (int u = t + 1; u < T; u++)
		for (int i = 0; i < nops; i++) for (int k = 0; k < nops; k++)
			if (con[t].t0[i] < con[u].t1[k] && con[u].t0[k] < con[t].t1[i]) {
				int x = con[t].kind[i], y = con[u].kind[k];
				if (x > y) { int z = x; x = y; y = z; }
				ov[x][y]++; npairs++;
			}
	printf("{\"threads\":%d,\"ops\":%d,\"mismatches\":%d,\"state_leaks\":%d,\"op_errors\":%d,\"first_mismatch\":\"%s\",\"first_leak\":\"%s\",\"overlaps\":%ld,\"params\":[",
		T, total, mism, leaks, failed, first, firstleak, npairs);
	for (int t = 0; t < T; t++) printf("%s%d", t ? "," : "", con[t].param);
	printf("],\"overlap_pairs\":[");
	int firstp = 1;
	for (int x = 0; x < NOPK; x++) for (int y = x; y < NOPK; y++) if (ov[x][y]) {
		printf("%s\"%s~%s\"", firstp ? "" : ",", opname[x], opname[y]); firstp = 0;
	}
	printf("]}\n");
	return (mism || leaks) ? 1 : 0;
}
