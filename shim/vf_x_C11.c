/*
 * Constants of the extension-field curve module (C11/C12), taken from the real headers of the
 * build this shim is compiled against.  Reached from Python as R.S.vf_x_c11_name(i) / vf_x_c11_val(i).
 */
#include <stddef.h>
#include "relic.h"
#include "relic_core.h"

struct vf_x_c11_c { const char *name; long long v; };
#define C(n) { #n, (long long)(n) }
#define OFF(t, f) { "off_" #t "_" #f, (long long)offsetof(t, f) }

static const struct vf_x_c11_c vf_x_c11_consts[] = {
#ifdef WITH_EP
	C(RLC_EP_DTYPE), C(RLC_EP_MTYPE),
	C(RLC_ZERO), C(RLC_ONE), C(RLC_TWO), C(RLC_TINY), C(RLC_MIN3), C(RLC_HUGE),
#endif
#ifdef WITH_EPX
	C(RLC_EPX_TABLE_BASIC), C(RLC_EPX_TABLE_COMBS), C(RLC_EPX_TABLE_COMBD), C(RLC_EPX_TABLE_LWNAF),
	C(RLC_EPX_TABLE), C(RLC_EPX_TABLE_MAX),
	OFF(ep3_st, x), OFF(ep3_st, y), OFF(ep3_st, z),
	OFF(ep4_st, x), OFF(ep4_st, y), OFF(ep4_st, z),
	OFF(ep8_st, x), OFF(ep8_st, y), OFF(ep8_st, z),
#endif
	{ NULL, 0 }
};

const char *vf_x_c11_name(int i) { return vf_x_c11_consts[i].name; }
long long vf_x_c11_val(int i) { return vf_x_c11_consts[i].v; }
