/* placeholder, replaced by the C19 error-program interpreter */
int vf_errprog_present(void) { return 0; }
