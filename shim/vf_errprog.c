/*
 * C19: interpreter for generated try/throw/catch/finally programs, executed inside the real
 * RLC_TRY / RLC_CATCH(e) / RLC_CATCH_ANY / RLC_FINALLY / RLC_THROW macros of this build.
 *
 * program (prefix encoding, ints):
 *   top    := n <action>*n                         actions outside any block
 *   block  := kind  n <action>*n  n <action>*n  n <action>*n      (body, handler, finaliser)
 *   kind   : 0 TRY/CATCH_ANY  1 TRY/CATCH(e)  2 TRY/CATCH_ANY/FINALLY  3 TRY/CATCH(e)/FINALLY
 *   action := 0                nop
 *           | 1 code           RLC_THROW(code)
 *           | 2 <block>        nested block, entered by recursion in the same C function
 *           | 3                library call that throws directly (bn_div by zero: ERR_NO_VALID)
 *           | 4                RLC_THROW(ERR_CAUGHT)   (re-throw idiom)
 *           | 5 <block>        nested block entered through a helper function call
 *           | 6                routine in the library's own idiom: TRY { failing call } CATCH_ANY { THROW(ERR_CAUGHT) }
 *                              FINALLY { free }
 *           | 7                library call that succeeds (bn_add)
 *           | 8                read err_get_code() (consumes the sticky code)
 * events written to the log (triples type,a,b):
 *   1 nop | 2 throw code | 3 continued-after-throw | 4 libthrow | 5 continued-after-libthrow
 *   6 rethrow | 7 continued-after-rethrow | 8 enter id | 9 handler id code(-1 for CATCH_ANY)
 *   10 finally id | 11 exit id chain_restored | 12 end code1 code2 | 13 last_is_null v
 *   14 libcaught | 15 continued-after-libcaught | 16 libok value_ok | 17 getcode v
 * block ids are static (offset of the block in the program), so they do not depend on execution order.
 */
#include <string.h>
#include "relic.h"

static const int *vf_pc, *vf_base;
static int *vf_log;
static int vf_nlog, vf_maxlog;

static void ev(int t, int a, int b) {
	if (vf_nlog + 3 <= vf_maxlog) {
		vf_log[vf_nlog] = t; vf_log[vf_nlog + 1] = a; vf_log[vf_nlog + 2] = b;
	}
	vf_nlog += 3;
}

static void run_block(void);
static void __attribute__((noinline)) helper(void) { run_block(); }
static void skip_actions(int n);
static void skip_block(void) { vf_pc++; for (int s = 0; s < 3; s++) { int n = *vf_pc++; skip_actions(n); } }
static void skip_actions(int n) {
	for (int i = 0; i < n; i++) {
		int a = *vf_pc++;
		if (a == 1) vf_pc++;
		else if (a == 2 || a == 5) skip_block();
	}
}

static void lib_throw_direct(void) {
	bn_t x, y;
	bn_null(x); bn_null(y);
	bn_new(x); bn_new(y);
	bn_set_dig(x, 7); bn_zero(y);
	ev(4, 0, 0);
	bn_div(x, x, y);
	ev(5, 0, 0);
	bn_free(x); bn_free(y);
}

/* the library's own idiom: protected block around a failing call, CATCH_ANY re-throws ERR_CAUGHT,
 * FINALLY releases the temporaries (compare bn_lcm, bn_div_imp, ...) */
static void __attribute__((noinline)) lib_style(void) {
	bn_t u;
	bn_null(u);
	RLC_TRY {
		bn_new(u);
		bn_zero(u);
		bn_div(u, u, u);
	}
	RLC_CATCH_ANY {
		RLC_THROW(ERR_CAUGHT);
	}
	RLC_FINALLY {
		bn_free(u);
	}
}

static void lib_throw_caught(void) {
	ev(14, 0, 0);
	lib_style();
	ev(15, 0, 0);
}

static void lib_ok(void) {
	bn_t x, y;
	bn_null(x); bn_null(y);
	bn_new(x); bn_new(y);
	bn_set_dig(x, 40); bn_set_dig(y, 2);
	bn_add(x, x, y);
	ev(16, bn_cmp_dig(x, 42) == RLC_EQ, 0);
	bn_free(x); bn_free(y);
}

static void run_actions(int n) {
	for (int i = 0; i < n; i++) {
		int a = *vf_pc++;
		switch (a) {
		case 0: ev(1, 0, 0); break;
		case 1: { int c = *vf_pc++; ev(2, c, 0); RLC_THROW(c); ev(3, 0, 0); break; }
		case 2: run_block(); break;
		case 3: lib_throw_direct(); break;
		case 4: ev(6, 0, 0); RLC_THROW(ERR_CAUGHT); ev(7, 0, 0); break;
		case 5: helper(); break;
		case 6: lib_throw_caught(); break;
		case 7: lib_ok(); break;
		case 8: ev(17, err_get_code(), 0); break;
		}
	}
}

/* a longjmp abandons the parse position, so every segment start is computed up front */
static void run_block(void) {
	int id = (int)(vf_pc - vf_base);
	int kind = *vf_pc++;
	const int *body = vf_pc; int nb = *vf_pc++; skip_actions(nb);
	const int *cb = vf_pc; int nc = *vf_pc++; skip_actions(nc);
	const int *fb = vf_pc; int nf = *vf_pc++; skip_actions(nf);
	const int *end = vf_pc;
	err_t e = 0;
	void *last_before = core_get()->last;
	ev(8, id, 0);
	switch (kind) {
	case 0:
		RLC_TRY { vf_pc = body + 1; run_actions(nb); }
		RLC_CATCH_ANY { ev(9, id, -1); vf_pc = cb + 1; run_actions(nc); }
		break;
	case 1:
		RLC_TRY { vf_pc = body + 1; run_actions(nb); }
		RLC_CATCH(e) { ev(9, id, (int)e); vf_pc = cb + 1; run_actions(nc); }
		break;
	case 2:
		RLC_TRY { vf_pc = body + 1; run_actions(nb); }
		RLC_CATCH_ANY { ev(9, id, -1); vf_pc = cb + 1; run_actions(nc); }
		RLC_FINALLY { ev(10, id, 0); vf_pc = fb + 1; run_actions(nf); }
		break;
	case 3:
		RLC_TRY { vf_pc = body + 1; run_actions(nb); }
		RLC_CATCH(e) { ev(9, id, (int)e); vf_pc = cb + 1; run_actions(nc); }
		RLC_FINALLY { ev(10, id, 0); vf_pc = fb + 1; run_actions(nf); }
		break;
	}
	vf_pc = end;
	ev(11, id, core_get()->last == last_before);
}

/* Runs one program in the current context.  Returns the number of ints the log needs. */
int vf_errprog_run(const int *prog, int *log, int maxlog) {
	ctx_t *ctx = core_get();
	int c1, c2;
	/* fresh state, as after core_init(): no handler, no pending code */
	ctx->last = NULL;
	ctx->code = RLC_OK;
	ctx->caught = 0;
	vf_base = prog; vf_pc = prog; vf_log = log; vf_nlog = 0; vf_maxlog = maxlog;
	int top = *vf_pc++;
	run_actions(top);
	c1 = err_get_code();
	c2 = err_get_code();
	ev(12, c1, c2);
	ev(13, core_get()->last == NULL, 0);
	/* leave the context clean for whatever runs next in this process */
	ctx->last = NULL;
	ctx->code = RLC_OK;
	return vf_nlog;
}

int vf_errprog_present(void) { return 1; }
