/* Allocation-failure injector for the ALLOC=DYNAMIC build (library compiled with
 * -Dmalloc=vf_fi_malloc ...).  Countdown: when armed, the N-th allocation fails. */
#include <stdlib.h>
#include <stddef.h>
static volatile long vf_fi_count = 0;      /* allocations seen since reset */
static volatile long vf_fi_fail_at = -1;   /* 1-based index that fails; -1 = never */
static volatile long vf_fi_fired = 0;
static volatile int vf_fi_sticky = 0;      /* when set: every allocation from fail_at on fails */
void vf_fi_arm(long fail_at, int sticky) { vf_fi_count = 0; vf_fi_fail_at = fail_at; vf_fi_fired = 0; vf_fi_sticky = sticky; }
void vf_fi_disarm(void) { vf_fi_fail_at = -1; }
long vf_fi_seen(void) { return vf_fi_count; }
long vf_fi_fired_count(void) { return vf_fi_fired; }
static int vf_fi_should_fail(void) {
	long c = __sync_add_and_fetch(&vf_fi_count, 1);
	if (vf_fi_fail_at > 0 && (c == vf_fi_fail_at || (vf_fi_sticky && c > vf_fi_fail_at))) {
		vf_fi_fired++;
		return 1;
	}
	return 0;
}
static void *vf_fi_count_live(void *p) { return p; }
void *vf_fi_malloc(size_t n) { if (vf_fi_should_fail()) return NULL; return vf_fi_count_live(malloc(n)); }
void *vf_fi_calloc(size_t a, size_t b) { if (vf_fi_should_fail()) return NULL; return vf_fi_count_live(calloc(a, b)); }
void *vf_fi_realloc(void *p, size_t n) {
	if (vf_fi_should_fail()) return NULL;
	if (p == NULL) return vf_fi_count_live(realloc(p, n));
	return realloc(p, n);
}
int vf_fi_posix_memalign(void **p, size_t al, size_t n) {
	if (vf_fi_should_fail()) return 12;
	int r = posix_memalign(p, al, n);
	if (r == 0) vf_fi_count_live(*p);
	return r;
}

