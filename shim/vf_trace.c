/* placeholder, replaced by the C20 trace recorder */
int vf_trace_present(void) { return 0; }
