/*
 * C20 trace recorder.  LD_PRELOADed (compiled WITHOUT instrumentation) in front of the
 * -finstrument-functions -fsanitize-coverage=trace-pc build of the library.
 *  - call events: callee entry address, recorded only when the call site lies inside one of the
 *    registered address ranges (the bodies of the algorithm under observation)
 *  - pc events: return address of every __sanitizer_cov_trace_pc callback (= basic block id)
 * Nothing is recorded unless armed.
 */
#define _GNU_SOURCE
#include <stdint.h>
#include <stddef.h>
#include <stdlib.h>
#define NI __attribute__((no_instrument_function))
#define MAXR 256
static volatile int armed_calls, armed_pc;
static uintptr_t *cbuf, *pbuf;
static size_t ccap, cn, pcap, pn, cdrop, pdrop;
static uintptr_t rlo[MAXR], rhi[MAXR];
static int nr;

NI int vt_init(size_t call_cap, size_t pc_cap) {
	cbuf = (uintptr_t *)malloc(call_cap * sizeof(uintptr_t));
	pbuf = (uintptr_t *)malloc(pc_cap * sizeof(uintptr_t));
	ccap = call_cap; pcap = pc_cap;
	return cbuf != NULL && pbuf != NULL;
}
NI void vt_ranges(const uintptr_t *lohi, int n) {
	nr = n > MAXR ? MAXR : n;
	for (int i = 0; i < nr; i++) { rlo[i] = lohi[2 * i]; rhi[i] = lohi[2 * i + 1]; }
}
NI void vt_arm(int calls, int pc) { cn = pn = cdrop = pdrop = 0; armed_pc = pc; armed_calls = calls; }
NI void vt_disarm(void) { armed_calls = 0; armed_pc = 0; }
NI size_t vt_ncalls(void) { return cn; }
NI size_t vt_npcs(void) { return pn; }
NI size_t vt_dropped(void) { return cdrop + pdrop; }
NI uintptr_t *vt_calls(void) { return cbuf; }
NI uintptr_t *vt_pcs(void) { return pbuf; }
NI void __cyg_profile_func_enter(void *fn, void *cs) {
	if (armed_calls) {
		uintptr_t a = (uintptr_t)cs;
		for (int i = 0; i < nr; i++) {
			if (a >= rlo[i] && a < rhi[i]) {
				if (cn < ccap) cbuf[cn++] = (uintptr_t)fn; else cdrop++;
				return;
			}
		}
	}
}
NI void __cyg_profile_func_exit(void *fn, void *cs) { (void)fn; (void)cs; }
NI void __sanitizer_cov_trace_pc(void) {
	if (armed_pc) {
		if (pn < pcap) pbuf[pn++] = (uintptr_t)__builtin_return_address(0); else pdrop++;
	}
}
int vf_trace_present(void) { return 1; }
